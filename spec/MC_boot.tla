------------------------------ MODULE MC_boot ------------------------------
(***************************************************************************)
(* Explicit model of the boot-related part of the pycdlib API (El Torito   *)
(* and isohybrid), used for C11 and C12:                                   *)
(*   - TLC checks the model's own invariants (hybrid needs El Torito,      *)
(*     entries reference live content, rm_eltorito is the inverse of the   *)
(*     first add_eltorito, boot-info patches exist only while El Torito    *)
(*     exists);                                                            *)
(*   - TLC enumerates behaviours (bounded exhaustively with VIEW, or by    *)
(*     -simulate) and prints each with the expected final abstract state:  *)
(*        <<"HIST", ToJson([h |-> history, exp |-> Expect(state)])>>        *)
(*     The harness replays them on the real library in several namespace   *)
(*     configurations and TLC (Judge_C11/Judge_C12) judges the decoded     *)
(*     images against `exp`.                                               *)
(*                                                                         *)
(* Abstract state                                                          *)
(*   files : Name -> [blob, bit, baked, vis, alias]                        *)
(*           bit: a boot info table is maintained in bytes 8..63;          *)
(*           baked: the content went through a reopen while patched, its   *)
(*           original bytes 8..63 no longer exist anywhere;                *)
(*           vis = "all" (every namespace) or                              *)
(*           "sec" (ISO9660/Rock Ridge name removed by rm_hard_link, the   *)
(*           Joliet/UDF names, if the configuration has any, remain);      *)
(*           alias: the content has a second ISO9660 (+Rock Ridge) name,   *)
(*           made by add_hard_link(iso_old_path, iso_new_path): one more   *)
(*           directory record of the same inode.  A record of `files` is   *)
(*           therefore a link class: all its names share blob, boot info   *)
(*           table and baked-ness by construction.  rm_file on any name    *)
(*           removes the class; rm_hard_link removes one name.             *)
(*   dirs  : set of (empty) directories - they only move extents           *)
(*   elt   : [on, platform, cat, entries]  entries[1] = initial entry      *)
(*   hyb   : [on, entry, offset, ptype, sectors, heads, idk, efi, mac]     *)
(* An entry remembers the content it was created for (name at that time    *)
(* and blob); `vis` says whether that content is still linked.             *)
(* Semantics chosen where pycdlib is silent are those of El Torito 1.0 and *)
(* of syslinux' isohybrid: the EFI image of a hybrid is the first section  *)
(* entry with platform 0xEF in catalog order, the Mac image the second.    *)
(***************************************************************************)
EXTENDS Naturals, Sequences, FiniteSets, TLC, Json, IOUtils

CONSTANTS Profile,    \* parameter family, see Par
          MaxLen,     \* calls after the canned prefix
          MaxRefuse,  \* refused calls per behaviour
          MaxGen,     \* reopen generations
          Dump        \* "none" | "edges" | "hist" | "final"

VARIABLES st, h, nref, nstep    \* nstep: calls after the canned prefix

CatName == "C"

\* ---- blobs ------------------------------------------------------------
\* len: bytes; sig: isolinux hybrid signature FB C0 78 70 at 0x40; mbr: class of bytes 0..511 as
\* an El Torito hard disk image ("ok": 55AA and exactly one partition, of type ptype)
B(len, sig, mbr, ptype) == [len |-> len, sig |-> sig, mbr |-> mbr, ptype |-> ptype]
BlobIds == {"s32", "s64", "h2048", "h2049", "h4096", "e6000", "m100", "x5000", "f12", "f144", "f288", "b34m", "b35m",
            "mbrok", "mbrnosig", "mbrnopart", "mbrtwo", "mbrshort"}
BlobInfo == [b \in BlobIds |->
    CASE b = "s32"   -> B(32, FALSE, "short", 0)
      [] b = "s64"   -> B(64, FALSE, "short", 0)
      [] b = "h2048" -> B(2048, TRUE, "nosig", 0)
      [] b = "h2049" -> B(2049, TRUE, "nosig", 0)
      [] b = "h4096" -> B(4096, TRUE, "nosig", 0)
      [] b = "e6000" -> B(6000, FALSE, "nosig", 0)
      [] b = "m100"  -> B(100, FALSE, "short", 0)
      [] b = "x5000" -> B(5000, FALSE, "nosig", 0)
      [] b = "f12"   -> B(1228800, FALSE, "nosig", 0)
      [] b = "f144"  -> B(1474560, FALSE, "nosig", 0)
      [] b = "f288"  -> B(2949120, FALSE, "nosig", 0)
      [] b = "b34m"  -> B(35651584, FALSE, "nosig", 0)     \* 34 MiB: more than 1024 cylinders of 63 x 1 sectors
      [] b = "b35m"  -> B(35672064, FALSE, "nosig", 0)     \* ... with another remainder modulo the cylinder
      [] b = "mbrok"     -> B(1024, FALSE, "ok", 12)
      [] b = "mbrnosig"  -> B(1024, FALSE, "nosig", 0)
      [] b = "mbrnopart" -> B(1024, FALSE, "nopart", 0)
      [] b = "mbrtwo"    -> B(1024, FALSE, "two", 0)
      [] b = "mbrshort"  -> B(100, FALSE, "short", 0)]

\* ---- add_eltorito / add_isohybrid argument records ------------------------
\* load = 0 means boot_load_size=None (computed from the file length)
BS(media, load, bootable, bit, efi, platform, seg) ==
    [media |-> media, load |-> load, bootable |-> bootable, bit |-> bit, efi |-> efi,
     platform |-> platform, seg |-> seg]
\* efi: "none" (argument omitted) | "yes" | "no";  ptype 999 = omitted;  idk: which mbr_id
HS(entry, offset, ptype, sectors, heads, idk, efi, mac) ==
    [entry |-> entry, offset |-> offset, ptype |-> ptype, sectors |-> sectors, heads |-> heads,
     idk |-> idk, efi |-> efi, mac |-> mac]

Plain   == BS("noemul", 0, TRUE, FALSE, FALSE, 0, 0)
Iso4    == BS("noemul", 4, TRUE, FALSE, FALSE, 0, 0)
Iso4Bit == BS("noemul", 4, TRUE, TRUE, FALSE, 0, 0)
EfiSec  == BS("noemul", 0, TRUE, FALSE, TRUE, 0, 0)
EfiNB   == BS("noemul", 0, FALSE, FALSE, TRUE, 0, 0)
PlainBit == BS("noemul", 0, TRUE, TRUE, FALSE, 0, 0)

AF(n, b) == [a |-> "AddFile", n |-> n, blob |-> b]
AE(f, spec) == [a |-> "AddEltorito", f |-> f, spec |-> spec]
AL(n) == [a |-> "AddLink", n |-> n]

\* the canned set-up of the hybrid profiles: BIOS boot file I, Mac image M and EFI image E of
\* different sizes; the Mac section is added FIRST and M sorts after E (so that catalog order and
\* name order of the two EFI-platform sections differ) in "ME", the other way round in "EM".
\* `linked`: files that get their second ISO9660 name BEFORE the add_eltorito calls
HybPrefixL(order, efi, mac, linked) ==
    <<AF("I", "h2049")>>
    \o (IF efi THEN <<AF("E", "e6000")>> ELSE <<>>)
    \o (IF mac THEN <<AF("M", "m100")>> ELSE <<>>)
    \o (IF "I" \in linked THEN <<AL("I")>> ELSE <<>>)
    \o (IF efi /\ "E" \in linked THEN <<AL("E")>> ELSE <<>>)
    \o (IF mac /\ "M" \in linked THEN <<AL("M")>> ELSE <<>>)
    \o <<AE("I", Iso4Bit)>>
    \o (IF efi /\ mac /\ order = "ME" THEN <<AE("M", EfiSec), AE("E", EfiSec)>>
        ELSE IF efi /\ mac THEN <<AE("E", EfiSec), AE("M", EfiSec)>>
        ELSE IF efi THEN <<AE("E", EfiSec)>> ELSE <<>>)
HybPrefix(order, efi, mac) == HybPrefixL(order, efi, mac, {})

Geoms == {<<s, hd>> : s \in {1, 32, 63}, hd \in {1, 64, 255, 256}}
GeomIdx(g) == (CASE g[1] = 1 -> 0 [] g[1] = 32 -> 1 [] g[1] = 63 -> 2) * 4
              + (CASE g[2] = 1 -> 0 [] g[2] = 64 -> 1 [] g[2] = 255 -> 2 [] g[2] = 256 -> 3)
Offsets == <<0, 4, 64>>
PTypes == <<999, 23, 131, 0>>
Idks == <<"none", "small", "zero", "big">>
\* quick grid: every geometry x efi/mac combination; entry/offset/type/id vary with the index so
\* that every value of each occurs with every geometry row and column
Mod(a, b) == a - b * (a \div b)
GridSpec(g, em) ==
    LET k == GeomIdx(g) + (CASE em = "bios" -> 0 [] em = "efi" -> 1 [] em = "mac" -> 2)
        even == Mod(k, 2) = 0 IN
    HS(IF em = "bios" THEN Mod(k, 4) + 1 ELSE IF em = "efi" THEN (IF even THEN 1 ELSE 3 + Mod(k \div 2, 2)) ELSE (IF even THEN 1 ELSE 4),
       Offsets[Mod(k, 3) + 1],
       IF em = "mac" THEN (IF even THEN 999 ELSE 0) ELSE PTypes[Mod(k \div 2, 4) + 1],
       g[1], g[2], Idks[Mod(k \div 3, 4) + 1],
       IF em = "bios" THEN (IF even THEN "none" ELSE "no") ELSE IF em = "efi" THEN "yes" ELSE (IF even THEN "none" ELSE "yes"),
       em = "mac")
FullGrid(em) ==
    {HS(e, o, t, g[1], g[2], i, IF em = "bios" THEN "none" ELSE "yes", em = "mac") :
        e \in 1..4, o \in {0, 4, 64}, t \in (IF em = "mac" THEN {999, 0} ELSE {999, 23, 131, 0}),
        g \in Geoms, i \in {"none", "small", "big"}}

\* Profile "script": the model as an oracle for given call sequences (replay files, shrinking):
\* env BOOT_SCRIPTS names a JSON file {"scripts": [[action, ...], ...]}
Scripts == IF "BOOT_SCRIPTS" \in DOMAIN IOEnv THEN JsonDeserialize(IOEnv.BOOT_SCRIPTS).scripts ELSE <<>>

Par ==
  CASE Profile = "script" ->
        [names |-> {}, blobs |-> {}, dirs |-> {}, boot |-> {}, hyb |-> {}, scopes |-> {},
         prefixes |-> {Scripts[n] : n \in 1..Len(Scripts)}, maxent |-> 32, maxfiles |-> 99, links |-> TRUE]
    [] Profile = "c11q" ->     \* exhaustive: every transition of the bounded graph
        [names |-> {"A", "I"}, blobs |-> {"s32", "h2049"}, dirs |-> {"D"},
         boot |-> {Plain, Iso4Bit, BS("noemul", 0, FALSE, TRUE, TRUE, 239, 1984), BS("bogus", 0, TRUE, FALSE, FALSE, 0, 0),
                   BS("noemul", 4, TRUE, FALSE, FALSE, 7, 0)},
         hyb |-> {}, scopes |-> {"all", "iso"}, prefixes |-> {<<>>}, maxent |-> 2, maxfiles |-> 2, links |-> TRUE]
    [] Profile = "c11m" ->     \* media family, exhaustive
        [names |-> {"I", "K"}, blobs |-> {"f12", "mbrok", "mbrnosig", "mbrnopart", "mbrtwo", "mbrshort", "s64", "h4096"}, dirs |-> {},
         boot |-> {BS("floppy", 0, TRUE, FALSE, FALSE, 0, 0), BS("floppy", 2880, TRUE, FALSE, FALSE, 1, 0),
                   BS("hdemul", 0, TRUE, FALSE, FALSE, 2, 0), BS("hdemul", 0, FALSE, TRUE, FALSE, 0, 0),
                   BS("floppy", 5760, TRUE, FALSE, FALSE, 0, 0)},
         hyb |-> {}, scopes |-> {"all"}, prefixes |-> {<<>>}, maxent |-> 2, maxfiles |-> 2, links |-> FALSE]
    [] Profile = "c11s" ->     \* simulation: the wider alphabet
        [names |-> {"A", "I", "K", "Z"}, blobs |-> {"s32", "s64", "h2048", "h2049", "h4096", "x5000", "mbrok"}, dirs |-> {"D", "Y"},
         boot |-> {Plain, Iso4, Iso4Bit, PlainBit, EfiSec, EfiNB, BS("noemul", 1, TRUE, TRUE, FALSE, 1, 0),
                   BS("noemul", 8, FALSE, FALSE, FALSE, 2, 0), BS("noemul", 0, TRUE, TRUE, TRUE, 239, 0),
                   BS("hdemul", 0, TRUE, FALSE, FALSE, 0, 0),
                   BS("hdemul", 0, TRUE, TRUE, FALSE, 0, 0)},
         hyb |-> {}, scopes |-> {"all", "iso"}, prefixes |-> {<<>>}, maxent |-> 6, maxfiles |-> 4, links |-> TRUE]
    [] Profile = "c11t" ->     \* simulation, thorough: adds the other floppy sizes
        [names |-> {"A", "I", "K", "Z"}, blobs |-> {"s32", "s64", "h2048", "h2049", "h4096", "x5000", "mbrok", "f12", "f144", "f288"}, dirs |-> {"D", "Y"},
         boot |-> {Plain, Iso4, Iso4Bit, PlainBit, EfiSec, EfiNB, BS("noemul", 1, TRUE, TRUE, FALSE, 1, 0),
                   BS("noemul", 8, FALSE, FALSE, FALSE, 2, 0), BS("noemul", 0, TRUE, TRUE, TRUE, 239, 0),
                   BS("floppy", 0, TRUE, FALSE, FALSE, 0, 0),
                   BS("hdemul", 0, TRUE, FALSE, FALSE, 0, 0), BS("hdemul", 0, TRUE, TRUE, FALSE, 0, 0)},
         hyb |-> {}, scopes |-> {"all", "iso"}, prefixes |-> {<<>>}, maxent |-> 8, maxfiles |-> 4, links |-> TRUE]
    [] Profile = "c11f" ->     \* the three diskette sizes, with and without boot info table (exhaustive, small)
        [names |-> {"I"}, blobs |-> {"f12", "f144", "f288"}, dirs |-> {"D"},
         boot |-> {BS("floppy", 0, TRUE, FALSE, FALSE, 0, 0), BS("floppy", 0, FALSE, TRUE, FALSE, 1, 0)},
         hyb |-> {}, scopes |-> {"all"}, prefixes |-> {<<>>}, maxent |-> 2, maxfiles |-> 1, links |-> FALSE]
    [] Profile = "c11n" ->     \* many sections: 1..32 entries and the refusal of the 33rd
        [names |-> {"I", "K"}, blobs |-> {"h2049", "s32"}, dirs |-> {},
         boot |-> {Plain, BS("noemul", 0, TRUE, TRUE, TRUE, 0, 0)},
         hyb |-> {}, scopes |-> {"all"}, prefixes |-> {<<AF("I", "h2049"), AF("K", "s32")>>}, maxent |-> 32, maxfiles |-> 2, links |-> FALSE]
    [] Profile = "c11p" ->     \* a prepared catalog (initial entry and one section entry, both with a boot info
                               \* table) taken through reopen generations with edits that move the boot files
        [names |-> {"A"}, blobs |-> {"x5000"}, dirs |-> {"D"}, boot |-> {},
         hyb |-> {}, scopes |-> {"iso"},
         prefixes |-> {<<AF("I", "h2049"), AF("K", "h4096"), AE("I", Iso4Bit), AE("K", BS("noemul", 0, TRUE, TRUE, FALSE, 0, 0))>>,
                       <<AF("I", "h2049"), AF("K", "h4096"), AE("I", Iso4Bit), AE("K", BS("noemul", 0, TRUE, TRUE, TRUE, 239, 0))>>},
         maxent |-> 2, maxfiles |-> 3, links |-> FALSE]
    [] Profile = "c12g" ->     \* geometry grid: one add_isohybrid on the canned images
        [names |-> {}, blobs |-> {}, dirs |-> {}, boot |-> {},
         hyb |-> {GridSpec(g, "bios") : g \in Geoms} \cup {GridSpec(g, "efi") : g \in Geoms}
                 \cup {GridSpec(g, "mac") : g \in Geoms}
                 \cup {HS(1, 0, 999, 0, 64, "none", "none", FALSE), HS(1, 0, 999, 64, 64, "none", "none", FALSE),
                       HS(1, 0, 999, 32, 0, "none", "none", FALSE), HS(1, 0, 999, 32, 257, "none", "none", FALSE),
                       HS(1, 0, 23, 32, 64, "none", "none", TRUE), HS(1, 0, 999, 32, 64, "none", "no", TRUE)},
         scopes |-> {}, prefixes |-> {HybPrefix("ME", FALSE, FALSE), HybPrefix("ME", TRUE, FALSE), HybPrefix("ME", TRUE, TRUE),
                                     HybPrefix("EM", TRUE, TRUE),
                                     \* the same images with second ISO9660 names made before add_eltorito
                                     HybPrefixL("ME", FALSE, FALSE, {"I"}), HybPrefixL("ME", TRUE, TRUE, {"I", "E", "M"}),
                                     HybPrefixL("EM", TRUE, TRUE, {"I"}), HybPrefixL("EM", TRUE, FALSE, {"E"}),
                                     \* a last file that fills its sectors to the last (non-zero) byte: where no
                                     \* cylinder padding is needed the volume ends with that byte
                                     HybPrefix("ME", FALSE, FALSE) \o <<AF("Z", "h4096")>>},
         maxent |-> 3, maxfiles |-> 3, links |-> FALSE]
    [] Profile = "c12b" ->     \* a big image: more than 1024 cylinders with room for the backup GPT in the padding
        [names |-> {}, blobs |-> {}, dirs |-> {}, boot |-> {},
         hyb |-> {HS(1, 0, 999, 63, 1, "none", "yes", FALSE), HS(1, 0, 999, 63, 1, "none", "none", FALSE),
                  HS(1, 0, 999, 63, 1, "none", "yes", TRUE)},
         scopes |-> {}, prefixes |-> {HybPrefix("ME", TRUE, TRUE) \o <<AF("K", "b34m")>>,
                                     HybPrefix("ME", TRUE, TRUE) \o <<AF("K", "b35m")>>},
         maxent |-> 3, maxfiles |-> 4, links |-> FALSE]
    [] Profile = "c12G" ->     \* thorough: the full product
        [names |-> {}, blobs |-> {}, dirs |-> {}, boot |-> {},
         hyb |-> FullGrid("bios") \cup FullGrid("efi") \cup FullGrid("mac"),
         scopes |-> {}, prefixes |-> {HybPrefix("ME", FALSE, FALSE), HybPrefix("ME", TRUE, FALSE), HybPrefix("ME", TRUE, TRUE),
                                     HybPrefix("EM", TRUE, TRUE)}, maxent |-> 3, maxfiles |-> 3, links |-> FALSE]
    [] Profile = "c12h" ->     \* histories that move the boot files around add_isohybrid
        [names |-> {"A", "Z"}, blobs |-> {"x5000"}, dirs |-> {"D"},
         boot |-> {Plain},
         hyb |-> {HS(1, 0, 999, 32, 64, "none", "none", FALSE), HS(2, 4, 131, 63, 255, "small", "yes", FALSE),
                  HS(1, 0, 999, 32, 64, "big", "none", TRUE)},
         scopes |-> {}, prefixes |-> {HybPrefix("ME", FALSE, FALSE), HybPrefix("ME", TRUE, TRUE), HybPrefix("EM", TRUE, TRUE),
                                     HybPrefixL("ME", FALSE, FALSE, {"I"}), HybPrefixL("EM", TRUE, TRUE, {"I", "M"})},
         maxent |-> 4, maxfiles |-> 5, links |-> TRUE]
    [] Profile = "c12s" ->     \* simulation: longer mixed histories
        [names |-> {"A", "Z", "K"}, blobs |-> {"x5000", "s32", "h2048"}, dirs |-> {"D", "Y"},
         boot |-> {Plain, EfiSec, Iso4Bit},
         hyb |-> {HS(1, 0, 999, 32, 64, "none", "none", FALSE), HS(2, 4, 131, 63, 255, "small", "yes", FALSE),
                  HS(1, 0, 999, 32, 64, "big", "none", TRUE), HS(4, 64, 0, 1, 1, "zero", "yes", TRUE),
                  HS(3, 0, 23, 1, 64, "none", "no", FALSE)},
         scopes |-> {}, prefixes |-> {HybPrefix("ME", FALSE, FALSE), HybPrefix("ME", TRUE, FALSE),
                                     HybPrefix("ME", TRUE, TRUE), HybPrefix("EM", TRUE, TRUE), <<>>,
                                     HybPrefixL("ME", TRUE, FALSE, {"I", "E"}), HybPrefixL("ME", TRUE, TRUE, {"E", "M"})},
         maxent |-> 5, maxfiles |-> 6, links |-> TRUE]

\* ---- state ------------------------------------------------------------------
NoElt == [on |-> FALSE, platform |-> 0, cat |-> "-", entries |-> <<>>]
NoHyb == [on |-> FALSE, entry |-> 0, offset |-> 0, ptype |-> 0, sectors |-> 0, heads |-> 0,
          idk |-> "none", efi |-> FALSE, mac |-> FALSE]
EmptyFiles == [n \in {} |-> 0]
Fresh == [phase |-> "live", files |-> EmptyFiles, dirs |-> {}, elt |-> NoElt, hyb |-> NoHyb, gen |-> 0]

Ok(s) == [out |-> "ok", why |-> "", acc |-> s, taint |-> FALSE]
No(s, why, taint) == [out |-> "refuse", why |-> why, acc |-> s, taint |-> taint]

Has(s, n) == n \in DOMAIN s.files
Linked(s, n) == \E k \in 1..Len(s.elt.entries) : s.elt.entries[k].name = n /\ s.elt.entries[k].vis # "none"

SectorCount(b, spec) == IF spec.load = 0 THEN ((BlobInfo[b].len + 2047) \div 2048) * 4 ELSE spec.load
MediaCode(spec, sc) == CASE spec.media = "noemul" -> 0
                         [] spec.media = "floppy" -> (IF sc = 2400 THEN 1 ELSE IF sc = 2880 THEN 2 ELSE 3)
                         [] spec.media = "hdemul" -> 4
                         [] OTHER -> 99

EltWhy(s, f, spec) ==
    IF ~Has(s, f) \/ (Has(s, f) /\ s.files[f].vis # "all") THEN "missing"
    ELSE LET b == s.files[f].blob
             sc == SectorCount(b, spec) IN
         IF spec.media = "hdemul" /\ BlobInfo[b].len < 512 THEN "short_mbr"
         ELSE IF spec.media = "hdemul" /\ BlobInfo[b].mbr # "ok" THEN "bad_mbr"
         ELSE IF s.elt.on /\ Len(s.elt.entries) = 32 THEN "too_many"
         ELSE IF ~s.elt.on /\ spec.platform \notin {0, 1, 2, 239} THEN "bad_platform"
         ELSE IF spec.media \notin {"noemul", "floppy", "hdemul"} THEN "bad_media"
         ELSE IF spec.media = "floppy" /\ sc \notin {2400, 2880, 5760} THEN "bad_floppy"
         ELSE ""
\* refusals that pycdlib raises after it has already changed the object (C14's subject): the
\* behaviour ends there and the image is not judged
EltTaint(s, spec, why) == why # "missing" /\ (spec.bit \/ (~s.elt.on /\ why \in {"bad_platform", "bad_media", "bad_floppy"}))

NewEntry(s, f, spec) ==
    LET b == s.files[f].blob
        sc == SectorCount(b, spec) IN
    [name |-> f, blob |-> b, vis |-> "all", cbit |-> FALSE, cbaked |-> FALSE,
     media |-> MediaCode(spec, sc),
     count |-> IF spec.media = "noemul" THEN sc ELSE 1,
     ind |-> IF spec.bootable THEN 136 ELSE 0,
     plat |-> IF ~s.elt.on THEN spec.platform ELSE IF spec.efi THEN 239 ELSE s.elt.platform,
     systype |-> IF spec.media = "hdemul" THEN BlobInfo[b].ptype ELSE 0,
     seg |-> spec.seg]

SetBit(files, f) == [files EXCEPT ![f].bit = TRUE]

AddEltorito(s, f, spec) ==
    LET why == EltWhy(s, f, spec) IN
    IF why # "" THEN No(s, why, EltTaint(s, spec, why))
    ELSE LET fl == IF spec.bit THEN SetBit(s.files, f) ELSE s.files IN
         Ok([s EXCEPT !.files = fl,
                      !.elt = IF s.elt.on
                              THEN [s.elt EXCEPT !.entries = Append(@, NewEntry(s, f, spec))]
                              ELSE [on |-> TRUE, platform |-> spec.platform, cat |-> CatName,
                                    entries |-> <<NewEntry(s, f, spec)>>]])

RmEltorito(s) ==
    IF ~s.elt.on THEN No(s, "no_eltorito", FALSE)
    ELSE IF s.hyb.on THEN No(s, "hybrid_present", FALSE)
    ELSE Ok([s EXCEPT !.elt = NoElt,
                      !.files = [n \in DOMAIN s.files |-> [s.files[n] EXCEPT !.bit = FALSE]]])

AddFile(s, n, b) ==
    IF Has(s, n) \/ n = CatName THEN No(s, "exists", FALSE)
    ELSE Ok([s EXCEPT !.files = (n :> [blob |-> b, bit |-> FALSE, baked |-> FALSE, vis |-> "all", alias |-> FALSE]) @@ s.files])

Drop(files, n) == [m \in DOMAIN files \ {n} |-> files[m]]

\* rm_file removes the link class: every name (alias included) in every namespace
RmFile(s, n) ==
    IF n = CatName /\ s.elt.on THEN No(s, "elt_ref", FALSE)
    ELSE IF ~Has(s, n) \/ (Has(s, n) /\ s.files[n].vis # "all") THEN No(s, "missing", FALSE)
    ELSE IF Linked(s, n) THEN No(s, "elt_ref", FALSE)
    ELSE Ok([s EXCEPT !.files = Drop(s.files, n)])

\* ---- second ISO9660 name (hard link) ---------------------------------------------
\* add_hard_link(iso_old_path = the original ISO9660 name of n, iso_new_path = the alias name of n
\* [, rr_name]): one alias per file, always made from the original name
AddLink(s, n) ==
    IF ~Has(s, n) \/ (Has(s, n) /\ s.files[n].vis # "all") THEN No(s, "missing", FALSE)
    ELSE IF s.files[n].alias THEN No(s, "exists", FALSE)
    ELSE Ok([s EXCEPT !.files[n].alias = TRUE])
\* rm_hard_link(iso_path = the alias name): that name only
RmLink(s, n) ==
    IF ~Has(s, n) \/ (Has(s, n) /\ ~s.files[n].alias) THEN No(s, "missing", FALSE)
    ELSE Ok([s EXCEPT !.files[n].alias = FALSE])
\* rm_file(iso_path = the alias name): the whole class, like rm_file on the original name - also the
\* Joliet/UDF names that are left when the original ISO9660 name is gone (vis = "sec")
RmFileViaLink(s, n) ==
    IF ~Has(s, n) \/ (Has(s, n) /\ ~s.files[n].alias) THEN No(s, "missing", FALSE)
    ELSE IF Linked(s, n) THEN No(s, "elt_ref", FALSE)
    ELSE Ok([s EXCEPT !.files = Drop(s.files, n)])

\* rm_hard_link: scope "iso" removes the original ISO9660 name only (an alias stays), "all" every
\* name of the file in every namespace, one rm_hard_link per name (the alias too)
RmHardLink(s, n, scope) ==
    IF ~Has(s, n) \/ (Has(s, n) /\ s.files[n].vis # "all") THEN No(s, "missing", FALSE)
    ELSE LET nv == IF scope = "all" THEN "none" ELSE "sec"
             ents == [k \in 1..Len(s.elt.entries) |->
                        IF s.elt.entries[k].name = n /\ s.elt.entries[k].vis = "all"
                        THEN [s.elt.entries[k] EXCEPT !.vis = nv, !.cbit = s.files[n].bit,
                                                      !.cbaked = s.files[n].baked]
                        ELSE s.elt.entries[k]] IN
         Ok([s EXCEPT !.files = IF scope = "all" THEN Drop(s.files, n) ELSE [s.files EXCEPT ![n].vis = "sec"],
                      !.elt.entries = ents])

AddDir(s, d) == IF d \in s.dirs THEN No(s, "exists", FALSE) ELSE Ok([s EXCEPT !.dirs = @ \cup {d}])
RmDir(s, d) == IF d \notin s.dirs THEN No(s, "missing", FALSE) ELSE Ok([s EXCEPT !.dirs = @ \ {d}])

EfiEntries(s) == {k \in 2..Len(s.elt.entries) : s.elt.entries[k].plat = 239}
EfiK(s) == IF EfiEntries(s) = {} THEN 0 ELSE CHOOSE k \in EfiEntries(s) : \A j \in EfiEntries(s) : k <= j
MacK(s) == LET r == EfiEntries(s) \ {EfiK(s)} IN
           IF r = {} THEN 0 ELSE CHOOSE k \in r : \A j \in r : k <= j

EffEfi(spec) == spec.efi = "yes" \/ (spec.efi = "none" /\ spec.mac)
EffType(spec) == IF spec.ptype = 999 THEN (IF spec.mac \/ EffEfi(spec) THEN 0 ELSE 23) ELSE spec.ptype

HybWhy(s, spec) ==
    IF ~s.elt.on THEN "no_eltorito"
    ELSE IF s.elt.entries[1].count # 4 THEN "load_size"
    ELSE IF spec.efi = "no" /\ spec.mac THEN "mac_needs_efi"
    \* MBR partition entry 2 holds the EFI image and entry 3 the Mac image: the ISO partition cannot
    \* use them (it would leave the image without an active partition)
    ELSE IF (EffEfi(spec) /\ spec.entry = 2) \/ (spec.mac /\ spec.entry \in {2, 3}) THEN "entry_collides"
    ELSE IF ~BlobInfo[s.elt.entries[1].blob].sig THEN "no_signature"
    ELSE IF spec.sectors < 1 \/ spec.sectors > 63 THEN "bad_sectors"
    ELSE IF spec.heads < 1 \/ spec.heads > 256 THEN "bad_heads"
    ELSE IF spec.mac /\ EffType(spec) # 0 THEN "mac_type"
    ELSE ""
\* add_isohybrid is only in the alphabet when the images it needs exist (an EFI hybrid needs an
\* EFI section, a Mac hybrid two) - otherwise the statement of C12 has nothing to refer to
HybApplicable(s, spec) ==
    HybWhy(s, spec) = "" => /\ (EffEfi(spec) => EfiK(s) # 0)
                            /\ (spec.mac => MacK(s) # 0)

AddIsohybrid(s, spec) ==
    LET why == HybWhy(s, spec) IN
    IF why # "" THEN No(s, why, why \in {"bad_sectors", "bad_heads", "mac_type"})
    ELSE Ok([s EXCEPT !.hyb = [on |-> TRUE, entry |-> spec.entry, offset |-> spec.offset,
                               ptype |-> EffType(spec), sectors |-> spec.sectors, heads |-> spec.heads,
                               idk |-> spec.idk, efi |-> EffEfi(spec), mac |-> spec.mac]])

RmIsohybrid(s) == Ok([s EXCEPT !.hyb = NoHyb])

\* write + open: nothing changes but the patched bytes become the only bytes there are
Reopened(s) ==
    [s EXCEPT !.gen = @ + 1,
              !.files = [n \in DOMAIN s.files |-> [s.files[n] EXCEPT !.baked = @ \/ s.files[n].bit]],
              !.elt.entries = [k \in 1..Len(s.elt.entries) |->
                                 [s.elt.entries[k] EXCEPT !.cbaked = @ \/ s.elt.entries[k].cbit]]]

Step(s, a) ==
    CASE a.a = "AddFile"      -> AddFile(s, a.n, a.blob)
      [] a.a = "RmFile"       -> RmFile(s, a.n)
      [] a.a = "RmHardLink"   -> RmHardLink(s, a.n, a.scope)
      [] a.a = "AddLink"      -> AddLink(s, a.n)
      [] a.a = "RmLink"       -> RmLink(s, a.n)
      [] a.a = "RmFileViaLink" -> RmFileViaLink(s, a.n)
      [] a.a = "AddDir"       -> AddDir(s, a.d)
      [] a.a = "RmDir"        -> RmDir(s, a.d)
      [] a.a = "AddEltorito"  -> AddEltorito(s, a.f, a.spec)
      [] a.a = "RmEltorito"   -> RmEltorito(s)
      [] a.a = "AddIsohybrid" -> AddIsohybrid(s, a.spec)
      [] a.a = "RmIsohybrid"  -> RmIsohybrid(s)
      [] a.a = "ForceConsistency" -> Ok(s)
      [] a.a = "Reopen"       -> Ok(Reopened(s))

RECURSIVE Run(_, _)
Run(s, p) == IF p = <<>> THEN s ELSE Run(Step(s, Head(p)).acc, Tail(p))
Log(a, r) == [act |-> a, out |-> r.out, why |-> r.why, taint |-> r.taint]
RECURSIVE RunLog(_, _)
RunLog(s, p) == IF p = <<>> THEN <<>> ELSE <<Log(Head(p), Step(s, Head(p)))>> \o RunLog(Step(s, Head(p)).acc, Tail(p))

\* ---- the alphabet --------------------------------------------------------
Cands(s) ==
    {AF(n, b) : n \in Par.names \ DOMAIN s.files, b \in Par.blobs}
    \cup {[a |-> "RmFile", n |-> n] : n \in DOMAIN s.files \cup (IF s.elt.on THEN {CatName} ELSE {})}
    \cup {[a |-> "RmHardLink", n |-> n, scope |-> sc] : n \in {m \in DOMAIN s.files : s.files[m].vis = "all"}, sc \in Par.scopes}
    \* second names: add_hard_link is offered on every file (refused for one that has its alias
    \* already or has lost its original ISO9660 name); the alias is never the source of a call that
    \* needs an existing path (add_eltorito, add_hard_link) - the only restriction of the alphabet
    \cup (IF Par.links
          THEN {AL(n) : n \in DOMAIN s.files}
               \cup {[a |-> x, n |-> n] : x \in {"RmLink", "RmFileViaLink"}, n \in {m \in DOMAIN s.files : s.files[m].alias}}
          ELSE {})
    \cup {[a |-> "AddDir", d |-> d] : d \in Par.dirs \ s.dirs}
    \cup {[a |-> "RmDir", d |-> d] : d \in s.dirs}
    \cup {AE(f, spec) : f \in {m \in DOMAIN s.files : s.files[m].vis = "all"}, spec \in Par.boot}
    \* (in the many-sections profile rm_eltorito is offered only once the catalog is full)
    \cup (IF Par.maxent >= 32 /\ Len(s.elt.entries) < 32 THEN {} ELSE {[a |-> "RmEltorito"]})
    \cup {[a |-> "AddIsohybrid", spec |-> spec] : spec \in {x \in Par.hyb : HybApplicable(s, x)}}
    \cup (IF s.hyb.on THEN {[a |-> "RmIsohybrid"]} ELSE {})
    \cup (IF Par.hyb # {} /\ s.elt.on THEN {[a |-> "ForceConsistency"]} ELSE {})

Size(s) == /\ Cardinality(DOMAIN s.files) <= Par.maxfiles
           /\ Len(s.elt.entries) <= Par.maxent

Init == /\ IF Profile = "script" THEN st = Fresh /\ h = <<>>
           ELSE \E p \in Par.prefixes : /\ st = Run(Fresh, p)
                                        /\ h = RunLog(Fresh, p)
        /\ nref = 0
        /\ nstep = 0

After == nstep

Accept == /\ st.phase = "live" /\ After < MaxLen
          /\ \E a \in Cands(st) :
               \E r \in {Step(st, a)} :
                 /\ r.out = "ok"
                 /\ Size(r.acc)
                 /\ st' = r.acc
                 /\ h' = Append(h, Log(a, r))
          /\ nstep' = nstep + 1
          /\ UNCHANGED nref

\* refused calls: one representative per (action, reason)
Reject == /\ st.phase = "live" /\ After < MaxLen /\ nref < MaxRefuse
          /\ \E cands \in {Cands(st)} :
             \E outc \in {[a \in cands |-> Step(st, a)]} :
             \E refused \in {{a \in cands : outc[a].out = "refuse"}} :
             \E k \in {<<a.a, outc[a].why, outc[a].taint>> : a \in refused} :
                LET a == CHOOSE x \in refused : x.a = k[1] /\ outc[x].why = k[2] /\ outc[x].taint = k[3] IN
                /\ st' = [st EXCEPT !.phase = IF outc[a].taint THEN "dead" ELSE "live"]
                /\ h' = Append(h, Log(a, outc[a]))
          /\ nref' = nref + 1
          /\ nstep' = nstep + 1

Reopen == /\ st.phase = "live" /\ After < MaxLen /\ st.gen < MaxGen
          /\ st' = Reopened(st)
          /\ h' = Append(h, Log([a |-> "Reopen"], Ok(st)))
          /\ nstep' = nstep + 1
          /\ UNCHANGED nref

\* profile "script": follow the given call sequences one call at a time
ScriptStep == /\ Profile = "script"
              /\ \E p \in Par.prefixes :
                   /\ Len(h) < Len(p)
                   /\ \A j \in 1..Len(h) : h[j].act = p[j]
                   /\ \E r \in {Step(st, p[Len(h) + 1])} :
                        /\ st' = r.acc
                        /\ h' = Append(h, Log(p[Len(h) + 1], r))
              /\ UNCHANGED <<nref, nstep>>

Next == Accept \/ Reject \/ Reopen \/ ScriptStep
vars == <<st, h, nref, nstep>>
Spec == Init /\ [][Next]_vars

\* ---- what the image must show ---------------------------------------------
Patched(s, e) == IF e.vis = "all" \/ e.vis = "sec" THEN (Has(s, e.name) /\ s.files[e.name].bit) ELSE e.cbit
Baked(s, e) == IF e.vis = "all" \/ e.vis = "sec" THEN (Has(s, e.name) /\ s.files[e.name].baked) ELSE e.cbaked
Expect(s) ==
    [boot |-> s.elt.on, platform |-> s.elt.platform, cat |-> s.elt.cat,
     entries |-> [k \in 1..Len(s.elt.entries) |->
                    LET e == s.elt.entries[k] IN
                    [name |-> e.name, blob |-> e.blob, len |-> BlobInfo[e.blob].len, vis |-> e.vis,
                     alias |-> e.vis # "none" /\ Has(s, e.name) /\ s.files[e.name].alias,
                     patched |-> Patched(s, e), loose |-> Patched(s, e) \/ Baked(s, e), media |-> e.media, count |-> e.count, ind |-> e.ind,
                     plat |-> e.plat, systype |-> e.systype, seg |-> e.seg]],
     files |-> {[name |-> n, blob |-> s.files[n].blob, len |-> BlobInfo[s.files[n].blob].len,
                 patched |-> s.files[n].bit, loose |-> s.files[n].bit \/ s.files[n].baked,
                 vis |-> s.files[n].vis, alias |-> s.files[n].alias] : n \in DOMAIN s.files},
     dirs |-> s.dirs,
     hyb |-> s.hyb @@ [efik |-> IF s.elt.on THEN EfiK(s) ELSE 0, mack |-> IF s.elt.on THEN MacK(s) ELSE 0],
     dead |-> s.phase = "dead", gen |-> s.gen]

\* ---- design-level properties ------------------------------------------------
InvHybridNeedsEltorito == st.hyb.on => st.elt.on
InvEntriesLive ==
    \A k \in 1..Len(st.elt.entries) :
       LET e == st.elt.entries[k] IN
       e.vis # "none" => (Has(st, e.name) /\ st.files[e.name].blob = e.blob /\ st.files[e.name].vis = e.vis)
InvPatchOnlyWithEltorito == ~st.elt.on => \A n \in DOMAIN st.files : ~st.files[n].bit
InvShape == /\ Len(st.elt.entries) <= 32
            /\ st.elt.on <=> Len(st.elt.entries) >= 1
            /\ (st.hyb.on => st.elt.entries[1].count = 4 /\ BlobInfo[st.elt.entries[1].blob].sig)
            /\ (st.hyb.on /\ st.hyb.mac => st.hyb.efi)
\* a second name never outlives its file (it is a field of the file's record: rm_file on either name
\* drops the record, rm_hard_link "all" too), and what the image must show for an entry that still has a
\* name is what it must show for every name of its link class (blob, boot info table, alias)
InvLinkClass ==
    /\ \A n \in DOMAIN st.files : st.files[n].vis \in {"all", "sec"} /\ st.files[n].alias \in BOOLEAN
    /\ \A k \in 1..Len(st.elt.entries) :
          LET e == st.elt.entries[k]
              x == Expect(st).entries[k] IN
          IF e.vis = "none" THEN ~x.alias
          ELSE /\ Has(st, e.name)
               /\ \E f \in Expect(st).files :
                     /\ f.name = e.name /\ f.blob = x.blob /\ f.alias = x.alias /\ f.vis = x.vis
                     /\ f.patched = x.patched /\ f.loose = x.loose
\* rm_eltorito undoes the first add_eltorito exactly, whatever its arguments
InvRmEltoritoInverse ==
    (st.phase = "live" /\ ~st.elt.on) =>
       \A f \in DOMAIN st.files : \A spec \in Par.boot :
          LET r == AddEltorito(st, f, spec) IN
          r.out = "ok" => RmEltorito(r.acc).acc = st /\ RmEltorito(r.acc).out = "ok"
Holds(f, name) == Assert(f, name)
ActionProps ==
    /\ Holds(Profile # "script" /\ nref' = nref + 1 => [st' EXCEPT !.phase = "live"] = st, "RejectChangesNothing")
    /\ Holds(st'.gen >= st.gen, "GenMonotone")
    \* making or removing a second name changes names only
    /\ Holds((h'[Len(h')].act.a \in {"AddLink", "RmLink"} /\ h'[Len(h')].out = "ok") =>
                /\ st'.elt = st.elt /\ st'.hyb = st.hyb /\ st'.dirs = st.dirs /\ DOMAIN st'.files = DOMAIN st.files
                /\ \A n \in DOMAIN st.files : [st'.files[n] EXCEPT !.alias = FALSE] = [st.files[n] EXCEPT !.alias = FALSE],
             "LinkChangesNamesOnly")
    \* a file that El Torito refers to is never removed as a class, under whichever name
    /\ Holds((h'[Len(h')].act.a \in {"RmFile", "RmFileViaLink"} /\ h'[Len(h')].out = "ok" /\ h'[Len(h')].act.n # CatName) =>
                /\ ~Linked(st, h'[Len(h')].act.n) /\ ~Has(st', h'[Len(h')].act.n),
             "ReferencedClassNotRemoved")
    /\ Holds(h'[Len(h')].act.a = "Reopen" => /\ st'.elt.on = st.elt.on /\ st'.hyb = st.hyb /\ st'.dirs = st.dirs
                                              /\ DOMAIN st'.files = DOMAIN st.files
                                              /\ \A n \in DOMAIN st.files : st'.files[n].blob = st.files[n].blob
                                                                            /\ st'.files[n].vis = st.files[n].vis
                                                                            /\ st'.files[n].bit = st.files[n].bit
                                                                            /\ st'.files[n].alias = st.files[n].alias,
             "ReopenPreservesState")

\* ---- behaviour output --------------------------------------------------------
View == IF Profile = "script" THEN <<h>> ELSE <<st, nref, nstep>>
Out == PrintT(<<"HIST", ToJson([h |-> h', exp |-> Expect(st')])>>)
DumpEdge == Dump = "edges" => Out
DumpInit == Dump = "init" => PrintT(<<"HIST", ToJson([h |-> h, exp |-> Expect(st)])>>)
DumpFinal == Dump = "final" => ((After + 1 = MaxLen \/ st'.phase = "dead") => Out)
=============================================================================
