------------------------------- MODULE Stream -------------------------------
(***************************************************************************)
(* C16 - reading files from a PyCdlib object.                              *)
(*                                                                         *)
(* Reference semantics: every open stream behaves like an in-memory binary *)
(* stream of the file's content (io.BytesIO(content)); whole-file          *)
(* extraction returns exactly the content whatever the (positive) block    *)
(* size; nothing that happens on the same PyCdlib object in between        *)
(* (another stream, an extraction, a query) changes what a stream returns. *)
(*                                                                         *)
(* Content is abstract: a file f is the sequence of positions 0..LenOf[f]  *)
(* in *units*; the harness maps a unit to a number of real bytes per file  *)
(* (e.g. 683 bytes, so that LenOf = 3 is 2049 bytes and crosses a sector   *)
(* boundary).  A returned byte string is identified by the pair            *)
(* (start, len): "the bytes content[start .. start+len)".                  *)
(*                                                                         *)
(* State                                                                   *)
(*   fpos     where the single underlying OS-level position of the backing *)
(*            file object is: [file, off] (off relative to the file start).*)
(*            Every reader of the image moves it (streams, extraction).    *)
(*   streams  [sid -> [st, file, off]], st in {"new","open","closed"}      *)
(*   last     the last call: [a |-> action, exp |-> its result, pre |->    *)
(*            offset of the addressed stream before the call]              *)
(*                                                                         *)
(* The transition function is written functionally: Apply(S, a) returns    *)
(* the successor [fpos, streams] and the result the property demands, so   *)
(* that the same definitions drive bounded model checking (MC_stream) and  *)
(* validation of recorded executions of pycdlib (Trace_Stream).            *)
(*                                                                         *)
(* Reseek = TRUE is the specification: a stream reads at ITS OWN offset    *)
(* (an implementation over a shared file object has to reposition it).     *)
(* Reseek = FALSE is a deliberately wrong variant (reads happen wherever   *)
(* the shared position happens to be) kept to show that the invariants     *)
(* below are not vacuous: TLC refutes ReadAtOwnOffset / ResultWithinFile   *)
(* for it (harness/selftest_stream.py).                                    *)
(*                                                                         *)
(* Seek, documented cases (io.IOBase.seek / io.BytesIO, and the docstring  *)
(* of PyCdlibIO.seek):                                                     *)
(*   whence 0/1/2 = start / current / end; the result is the new absolute  *)
(*   position; a position beyond the end is ALLOWED (reads there return    *)
(*   the empty string, tell() reports the position);                       *)
(*   whence outside {0,1,2}            -> refused (ValueError in io)       *)
(*   negative resulting position       -> refused (ValueError for whence 0 *)
(*     in io.BytesIO; OSError for a real file).  io.BytesIO clamps whence  *)
(*     1/2 to position 0 instead; PyCdlibIO.seek refuses ("cannot seek     *)
(*     before start of file").  Both are accepted by Trace_Stream; the     *)
(*     model refuses and leaves the position unchanged.                    *)
(* Refusals of pycdlib are PyCdlibInvalidInput instead of ValueError: a    *)
(* documented deviation (the library reports every misuse that way).       *)
(*                                                                         *)
(* Files that carry an El Torito boot info table (TableFiles): the content *)
(* of such a file - for EVERY reader, before and after the image is        *)
(* written - is the content it was added with, with the 56-byte table laid *)
(* over bytes 8..63 and CUT AT THE END OF THE FILE (StreamContent.tla; a   *)
(* boot file of 20 bytes has 20 bytes: 8 of its own and the first 12 of    *)
(* the table).  These are the bytes the written image holds at the file's  *)
(* extent.  Nothing else is special about these files: all the rules of    *)
(* this module apply to them unchanged, positions are positions in the     *)
(* overlaid content.  (Judge_StreamContent lets TLC check that the content *)
(* the recorded reads are located in is Overlaid(...) and is what the      *)
(* written image holds.)                                                   *)
(***************************************************************************)
EXTENDS Integers, Sequences, FiniteSets, TLC, StreamContent

CONSTANTS Files,            \* file ids (strings)
          LenOf,            \* [Files -> Nat]  length in units
          Sids,             \* stream ids
          Reseek,           \* TRUE = the specification (see above)
          ReadSizes(_),     \* L |-> set of sizes tried by Read (NoneN = read to the end)
          IntoSizes(_),     \* L |-> set of buffer sizes tried by ReadInto
          SeekOffsets(_),   \* L |-> set of offsets tried by Seek
          Whences,          \* set of whence values tried by Seek
          BlockLabels,      \* abstract block sizes of Extract: "1","7","2048","8192","L","L1"
          TableFiles        \* the files that carry a boot info table (subset of Files)

VARIABLES fpos, streams, last

svars == <<fpos, streams, last>>

NoneN   == -1              \* size None / negative: read everything that is left
NoFile  == "-"
Foreign == 99              \* "bytes that are not at any position of this file"

Min(a, b) == IF a <= b THEN a ELSE b
Max(a, b) == IF a >= b THEN a ELSE b

NewStream    == [st |-> "new",    file |-> NoFile, off |-> 0]
ClosedStream == [st |-> "closed", file |-> NoFile, off |-> 0]
NoPos        == [file |-> NoFile, off |-> 0]

StreamActs == {"Open", "Read", "ReadAll", "ReadInto", "Seek", "Tell", "Close"}
ReadActs   == {"Read", "ReadAll", "ReadInto"}
IsStreamAct(a) == a.a \in StreamActs

\* bytes left for a stream at offset off of a file of length L
Avail(L, off) == IF off >= L THEN 0 ELSE L - off

Refused(S, why) == [S |-> S, exp |-> [out |-> "refused", why |-> why]]
Unsupported(S)  == [S |-> S, exp |-> [out |-> "unsupported"]]

(***************************************************************************)
(* read-like calls: want = number of units asked for, NoneN = all          *)
(***************************************************************************)
ReadLike(S, s, want) ==
    LET str == S.streams[s]
        L   == LenOf[str.file]
        av  == Avail(L, str.off)
        k   == IF want = NoneN THEN av ELSE Min(want, av)
        \* where the returned bytes physically come from
        src == IF Reseek \/ k = 0 THEN str.off
               ELSE IF S.fpos.file = str.file THEN S.fpos.off ELSE Foreign
    IN [S   |-> [fpos    |-> IF k = 0 \/ src = Foreign THEN S.fpos
                             ELSE [file |-> str.file, off |-> src + k],
                 streams |-> [S.streams EXCEPT ![s].off = @ + k]],
        exp |-> [out |-> "ok", start |-> src, len |-> k, tell |-> str.off + k]]

SeekOn(S, s, off, wh) ==
    LET str  == S.streams[s]
        L    == LenOf[str.file]
        base == CASE wh = 0 -> 0 [] wh = 1 -> str.off [] wh = 2 -> L [] OTHER -> 0
        t    == base + off
    IN IF wh \notin {0, 1, 2} THEN Refused(S, "whence")
       ELSE IF t < 0 THEN Refused(S, "negative")
       ELSE [S   |-> [fpos    |-> [file |-> str.file, off |-> t],
                      streams |-> [S.streams EXCEPT ![s].off = t]],
             exp |-> [out |-> "ok", ret |-> t, tell |-> t]]

BlockOk(f, bs) == bs = "L" => LenOf[f] > 0       \* block sizes are positive

(***************************************************************************)
(* Apply(S, a): S = [fpos, streams]; returns [S |-> successor, exp |-> the *)
(* result the property demands].  exp.out: "ok" | "refused" | "unsupported"*)
(* ("unsupported": the call is outside the model, e.g. a second Open of    *)
(* the same stream id).                                                    *)
(***************************************************************************)
Apply(S, a) ==
    IF a.a = "List" THEN [S |-> S, exp |-> [out |-> "ok"]]
    ELSE IF a.a = "Extract" THEN
        IF a.file \notin Files \/ ~BlockOk(a.file, a.bs) THEN Unsupported(S)
        ELSE [S   |-> [S EXCEPT !.fpos = IF LenOf[a.file] = 0 THEN @
                                         ELSE [file |-> a.file, off |-> LenOf[a.file]]],
              exp |-> [out |-> "ok", start |-> 0, len |-> LenOf[a.file]]]
    ELSE IF ~IsStreamAct(a) \/ a.sid \notin Sids THEN Unsupported(S)
    ELSE LET str == S.streams[a.sid] IN
      IF a.a = "Open" THEN
           IF str.st # "new" \/ a.file \notin Files THEN Unsupported(S)
           ELSE [S   |-> [fpos    |-> [file |-> a.file, off |-> 0],
                          streams |-> [S.streams EXCEPT ![a.sid] =
                                           [st |-> "open", file |-> a.file, off |-> 0]]],
                 exp |-> [out |-> "ok", tell |-> 0]]
      ELSE IF str.st = "new" THEN Unsupported(S)
      ELSE IF a.a = "Close" THEN      \* closing twice is allowed (io.IOBase.close)
           [S |-> [S EXCEPT !.streams[a.sid] = ClosedStream], exp |-> [out |-> "ok"]]
      ELSE IF str.st = "closed" THEN Refused(S, "closed")
      ELSE CASE a.a = "Read"     -> ReadLike(S, a.sid, IF a.n < 0 THEN NoneN ELSE a.n)
             [] a.a = "ReadAll"  -> ReadLike(S, a.sid, NoneN)
             [] a.a = "ReadInto" -> ReadLike(S, a.sid, a.k)
             [] a.a = "Seek"     -> SeekOn(S, a.sid, a.off, a.wh)
             [] a.a = "Tell"     -> [S |-> S, exp |-> [out |-> "ok", tell |-> str.off]]

PreOff(S, a) == IF IsStreamAct(a) /\ a.sid \in Sids THEN S.streams[a.sid].off ELSE 0

(***************************************************************************)
(* The alphabet of a state: every call on every stream, one refused        *)
(* representative per call on a closed stream.  Seeks are limited to       *)
(* positions <= L+1 (one beyond the end is enough to be "beyond").         *)
(***************************************************************************)
StreamCands(S, s) ==
    LET str == S.streams[s] IN
    IF str.st = "new" THEN {[a |-> "Open", sid |-> s, file |-> f] : f \in Files}
    ELSE IF str.st = "closed" THEN
        {[a |-> "Read", sid |-> s, n |-> 1], [a |-> "ReadAll", sid |-> s],
         [a |-> "ReadInto", sid |-> s, k |-> 1], [a |-> "Seek", sid |-> s, off |-> 0, wh |-> 0],
         [a |-> "Tell", sid |-> s], [a |-> "Close", sid |-> s]}
    ELSE LET L == LenOf[str.file] IN
             {[a |-> "Read", sid |-> s, n |-> n] : n \in ReadSizes(L)}
        \cup {[a |-> "ReadAll", sid |-> s]}
        \cup {[a |-> "ReadInto", sid |-> s, k |-> k] : k \in IntoSizes(L)}
        \cup {c \in {[a |-> "Seek", sid |-> s, off |-> o, wh |-> w] : o \in SeekOffsets(L), w \in Whences} :
                /\ (c.wh \notin {0, 1, 2} => c.off = 0)
                /\ LET r == SeekOn(S, s, c.off, c.wh) IN r.exp.out = "ok" => r.exp.ret <= L + 1}
        \cup {[a |-> "Tell", sid |-> s], [a |-> "Close", sid |-> s]}

Cands(S) ==
         UNION {StreamCands(S, s) : s \in Sids}
    \cup {c \in {[a |-> "Extract", file |-> f, bs |-> b] : f \in Files, b \in BlockLabels} : BlockOk(c.file, c.bs)}
    \cup {[a |-> "List"]}

Cur == [fpos |-> fpos, streams |-> streams]

Init == /\ fpos = NoPos
        /\ streams = [s \in Sids |-> NewStream]
        /\ last = [a |-> [a |-> "Init"], exp |-> [out |-> "ok"], pre |-> 0]

Do(a) == \E r \in {Apply(Cur, a)} :
            /\ fpos' = r.S.fpos
            /\ streams' = r.S.streams
            /\ last' = [a |-> a, exp |-> r.exp, pre |-> PreOff(Cur, a)]

Next == \E a \in Cands(Cur) : Do(a)

Spec == Init /\ [][Next]_svars

(***************************************************************************)
(* What TLC checks on the model itself                                     *)
(***************************************************************************)
TypeOK ==
    /\ TableFiles \subseteq Files
    /\ fpos.file \in Files \cup {NoFile} /\ fpos.off \in Nat
    /\ \A s \in Sids : /\ streams[s].st \in {"new", "open", "closed"}
                       /\ streams[s].off \in Nat
                       /\ (streams[s].st = "open" <=> streams[s].file \in Files)

LastFile == streams[last.a.sid].file
IsOkRead == last.a.a \in ReadActs /\ last.exp.out = "ok"

\* the returned bytes are bytes of the file: never before its start, never beyond its end,
\* never more than asked for, and short only at the end of the file
ResultWithinFile ==
    /\ IsOkRead =>
         /\ last.exp.len >= 0 /\ last.exp.start >= 0
         /\ (last.exp.len > 0 => last.exp.start + last.exp.len <= LenOf[LastFile])
         /\ (last.a.a = "Read" /\ last.a.n >= 0 => last.exp.len <= last.a.n)
         /\ (last.a.a = "ReadInto" => last.exp.len <= last.a.k)
         /\ (last.a.a = "Read" /\ last.a.n >= 0 /\ last.exp.len < last.a.n
                => last.pre + last.exp.len >= LenOf[LastFile])
         /\ (last.a.a = "ReadAll" \/ (last.a.a = "Read" /\ last.a.n < 0)
                => last.exp.len = Avail(LenOf[LastFile], last.pre))
    /\ (last.a.a = "Extract" /\ last.exp.out = "ok" =>
           last.exp.start = 0 /\ last.exp.len = LenOf[last.a.file])

\* ... and they are the bytes at the stream's own position
ReadAtOwnOffset == IsOkRead /\ last.exp.len > 0 => last.exp.start = last.pre

\* tell() after any accepted call is the model offset, which moved by what was returned
TellEqualsModelOffset ==
    /\ \A s \in Sids : streams[s].off >= 0
    /\ (IsStreamAct(last.a) /\ last.exp.out = "ok" /\ last.a.a # "Close" =>
           /\ last.exp.tell = streams[last.a.sid].off
           /\ (last.a.a \in ReadActs => last.exp.tell = last.pre + last.exp.len))
    /\ (last.a.a = "Seek" /\ last.exp.out = "ok" => last.exp.ret = last.exp.tell)

\* action properties (as an ACTION_CONSTRAINT: TLC evaluates it on every transition)
Holds(f, name) == Assert(f, name)
ActionProps ==
    \* a call on one stream, an extraction or a query never changes another stream
    /\ Holds(\A s \in Sids : (~IsStreamAct(last'.a) \/ last'.a.sid # s) => streams'[s] = streams[s],
             "StreamsIndependent")
    \* a refused call changes nothing
    /\ Holds(last'.exp.out = "refused" => streams' = streams /\ fpos' = fpos, "RefusedChangesNothing")
    \* calls on a closed stream are refused (except close)
    /\ Holds(IsStreamAct(last'.a) /\ streams[last'.a.sid].st = "closed" /\ last'.a.a # "Close"
                => last'.exp.out = "refused", "ClosedRefused")
    \* only Open/Close change what a stream is open on
    /\ Holds(\A s \in Sids : last'.a.a \notin {"Open", "Close"} =>
                streams'[s].st = streams[s].st /\ streams'[s].file = streams[s].file, "OnlyOpenCloseChangeStatus")
=============================================================================
