------------------------------- MODULE Mangle -------------------------------
(***************************************************************************)
(* Derived names (property C18): the helpers that turn a source name into  *)
(* an ISO9660 identifier, transcribed from pycdlib/utils.py                *)
(* (truncate_basename, mangle_file_for_iso9660, mangle_dir_for_iso9660)    *)
(* and the way the facades / pycdlib-genisoimage join their result.        *)
(*                                                                         *)
(* Names are sequences of code points.  The model alphabet has one         *)
(* representative per character class that the helpers can tell apart,     *)
(* including classes whose upper-casing changes the LENGTH of the string:  *)
(* Upper(c) is a sequence.  The identifier that reaches the library is the *)
(* UTF-8 encoding of the joined result (paths are encoded before they are  *)
(* checked and stored), so legality (NameRules) is evaluated on Utf8(..).  *)
(***************************************************************************)
EXTENDS NameRules, Integers

(***************************************************************************)
(* Alphabet and case mapping                                               *)
(***************************************************************************)
ChUpper == 65      \* A
ChLower == 97      \* a
ChDigit == 55      \* 7
ChUnder == 95      \* _
ChSpace == 32
ChPunct == 45      \* -   (other ASCII punctuation)
ChCtrl  == 10      \* newline (a control character; also the one character "." of a regular
                   \*          expression does not match, while a negated class does)
ChLat1  == 233     \* e-acute: upper-cases 1:1 to 201
ChSharp == 223     \* sharp s: upper-cases to "SS" (two d-characters)
ChApoN  == 329     \* n preceded by apostrophe: upper-cases to <<700, 78>>
ChIota  == 912     \* iota with dialytika and tonos: upper-cases to three code points
ChAstral == 128512 \* outside the BMP
ChComb  == 769     \* combining acute accent

ModelAlphabet == {ChUpper, ChLower, ChDigit, ChUnder, DOT, SEMI, ChSpace, ChPunct, ChCtrl,
                  ChLat1, ChSharp, ChApoN, ChIota, ChAstral, ChComb}
CoreAlphabet  == {ChUpper, ChLower, DOT, SEMI, ChPunct, ChLat1, ChSharp}

\* str.upper() of one character of the model alphabet (a SEQUENCE: the length may change).
\* The harness compares this table with Python's own str.upper() on every run.
Upper(c) ==
    CASE IsLower(c)   -> <<c - 32>>
      [] c = ChLat1   -> <<201>>
      [] c = ChSharp  -> <<83, 83>>
      [] c = ChApoN   -> <<700, 78>>
      [] c = ChIota   -> <<921, 776, 769>>
      [] OTHER        -> <<c>>

RECURSIVE UpperSeq(_)
UpperSeq(s) == IF s = <<>> THEN <<>> ELSE Upper(Head(s)) \o UpperSeq(Tail(s))

Take(s, n) == SubSeq(s, 1, IF Len(s) < n THEN Len(s) ELSE n)

\* re.sub('[^A-Z0-9_]{1}', '_', s)
Subst(s) == [i \in 1..Len(s) |-> IF IsD1(s[i]) THEN s[i] ELSE ChUnder]
NumSub(s) == Cardinality({i \in 1..Len(s) : ~IsD1(s[i])})

\* UTF-8
Utf8Of(c) ==
    IF c < 128 THEN <<c>>
    ELSE IF c < 2048 THEN <<192 + (c \div 64), 128 + (c % 64)>>
    ELSE IF c < 65536 THEN <<224 + (c \div 4096), 128 + ((c \div 64) % 64), 128 + (c % 64)>>
    ELSE <<240 + (c \div 262144), 128 + ((c \div 4096) % 64), 128 + ((c \div 64) % 64), 128 + (c % 64)>>
\* (divide and conquer: the recursion depth stays logarithmic for 255-character names)
RECURSIVE Utf8Rec(_)
Utf8Rec(s) ==
    IF Len(s) = 0 THEN <<>>
    ELSE IF Len(s) = 1 THEN Utf8Of(s[1])
    ELSE LET h == Len(s) \div 2 IN Utf8Rec(SubSeq(s, 1, h)) \o Utf8Rec(SubSeq(s, h + 1, Len(s)))
Utf8(s) == IF \A i \in 1..Len(s) : s[i] < 128 THEN s ELSE Utf8Rec(s)

(***************************************************************************)
(* The helpers, as implemented                                             *)
(***************************************************************************)
MaxBase(lvl, isdir) == IF lvl = 1 THEN 8 ELSE IF isdir THEN 31 ELSE 30

\* utils.truncate_basename: basename[:maxlen].upper()[:maxlen], then substitute - truncate,
\* upper-case, truncate AGAIN (upper-casing may lengthen the string), substitute 1:1
TruncBase(s, lvl, isdir) ==
    IF lvl = 4 THEN s
    ELSE LET m == MaxBase(lvl, isdir) IN Subst(Take(UpperSeq(Take(s, m)), m))

\* orig.split('.'): ext is what follows the last dot, base what precedes it
\* (orig[:len(orig) - len(ext) - 1])
ExtOf(s)  == LET d == LastIndexOf(s, DOT) IN SubSeq(s, d + 1, Len(s))
BaseOf(s) == LET d == LastIndexOf(s, DOT) IN SubSeq(s, 1, d - 1)

VerOne == <<SEMI, 49>>     \* ";1"

\* orig.replace(';', '_'): level 4 allows anything but the separator of the version
NoSemi(s) == [i \in 1..Len(s) |-> IF s[i] = SEMI THEN ChUnder ELSE s[i]]

\* utils.mangle_file_for_iso9660 -> <<basename, extension>>
\*  level 4: ';' replaced, then split at the last dot, nothing else
\*  levels 1-3: the extension is kept iff it has 1..3 characters, its upper-casing has at most
\*  3 and needs no substitution; otherwise it is part of the base name.  The base name goes
\*  through truncate_basename; at levels 2 and 3 it is then cut to 30 - len(extension).
MangleFileParts(orig, lvl) ==
    IF lvl = 4
    THEN LET o4 == NoSemi(orig)
         IN IF ~Has(o4, DOT) THEN <<o4, <<>> >> ELSE <<BaseOf(o4), ExtOf(o4)>>
    ELSE LET ext      == ExtOf(orig)
             tmpext   == UpperSeq(ext)
             extok    == /\ Has(orig, DOT)
                         /\ Len(ext) # 0 /\ Len(ext) <= 3
                         /\ NumSub(tmpext) = 0 /\ Len(tmpext) <= 3
             validext == IF extok THEN tmpext ELSE <<>>       \* (no substitution: Subst is the identity)
             basename == IF extok THEN BaseOf(orig) ELSE orig
             vb       == TruncBase(basename, lvl, FALSE)
         IN <<IF lvl \in {2, 3} THEN Take(vb, 30 - Len(validext)) ELSE vb, validext \o VerOne>>

\* facade.iso_path_to_rr_name / _rr_path_to_iso_path_and_rr_name: '.'.join([basename, ext])
JoinFacade(p) == p[1] \o <<DOT>> \o p[2]
\* pycdlib-genisoimage: no dot when the extension is empty
JoinGeniso(p) == IF p[2] = <<>> THEN p[1] ELSE p[1] \o <<DOT>> \o p[2]

MangleFile(s, lvl)  == JoinFacade(MangleFileParts(s, lvl))
MangleFileG(s, lvl) == JoinGeniso(MangleFileParts(s, lvl))
MangleDir(s, lvl)   == TruncBase(s, lvl, TRUE)     \* utils.mangle_dir_for_iso9660

\* the identifiers derived for a source name: one for a directory, the two joins for a file
Derived(s, lvl, kind) ==
    IF kind = "dir" THEN <<MangleDir(s, lvl)>> ELSE <<MangleFile(s, lvl), MangleFileG(s, lvl)>>

(***************************************************************************)
(* Clauses, on a source name s and ONE derived identifier out (code        *)
(* points) - the model's or the one the real helper returned.              *)
(***************************************************************************)
\* "." and ".." cannot be addressed as a path component (the path API reads them as self and
\* parent): as an identifier to be offered to an edit they are illegal
IsDotName(idt) == idt = <<DOT>> \/ idt = <<DOT, DOT>>
Legality(idt, lvl, kind) ==
    IF IsDotName(idt) THEN "illegal"
    ELSE IF kind = "dir" THEN IsoDirLegality(Utf8(idt), lvl) ELSE IsoFileLegality(Utf8(idt), lvl)

\* a source name is a path component: not empty, not "." or "..", no separator, no NUL
IsSourceName(s) == s # <<>> /\ s # <<DOT>> /\ s # <<DOT, DOT>> /\ ~Has(s, SLASH) /\ ~Has(s, 0)

MangledIsLegal(out, lvl, kind) == Legality(out, lvl, kind) # "illegal"

\* ECMA-119 7.5.2/7.6.3 and 10.2: at levels 2 and 3 name + extension are at most 30
\* characters, a directory identifier at most 31 (pycdlib's own acceptance is laxer; the
\* helper's documentation states the limit)
FitsLevelLength(idt, lvl, kind) ==
    lvl \in {2, 3} =>
        IF kind = "dir" THEN Len(idt) <= 31
        ELSE LET p == SplitIso(idt) IN Len(p.name) + Len(p.ext) <= 30

\* "already legal": a legal identifier of that level without version (the version is what
\* the helper appends), within the length the level allows
AlreadyLegal(s, lvl, kind) ==
    /\ IsSourceName(s) /\ ~Has(s, SEMI)
    /\ Legality(s, lvl, kind) = "legal"
    /\ FitsLevelLength(s, lvl, kind)

\* equal apart from the appended version: same name, same extension (a file identifier is
\* name "." extension ";" version - "FOO" and "FOO." are the same identifier), version none or 1
SameIdentifier(out, s, kind) ==
    IF kind = "dir" THEN out = s
    ELSE LET a == SplitIso(out)
             b == SplitIso(s)
         IN a.name = b.name /\ a.ext = b.ext /\ a.ver \in {<<>>, <<49>>}

FixpointOnLegal(s, out, lvl, kind) == AlreadyLegal(s, lvl, kind) => SameIdentifier(out, s, kind)

\* levels 1-3: whatever the length, the character set and the version are right
MangledCharsetLegal(out, lvl, kind) ==
    lvl < 4 =>
        IF kind = "dir" THEN AllD1(out)
        ELSE LET p == SplitIso(out) IN AllD1(p.name) /\ AllD1(p.ext) /\ p.ver = <<49>>

(***************************************************************************)
(* Diagnoses ("why" tags, not clauses): they narrow the signature of a     *)
(* finding to its circumstance.                                            *)
(***************************************************************************)
WhyIllegal(s, out, lvl, kind) ==
       (IF lvl = 4 /\ kind = "file" /\ Has(s, SEMI) THEN {"Level4Semicolon"} ELSE {})
  \cup (IF IsDotName(out) THEN {"DotName"} ELSE {})
  \cup (IF out = <<1>> THEN {"ReservedIdentifier"} ELSE {})
  \cup (IF lvl < 4 /\ (IF kind = "dir" THEN Len(out) > MaxBase(lvl, TRUE)
                       ELSE LET p == SplitIso(out) IN
                            Len(p.name) > MaxBase(lvl, FALSE) \/ Len(p.ext) > 3)
        THEN {"LongerThanTruncationLimit"} ELSE {})
WhyNotFixpoint(s, out, lvl, kind) ==
       (IF kind = "file" /\ s # <<>> /\ s[Len(s)] = DOT THEN {"EmptyExtension"} ELSE {})
  \cup (IF kind = "file" /\ Has(s, DOT) /\ Len(ExtOf(s)) > 3 THEN {"ExtensionLongerThan3"} ELSE {})
WhyTooLong(s, out, lvl, kind) ==
       (IF kind = "file" /\ Len(SplitIso(out).name) <= 30 /\ Len(SplitIso(out).ext) <= 3
        THEN {"BaseLimitIgnoresExtension"} ELSE {})
  \cup (IF (IF kind = "dir" THEN Len(out) > 31
            ELSE Len(SplitIso(out).name) > 30 \/ Len(SplitIso(out).ext) > 3)
        THEN {"LongerThanTruncationLimit"} ELSE {})

Tag(c, S)  == {"why:" \o c \o ":" \o w : w \in S}     \* circumstance (cause)
ResT(c, S) == {"res:" \o c \o ":" \o w : w \in S}     \* what the code did instead

\* names of the clauses false on (s, out), each with its diagnoses
MangleFailing(s, out, lvl, kind) ==
       (IF MangledIsLegal(out, lvl, kind) THEN {}
        ELSE {"MangledIsLegal"} \cup Tag("MangledIsLegal", WhyIllegal(s, out, lvl, kind)))
  \cup (IF FitsLevelLength(out, lvl, kind) THEN {}
        ELSE {"MangledFitsLevelLength"} \cup Tag("MangledFitsLevelLength", WhyTooLong(s, out, lvl, kind)))
  \cup (IF FixpointOnLegal(s, out, lvl, kind) THEN {}
        ELSE {"FixpointOnLegal"} \cup Tag("FixpointOnLegal", WhyNotFixpoint(s, out, lvl, kind)))
  \cup (IF MangledCharsetLegal(out, lvl, kind) THEN {} ELSE {"MangledCharsetLegal"})
=============================================================================
