SPECIFICATION Spec
CONSTANTS
 Names <- MCNames
 Blobs <- MCBlobs
 Targets <- MCTargets
 Code <- MCCode
 BlobLen <- MCBlobLen
 MaxEntries = 3
 MaxDepth = 2
 MaxLen = 3
 MaxRefuse = 1
 MaxSched = 0
 MaxGen = 1
 CfgIds = {2}
 UseBlobs = {"z", "o"}
 InPlace = FALSE
 Boot = TRUE
 Modes = {"lazy"}
 Dump = "none"
INVARIANT InvStateOK
ACTION_CONSTRAINT ActionProps
VIEW ViewNoHist
CHECK_DEADLOCK FALSE
