------------------------------- MODULE MC_udf -------------------------------
(***************************************************************************)
(* Explicit model of the UDF namespace of a UDF-bridge image under the     *)
(* edits of the public API (property C10).  The state is the tree the user *)
(* has built: directories, files (blob id), symbolic links (target id),    *)
(* and the link classes that tie UDF names to each other and to ISO9660    *)
(* names.  TLC enumerates the bounded behaviours; every behaviour is       *)
(* printed with the tree the model expects (the oracle of TreeMatches in   *)
(* UdfVolume.tla) and replayed on the real pycdlib by harness/check_C10.py *)
(*                                                                         *)
(* Actions are recorded in the format of harness/driver.py (Session.apply) *)
(*   [a |-> "AddFp" | "AddDir" | "AddSymlink" | "AddHardLink" | "RmFile" | *)
(*          "RmHardLink" | "RmDir" | "Reopen" | "Fill", ...,               *)
(*    x |-> "ok" | "refuse", why |-> reason, exp |-> expected tree after]  *)
(* Paths are sequences of name ids; NoPath = <<"-">>.                      *)
(*                                                                         *)
(* Name pool (realised by check_C10.py):                                   *)
(*   a  ASCII, e  Latin-1 (one byte per character, compression id 8),      *)
(*   u  needs UCS-2 (compression id 16), d ASCII (used for directories),   *)
(*   L1..L7, K1..K7  250-character Latin-1 names: a file identifier        *)
(*      descriptor of 292 bytes; parent (40) + 7 * 292 = 2084 > 2048, so   *)
(*      the directory's descriptors cross a sector boundary,               *)
(*   M  217 characters: 256 bytes; 40 + 6*292 + 256 = 2048 exactly,        *)
(*   X  255 Latin-1 characters: does not fit the 8-bit identifier length.  *)
(* Blobs: z 0 bytes, o 1, s 2048, t 2049.                                  *)
(***************************************************************************)
EXTENDS Naturals, Sequences, FiniteSets, TLC, Json

CONSTANTS Names,       \* regular name ids used for new entries, subset of {"a","e","u","d"}
          Blobs,       \* subset of {"z","o","s","t"}
          Targets,     \* symlink target ids
          IsoIds,      \* ISO9660 file name ids (files in the ISO9660 root), e.g. {"i1","i2"}
          FillKinds,   \* subset of {"cross","exact","two"}
          MaxDepth,    \* depth of UDF paths
          MaxEntries,  \* entries in the UDF tree (fill entries not counted)
          MaxLen,      \* calls per behaviour
          MaxRefuse,   \* calls that must be refused per behaviour
          MaxGen,      \* reopen generations
          Dump         \* "none" | "all" (every behaviour) | "final" (behaviours of length MaxLen)

VARIABLES tree,    \* [path -> [k, b, t, c]]   k: "dir" | "file" | "sym"; c: link class (0 for dirs)
          iso,     \* [iso id -> [b, c]]       ISO9660 names that exist
          used,    \* iso ids ever used (never reused)
          ncls,    \* next link class
          gen,     \* reopen generation
          nref,    \* refused calls so far
          filled,  \* a Fill was done
          h        \* history

vars == <<tree, iso, used, ncls, gen, nref, filled, h>>

NoPath == <<"-">>
FillSeq(kind) ==
    CASE kind = "cross" -> <<"L1", "L2", "L3", "L4", "L5", "L6", "L7">>
      [] kind = "exact" -> <<"L1", "L2", "L3", "L4", "L5", "L6", "M">>
      [] kind = "two"   -> <<"L1", "L2", "L3", "L4", "L5", "L6", "L7",
                             "K1", "K2", "K3", "K4", "K5", "K6", "K7">>
FillNames == {"L1", "L2", "L3", "L4", "L5", "L6", "L7", "M", "K1", "K2", "K3", "K4", "K5", "K6", "K7"}
\* fill entries that may be removed individually (the first one shifts every later descriptor)
RemovableFill == {"L1", "L7"}

Range(s) == {s[k] : k \in DOMAIN s}
Parent(p) == SubSeq(p, 1, Len(p) - 1)
Last(p) == p[Len(p)]
Paths == UNION {[1..n -> Names] : n \in 1..MaxDepth}

IsDir(t, p) == p = <<>> \/ (p \in DOMAIN t /\ t[p].k = "dir")
Children(t, p) == {q \in DOMAIN t : Len(q) = Len(p) + 1 /\ Parent(q) = p}
Free(t) == {p \in Paths : p \notin DOMAIN t /\ IsDir(t, Parent(p))}
Regular(t) == {p \in DOMAIN t : Last(p) \notin FillNames}
Room(t) == Cardinality(Regular(t)) < MaxEntries
Dirs(t) == {<<>>} \cup {p \in DOMAIN t : t[p].k = "dir"}
Editable(t) == {p \in DOMAIN t : Last(p) \notin FillNames \/ Last(p) \in RemovableFill}

Put(t, p, e) == [q \in DOMAIN t \cup {p} |-> IF q = p THEN e ELSE t[q]]
Drop(t, S) == [q \in DOMAIN t \ S |-> t[q]]
PutIso(i, id, e) == [q \in DOMAIN i \cup {id} |-> IF q = id THEN e ELSE i[q]]

\* the expected tree as a set of records (ToJson cannot print functions keyed by sequences;
\* a set is printed as a JSON array)
TreeSeq(t) == {[p |-> p, k |-> t[p].k, b |-> t[p].b, t |-> t[p].t] : p \in DOMAIN t}

EmptyTree == [p \in {} |-> 0]

Init == /\ tree = EmptyTree
        /\ iso = [x \in {} |-> 0]
        /\ used = {}
        /\ ncls = 1
        /\ gen = 0
        /\ nref = 0
        /\ filled = FALSE
        /\ h = <<>>

\* append an accepted call to the history, with the tree expected after it
Log(a, t) == h' = Append(h, a @@ [x |-> "ok", exp |-> TreeSeq(t)])

\* one unused ISO9660 name (TLC's CHOOSE is deterministic)
NextIso == IF IsoIds \ used = {} THEN {} ELSE {CHOOSE i \in IsoIds \ used : TRUE}

\* ---- accepted edits ------------------------------------------------------
\* add_fp(udf_path=p) with or without an ISO9660 name of the same content
AddFile == /\ Room(tree)
           /\ \E p \in Free(tree), b \in Blobs, ip \in {NoPath} \cup {<<i>> : i \in NextIso} :
                \E t2 \in {Put(tree, p, [k |-> "file", b |-> b, t |-> "-", c |-> ncls])} :
                  /\ tree' = t2
                  /\ iso' = IF ip = NoPath THEN iso ELSE PutIso(iso, ip[1], [b |-> b, c |-> ncls])
                  /\ used' = IF ip = NoPath THEN used ELSE used \cup {ip[1]}
                  /\ ncls' = ncls + 1
                  /\ Log([a |-> "AddFp", blob |-> b, iso |-> ip, udf |-> p], t2)
           /\ UNCHANGED <<gen, nref, filled>>

\* add_fp(iso_path=...) only: a file that has no UDF name (yet)
AddIsoFile == /\ \E i \in NextIso, b \in Blobs :
                   /\ iso' = PutIso(iso, i, [b |-> b, c |-> ncls])
                   /\ used' = used \cup {i}
                   /\ ncls' = ncls + 1
                   /\ Log([a |-> "AddFp", blob |-> b, iso |-> <<i>>, udf |-> NoPath], tree)
              /\ UNCHANGED <<tree, gen, nref, filled>>

AddDir == /\ Room(tree)
          /\ \E p \in Free(tree) :
               \E t2 \in {Put(tree, p, [k |-> "dir", b |-> "-", t |-> "-", c |-> 0])} :
                 /\ tree' = t2
                 /\ Log([a |-> "AddDir", iso |-> NoPath, udf |-> p], t2)
          /\ UNCHANGED <<iso, used, ncls, gen, nref, filled>>

AddSymlink == /\ Room(tree)
              /\ \E p \in Free(tree), tg \in Targets :
                   \E t2 \in {Put(tree, p, [k |-> "sym", b |-> "-", t |-> tg, c |-> ncls])} :
                     /\ tree' = t2
                     /\ ncls' = ncls + 1
                     /\ Log([a |-> "AddSymlink", iso |-> NoPath, jol |-> NoPath, udf |-> p, t |-> tg], t2)
              /\ UNCHANGED <<iso, used, gen, nref, filled>>

\* add_hard_link(udf_old_path=q, udf_new_path=p)
AddHardLinkUdf == /\ Room(tree)
                  /\ \E q \in {x \in Regular(tree) : tree[x].k = "file"}, p \in Free(tree) :
                       \E t2 \in {Put(tree, p, tree[q])} :
                         /\ tree' = t2
                         /\ Log([a |-> "AddHardLink", ons |-> "udf", old |-> q, nns |-> "udf", new |-> p], t2)
                  /\ UNCHANGED <<iso, used, ncls, gen, nref, filled>>

\* add_hard_link(iso_old_path=i, udf_new_path=p)
AddHardLinkIso == /\ Room(tree)
                  /\ \E i \in DOMAIN iso, p \in Free(tree) :
                       \E t2 \in {Put(tree, p, [k |-> "file", b |-> iso[i].b, t |-> "-", c |-> iso[i].c])} :
                         /\ tree' = t2
                         /\ Log([a |-> "AddHardLink", ons |-> "iso", old |-> <<i>>, nns |-> "udf", new |-> p], t2)
                  /\ UNCHANGED <<iso, used, ncls, gen, nref, filled>>

\* rm_file(udf_path=p): the content and every name of it, in both namespaces.
\* Not enumerated for zero-length files after a reopen: an image does not record which empty
\* files are links of each other (they own no sectors), so which names rm_file takes along is
\* not determined by what the user built (PyCdlibModel.tla allows either; property C07).
\* rm_hard_link of such names stays in.
RmFile == /\ \E p \in {x \in Editable(tree) : tree[x].k = "file" /\ ~(tree[x].b = "z" /\ gen > 0)} :
               \E t2 \in {Drop(tree, {q \in DOMAIN tree : tree[q].c = tree[p].c})} :
                 /\ tree' = t2
                 /\ iso' = [i \in {j \in DOMAIN iso : iso[j].c # tree[p].c} |-> iso[i]]
                 /\ Log([a |-> "RmFile", ns |-> "udf", p |-> p], t2)
          /\ UNCHANGED <<used, ncls, gen, nref, filled>>

\* rm_hard_link(udf_path=p): this name only
RmHardLink == /\ \E p \in {x \in Editable(tree) : tree[x].k \in {"file", "sym"}} :
                   \E t2 \in {Drop(tree, {p})} :
                     /\ tree' = t2
                     /\ Log([a |-> "RmHardLink", ns |-> "udf", p |-> p], t2)
              /\ UNCHANGED <<iso, used, ncls, gen, nref, filled>>

\* rm_directory(udf_path=p): an empty directory
RmDir == /\ \E p \in {x \in DOMAIN tree : tree[x].k = "dir" /\ Children(tree, x) = {}} :
              \E t2 \in {Drop(tree, {p})} :
                /\ tree' = t2
                /\ Log([a |-> "RmDir", iso |-> NoPath, udf |-> p], t2)
         /\ UNCHANGED <<iso, used, ncls, gen, nref, filled>>

\* write the image, open it again, go on editing
Reopen == /\ gen < MaxGen
          /\ gen' = gen + 1
          /\ Log([a |-> "Reopen"], tree)
          /\ UNCHANGED <<tree, iso, used, ncls, nref, filled>>

\* many long names in one directory (one add_fp per name, 1-byte files, one class each)
Fill == /\ ~filled
        /\ \E kind \in FillKinds, d \in Dirs(tree) :
             /\ Len(d) < MaxDepth
             /\ \E ns \in {FillSeq(kind)} :
                \E t2 \in {[q \in DOMAIN tree \cup {Append(d, ns[k]) : k \in DOMAIN ns} |->
                              IF q \in DOMAIN tree THEN tree[q]
                              ELSE [k |-> "file", b |-> "o", t |-> "-",
                                    c |-> ncls + (CHOOSE k \in DOMAIN ns : ns[k] = Last(q)) - 1]]} :
                  /\ tree' = t2
                  /\ ncls' = ncls + Len(ns)
                  /\ Log([a |-> "Fill", udf |-> d, names |-> ns, blob |-> "o"], t2)
        /\ filled' = TRUE
        /\ UNCHANGED <<iso, used, gen, nref>>

\* ---- calls that must be refused (one representative per reason) ---------
One(S) == IF S = {} THEN {} ELSE {CHOOSE p \in S : TRUE}

Refusals ==
    LET reg == Regular(tree)
        files == {p \in reg : tree[p].k = "file"}
        dirs == {p \in reg : tree[p].k = "dir"}
        full == {p \in dirs : Children(tree, p) # {}}
        anyb == CHOOSE b \in Blobs : TRUE
    IN  {[a |-> "AddFp", blob |-> anyb, iso |-> NoPath, udf |-> p, why |-> "dup-file"] : p \in One(files)}
   \cup {[a |-> "AddFp", blob |-> anyb, iso |-> NoPath, udf |-> p, why |-> "dup-file-on-dir"] : p \in One(dirs)}
   \cup {[a |-> "AddDir", iso |-> NoPath, udf |-> p, why |-> "dup-dir"] : p \in One(dirs)}
   \cup {[a |-> "AddDir", iso |-> NoPath, udf |-> p, why |-> "dup-dir-on-file"] : p \in One(files)}
   \cup {[a |-> "RmDir", iso |-> NoPath, udf |-> p, why |-> "rmdir-not-empty"] : p \in One(full)}
   \cup {[a |-> "RmDir", iso |-> NoPath, udf |-> p, why |-> "rmdir-on-file"] : p \in One(files)}
   \cup {[a |-> "RmFile", ns |-> "udf", p |-> p, why |-> "rmfile-on-dir"] : p \in One(dirs)}
   \cup {[a |-> "RmHardLink", ns |-> "udf", p |-> p, why |-> "rmlink-on-dir"] : p \in One(dirs)}
   \cup {[a |-> "RmFile", ns |-> "udf", p |-> p, why |-> "rmfile-missing"] : p \in One(Free(tree))}
   \* (offered while the tree is small: the outcome does not depend on the rest of the tree)
   \cup {[a |-> "AddFp", blob |-> anyb, iso |-> NoPath, udf |-> <<"X">>, why |-> "name-too-long"] :
             p \in {q \in {1} : Cardinality(DOMAIN tree) <= 1}}

Refuse == /\ nref < MaxRefuse
          /\ \E a \in Refusals : h' = Append(h, a @@ [x |-> "refuse", exp |-> TreeSeq(tree)])
          /\ nref' = nref + 1
          /\ UNCHANGED <<tree, iso, used, ncls, gen, filled>>

Next == /\ Len(h) < MaxLen
        /\ \/ AddFile \/ AddIsoFile \/ AddDir \/ AddSymlink \/ AddHardLinkUdf \/ AddHardLinkIso
           \/ RmFile \/ RmHardLink \/ RmDir \/ Reopen \/ Fill \/ Refuse

Spec == Init /\ [][Next]_vars

\* ---- design-level invariants of the model ---------------------------------
\* every entry has its parent directory; classes tie equal content; ISO names are from the pool
TreeOK == /\ \A p \in DOMAIN tree : IsDir(tree, Parent(p))
          /\ \A p, q \in DOMAIN tree : (tree[p].c = tree[q].c /\ tree[p].c # 0) => tree[p] = tree[q]
          /\ \A p \in DOMAIN tree, i \in DOMAIN iso : tree[p].c = iso[i].c => tree[p].b = iso[i].b
          /\ DOMAIN iso \subseteq used /\ used \subseteq IsoIds
          /\ \A p \in DOMAIN tree : tree[p].c < ncls
\* the expected tree logged with the last call is the tree of the state
LogOK == h # <<>> => h[Len(h)].exp = {[p |-> p, k |-> tree[p].k, b |-> tree[p].b, t |-> tree[p].t] : p \in DOMAIN tree}

\* ---- behaviour output -------------------------------------------------------
\* h is part of the state: every behaviour prefix is a distinct state, printed once.
DumpHist == /\ (Dump = "all" /\ h # <<>>) => PrintT(<<"HIST", ToJson(h)>>)
            /\ (Dump = "final" /\ Len(h) = MaxLen) => PrintT(<<"HIST", ToJson(h)>>)
=============================================================================
