------------------------------ MODULE JudgeLoop ------------------------------
(***************************************************************************)
(* Generic observation judge.  A property module defines Failing(item),    *)
(* the set of names of the clauses that are false on one observation; this *)
(* module walks the observations read from the JSON document named by env  *)
(* OBS_FILE ({"items": [...]}, every item has a string field "id") and     *)
(* prints one line per observation with failing clauses:                   *)
(*     <<"DIAG", "{\"id\":...,\"clauses\":[...]}">>                          *)
(* and one "DONE" line with the number of observations judged.             *)
(* TLC evaluates the clauses; Python only computes the observations.       *)
(***************************************************************************)
EXTENDS Naturals, Sequences, FiniteSets, TLC, Json, IOUtils

CONSTANT Failing(_)

Items == JsonDeserialize(IOEnv.OBS_FILE).items

VARIABLE i

JInit == i = 0
JNext == /\ i <= Len(Items)
         /\ IF i = Len(Items)
            THEN PrintT(<<"DONE", ToJson([n |-> i])>>)
            ELSE \E f \in {Failing(Items[i + 1])} :
                   f # {} => PrintT(<<"DIAG", ToJson([id |-> Items[i + 1].id, clauses |-> f])>>)
         /\ i' = i + 1
JSpec == JInit /\ [][JNext]_i
=============================================================================
