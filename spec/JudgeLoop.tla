------------------------------ MODULE JudgeLoop ------------------------------
(***************************************************************************)
(* Generic observation judge.  A property module defines Failing(item),    *)
(* the set of names of the clauses that are false on one observation; this *)
(* module walks the observations read from the JSON document named by env  *)
(* OBS_FILE ({"items": [...]}, every item has a string field "id") and     *)
(* prints one line per observation with failing clauses:                   *)
(*     <<"DIAG", "{\"id\":...,\"clauses\":[...]}">>                          *)
(* and one "DONE" line with the number of observations judged.             *)
(* TLC evaluates the clauses; Python only computes the observations.       *)
(***************************************************************************)
EXTENDS Naturals, Sequences, FiniteSets, TLC, Json, IOUtils

CONSTANT Failing(_)

\* JsonDeserialize is re-evaluated on every use; parse once into a TLC register
\* (TLCSet in the initial predicate; judges run with -workers 1).
Items == TLCGet(1)

VARIABLE i

JInit == i = 0 /\ TLCSet(1, JsonDeserialize(IOEnv.OBS_FILE).items)
JNext == \E items \in {Items} :
         /\ i <= Len(items)
         /\ IF i = Len(items)
            THEN PrintT(<<"DONE", ToJson([n |-> i])>>)
            ELSE \E f \in {Failing(items[i + 1])} :
                   f # {} => PrintT(<<"DIAG", ToJson([id |-> items[i + 1].id, clauses |-> f])>>)
         /\ i' = i + 1
JSpec == JInit /\ [][JNext]_i
=============================================================================
