---------------------------- MODULE PyCdlibModel ----------------------------
(***************************************************************************)
(* Abstract state machine of one PyCdlib object.                           *)
(*                                                                         *)
(* The state is the *abstract image*: one tree per namespace (ISO9660 with *)
(* its Rock Ridge names, Joliet, UDF), the contents (inodes) the names     *)
(* refer to, the El Torito catalog, the hybrid parameters and the number   *)
(* of primary descriptors.  Every public call is one action; a call is     *)
(* either accepted (the transition function says what the image must be    *)
(* afterwards) or refused (the image is unchanged).                        *)
(*                                                                         *)
(* The transition function is written functionally (Step(st, a) returns    *)
(* the outcome) so that the same definitions drive                         *)
(*   - bounded model checking  (MC_*.tla: Next picks the action), and      *)
(*   - trace validation        (Trace_Model.tla: the action is the logged  *)
(*     one and the successor is compared with the logged projection).      *)
(***************************************************************************)
EXTENDS Naturals, Sequences, FiniteSets, TLC, NameRules

CONSTANTS Names,      \* name ids (strings)
          Blobs,      \* content ids (strings)
          Targets,    \* symlink target ids (strings)
          Code,       \* [Names -> [iso, rr, jol, udf : Seq(Nat)]] concrete identifiers
          BlobLen     \* [Blobs -> Nat]

NoPath == <<"-">>                 \* "this namespace was not addressed"
Root   == <<>>
Parent(p) == SubSeq(p, 1, Len(p) - 1)
NSs == {"iso", "jol", "udf"}

\* El Torito: catino = inode of the boot catalog (content id "cat"), entries = inodes of the boot
\* files of the initial entry and the section entries, in order
NoElt == [on |-> FALSE, catino |-> 0, entries |-> <<>>]
NoHyb == [on |-> FALSE]

Entry(k, i, h, t) == [k |-> k, ino |-> i, h |-> h, t |-> t]

EmptyTree == [p \in {} |-> Entry("dir", 0, FALSE, "")]

Uninit == [phase |-> "uninit",
           cfg |-> [level |-> 1, joliet |-> 0, rr |-> "", udf |-> FALSE, xa |-> FALSE],
           mode |-> "lazy",
           iso |-> EmptyTree, jol |-> EmptyTree, udf |-> EmptyTree,
           blob |-> [i \in {} |-> ""],
           grp |-> [i \in {} |-> 0],      \* inodes that were one link class before the last reopen
           elt |-> NoElt, hyb |-> NoHyb, npvd |-> 1, gen |-> 0,
           dirty |-> FALSE]    \* edits since the image was created/opened (not yet in a backing file)

(***************************************************************************)
(* Trees                                                                   *)
(***************************************************************************)
IsDir(t, p)  == p = Root \/ (p \in DOMAIN t /\ t[p].k = "dir")
Exists(t, p) == p = Root \/ p \in DOMAIN t
Children(t, p) == {q \in DOMAIN t : Len(q) = Len(p) + 1 /\ Parent(q) = p}
Put(t, p, e) == [q \in DOMAIN t \cup {p} |-> IF q = p THEN e ELSE t[q]]
Del(t, ps)   == [q \in DOMAIN t \ ps |-> t[q]]

(***************************************************************************)
(* The readers, as functions of a tree (bound to the code by Trace_Model:  *)
(* the Tree_walk_.. and Tree_fullpath_.. clauses).                         *)
(*   walk(<ns>_path='/') yields one triple per directory: the directory,   *)
(*   the names of its sub-directories, the names of everything else.       *)
(*   full_path_from_dirrecord(get_record(p)) names the object found at p.  *)
(***************************************************************************)
DirsOf(t) == {Root} \cup {p \in DOMAIN t : t[p].k = "dir"}
WalkOf(t) == {<<d, {q[Len(q)] : q \in {c \in Children(t, d) : t[c].k = "dir"}},
                   {q[Len(q)] : q \in {c \in Children(t, d) : t[c].k # "dir"}}>> : d \in DirsOf(t)}
WalkMentions(w) == UNION {{x[1] \o <<n>> : n \in x[2] \cup x[3]} : x \in w}
\* every entry is listed by exactly the walk triple of its parent (a consequence of TreeClosed)
WalkCoversTree(t) == WalkMentions(WalkOf(t)) = DOMAIN t
\* q is an admissible answer of full_path_from_dirrecord for the record found at p: the path itself;
\* a UDF File Entry that several names share (hard links) may answer with any name of that content
SameObject(t, udfns, p, q) ==
    /\ p \in DOMAIN t /\ q \in DOMAIN t
    /\ IF udfns /\ t[p].k = "file" /\ t[p].ino # 0
       THEN t[q].k = "file" /\ t[q].ino = t[p].ino
       ELSE q = p

HasNs(st, ns) == CASE ns = "iso" -> TRUE
                   [] ns = "jol" -> st.cfg.joliet # 0
                   [] ns = "udf" -> st.cfg.udf
                   [] ns = "rrv" -> st.cfg.rr # ""
Tree(st, ns) == CASE ns = "iso" -> st.iso [] ns = "rrv" -> st.iso
                  [] ns = "jol" -> st.jol [] ns = "udf" -> st.udf
WithTree(st, ns, t) == CASE ns = "iso" -> [st EXCEPT !.iso = t]
                         [] ns = "rrv" -> [st EXCEPT !.iso = t]
                         [] ns = "jol" -> [st EXCEPT !.jol = t]
                         [] ns = "udf" -> [st EXCEPT !.udf = t]

(***************************************************************************)
(* Contents and link structure (derived, never stored twice)               *)
(***************************************************************************)
EltInos(st) == IF st.elt.on THEN {st.elt.entries[i] : i \in 1..Len(st.elt.entries)} \cup {st.elt.catino} ELSE {}
BootInos(st) == IF st.elt.on THEN {st.elt.entries[i] : i \in 1..Len(st.elt.entries)} ELSE {}
NameRefs(st, i) == {<<ns, p>> \in NSs \X (DOMAIN st.iso \cup DOMAIN st.jol \cup DOMAIN st.udf) :
                       p \in DOMAIN Tree(st, ns) /\ Tree(st, ns)[p].ino = i}
Live(st, i) == NameRefs(st, i) # {} \/ i \in EltInos(st)
\* content lives exactly as long as something refers to it
GC(st) == [st EXCEPT !.blob = [i \in {j \in DOMAIN st.blob : Live(st, j)} |-> st.blob[i]],
                      !.grp  = [i \in {j \in DOMAIN st.blob : Live(st, j)} |-> st.grp[i]]]
FreshIno(st) == CHOOSE i \in 1..(Cardinality(DOMAIN st.blob) + 1) :
                   i \notin DOMAIN st.blob /\ \A j \in 1..(i - 1) : j \in DOMAIN st.blob

(***************************************************************************)
(* Outcomes                                                                *)
(***************************************************************************)
\* acc: the state after an accepted call; alt: a second admissible state where the statement
\* leaves a choice (equal to acc otherwise)
Ok(st)          == [out |-> "ok", why |-> "", acc |-> st, alt |-> st]
Ok2(st, st2)    == [out |-> "ok", why |-> "", acc |-> st, alt |-> st2]
Either(st, why) == [out |-> "either", why |-> why, acc |-> st, alt |-> st]
Refuse(why)     == [out |-> "refuse", why |-> why, acc |-> Uninit, alt |-> Uninit]

\* combine legality verdicts: any "illegal" refuses, else any "silent" is either
Worst(vs) == IF "illegal" \in vs THEN "illegal" ELSE IF "silent" \in vs THEN "silent" ELSE "legal"

(***************************************************************************)
(* Why an entry cannot be added at path p of namespace ns ("" = it can).   *)
(* A reason starting with "~" marks the silent zone.                       *)
(***************************************************************************)
\* legality tables: constant-level, evaluated once by TLC
IsoFileTbl == [n \in Names |-> [l \in 1..4 |-> IsoFileLegality(Code[n].iso, l)]]
IsoDirTbl  == [n \in Names |-> [l \in 1..4 |-> IsoDirLegality(Code[n].iso, l)]]
JolTbl     == [n \in Names |-> JolietLegality(Code[n].jol)]
UdfTbl     == [n \in Names |-> UdfLegality(Code[n].udf)]
LvlFileTbl == [n \in Names |-> LevelFromFile(Code[n].iso)]
LvlDirTbl  == [n \in Names |-> LevelFromDir(Code[n].iso)]

Legality(st, ns, n, kind) ==
    CASE ns = "iso" -> IF kind = "dir" THEN IsoDirTbl[n][st.cfg.level] ELSE IsoFileTbl[n][st.cfg.level]
      [] ns = "jol" -> JolTbl[n]
      [] ns = "udf" -> UdfTbl[n]

\* ECMA-119 6.8.2.1: at most eight levels, unless Rock Ridge or the 1999 descriptor lift it
TooDeep(st, ns, p) == ns = "iso" /\ st.cfg.rr = "" /\ st.cfg.level < 4 /\ Len(p) > 7

\* Rock Ridge lifts the limit by relocating the ninth level (RRIP 4.1.5.1-3): the ISO9660 tree then
\* differs from the logical one.  Relocation has its own model (Susp.tla, C08); here an entry
\* that deep is outside the abstract image.
Relocated(st, ns, p) == ns = "iso" /\ st.cfg.rr # "" /\ Len(p) > 7

AddWhy(st, ns, p, kind) ==
    IF ~HasNs(st, ns) THEN ns \o "_no_such_namespace"
    ELSE IF p = Root THEN ns \o "_root"
    ELSE IF ~IsDir(Tree(st, ns), Parent(p)) THEN ns \o "_missing_parent"
    ELSE IF Legality(st, ns, p[Len(p)], kind) = "illegal" THEN ns \o "_illegal_name"
    ELSE IF TooDeep(st, ns, p) THEN ns \o "_too_deep"
    ELSE IF Relocated(st, ns, p) THEN "!relocation"
    ELSE IF p \in DOMAIN Tree(st, ns) THEN ns \o "_duplicate"
    ELSE IF Legality(st, ns, p[Len(p)], kind) = "silent" THEN "~" \o ns \o "_silent_name"
    ELSE ""

Soft(w) == w \in {"~iso_silent_name", "~jol_silent_name", "~udf_silent_name", "~last_catalog_name"}
\* first definite reason, else first silent one, else ""
FirstWhy(ws) ==
    LET hard == SelectSeq(ws, LAMBDA w : w # "" /\ ~Soft(w))
        soft == SelectSeq(ws, LAMBDA w : w # "")
    IN IF hard # <<>> THEN hard[1] ELSE IF soft # <<>> THEN soft[1] ELSE ""

Decide(why, acc) ==
    IF why = "" THEN Ok(acc)
    ELSE IF why = "!relocation" THEN [out |-> "unsupported", why |-> "relocation", acc |-> acc, alt |-> acc]
    ELSE IF Soft(why) THEN Either(acc, why)
    ELSE Refuse(why)

Given(p) == p # NoPath

(***************************************************************************)
(* Actions                                                                 *)
(***************************************************************************)
\* new() refuses a configuration it does not know (some of it only while the descriptors are being
\* created): the object stays without an image and can be given another one
LegalCfg(cfg) == /\ cfg.level \in 1..4 /\ cfg.joliet \in 0..3 /\ cfg.rr \in {"", "1.09", "1.10", "1.12"}
NewF(st, cfg, mode) ==
    IF st.phase # "uninit" THEN Refuse("bad_state")
    ELSE IF ~LegalCfg(cfg) THEN Refuse("bad_cfg")
    ELSE Ok([Uninit EXCEPT !.phase = "live", !.cfg = cfg, !.mode = mode])

CloseF(st) ==
    IF st.phase # "live" THEN Refuse("bad_state") ELSE Ok(Uninit)

\* ECMA-119 6.5.1 / 10.3: below interchange level 3 a file is one extent, so less than 4 GiB; at
\* level 3 and 4 a larger file becomes several records with the same identifier (which is the one
\* lawful repetition of an identifier - it is still one entry of the directory).  BlobLen is
\* capped at 2^31-1 for such contents (TLC integers).
IsHuge(b) == b \in DOMAIN BlobLen /\ BlobLen[b] >= 2147483647

AddFpF(st, b, ip, jp, up) ==
    IF st.phase # "live" THEN Refuse("bad_state")
    ELSE IF ~Given(ip) /\ ~Given(jp) /\ ~Given(up) THEN Refuse("no_path")
    ELSE
      LET why == FirstWhy(<<IF IsHuge(b) /\ st.cfg.level < 3 THEN "too_big_for_level" ELSE "",
                            IF Given(ip) THEN AddWhy(st, "iso", ip, "file") ELSE "",
                            IF Given(jp) THEN AddWhy(st, "jol", jp, "file") ELSE "",
                            IF Given(up) THEN AddWhy(st, "udf", up, "file") ELSE "">>)
          i   == FreshIno(st)
          e   == Entry("file", i, FALSE, "")
          s1  == IF Given(ip) THEN [st EXCEPT !.iso = Put(st.iso, ip, e)] ELSE st
          s2  == IF Given(jp) THEN [s1 EXCEPT !.jol = Put(s1.jol, jp, e)] ELSE s1
          s3  == IF Given(up) THEN [s2 EXCEPT !.udf = Put(s2.udf, up, e)] ELSE s2
      IN Decide(why, [s3 EXCEPT !.blob = [j \in DOMAIN st.blob \cup {i} |->
                                            IF j = i THEN b ELSE st.blob[j]],
                                !.grp  = [j \in DOMAIN st.blob \cup {i} |->
                                            IF j = i THEN i ELSE st.grp[j]]])

AddDirF(st, ip, jp, up) ==
    IF st.phase # "live" THEN Refuse("bad_state")
    ELSE IF ~Given(ip) /\ ~Given(jp) /\ ~Given(up) THEN Refuse("no_path")
    ELSE
      LET why == FirstWhy(<<IF Given(ip) THEN AddWhy(st, "iso", ip, "dir") ELSE "",
                            IF Given(jp) THEN AddWhy(st, "jol", jp, "dir") ELSE "",
                            IF Given(up) THEN AddWhy(st, "udf", up, "dir") ELSE "">>)
          e   == Entry("dir", 0, FALSE, "")
          s1  == IF Given(ip) THEN [st EXCEPT !.iso = Put(st.iso, ip, e)] ELSE st
          s2  == IF Given(jp) THEN [s1 EXCEPT !.jol = Put(s1.jol, jp, e)] ELSE s1
          s3  == IF Given(up) THEN [s2 EXCEPT !.udf = Put(s2.udf, up, e)] ELSE s2
      IN Decide(why, s3)

RmWhy(st, ns, p) ==   \* why directory p of ns cannot be removed
    IF ~HasNs(st, ns) THEN ns \o "_no_such_namespace"
    ELSE IF p = Root THEN ns \o "_root"
    ELSE IF p \notin DOMAIN Tree(st, ns) THEN ns \o "_missing"
    ELSE IF Tree(st, ns)[p].k # "dir" THEN ns \o "_wrong_kind"
    ELSE IF Children(Tree(st, ns), p) # {} THEN ns \o "_not_empty"
    ELSE ""

RmDirF(st, ip, jp, up) ==
    IF st.phase # "live" THEN Refuse("bad_state")
    ELSE IF ~Given(ip) /\ ~Given(jp) /\ ~Given(up) THEN Refuse("no_path")
    ELSE
      LET why == FirstWhy(<<IF Given(ip) THEN RmWhy(st, "iso", ip) ELSE "",
                            IF Given(jp) THEN RmWhy(st, "jol", jp) ELSE "",
                            IF Given(up) THEN RmWhy(st, "udf", up) ELSE "">>)
          s1  == IF Given(ip) THEN [st EXCEPT !.iso = Del(st.iso, {ip})] ELSE st
          s2  == IF Given(jp) THEN [s1 EXCEPT !.jol = Del(s1.jol, {jp})] ELSE s1
          s3  == IF Given(up) THEN [s2 EXCEPT !.udf = Del(s2.udf, {up})] ELSE s2
      IN Decide(why, s3)

\* ons \in NSs \cup {"bootcat"}; old is ignored for "bootcat"
AddHardLinkF(st, ons, old, nns, new) ==
    IF st.phase # "live" THEN Refuse("bad_state")
    ELSE IF ons = "bootcat" /\ ~st.elt.on THEN Refuse("no_eltorito")
    ELSE IF ons # "bootcat" /\ ~HasNs(st, ons) THEN Refuse(ons \o "_no_such_namespace")
    ELSE IF ons # "bootcat" /\ old \notin DOMAIN Tree(st, ons) THEN Refuse(ons \o "_missing")
    ELSE IF ons # "bootcat" /\ Tree(st, ons)[old].k # "file" THEN Refuse(ons \o "_wrong_kind")
    ELSE IF ons # "bootcat" /\ Tree(st, ons)[old].ino = 0 THEN Refuse(ons \o "_no_data")
    ELSE
      LET i   == IF ons = "bootcat" THEN st.elt.catino ELSE Tree(st, ons)[old].ino
          why == AddWhy(st, nns, new, "file")
      IN Decide(why, WithTree(st, nns, Put(Tree(st, nns), new, Entry("file", i, FALSE, ""))))

RmHardLinkF(st, ns, p) ==
    IF st.phase # "live" THEN Refuse("bad_state")
    ELSE IF ~HasNs(st, ns) THEN Refuse(ns \o "_no_such_namespace")
    ELSE IF p = Root \/ p \notin DOMAIN Tree(st, ns) THEN Refuse(ns \o "_missing")
    ELSE IF Tree(st, ns)[p].k = "dir" THEN Refuse(ns \o "_wrong_kind")
    \* the last name of the boot catalog: an implementation may refuse to leave the catalog nameless
    \* (rm_eltorito is the call that removes it) or may keep a hidden catalog
    ELSE IF st.elt.on /\ Tree(st, ns)[p].ino = st.elt.catino /\ Cardinality(NameRefs(st, st.elt.catino)) = 1
         THEN Either(GC(WithTree(st, ns, Del(Tree(st, ns), {p}))), "~last_catalog_name")
    ELSE Ok(GC(WithTree(st, ns, Del(Tree(st, ns), {p}))))

RmFileF(st, ns, p) ==
    IF st.phase # "live" THEN Refuse("bad_state")
    ELSE IF ~HasNs(st, ns) THEN Refuse(ns \o "_no_such_namespace")
    ELSE IF p = Root \/ p \notin DOMAIN Tree(st, ns) THEN Refuse(ns \o "_missing")
    ELSE IF Tree(st, ns)[p].k = "dir" THEN Refuse(ns \o "_wrong_kind")
    ELSE LET i == Tree(st, ns)[p].ino IN
      IF i # 0 /\ i \in EltInos(st) THEN Refuse("referenced_by_eltorito")
      ELSE IF i = 0 THEN Ok(WithTree(st, ns, Del(Tree(st, ns), {p})))
      ELSE LET drop(t) == Del(t, {q \in DOMAIN t : t[q].ino = i})
               \* names that were links of this (empty) content before the last reopen: an image does
               \* not record which empty files are links of each other, so after a reopen rm_file may
               \* or may not take them along -- but nothing else
               sib(t)  == Del(t, {q \in DOMAIN t : t[q].ino # 0 /\ st.grp[t[q].ino] = st.grp[i]})
           IN Ok2(GC([st EXCEPT !.iso = drop(st.iso), !.jol = drop(st.jol), !.udf = drop(st.udf)]),
                  GC([st EXCEPT !.iso = sib(st.iso), !.jol = sib(st.jol), !.udf = sib(st.udf)]))

\* hidden flag: ns \in {"iso", "rrv", "jol"}; the Rock Ridge view addresses the ISO9660 record
HiddenF(st, ns, p, val) ==
    IF st.phase # "live" THEN Refuse("bad_state")
    ELSE IF ~HasNs(st, ns) THEN Refuse(ns \o "_no_such_namespace")
    ELSE IF p = Root \/ p \notin DOMAIN Tree(st, ns) THEN Refuse(ns \o "_missing")
    ELSE Ok(WithTree(st, ns, [Tree(st, ns) EXCEPT ![p].h = val]))

\* Rock Ridge symlink at ip (target t) and/or UDF symlink at up (target t)
AddSymlinkF(st, ip, up, t) ==
    IF st.phase # "live" THEN Refuse("bad_state")
    ELSE IF ~Given(ip) /\ ~Given(up) THEN Refuse("no_path")
    ELSE IF Given(ip) /\ st.cfg.rr = "" THEN Refuse("needs_rock_ridge")
    ELSE
      LET why == FirstWhy(<<IF Given(ip) THEN AddWhy(st, "iso", ip, "file") ELSE "",
                            IF Given(up) THEN AddWhy(st, "udf", up, "file") ELSE "">>)
          e   == Entry("symlink", 0, FALSE, t)
          s1  == IF Given(ip) THEN [st EXCEPT !.iso = Put(st.iso, ip, e)] ELSE st
          s2  == IF Given(up) THEN [s1 EXCEPT !.udf = Put(s1.udf, up, e)] ELSE s1
      IN Decide(why, s2)

\* modify_file_in_place(fp, length, iso_path): replace the content of a file of an image that was
\* opened from a (writable) file, in that file; the number of sectors must not change
Sectors(n) == (n + 2047) \div 2048
ModifyInPlaceF(st, p, b) ==
    IF st.phase # "live" THEN Refuse("bad_state")
    ELSE IF st.gen = 0 THEN [out |-> "unsupported", why |-> "no_backing_file", acc |-> st, alt |-> st]
    \* with edits pending the backing file is not the image the object describes: out of scope
    ELSE IF st.dirty THEN [out |-> "unsupported", why |-> "pending_edits", acc |-> st, alt |-> st]
    ELSE IF p = Root \/ p \notin DOMAIN st.iso THEN Refuse("iso_missing")
    ELSE IF st.iso[p].k = "dir" THEN Refuse("iso_wrong_kind")
    ELSE IF st.iso[p].ino = 0 \/ st.iso[p].ino \notin DOMAIN st.blob THEN Refuse("iso_no_data")
    ELSE IF st.blob[st.iso[p].ino] \notin DOMAIN BlobLen
         THEN [out |-> "unsupported", why |-> "unknown_content", acc |-> st, alt |-> st]
    ELSE IF Sectors(BlobLen[st.blob[st.iso[p].ino]]) # Sectors(BlobLen[b]) THEN Refuse("sector_count_changes")
    ELSE Ok([st EXCEPT !.blob[st.iso[p].ino] = b])

\* add_eltorito(boot file by ISO9660 path, catalog name c): the first call creates the catalog, reachable
\* as a file named c in the ISO9660 tree and in the Joliet/UDF trees the image carries; later calls
\* add a section entry to the existing catalog.
MaxSections == 31
\* media: "noemul" | "floppy" | "hdemul" | anything else is not a media type; for "floppy" the boot
\* file must be a floppy image (1.2, 1.44 or 2.88 MB), which no content of the model is
\* El Torito 2.x media types: no emulation; a diskette image of exactly 1.2, 1.44 or 2.88 MB; a
\* hard disk image (its first sector must be an MBR with one partition: what the content says is
\* outside the abstract image)
FloppySizes == {1228800, 1474560, 2949120}
BootParam(media, len) ==
    CASE media = "noemul" -> "ok"
      [] media = "floppy" -> IF len \in FloppySizes THEN "ok" ELSE "bad"
      [] media = "hdemul" -> "unsupported"
      [] OTHER -> "bad"
AddEltoritoF(st, bp, c, media) ==
    IF st.phase # "live" THEN Refuse("bad_state")
    ELSE IF bp = Root \/ bp \notin DOMAIN st.iso THEN Refuse("iso_missing")
    ELSE IF st.iso[bp].k = "symlink" THEN [out |-> "unsupported", why |-> "symlink_as_boot_file", acc |-> st, alt |-> st]
    ELSE IF st.iso[bp].k # "file" \/ st.iso[bp].ino = 0 THEN Refuse("iso_wrong_kind")
    ELSE IF st.elt.on /\ st.iso[bp].ino = st.elt.catino THEN Refuse("iso_wrong_kind")   \* the catalog itself
    \* an empty boot file owns no sector a catalog entry could point at: outside the model
    ELSE IF st.blob[st.iso[bp].ino] \in DOMAIN BlobLen /\ BlobLen[st.blob[st.iso[bp].ino]] = 0
         THEN [out |-> "unsupported", why |-> "empty_boot_file", acc |-> st, alt |-> st]
    ELSE IF st.blob[st.iso[bp].ino] \notin DOMAIN BlobLen
         THEN [out |-> "unsupported", why |-> "unknown_boot_content", acc |-> st, alt |-> st]
    ELSE IF BootParam(media, BlobLen[st.blob[st.iso[bp].ino]]) = "unsupported"
         THEN [out |-> "unsupported", why |-> "hard_disk_emulation", acc |-> st, alt |-> st]
    ELSE IF BootParam(media, BlobLen[st.blob[st.iso[bp].ino]]) = "bad" THEN Refuse("bad_boot_param")
    ELSE IF st.elt.on
         THEN IF Len(st.elt.entries) > MaxSections THEN Refuse("too_many_sections")
              ELSE Ok([st EXCEPT !.elt.entries = Append(@, st.iso[bp].ino)])
    ELSE
      LET why == FirstWhy(<<AddWhy(st, "iso", c, "file"),
                            IF HasNs(st, "jol") THEN AddWhy(st, "jol", c, "file") ELSE "",
                            IF HasNs(st, "udf") THEN AddWhy(st, "udf", c, "file") ELSE "">>)
          i   == FreshIno(st)
          e   == Entry("file", i, FALSE, "")
          s1  == [st EXCEPT !.iso = Put(st.iso, c, e)]
          s2  == IF HasNs(st, "jol") THEN [s1 EXCEPT !.jol = Put(s1.jol, c, e)] ELSE s1
          s3  == IF HasNs(st, "udf") THEN [s2 EXCEPT !.udf = Put(s2.udf, c, e)] ELSE s2
      IN Decide(why, [s3 EXCEPT !.blob = [j \in DOMAIN st.blob \cup {i} |-> IF j = i THEN "cat" ELSE st.blob[j]],
                                !.grp  = [j \in DOMAIN st.blob \cup {i} |-> IF j = i THEN i ELSE st.grp[j]],
                                !.elt  = [on |-> TRUE, catino |-> i, entries |-> <<st.iso[bp].ino>>]])

\* rm_eltorito removes the catalog with all its names and the references to the boot files
RmEltoritoF(st) ==
    IF st.phase # "live" THEN Refuse("bad_state")
    ELSE IF ~st.elt.on THEN Refuse("no_eltorito")
    ELSE LET drop(t) == Del(t, {q \in DOMAIN t : t[q].ino = st.elt.catino})
         IN Ok(GC([st EXCEPT !.iso = drop(st.iso), !.jol = drop(st.jol), !.udf = drop(st.udf), !.elt = NoElt]))

DuplicatePvdF(st) ==
    IF st.phase # "live" THEN Refuse("bad_state") ELSE Ok([st EXCEPT !.npvd = @ + 1])

\* schedule steps: calls that may recompute metadata but must not change the abstract image
\* ("Outside": calls that change bytes the abstract image does not describe - isohybrid)
ScheduleActs == {"ForceConsistency", "Query", "Walk", "Write", "Outside"}
ScheduleF(st, a) ==
    IF st.phase # "live" THEN Refuse("bad_state")
    ELSE IF a.a \in {"Query", "Walk"} /\ ~HasNs(st, a.ns) THEN Refuse(a.ns \o "_no_such_namespace")
    ELSE IF a.a = "Query" /\ ~Exists(Tree(st, a.ns), a.p) THEN Refuse(a.ns \o "_missing")
    ELSE Ok(st)

\* level a parse infers: 4 with the 1999 descriptor, else 3 if any identifier needs it, else 1
InferredLevel(st) ==
    IF st.cfg.level = 4 THEN 4
    ELSE IF \E p \in DOMAIN st.iso :
              IF st.iso[p].k = "dir" THEN LvlDirTbl[p[Len(p)]] = 3
              ELSE LvlFileTbl[p[Len(p)]] = 3
         THEN 3 ELSE 1

\* An image does not record which zero-length files are links of each other (they own no
\* sectors): a parse gives every name of empty content an inode of its own.  grp remembers the
\* former link class.
MaxIno(st) == IF DOMAIN st.blob = {} THEN 0 ELSE CHOOSE m \in DOMAIN st.blob : \A j \in DOMAIN st.blob : j <= m
RECURSIVE SplitNames(_, _, _)
SplitNames(st, names, next) ==
    IF names = {} THEN st
    ELSE LET n   == CHOOSE x \in names : TRUE
             old == Tree(st, n[1])[n[2]].ino
             s1  == WithTree(st, n[1], [Tree(st, n[1]) EXCEPT ![n[2]].ino = next])
             s2  == [s1 EXCEPT !.blob = [j \in DOMAIN st.blob \cup {next} |-> IF j = next THEN st.blob[old] ELSE st.blob[j]],
                               !.grp  = [j \in DOMAIN st.blob \cup {next} |-> IF j = next THEN st.grp[old] ELSE st.grp[j]]]
         IN SplitNames(s2, names \ {n}, next + 1)
EmptyShared(st) == {i \in DOMAIN st.blob : st.blob[i] \in DOMAIN BlobLen /\ BlobLen[st.blob[i]] = 0
                                             /\ Cardinality(NameRefs(st, i)) > 1}
SplitEmpty(st) ==
    GC(SplitNames(st, UNION {NameRefs(st, i) : i \in EmptyShared(st)}, MaxIno(st) + 1))

\* write_fp to a buffer; close; open_fp on the buffer
ReopenF(st) ==
    IF st.phase # "live" THEN Refuse("bad_state")
    \* (grp is kept: names of empty content that were one link class before an earlier reopen may still
    \* be one on disc - UDF names sharing a File Entry - or not - ISO9660/Joliet names; either is admissible)
    ELSE LET s0 == st
         IN Ok(SplitEmpty([s0 EXCEPT !.gen = @ + 1, !.cfg.level = InferredLevel(st), !.dirty = FALSE]))

Mutators == {"AddFp", "AddDir", "RmDir", "AddHardLink", "RmHardLink", "RmFile", "SetHidden", "ClearHidden",
             "AddSymlink", "DuplicatePvd", "AddEltorito", "RmEltorito", "AddIsohybrid", "RmIsohybrid"}
RawStep(st, a) ==
    CASE a.a = "New"          -> NewF(st, a.cfg, a.mode)
      [] a.a = "Close"        -> CloseF(st)
      [] a.a = "AddFp"        -> AddFpF(st, a.blob, a.iso, a.jol, a.udf)
      [] a.a = "AddDir"       -> AddDirF(st, a.iso, a.jol, a.udf)
      [] a.a = "RmDir"        -> RmDirF(st, a.iso, a.jol, a.udf)
      [] a.a = "AddHardLink"  -> AddHardLinkF(st, a.ons, a.old, a.nns, a.new)
      [] a.a = "RmHardLink"   -> RmHardLinkF(st, a.ns, a.p)
      [] a.a = "RmFile"       -> RmFileF(st, a.ns, a.p)
      [] a.a = "SetHidden"    -> HiddenF(st, a.ns, a.p, TRUE)
      [] a.a = "ClearHidden"  -> HiddenF(st, a.ns, a.p, FALSE)
      [] a.a = "AddSymlink"   -> AddSymlinkF(st, a.iso, a.udf, a.t)
      [] a.a = "DuplicatePvd" -> DuplicatePvdF(st)
      [] a.a = "AddEltorito"  -> AddEltoritoF(st, a.boot, a.cat, a.media)
      [] a.a = "RmEltorito"   -> RmEltoritoF(st)
      [] a.a = "ModifyInPlace" -> ModifyInPlaceF(st, a.p, a.blob)
      [] a.a \in ScheduleActs -> ScheduleF(st, a)
      [] a.a = "Reopen"       -> ReopenF(st)
      [] OTHER                -> [out |-> "unsupported", why |-> a.a, acc |-> st, alt |-> st]

\* an accepted edit leaves changes that are not in the backing file yet
MarkDirty(a, r) == IF a.a \in Mutators /\ r.out \in {"ok", "either"}
                   THEN [r EXCEPT !.acc.dirty = TRUE, !.alt.dirty = TRUE] ELSE r
Step(st, a) == MarkDirty(a, RawStep(st, a))

(***************************************************************************)
(* Invariants of the abstract image (checked on the model by TLC and, as   *)
(* clauses, on every projection of the implementation).                    *)
(***************************************************************************)
TreeClosedT(t) == \A p \in DOMAIN t : p # Root /\ IsDir(t, Parent(p))
TreeClosed(st) == TreeClosedT(st.iso) /\ TreeClosedT(st.jol) /\ TreeClosedT(st.udf)
NoOrphanInode(st) == \A i \in DOMAIN st.blob : Live(st, i)
NoDanglingRef(st) ==
    /\ \A ns \in NSs : \A p \in DOMAIN Tree(st, ns) :
          Tree(st, ns)[p].ino # 0 => Tree(st, ns)[p].ino \in DOMAIN st.blob
    /\ EltInos(st) \subseteq DOMAIN st.blob
KindsSane(st) == \A ns \in NSs : \A p \in DOMAIN Tree(st, ns) :
    LET e == Tree(st, ns)[p] IN
      /\ e.k \in {"dir", "file", "symlink"}
      /\ (e.k = "dir" => e.ino = 0)
      /\ (e.k = "symlink" => e.ino = 0 /\ e.t \in Targets)
NamespacesSane(st) ==
    /\ (st.cfg.joliet = 0 => DOMAIN st.jol = {})
    /\ (~st.cfg.udf => DOMAIN st.udf = {})
    /\ (st.phase = "uninit" => st = Uninit)
LegalNames(st) == \A ns \in NSs : \A p \in DOMAIN Tree(st, ns) :
    Legality(st, ns, p[Len(p)], Tree(st, ns)[p].k) # "illegal"
DepthRule(st) == \A p \in DOMAIN st.iso : ~TooDeep(st, "iso", p)
ReadersTotal(st) == WalkCoversTree(st.iso) /\ WalkCoversTree(st.jol) /\ WalkCoversTree(st.udf)

StateOK(st) == TreeClosed(st) /\ NoOrphanInode(st) /\ NoDanglingRef(st) /\ KindsSane(st)
               /\ NamespacesSane(st) /\ LegalNames(st) /\ DepthRule(st) /\ ReadersTotal(st)
=============================================================================
