------------------------------ MODULE MC_mangle ------------------------------
(***************************************************************************)
(* Bounded instances for C18 (and the naming half of C13).                 *)
(*                                                                         *)
(* Spec (mangling): source names  w1 \o Fill(n) \o w2  where w1, w2 are    *)
(* strings over the class representatives (all with |w1|+|w2| <= 2 over    *)
(* the full alphabet, all with |w1|+|w2| = 3 over the core alphabet) and   *)
(* Fill(n) is n upper-case letters, n \in Fills, so that the truncation    *)
(* limits 8 / 30 / 31 and the extension limit 3 are crossed from both      *)
(* sides; x level x {file, dir}.  TLC evaluates the clauses of Mangle.tla  *)
(* on what the transcribed helpers derive; a non-empty failing set is a    *)
(* design-level counterexample.  Every case is printed as <<"CASE", json>> *)
(* and becomes an implementation test.  INVARIANT CharsetOK is a theorem   *)
(* about the helpers that does hold.                                       *)
(*                                                                         *)
(* ProbeSpec (acceptance probes): identifiers  body \o Fill(n) \o version  *)
(* and Fill(n) \o body \o version; x level x {file, dir}; printed as       *)
(* <<"PROBE", json>> with the legality NameRules gives them.               *)
(***************************************************************************)
EXTENDS Mangle, TLC, Json

CONSTANTS Fills,      \* set of fill lengths
          Levels,     \* set of interchange levels
          PairLen,    \* |w1| + |w2| <= PairLen over the full alphabet (2)
          CoreLen,    \* and = PairLen+1 .. CoreLen over the core alphabet (3)
          BodyLen,    \* probes: bodies up to this length over the probe alphabet
          CoreBodyLen \* probes: and up to this length over the probe core alphabet

Fill(n) == [i \in 1..n |-> ChUpper]
Words(A, lo, hi) == UNION {[1..k -> A] : k \in lo..hi}

\* all <<w1, w2>> over A with lo <= |w1| + |w2| <= hi
PairsOf(A, lo, hi) == UNION {UNION {Words(A, i, i) \X Words(A, t - i, t - i) : i \in 0..t} : t \in lo..hi}
Pairs == PairsOf(ModelAlphabet, 0, PairLen) \cup PairsOf(CoreAlphabet, PairLen + 1, CoreLen)

ASSUME \A c \in ModelAlphabet : PrintT(<<"UPPER", ToJson([c |-> c, u |-> Upper(c)])>>)

VARIABLES lvl, kind, n, w, res

None == << <<0>>, <<0>> >>
vars == <<lvl, kind, n, w, res>>

Init == /\ lvl \in Levels
        /\ kind \in {"file", "dir"}
        /\ n \in Fills
        /\ w = None
        /\ res = [out |-> << >>, f |-> {}]

\* clauses false on any identifier derived for s
FailingAny(s, outs) == UNION {MangleFailing(s, outs[j], lvl, kind) : j \in 1..Len(outs)}

Case == /\ w = None
        /\ \E p \in Pairs :
           \E s \in {p[1] \o Fill(n) \o p[2]} :
             /\ IsSourceName(s)
             /\ (n = 0 => p[2] = << >>)            \* without a fill the split adds nothing
             /\ \E outs \in {Derived(s, lvl, kind)} :
                \E f \in {FailingAny(s, outs)} :
                  /\ w' = p
                  /\ res' = [out |-> outs, f |-> f]
                  /\ PrintT(<<"CASE", ToJson([a |-> p[1], n |-> n, b |-> p[2], l |-> lvl, k |-> kind,
                                             out |-> outs, f |-> f])>>)
        /\ UNCHANGED <<lvl, kind, n>>

Spec == Init /\ [][Case]_vars

CharsetOK == w # None => \A j \in 1..Len(res.out) : MangledCharsetLegal(res.out[j], lvl, kind)

(***************************************************************************)
(* Acceptance probes                                                       *)
(***************************************************************************)
ProbeAlphabet == {ChUpper, ChLower, ChDigit, ChUnder, DOT, SEMI, ChSpace, ChPunct, ChLat1}
ProbeCore     == {ChUpper, ChLower, DOT, SEMI, ChLat1}
\* version classes: none, "1", "0", "32767", "32768", non-numeric, empty after ';'
Versions == { << >>, <<SEMI, 49>>, <<SEMI, 48>>, <<SEMI, 51, 50, 55, 54, 55>>,
              <<SEMI, 51, 50, 55, 54, 56>>, <<SEMI, 65>>, <<SEMI>> }
Bodies == Words(ProbeAlphabet, 0, BodyLen) \cup Words(ProbeCore, BodyLen + 1, CoreBodyLen)

PInit == /\ lvl \in Levels
         /\ kind \in {"file", "dir"}
         /\ n \in Fills
         /\ w = None
         /\ res = [out |-> << >>, f |-> {}]

Probe == /\ w = None
         /\ \E b \in Bodies :
            \E v \in (IF kind = "file" THEN Versions ELSE {<< >>}) :
            \E front \in (IF n = 0 THEN {TRUE} ELSE {TRUE, FALSE}) :
            \E s \in {(IF front THEN b \o Fill(n) ELSE Fill(n) \o b) \o v} :
              /\ IsSourceName(s)
              /\ w' = <<b, v \o <<IF front THEN 1 ELSE 0>> >>
              /\ res' = [out |-> <<s>>, f |-> {Legality(s, lvl, kind)}]
              /\ PrintT(<<"PROBE", ToJson([b |-> b, n |-> n, v |-> v, front |-> front, l |-> lvl,
                                          k |-> kind, leg |-> Legality(s, lvl, kind)])>>)
         /\ UNCHANGED <<lvl, kind, n>>

ProbeSpec == PInit /\ [][Probe]_vars
=============================================================================
