------------------------------- MODULE Dates -------------------------------
(***************************************************************************)
(* Time stamps (property C19).                                             *)
(*                                                                         *)
(* An instant is a pair <<day, sec>>: days since 1970-01-01 (proleptic     *)
(* Gregorian, may be negative) and second of the day 0..86399.  Nothing    *)
(* here exceeds 2^31 (TLC integers are 32 bit): 130 years are 47482 days,  *)
(* the largest intermediate value is 153 * 11 + 2 resp. day + 719468.      *)
(*                                                                         *)
(* Three things are defined:                                               *)
(*  1. civil calendar conversion on integers (CivilFromDays/DaysFromCivil) *)
(*  2. the ALGORITHM of the library, transcribed: GmtOffsetQ (helper       *)
(*     utils.gmtoffset_from_tm: compares broken-down local and UTC time),  *)
(*     Record7 / Record17 / RecordUdf (the new() methods)                  *)
(*  3. the DENOTATION of each on-disc form, written from the standards:    *)
(*     Denote7 (ECMA-119 9.1.5), Denote17 (ECMA-119 8.4.26.1), DenoteTF    *)
(*     (RRIP 4.1.6: either form), DenoteUdf (ECMA-167 1/7.3: the offset    *)
(*     is in MINUTES).                                                     *)
(* The clauses compare 3 o 2 with the identity (model level, MC_dates) and *)
(* 3 applied to the bytes the real code recorded with the instant they     *)
(* were made from (Judge_Dates).                                           *)
(***************************************************************************)
EXTENDS Integers, Sequences, FiniteSets

DaySecs == 86400

(***************************************************************************)
(* 1. Calendar                                                             *)
(***************************************************************************)
\* <<day, sec>> with sec brought into 0..86399 (sec may be any 32-bit value)
Norm(t) == <<t[1] + (t[2] \div DaySecs), t[2] % DaySecs>>
PlusMinutes(t, m) == Norm(<<t[1], t[2] + 60 * m>>)

IsLeap(y) == (y % 4 = 0 /\ y % 100 # 0) \/ y % 400 = 0
DaysInMonth(y, m) ==
    IF m = 2 THEN (IF IsLeap(y) THEN 29 ELSE 28)
    ELSE IF m \in {4, 6, 9, 11} THEN 30 ELSE 31

\* days since 1970-01-01 of the civil date y-m-d
DaysFromCivil(y, m, d) ==
    LET yy  == IF m <= 2 THEN y - 1 ELSE y
        era == yy \div 400
        yoe == yy - era * 400
        mp  == IF m > 2 THEN m - 3 ELSE m + 9
        doy == (153 * mp + 2) \div 5 + d - 1
        doe == yoe * 365 + yoe \div 4 - yoe \div 100 + doy
    IN era * 146097 + doe - 719468

\* civil date [y, m, d] of a day number
CivilFromDays(z0) ==
    LET z   == z0 + 719468
        era == z \div 146097
        doe == z - era * 146097
        yoe == (doe - doe \div 1460 + doe \div 36524 - doe \div 146096) \div 365
        doy == doe - (365 * yoe + yoe \div 4 - yoe \div 100)
        mp  == (5 * doy + 2) \div 153
        d   == doy - (153 * mp + 2) \div 5 + 1
        m   == IF mp < 10 THEN mp + 3 ELSE mp - 9
    IN [y |-> yoe + era * 400 + (IF m <= 2 THEN 1 ELSE 0), m |-> m, d |-> d]

\* broken-down time (struct tm) of an instant read as "wall clock" <<day, sec>>
Broken(t) ==
    LET c == CivilFromDays(t[1]) IN
    [year |-> c.y, mon |-> c.m, mday |-> c.d,
     hour |-> t[2] \div 3600, min |-> (t[2] % 3600) \div 60, sec |-> t[2] % 60,
     yday |-> t[1] - DaysFromCivil(c.y, 1, 1) + 1]

ValidCivil(y, m, d) == m \in 1..12 /\ d >= 1 /\ d <= DaysInMonth(y, m)
ValidClock(h, mi, s) == h \in 0..23 /\ mi \in 0..59 /\ s \in 0..59

\* wall clock <<day, sec>> of civil fields
Wall(y, m, d, h, mi, s) == <<DaysFromCivil(y, m, d), 3600 * h + 60 * mi + s>>

NoInstant == <<-999999, -1>>     \* "these fields denote nothing"

(***************************************************************************)
(* 2. The library's algorithm, transcribed                                 *)
(***************************************************************************)
\* utils.gmtoffset_from_tm(tm, localtime): l = localtime, u = time.gmtime(tm)
GmtOffsetQ(l, u) ==
    LET tmpmin   == l.min - u.min
        tmphour  == l.hour - u.hour
        tmpyday0 == l.yday - u.yday
        tmpyear  == l.year - u.year
        tmpyday  == IF tmpyear # 0 THEN tmpyear ELSE tmpyday0
    IN (tmpmin + 60 * (tmphour + 24 * tmpyday)) \div 15      \* Python // : floor

\* time.localtime in a zone whose offset from UTC at that instant is offmin minutes
LocalTm(t, offmin) == Broken(PlusMinutes(t, offmin))
GmTm(t) == Broken(t)

\* DirectoryRecordDate.new(tm): l = time.localtime(tm), u = time.gmtime(tm)
Record7LU(l, u) ==
    [y1900 |-> l.year - 1900, mon |-> l.mon, mday |-> l.mday, hour |-> l.hour,
     min |-> l.min, sec |-> l.sec, off |-> GmtOffsetQ(l, u)]
Record7(t, offmin) == Record7LU(LocalTm(t, offmin), GmTm(t))

\* VolumeDescriptorDate.new(tm); tm = 0.0 is the documented "not specified" value
Record17LU(t, l, u) ==
    IF t = <<0, 0>>
    THEN [year |-> 0, mon |-> 0, mday |-> 0, hour |-> 0, min |-> 0, sec |-> 0, hsec |-> 0, off |-> 0]
    ELSE [year |-> l.year, mon |-> l.mon, mday |-> l.mday, hour |-> l.hour,
          min |-> l.min, sec |-> l.sec, hsec |-> 0, off |-> GmtOffsetQ(l, u)]
Record17(t, offmin) == Record17LU(t, LocalTm(t, offmin), GmTm(t))

\* UDFTimestamp.new(date_seconds): self.tz = 15 * utils.gmtoffset_from_tm(date_seconds, local):
\* the helper counts quarter hours, ECMA-167 1/7.3.1 wants minutes, the code converts (factor
\* UdfZoneUnit = 15; it was 1 - the helper's count stored as it is - before the repair "UDF
\* timestamps record the offset from UTC in minutes").  Clause ModelAgrees of Judge_Dates tells
\* when the transcription and the code have drifted apart.
UdfZoneUnit == 15
RecordUdfLU(l, u) ==
    [type |-> 1, tz |-> UdfZoneUnit * GmtOffsetQ(l, u), year |-> l.year, mon |-> l.mon, mday |-> l.mday,
     hour |-> l.hour, min |-> l.min, sec |-> l.sec, csec |-> 0, husec |-> 0, usec |-> 0]
RecordUdf(t, offmin) == RecordUdfLU(LocalTm(t, offmin), GmTm(t))

(***************************************************************************)
(* 3. Denotations (from the standards)                                     *)
(***************************************************************************)
\* ECMA-119 9.1.5: years since 1900, month, day, hour, minute, second, offset from GMT in
\* 15-minute intervals (signed): the fields are local time, GMT = local - offset
Denote7(f) ==
    IF ValidCivil(f.y1900 + 1900, f.mon, f.mday) /\ ValidClock(f.hour, f.min, f.sec)
    THEN PlusMinutes(Wall(f.y1900 + 1900, f.mon, f.mday, f.hour, f.min, f.sec), 0 - 15 * f.off)
    ELSE NoInstant

\* ECMA-119 8.4.26.1: digits YYYYMMDDHHMMSScc + offset as above; all zero = not specified
Unspecified17(f) == f.year = 0 /\ f.mon = 0 /\ f.mday = 0 /\ f.hour = 0 /\ f.min = 0 /\ f.sec = 0
                    /\ f.hsec = 0 /\ f.off = 0
Denote17(f) ==
    IF f.year \in 1..9999 /\ ValidCivil(f.year, f.mon, f.mday) /\ ValidClock(f.hour, f.min, f.sec)
       /\ f.hsec \in 0..99
    THEN PlusMinutes(Wall(f.year, f.mon, f.mday, f.hour, f.min, f.sec), 0 - 15 * f.off)
    ELSE NoInstant

\* RRIP 4.1.6 "TF": bit 7 of the flags selects the 17-byte form, else the 7-byte form
DenoteTF(long, f) == IF long THEN Denote17(f) ELSE Denote7(f)

\* ECMA-167 1/7.3: type (top 4 bits: 0 = UTC, 1 = local, 2 = by agreement) and a 12-bit signed
\* offset from UTC in MINUTES (-1440..1440, -2047 = not specified).  With type 1 the fields
\* are local time and UTC = local - offset minutes.
UdfUnspecifiedZone == -2047
DenoteUdf(f) ==
    IF /\ f.year \in 1..9999 /\ ValidCivil(f.year, f.mon, f.mday) /\ ValidClock(f.hour, f.min, f.sec)
       /\ f.csec \in 0..99 /\ f.husec \in 0..99 /\ f.usec \in 0..99
       /\ f.type \in {0, 1}
       /\ (f.type = 1 => f.tz \in -1440..1440)
    THEN PlusMinutes(Wall(f.year, f.mon, f.mday, f.hour, f.min, f.sec),
                     IF f.type = 0 THEN 0 ELSE 0 - f.tz)
    ELSE NoInstant

(***************************************************************************)
(* Clauses.  kind \in {"dr7", "vd17", "tf7", "tf17", "udf"}; fields f of   *)
(* one recorded stamp; t the instant it was made from; offmin the true     *)
(* offset of the zone at t (a multiple of 15, else outside the statement). *)
(***************************************************************************)
DenoteKind(kind, f) ==
    CASE kind \in {"dr7", "tf7"}   -> Denote7(f)
      [] kind \in {"vd17", "tf17"} -> Denote17(f)
      [] kind = "udf"              -> DenoteUdf(f)

\* recorded offset from UTC, in minutes, as the on-disc form defines it
OffsetMinutesOf(kind, f) == IF kind = "udf" THEN f.tz ELSE 15 * f.off

\* the documented exception: VolumeDescriptorDate.new(0.0) records "not specified"
IsSentinel(kind, t) == kind \in {"vd17", "tf17"} /\ t = <<0, 0>>

FieldsDenoteInstant(kind, f, t) == IsSentinel(kind, t) \/ DenoteKind(kind, f) = t
\* the recorded offset is the zone's offset, exactly (nothing lost to the 15-minute unit)
OffsetIsMultipleOf15(kind, f, t, offmin) ==
    \/ IsSentinel(kind, t)
    \/ /\ OffsetMinutesOf(kind, f) % 15 = 0
       /\ (kind # "udf" => OffsetMinutesOf(kind, f) = offmin)
UdfZoneInMinutes(kind, f, offmin) == kind = "udf" => (f.type = 1 /\ f.tz = offmin)
ParseRecordIdentity(raw, reparsed) == raw = reparsed

\* diagnosis (not a clause): the stamp would denote t if its zone field, read as a count of
\* quarter hours, were converted to minutes - the unit of the helper stored in a minutes field
UdfTzInQuarterHours(kind, f, t, offmin) ==
    /\ kind = "udf" /\ f.type = 1 /\ offmin # 0 /\ 15 * f.tz = offmin
    /\ DenoteUdf([f EXCEPT !.tz = 15 * f.tz]) = t

\* model level: what the transcribed algorithm records in a zone of constant offset
ModelKinds == {"dr7", "vd17", "udf"}        \* TF entries hold one of the first two forms
RecordKindLU(kind, t, l, u) ==
    CASE kind \in {"dr7", "tf7"}   -> Record7LU(l, u)
      [] kind \in {"vd17", "tf17"} -> Record17LU(t, l, u)
      [] kind = "udf"              -> RecordUdfLU(l, u)

RecordKind(kind, t, offmin) == RecordKindLU(kind, t, LocalTm(t, offmin), GmTm(t))

FailingOn(kind, f, t, offmin) ==
       (IF FieldsDenoteInstant(kind, f, t) THEN {} ELSE {<<kind, "FieldsDenoteInstant">>})
  \cup (IF OffsetIsMultipleOf15(kind, f, t, offmin) THEN {} ELSE {<<kind, "OffsetIsMultipleOf15">>})
  \cup (IF UdfZoneInMinutes(kind, f, offmin) THEN {} ELSE {<<kind, "UdfZoneInMinutes">>})
  \cup (IF UdfTzInQuarterHours(kind, f, t, offmin) THEN {<<kind, "why:UdfTzInQuarterHours">>} ELSE {})

\* set of <<kind, clause>> false on what the algorithm records for instant t at offset offmin
ModelFailing(t, offmin) ==
    LET l == LocalTm(t, offmin)
        u == GmTm(t)
    IN UNION {FailingOn(k, RecordKindLU(k, t, l, u), t, offmin) : k \in ModelKinds}
=============================================================================
