------------------------------ MODULE DirPack ------------------------------
(***************************************************************************)
(* Packing of records into sectors: ECMA-119 6.8.1.1 (a directory record   *)
(* never crosses a sector boundary; the rest of the sector is zero) and    *)
(* 6.9.1 (path table records are packed contiguously; pycdlib reserves     *)
(* path table space in units of 4096 bytes).                               *)
(*                                                                         *)
(* This is the reference allocator of the design: it is NOT an oracle for  *)
(* byte positions.  TLC explores the case space of "n1 records of length   *)
(* L1 followed by n2 records of length L2" and emits one witness per       *)
(* boundary class (a record ending exactly on a boundary, a record pushed  *)
(* to the next sector leaving a gap of g bytes, the total crossing a        *)
(* reservation unit by exactly one record), so that the harness can build  *)
(* directories / path tables that sit exactly on those boundaries and      *)
(* judge the result with the ordinary clauses (Trace_Model, Volume,        *)
(* ImageChecks).                                                           *)
(***************************************************************************)
EXTENDS Naturals, Sequences, FiniteSets, TLC, Json

CONSTANTS Mode,      \* "dir" | "ptable"
          Unit,      \* 2048 for directories, 4096 for path tables
          Head0,      \* bytes before the first record (dir: "." and ".." = 68; ptable: root record = 10)
          Lens,      \* admissible record lengths
          MaxRecs,   \* number of records
          MaxUnits   \* boundaries of interest

VARIABLES l1, n1, l2, n2, pos, last, phase

vars == <<l1, n1, l2, n2, pos, last, phase>>

\* where a record of length len lands when the cursor is at p
Place(p, len) ==
    IF Mode = "dir" /\ (p % Unit) + len > Unit
    THEN ((p \div Unit) + 1) * Unit + len      \* pushed to the next sector
    ELSE p + len

Gap(p, len) == IF Mode = "dir" /\ (p % Unit) + len > Unit THEN Unit - (p % Unit) ELSE 0

\* class of the step that places a record of length len at cursor p
Kind(p, len) ==
    IF Gap(p, len) > 0 THEN "gap"
    ELSE IF Place(p, len) % Unit = 0 THEN "exact"
    ELSE IF Place(p, len) \div Unit > p \div Unit THEN "crossed"
    ELSE "none"

Init == /\ l1 \in Lens /\ l2 \in Lens
        /\ n1 = 0 /\ n2 = 0 /\ pos = Head0 /\ last = "none" /\ phase = 1

Add1 == /\ phase = 1 /\ n1 + n2 < MaxRecs
        /\ n1' = n1 + 1
        /\ pos' = Place(pos, l1)
        /\ last' = Kind(pos, l1)
        /\ UNCHANGED <<l1, l2, n2, phase>>
Switch == /\ phase = 1 /\ n1 > 0 /\ l2 # l1 /\ phase' = 2 /\ UNCHANGED <<l1, n1, l2, n2, pos, last>>
Add2 == /\ phase = 2 /\ n1 + n2 < MaxRecs
        /\ n2' = n2 + 1
        /\ pos' = Place(pos, l2)
        /\ last' = Kind(pos, l2)
        /\ UNCHANGED <<l1, n1, l2, phase>>

Next == Add1 \/ Switch \/ Add2
Spec == Init /\ [][Next]_vars

Bound == pos <= MaxUnits * Unit + 64

\* ---- invariants of the reference allocator (checked by TLC) --------------------------------
\* a record never straddles a boundary in "dir" mode; the cursor only grows
NoStraddle == Mode = "dir" => \A len \in Lens : LET q == Place(pos, len) IN (q - len) \div Unit = (q - 1) \div Unit
Monotone == [][pos' >= pos]_vars

\* ---- witnesses ---------------------------------------------------------------------------------
\* the interesting moment: the record just added ends exactly on a boundary, or was pushed
Interesting == last \in {"exact", "gap", "crossed"} /\ (phase = 1 \/ n2 > 0)
Witness == Interesting =>
    PrintT(<<"WIT", ToJson([mode |-> Mode, l1 |-> l1, n1 |-> n1, l2 |-> l2, n2 |-> n2, pos |-> pos,
                            kind |-> last, unit |-> pos \div Unit])>>)
=============================================================================
