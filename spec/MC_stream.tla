----------------------------- MODULE MC_stream -----------------------------
(***************************************************************************)
(* Bounded instance of Stream: exhaustive checking of the model's own      *)
(* invariants and generation of behaviours that are replayed on pycdlib.   *)
(*                                                                         *)
(* Shape  "zm"  : files z (length 0) and m (3 units; the harness realises  *)
(*                a unit as 683 bytes = 2049 bytes, crossing a sector)     *)
(*        "zsm" : z, s (1 unit) and m (3 units)                            *)
(*        "sm5" : s (1 unit) and m (5 units)                               *)
(*        "b1", "b3", "b4", "b5" : s (1 unit, an ordinary file) and b, an  *)
(*                El Torito boot file WITH A BOOT INFO TABLE of 1/3/4/5    *)
(*                units; the harness realises the unit so that the file is *)
(*                5, 8, 9, 20, 24, 63, 64, 65, 66, 2049, ... bytes long,   *)
(*                i.e. ends before, inside, at the end of and beyond the   *)
(*                table (bytes 8..63), see Stream!Overlaid                 *)
(* Alpha  "full": n in {0,1,2,L,L+1,None}, readinto k in {0,1,2,L,L+1},    *)
(*                seek offsets -1..L+1 x whence {0,1,2} and one invalid    *)
(*                whence, all block-size labels                            *)
(*        "core": a reduced alphabet for dumping ALL histories to MaxLen   *)
(* Dump   "none"  : check only (VIEW ViewNoHist)                           *)
(*        "edges" : print the history of every transition of the state     *)
(*                  graph (transition tour; VIEW ViewNoHist)               *)
(*        "hist"  : print every history of length <= MaxLen                *)
(*        "full"  : print the behaviours of length MaxLen that -simulate   *)
(*                  generates (action Finish)                              *)
(* Every history element carries the action, its arguments and the result  *)
(* the model demands (exp), so the replayer compares nothing itself.       *)
(***************************************************************************)
EXTENDS Stream, Json

CONSTANTS MaxLen, Dump, Shape, Alpha

VARIABLE h

BootShapes == {"b1", "b3", "b4", "b5"}
MCFiles == CASE Shape = "zm" -> {"z", "m"} [] Shape = "zsm" -> {"z", "s", "m"} [] Shape = "sm5" -> {"s", "m"}
             [] Shape \in BootShapes -> {"s", "b"}
MCLenOf == [f \in MCFiles |-> CASE f = "z" -> 0 [] f = "s" -> 1 [] f = "m" -> IF Shape = "sm5" THEN 5 ELSE 3
                                 [] f = "b" -> CASE Shape = "b1" -> 1 [] Shape = "b3" -> 3
                                                 [] Shape = "b4" -> 4 [] Shape = "b5" -> 5]
MCTableFiles == MCFiles \cap {"b"}
MCSids  == {1, 2}

MCReadSizes(L)   == IF Alpha = "full" THEN {0, 1, 2, L, L + 1, NoneN} ELSE {1, L + 1, NoneN}
MCIntoSizes(L)   == IF Alpha = "full" THEN {0, 1, 2, L, L + 1} ELSE {1, L + 1}
MCSeekOffsets(L) == IF Alpha = "full" THEN (0 - 1)..(L + 1) ELSE {0 - 1, 0, 1}
MCWhences        == IF Alpha = "full" THEN {0, 1, 2, 3} ELSE {0, 1, 2}
MCBlockLabels    == IF Alpha = "full" THEN {"1", "7", "2048", "8192", "L", "L1"} ELSE {"7", "L1"}

\* the harness takes the file lengths from here (one source of truth)
ASSUME PrintT(<<"SHAPE", ToJson(MCLenOf)>>)
ASSUME PrintT(<<"TABLEFILES", ToJson([files |-> MCTableFiles])>>)

mcvars == <<fpos, streams, last, h>>

MCInit == Init /\ h = <<>>

MCNext == /\ Len(h) < MaxLen
          /\ \E a \in Cands(Cur) :
               /\ Do(a)
               /\ h' = Append(h, [a |-> a, exp |-> Apply(Cur, a).exp])

\* -simulate evaluates constraints on every generated successor; the behaviour TLC actually
\* chose is the one whose last state is expanded again, so it is printed from an action
Finish == /\ Dump = "full" /\ Len(h) = MaxLen
          /\ PrintT(<<"HIST", ToJson(h)>>)
          /\ h' = Append(h, [a |-> [a |-> "End"]])
          /\ UNCHANGED svars

MCSpec == MCInit /\ [][MCNext \/ Finish]_mcvars

\* the result of the last call is not part of the identity of a state
ViewNoHist == <<fpos, streams>>

DumpHist == Dump = "hist" => PrintT(<<"HIST", ToJson(h)>>)
DumpEdge == Dump = "edges" => PrintT(<<"HIST", ToJson(h')>>)
=============================================================================
