------------------------------ MODULE MC_tools ------------------------------
(***************************************************************************)
(* Bounded instance of Tools (C20).                                        *)
(*                                                                         *)
(* Mode "cases": enumerates source trees x option vectors and prints each  *)
(* as  <<"CASE", ToJson([tree, opts, feat, fam, stage])>>; the harness     *)
(* builds every tree on disk, runs the two tools and lets Judge_Tools      *)
(* evaluate the clauses.  A tree is a FOCUS (a small set of siblings taken *)
(* from a pool of names built to collide after mangling, with links,       *)
(* empty and identical contents) placed in a CONTEXT (root; inside one or  *)
(* two directories; with neighbours; at the end of a chain of up to nine   *)
(* directories).  Names that do not interact (no common mangled form, no   *)
(* numbering clash) are one equivalence class: only one representative of  *)
(* a non-interacting pair is enumerated, every interacting pair/triple of  *)
(* the pool is.                                                            *)
(*                                                                         *)
(* Mode "design": enumerates every ordered sequence of up to MaxSib        *)
(* sibling names of the pool x level x kind and checks that the tool's     *)
(* collision numbering (Tools!MangleWithNumbering) yields distinct legal   *)
(* identifiers: INVARIANT DistinctLegalInv (a TLC counterexample is a      *)
(* design error of the numbering scheme); the CONSTRAINT DumpDesign prints *)
(* every minimal counterexample as <<"DESIGN", json>> for replay on the    *)
(* real build_iso_path.                                                    *)
(***************************************************************************)
EXTENDS Tools, Json

CONSTANTS Mode,      \* "cases" | "design"
          Tier,      \* "quick" | "thorough"
          MaxSib     \* design mode: length of sibling sequences

VARIABLE st

N == [
  f1         |-> <<102, 105, 108, 101, 46, 116, 120, 116>>,   \* "file.txt"
  f2         |-> <<70, 73, 76, 69, 46, 84, 88, 84>>,   \* "FILE.TXT"
  f3         |-> <<102, 105, 108, 101, 46, 116, 101, 120, 116>>,   \* "file.text"
  f4         |-> <<108, 111, 110, 103, 102, 105, 108, 101, 110, 97, 109, 101, 49, 46, 116, 120, 116>>,   \* "longfilename1.txt"
  f5         |-> <<108, 111, 110, 103, 102, 105, 108, 101, 110, 97, 109, 101, 50, 46, 116, 120, 116>>,   \* "longfilename2.txt"
  f6         |-> <<97, 46, 98, 46, 99>>,   \* "a.b.c"
  f7         |-> <<65, 95, 66, 46, 99>>,   \* "A_B.c"
  f8         |-> <<109, 121, 32, 102, 105, 108, 101>>,   \* "my file"
  f9         |-> <<109, 121, 95, 102, 105, 108, 101>>,   \* "my_file"
  f10        |-> <<97, 98>>,   \* "ab"
  f11        |-> <<65, 66>>,   \* "AB"
  f12        |-> <<110, 97, 239, 118, 101, 46, 116, 120, 116>>,   \* "na" U+00EF "ve.txt"
  f13        |-> <<26085, 26412, 46, 100, 97, 116>>,   \* U+65E5 U+672C ".dat"
  f14        |-> <<108, 111, 110, 103, 102, 48, 48, 48, 46, 116, 120, 116>>,   \* "longf000.txt"
  f15        |-> <<97, 98, 99, 100, 46, 120>>,   \* "abcd.x"
  f16        |-> <<65, 66, 67, 68, 46, 88>>,   \* "ABCD.X"
  f17        |-> <<107, 46, 100, 97, 116>>,   \* "k.dat"
  f18        |-> <<108, 110, 107>>,   \* "lnk"
  f19        |-> <<114, 101, 97, 100, 109, 101>>,   \* "readme"
  f20        |-> <<82, 69, 65, 68, 77, 69>>,   \* "README"
  f21        |-> <<108, 111, 110, 103, 102, 105, 108, 101, 110, 97, 109, 101, 51, 46, 116, 120, 116>>,   \* "longfilename3.txt"
  f22        |-> <<128512, 46, 116, 120, 116>>,   \* U+1F600 ".txt"
  f23        |-> <<97, 98, 48, 48, 48>>,   \* "ab000" (the first numbered replacement of "ab" / "AB")
  d1         |-> <<115, 117, 98>>,   \* "sub"
  d2         |-> <<83, 85, 66>>,   \* "SUB"
  d3         |-> <<100, 105, 114, 46, 111, 110, 101>>,   \* "dir.one"
  d4         |-> <<1076, 1080, 1088>>,   \* U+0434 U+0438 U+0440 (Cyrillic)
  d5         |-> <<108, 111, 110, 103, 100, 105, 114, 101, 99, 116, 111, 114, 121, 110, 97, 109, 101>>,   \* "longdirectoryname"
  d6         |-> <<101>>,   \* "e"
  d7         |-> <<109, 121, 32, 100, 105, 114>>,   \* "my dir"
  t_abs      |-> <<47, 97, 98, 115, 47, 110, 111, 119, 104, 101, 114, 101>>,   \* "/abs/nowhere"
  t_dangling |-> <<110, 111, 47, 115, 117, 99, 104>>,   \* "no/such"
  t_up       |-> <<46, 46, 47, 107, 46, 100, 97, 116>>,   \* "../k.dat"
  t_latin    |-> <<99, 97, 102, 233, 47, 109, 101, 110, 252, 46, 116, 120, 116>>,   \* "caf(E9)/men(FC).txt": 8-bit OSTA form in UDF
  t_latin2   |-> <<195, 169>>,   \* U+00C3 U+00A9: Latin-1 bytes that also are valid UTF-8
  t_cjk      |-> <<20013, 47, 25991>>,   \* U+4E2D "/" U+6587: 16-bit OSTA form
  t_upup     |-> <<46, 46, 47, 46, 46>>,   \* "../..": the last component has no identifier of its own
  t_dot      |-> <<100, 49, 47, 46>>,   \* "d1/."
  t_root     |-> <<47>>,   \* "/"
  bootcat    |-> <<98, 111, 111, 116, 46, 99, 97, 116>>,   \* "boot.cat"
  star_txt   |-> <<46, 116, 120, 116>> ]   \* ".txt" (pattern "*.txt")

FileNames == {N.f1, N.f2, N.f3, N.f4, N.f5, N.f6, N.f7, N.f8, N.f9, N.f10, N.f11, N.f12, N.f13, N.f14,
              N.f15, N.f16, N.f17, N.f18, N.f19, N.f20, N.f21, N.f22, N.f23}
DirNames  == {N.d1, N.d2, N.d3, N.d4, N.d5, N.d6, N.d7}
Lvl(i)    == <<108, 48 + i>>                      \* "l1" .. "l9": the chain of directories

\* ---- proto entries (name, kind, content, target) ---------------------------
F(n, c) == [n |-> n, k |-> "file", c |-> c, t |-> <<>>]
D(n)    == [n |-> n, k |-> "dir", c |-> "", t |-> <<>>]
L(n, t) == [n |-> n, k |-> "symlink", c |-> "", t |-> t]

Collide(a, b, isdir) == \E l \in 1..3 : Mangled(a, isdir, l) = Mangled(b, isdir, l)
\* the numbered replacement of a collides with the plain form of b
NumberClash(a, b) == \E l \in 1..3 :
    FreeNumbered(NumberingPrefix(a, FALSE, l, Mangled(a, FALSE, l)), MangleFile(a, l).ext, FALSE, {}, 0)
        = Mangled(b, FALSE, l)

FilePairs == {s \in SUBSET FileNames : Cardinality(s) = 2 /\ \E a, b \in s : a # b /\ Collide(a, b, FALSE)}
DirPairs  == {s \in SUBSET DirNames : Cardinality(s) = 2 /\ \E a, b \in s : a # b /\ Collide(a, b, TRUE)}
\* a colliding pair plus a name equal to the pair's first numbered replacement, or a third collider
FileTriples == UNION {{s \cup {c} : c \in {x \in FileNames \ s :
                   \E a \in s : NumberClash(a, x) \/ Collide(a, x, FALSE)}} : s \in FilePairs}

\* distinct contents for the members of a set of names
RECURSIVE Contentful(_, _)
Contentful(names, cs) ==
    IF names = {} THEN {}
    ELSE LET n == CHOOSE x \in names : TRUE
         IN {F(n, Head(cs))} \cup Contentful(names \ {n}, Tail(cs))
Distinctly(names) == Contentful(names, <<"A", "B", "C", "D">>)

Singles ==
       {{F(n, "A")} : n \in FileNames}
  \cup {{F(N.f1, "E")}}
  \cup {{D(n)} : n \in DirNames}
  \cup {{L(N.f18, t)} : t \in {N.t_abs, N.t_dangling, N.t_up, N.t_latin, N.t_latin2, N.t_cjk, N.t_upup, N.t_dot, N.t_root}}
  \cup {{L(N.f12, N.t_abs)}}
PairsF ==
       {Distinctly(s) : s \in FilePairs}
  \cup {{D(a) : a \in s} : s \in DirPairs}
  \cup {{F(N.f1, "A"), L(N.f18, N.f1)}, {F(N.f13, "A"), L(N.f18, N.f13)}}     \* link to a sibling
  \cup {{F(N.f1, "A"), L(N.f2, N.t_abs)}}                                      \* link colliding with a file
  \cup {{F(N.f1, "A"), F(N.f3, "A")}, {F(N.f1, "E"), F(N.f3, "E")}, {F(N.f4, "A"), F(N.f5, "A")}}
  \cup {{F(N.f1, "A"), F(N.f17, "B")}, {F(N.f10, "A"), D(N.d1)}}
TriplesF ==
       {Distinctly(s) : s \in FileTriples}
  \cup {{F(N.f1, "A"), F(N.f3, "A"), F(N.f17, "B")}, {F(N.f1, "A"), L(N.f18, N.f1), D(N.d1)}}
QuadsF == {{F(N.f4, "A"), F(N.f5, "B"), F(N.f21, "A"), F(N.f14, "C")},
           {F(N.f1, "A"), F(N.f3, "A"), L(N.f18, N.f3), D(N.d6)}}

GenFocus == Singles \cup PairsF \cup TriplesF \cup (IF Tier = "thorough" THEN QuadsF ELSE {})

\* ---- contexts ----------------------------------------------------------------
DirEnt(p) == [p |-> p, k |-> "dir", c |-> "", t |-> <<>>]
Chain(pre) == {DirEnt(SubSeq(pre, 1, i)) : i \in 1..Len(pre)}
Place(focus, pre) == {[p |-> pre \o <<x.n>>, k |-> x.k, c |-> x.c, t |-> x.t] : x \in focus}
DeepPre(n) == [i \in 1..n |-> Lvl(i)]

\* ctx = [pre |-> path of the directory holding the focus, extra |-> further entries]
Neighbours == {[p |-> <<N.f17>>, k |-> "file", c |-> "A", t |-> <<>>], DirEnt(<<N.d6>>)}
Contexts(focus) ==
       {[pre |-> <<N.d1>>, extra |-> {}],
        [pre |-> <<N.d4>>, extra |-> {}],
        [pre |-> <<N.d1>>, extra |-> Neighbours],
        [pre |-> <<N.d3, N.d5>>, extra |-> {}]}
  \cup (IF Tier = "thorough"
        THEN {[pre |-> <<N.d7, N.d4>>, extra |-> {}],
              [pre |-> <<N.d2>>, extra |-> {DirEnt(<<N.d1>>), [p |-> <<N.d1, N.f1>>, k |-> "file", c |-> "A", t |-> <<>>]}]}
        ELSE {})
DeepFocus == {{F(N.f1, "A")}, {L(N.f18, N.t_abs)}, {D(N.d6)}, {F(N.f1, "A"), F(N.f3, "A")}}
             \cup (IF Tier = "thorough" THEN {{F(N.f4, "A"), F(N.f5, "B")}, {F(N.f1, "A"), L(N.f18, N.f1)}} ELSE {})
DeepLens  == IF Tier = "thorough" THEN {5, 6, 7, 8, 9} ELSE {6, 7, 8}
\* a file at every level of the chain (thorough)
Rungs(n) == {[p |-> DeepPre(i) \o <<N.f17>>, k |-> "file", c |-> "B", t |-> <<>>] : i \in 1..n}

\* a second branch that ends in a directory of the same name at the same depth: with Rock Ridge both
\* are relocated, and both placeholders must lead to their own directory
Fork(n) == LET base == SubSeq(DeepPre(n), 1, n - 2)
               m    == <<109, 48 + n - 1>>            \* "m<n-1>", sibling of l<n-1>
           IN {DirEnt(base \o <<m>>), DirEnt(base \o <<m, Lvl(n)>>),
               [p |-> base \o <<m, Lvl(n), N.f17>>, k |-> "file", c |-> "B", t |-> <<>>]}

TreeOf(s) == Place(s.focus, s.ctx.pre) \cup Chain(s.ctx.pre) \cup s.ctx.extra
RootCtx == [pre |-> <<>>, extra |-> {}]

\* ---- option vectors ----------------------------------------------------------
NoPat == [star |-> FALSE, lit |-> <<>>]
Opt(l, r, j, u, d) == [level |-> l, rock |-> r, joliet |-> j, udf |-> u, dup |-> d, boot |-> <<>>,
                       bootcat |-> N.bootcat, fk |-> "none", fpat |-> NoPat]
Rocks == {"none", "R", "r"}
Full(levels, udfs, dups) == {Opt(l, r, j, u, d) : l \in levels, r \in Rocks, j \in BOOLEAN, u \in udfs, d \in dups}
\* pairwise cover of level x rock x joliet x udf x dup
Cover == {Opt(1, "none", FALSE, "none", FALSE), Opt(3, "r", TRUE, "udf", FALSE), Opt(3, "none", TRUE, "none", TRUE),
          Opt(2, "R", FALSE, "none", TRUE),     Opt(4, "r", TRUE, "udf", TRUE),  Opt(1, "R", TRUE, "udf", FALSE),
          Opt(2, "none", FALSE, "udf", FALSE),  Opt(4, "none", TRUE, "none", FALSE), Opt(3, "R", FALSE, "UDF", TRUE),
          Opt(1, "r", TRUE, "none", TRUE),      Opt(4, "R", FALSE, "udf", FALSE), Opt(2, "r", TRUE, "UDF", FALSE)}
NFiles(T) == Cardinality({e \in T : e.k = "file"})
HasLink(T) == \E e \in T : e.k = "symlink"
AllUdf == {"none", "udf", "UDF"}

GenOpts(s) ==
    LET T == TreeOf(s) IN
    IF Tier = "thorough"
    THEN Full(1..4, AllUdf, IF NFiles(T) >= 2 THEN BOOLEAN ELSE {FALSE})
    ELSE IF s.stage = 1
    THEN      Full({1, 3, 4}, {"none", "udf"}, {FALSE}) \cup Cover      \* (level 2 mangles like level 3)
         \cup (IF NFiles(T) >= 2 THEN Full({1, 3, 4}, {"none", "udf"}, {TRUE}) ELSE {})
         \cup (IF HasLink(T) THEN Full({1, 4}, {"UDF"}, {FALSE}) ELSE {})
    ELSE Cover
DeepOpts(s) == Full(IF Tier = "thorough" THEN 1..4 ELSE {1, 4}, IF HasLink(TreeOf(s)) THEN AllUdf ELSE {"none", "udf"},
                    IF NFiles(TreeOf(s)) >= 2 THEN BOOLEAN ELSE {FALSE})
\* boot: -b <root file> -c boot.cat -no-emul-boot
BootOpts(s) == {[o EXCEPT !.boot = N.f1] : o \in Full(IF Tier = "thorough" THEN 1..4 ELSE {1, 4}, {"none", "udf"}, {FALSE})}
\* filters: exclusion and per-view hiding, by exact name and by "*.txt"
FiltBase == {Opt(1, "r", TRUE, "udf", FALSE), Opt(3, "none", TRUE, "udf", FALSE), Opt(4, "R", TRUE, "udf", FALSE),
             Opt(2, "r", TRUE, "udf", TRUE), Opt(1, "none", FALSE, "none", TRUE)}
          \cup (IF Tier = "thorough" THEN Full({1, 4}, {"none", "udf"}, BOOLEAN) ELSE {})
FiltOpts(s) == {[o EXCEPT !.fk = k, !.fpat = pt] : o \in FiltBase, k \in {"x", "hide", "hidej", "hideu"},
                  pt \in {[star |-> FALSE, lit |-> N.f1], [star |-> TRUE, lit |-> N.star_txt]}}
               \cup {[o EXCEPT !.fk = "x", !.fpat = [star |-> FALSE, lit |-> N.d1]] : o \in FiltBase}

\* two different contents with the same length and the same 32-bit hash (realised by the harness)
HashFocus == {{F(N.f1, "H1"), F(N.f3, "H2")}, {F(N.f1, "H1"), F(N.f3, "H2"), F(N.f17, "H1")}}
HashOpts(s) == Full({1, 4}, {"none", "udf"}, {TRUE})

OptsFor(s) == CASE s.fam = "gen"  -> GenOpts(s)
                [] s.fam = "deep" -> DeepOpts(s)
                [] s.fam = "boot" -> BootOpts(s)
                [] s.fam = "filt" -> FiltOpts(s)
                [] s.fam = "hash" -> HashOpts(s)

\* ---- the enumeration ---------------------------------------------------------
BootFocus == {{F(N.f1, "A")}, {F(N.f1, "A"), F(N.f17, "B"), D(N.d1)}}
FiltFocus == {{F(N.f1, "A"), F(N.f3, "A")}, {F(N.f1, "A"), F(N.f17, "A"), F(N.f12, "B")},
              {F(N.f1, "A"), D(N.d1), L(N.f18, N.f1)}}

InitCases == st = [stage |-> 0, fam |-> "gen", focus |-> {}, ctx |-> RootCtx]
PickFocus == /\ st.stage = 0
             /\ \/ \E f \in GenFocus : st' = [stage |-> 1, fam |-> "gen", focus |-> f, ctx |-> RootCtx]
                \/ \E f \in BootFocus : st' = [stage |-> 1, fam |-> "boot", focus |-> f, ctx |-> RootCtx]
                \/ \E f \in FiltFocus : st' = [stage |-> 1, fam |-> "filt", focus |-> f, ctx |-> RootCtx]
                \/ \E f \in HashFocus : st' = [stage |-> 1, fam |-> "hash", focus |-> f, ctx |-> RootCtx]
                \/ \E f \in DeepFocus, n \in DeepLens :
                      st' = [stage |-> 1, fam |-> "deep", focus |-> f,
                             ctx |-> [pre |-> DeepPre(n), extra |-> IF Tier = "thorough" /\ n % 2 = 1 THEN Rungs(n) ELSE {}]]
                \/ \E f \in {{F(N.f1, "A")}, {D(N.d6)}}, n \in DeepLens \cap {8, 9} :
                      st' = [stage |-> 1, fam |-> "deep", focus |-> f, ctx |-> [pre |-> DeepPre(n), extra |-> Fork(n)]]
Wrap == /\ st.stage = 1 /\ st.fam \in {"gen", "filt"}
        /\ \E c \in Contexts(st.focus) :
              /\ st.fam = "filt" => c.pre = <<N.d1>>
              /\ st' = [st EXCEPT !.stage = 2, !.ctx = c]

\* ---- design mode: sibling sequences -------------------------------------------
InitDesign == \E l \in 1..4, d \in BOOLEAN : st = [lvl |-> l, isdir |-> d, sibs |-> <<>>]
Grow == /\ Len(st.sibs) < MaxSib
        /\ \E n \in (IF st.isdir THEN DirNames ELSE FileNames) \ Range(st.sibs) :
              st' = [st EXCEPT !.sibs = Append(st.sibs, n)]
Sibs(s) == [i \in 1..Len(s.sibs) |-> [n |-> s.sibs[i], d |-> s.isdir]]
DesignOK(s) == DistinctLegal(Sibs(s), MangleWithNumbering(Sibs(s), s.lvl), s.lvl)

Init == IF Mode = "cases" THEN InitCases ELSE InitDesign
Next == IF Mode = "cases" THEN PickFocus \/ Wrap ELSE Grow
Spec == Init /\ [][Next]_st

\* the numbering scheme yields distinct, legal identifiers for every sibling sequence of the pool
DistinctLegalInv == Mode = "design" => DesignOK(st)

\* every minimal counterexample once (supersets of a counterexample are not explored), and what
\* the model assigns to every sequence of one or two siblings and to every sequence of three
\* whose last member is numbered (the search for a free number passes a used identifier only
\* there) - conformance of the transcription
DesignRec(s) == [level |-> s.lvl, isdir |-> s.isdir, names |-> s.sibs,
                 idents |-> MangleWithNumbering(Sibs(s), s.lvl),
                 spans |-> Len(s.sibs) > 0 /\ PrefixSpansSeparator(Last(s.sibs), s.isdir, s.lvl)]
ThirdNumbered(s) ==
    Len(s.sibs) = 3 /\ MangleWithNumbering(Sibs(s), s.lvl)[3] # Mangled(s.sibs[3], s.isdir, s.lvl)
DumpDesign ==
    Mode = "design" =>
        IF DesignOK(st)
        THEN (Len(st.sibs) \in {1, 2} \/ ThirdNumbered(st)) => PrintT(<<"MODEL", ToJson(DesignRec(st))>>)
        ELSE PrintT(<<"DESIGN", ToJson(DesignRec(st))>>) /\ FALSE

DumpCases ==
    (Mode = "cases" /\ st.stage > 0) =>
        \A o \in OptsFor(st) :
            PrintT(<<"CASE", ToJson([tree |-> TreeOf(st), opts |-> o, feat |-> Features(TreeOf(st), o),
                                     fam |-> st.fam, stage |-> st.stage])>>)

\* model-level sanity of the enumeration: trees are closed under parents, sibling names distinct
TreeOK(T) == /\ \A e \in T : Len(e.p) > 1 => \E d \in T : d.k = "dir" /\ d.p = SubSeq(e.p, 1, Len(e.p) - 1)
             /\ \A e, f \in T : e.p = f.p => e = f
TreesWellFormed == (Mode = "cases" /\ st.stage > 0) => TreeOK(TreeOf(st))
=============================================================================
