----------------------------- MODULE Judge_Dates -----------------------------
(***************************************************************************)
(* C19 on observations of the real code.  One item per recorded time stamp *)
(* object:                                                                 *)
(*   id            string                                                  *)
(*   instant       [day, sec]: the instant handed to new() (or the virtual *)
(*                 clock when an image was mastered)                       *)
(*   tz_offset_min true offset of the process zone at that instant, from   *)
(*                 time.localtime().tm_gmtoff / zoneinfo (not pycdlib)     *)
(*   kind          "dr7" | "vd17" | "tf7" | "tf17" | "udf"                 *)
(*   stamps        the fields of every stamp in the recorded BYTES, as     *)
(*                 decoded by the harness with struct (not by pycdlib):    *)
(*                 dr7/tf7: y1900 mon mday hour min sec off                *)
(*                 vd17/tf17: year mon mday hour min sec hsec off          *)
(*                 (-1 where the byte is not an ASCII digit)               *)
(*                 udf: type tz year mon mday hour min sec csec husec usec *)
(*   hdr           TF only: [sig_ok, len, ver, flags, want_flags, total]   *)
(*   raw, reparsed hex of record() and of parse(raw) followed by record()  *)
(* The clauses are those of Dates.tla.  Names starting with "why:" are not *)
(* clauses but diagnoses that accompany failing clauses (they narrow the   *)
(* signature of a finding); "bind:ModelAgrees" says that Dates!Record* is   *)
(* no longer a transcription of the code (a machinery matter, not a        *)
(* violation of the property).                                             *)
(***************************************************************************)
EXTENDS Dates, TLC

Bit(n, k) == (n \div (2 ^ k)) % 2
PopCount7(n) == Bit(n, 0) + Bit(n, 1) + Bit(n, 2) + Bit(n, 3) + Bit(n, 4) + Bit(n, 5) + Bit(n, 6)

\* RRIP 4.1.6: "TF" LEN VER=1 FLAGS then one stamp per set bit 0..6, long form iff bit 7
TFShapeOK(x) ==
    x.kind \in {"tf7", "tf17"} =>
        LET n == PopCount7(x.hdr.flags)
            w == IF Bit(x.hdr.flags, 7) = 1 THEN 17 ELSE 7
        IN /\ x.hdr.sig_ok
           /\ x.hdr.ver = 1
           /\ x.hdr.flags = x.hdr.want_flags
           /\ (x.kind = "tf17") = (Bit(x.hdr.flags, 7) = 1)
           /\ x.hdr.len = 5 + n * w
           /\ x.hdr.total = x.hdr.len
           /\ Len(x.stamps) = n

DatesFailing(x) ==
    LET t == <<x.instant.day, x.instant.sec>>
        S == {x.stamps[k] : k \in 1..Len(x.stamps)}
    IN (IF Len(x.stamps) >= 1 /\ \A f \in S : FieldsDenoteInstant(x.kind, f, t)
        THEN {} ELSE {"FieldsDenoteInstant"})
  \cup (IF \A f \in S : OffsetIsMultipleOf15(x.kind, f, t, x.tz_offset_min)
        THEN {} ELSE {"OffsetIsMultipleOf15"})
  \cup (IF \A f \in S : UdfZoneInMinutes(x.kind, f, x.tz_offset_min)
        THEN {} ELSE {"UdfZoneInMinutes"})
  \cup (IF ParseRecordIdentity(x.raw, x.reparsed) THEN {} ELSE {"ParseRecordIdentity"})
  \cup (IF TFShapeOK(x) THEN {} ELSE {"TFShape"})
  \cup (IF \A f \in S : f = RecordKind(x.kind, t, x.tz_offset_min) THEN {} ELSE {"bind:ModelAgrees"})
  \cup (IF \E f \in S : UdfTzInQuarterHours(x.kind, f, t, x.tz_offset_min)
        THEN {"why:UdfTzInQuarterHours"} ELSE {})

VARIABLE i
INSTANCE JudgeLoop WITH Failing <- DatesFailing
=============================================================================
