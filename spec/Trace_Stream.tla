---------------------------- MODULE Trace_Stream ----------------------------
(***************************************************************************)
(* Validation of recorded executions of the real pycdlib against Stream.   *)
(*                                                                         *)
(* Input (JSON, path in env TRACE_FILE): {"traces": [[id, ev]]}, ev = array *)
(* of [a |-> action record (as in MC_stream's histories), r |-> what the   *)
(* implementation really did]:                                             *)
(*   r.out      "ok" | "exc";  r.exc = exception class name                *)
(*   r.matches  the returned bytes were found in the content of the file,  *)
(*              at a unit-aligned position (an empty result matches);      *)
(*              for readinto also: the rest of the buffer is untouched     *)
(*   r.start    that position (units): the first one; r.alts (optional) =  *)
(*              the other unit-aligned positions where the same bytes are  *)
(*              found (a boot info table is mostly zero bytes: equal bytes *)
(*              at several positions are the same result)                  *)
(*   r.omatches, r.ostart (optional; files with a boot info table only, when *)
(*              the bytes are NOT bytes of the file): the bytes are found  *)
(*              in the content the file was ADDED with (no table laid over *)
(*              it), at that unit-aligned position                         *)
(*   r.phit, r.pstart, r.pmatch   when they were not found as a whole: the *)
(*              unit-aligned position where their first unit is found and  *)
(*              how many leading units agree with the content from there   *)
(*   r.lenu, r.lenr   length of the returned bytes: whole units, remainder *)
(*   r.ret, r.retr    value returned by seek/tell: whole units, remainder  *)
(*   r.tells    tell() of every stream the harness holds open, taken right *)
(*              after the call: [sid, ok, u, r] (units, remainder)         *)
(* The harness only LOCATES bytes and converts byte counts to units; it    *)
(* compares nothing with the model's expectation.  For every trace (one    *)
(* initial state per trace) and every event the model's deterministic step *)
(* is computed here and compared clause by clause.  Failing clauses are    *)
(* printed as "DIAG" lines with trace id and step; the run continues from  *)
(* the offsets the implementation reports (resynchronisation) so that the  *)
(* rest of the trace is still examined; every trace ends with "END".       *)
(*                                                                         *)
(* Clauses                                                                 *)
(*   ReadReturnsRequestedSlice  read/readall/readinto returned exactly     *)
(*                              content[off .. min(off+n, L))              *)
(*   NeverBeyondEnd             ... and never more bytes than are left     *)
(*   NoInterference             the same, when the wrong result follows    *)
(*                              I/O of another reader of the image         *)
(*                              (extraction, other stream) since this      *)
(*                              stream was last positioned; and: another   *)
(*                              stream's tell() moved                      *)
(*   TellAgrees                 tell() is the model offset; after a read   *)
(*                              it moved by what was returned              *)
(*   ReadIntoAdvances           readinto moves the offset by its result    *)
(*   SeekSemantics              result / refusal of seek as documented     *)
(*   ExtractExact               whole-file extraction returns the content  *)
(*                              (and NeverBeyondEnd: not more bytes than   *)
(*                              the file has)                              *)
(*   ClosedRefused              calls on a closed stream are refused       *)
(*   UndocumentedException      an exception class that is not documented  *)
(*   OpenOk, CloseOk, QueryOk   open / close / listing must succeed        *)
(* "after" names what happened since the stream was last positioned (Open  *)
(* or an accepted Seek): own ReadInto, Extract, I/O on another stream;     *)
(* "cause" summarises it: "interference" | "readinto" | "none"; and        *)
(* "no-boot-info-table": a reader of a file of TableFiles returned exactly *)
(* the requested slice of the content the file was added with, i.e. the    *)
(* table is not laid over what this reader returns.                        *)
(* Every DIAG line also says what kind of file the call addressed          *)
(* ("table" | "plain" | "-").                                              *)
(***************************************************************************)
EXTENDS Stream, Json, IOUtils, TLCExt

CONSTANT Resync        \* TRUE: continue from the implementation's offsets after every event

\* file lengths (units) as literals: module generated per run from MC_stream's SHAPE line
Tab == INSTANCE StreamTables
TFiles == Tab!TabFiles
TLenOf == Tab!TabLenOf
TTableFiles == Tab!TabTableFiles
TSids  == {1, 2}
TNoSizes(L) == {}      \* the alphabet of Stream is not used here: the actions are the logged ones
TNone  == {}

VARIABLES tr, l, since, status

tvars == <<fpos, streams, last, tr, l, since, status>>

Documented  == {"PyCdlibInvalidInput", "PyCdlibInvalidISO", "PyCdlibInternalError",
                "ValueError", "UnsupportedOperation"}
Interferers == {"Extract", "OtherOpen", "OtherRead", "OtherSeek"}

\* what could explain a wrong result: I/O of another reader of the image, else an own readinto
Cause(af) == IF af \cap Interferers # {} THEN "interference"
             ELSE IF "ReadInto" \in af THEN "readinto" ELSE "none"
F(c, af) == [clause |-> c, after |-> af, cause |-> Cause(af)]
After(s) == IF since[s] = {} THEN {"none"} ELSE since[s]
Undoc(r) == r.out = "exc" /\ r.exc \notin Documented
\* a call that must succeed raised: undocumented class, or the clause given
Raised(r, c, af) == {F(IF Undoc(r) THEN "UndocumentedException" ELSE c, af)}

\* how a call on one stream looks to the other streams
OtherKind(a) == CASE a.a = "Open" -> "OtherOpen"
                  [] a.a \in ReadActs -> "OtherRead"
                  [] a.a = "Seek" -> "OtherSeek"
                  [] a.a = "Extract" -> "Extract"
                  [] OTHER -> a.a

Has(r, k) == k \in DOMAIN r
\* the returned bytes are the bytes at unit position p of the file
StartIs(r, p) == r.start = p \/ (Has(r, "alts") /\ \E i \in 1..Len(r.alts) : r.alts[i] = p)
\* ... they are not, but they are the n units at position p of what the file was added with
RawSlice(f, r, p, n) == /\ f \in TableFiles /\ Has(r, "omatches") /\ r.omatches /\ ~r.matches
                        /\ r.lenr = 0 /\ r.lenu = n /\ r.ostart = p
NoTable(c, af) == [clause |-> c, after |-> af, cause |-> "no-boot-info-table"]

ReadFails(S, a, r, m) ==
    LET s    == a.sid
        off  == S.streams[s].off
        av   == Avail(LenOf[S.streams[s].file], off)
        ok   == /\ r.matches /\ r.lenr = 0 /\ r.lenu = m.exp.len
                /\ (r.lenu > 0 => StartIs(r, m.exp.start))
        raw  == r.out = "ok" /\ RawSlice(S.streams[s].file, r, m.exp.start, m.exp.len)
        \* more bytes than are left, or bytes that run through the end of the file and go on
        more == \/ r.lenu > av \/ (r.lenu = av /\ r.lenr > 0)
                \/ (/\ ~r.matches /\ r.phit /\ r.pstart + r.pmatch = LenOf[S.streams[s].file]
                    /\ (r.lenu > r.pmatch \/ r.lenr > 0))
        name == IF since[s] \cap Interferers # {} THEN "NoInterference" ELSE "ReadReturnsRequestedSlice"
    IN IF r.out = "exc" THEN Raised(r, name, After(s))
       ELSE IF raw THEN {NoTable("ReadReturnsRequestedSlice", After(s))}
       ELSE (IF ok THEN {} ELSE {F(name, After(s))})
            \cup (IF more THEN {F("NeverBeyondEnd", After(s))} ELSE {})

\* io.BytesIO clamps a negative target of whence 1/2 to position 0: accepted as well
Clamped(a, r, m) == /\ a.a = "Seek" /\ m.exp.out = "refused" /\ m.exp.why = "negative"
                    /\ a.wh \in {1, 2} /\ r.out = "ok" /\ r.ret = 0 /\ r.retr = 0

CallFails(S, a, r, m) ==
    IF m.exp.out = "refused" /\ m.exp.why = "closed" THEN
         IF r.out = "ok" THEN {F("ClosedRefused", {"none"})}
         ELSE IF Undoc(r) THEN {F("UndocumentedException", {"none"})} ELSE {}
    ELSE CASE a.a \in ReadActs -> ReadFails(S, a, r, m)
      [] a.a = "Seek" ->
           IF r.out = "exc" THEN (IF Undoc(r) \/ m.exp.out = "ok" THEN Raised(r, "SeekSemantics", After(a.sid)) ELSE {})
           ELSE IF m.exp.out = "ok" THEN (IF r.ret = m.exp.ret /\ r.retr = 0 THEN {} ELSE {F("SeekSemantics", After(a.sid))})
           ELSE IF Clamped(a, r, m) THEN {} ELSE {F("SeekSemantics", After(a.sid))}
      [] a.a = "Tell" ->
           IF r.out = "exc" THEN Raised(r, "TellAgrees", After(a.sid))
           ELSE IF r.ret = m.exp.tell /\ r.retr = 0 THEN {} ELSE {F("TellAgrees", After(a.sid))}
      [] a.a = "Open"  -> IF r.out = "exc" THEN Raised(r, "OpenOk", {"none"}) ELSE {}
      [] a.a = "Close" -> IF r.out = "exc" THEN Raised(r, "CloseOk", {"none"}) ELSE {}
      [] a.a = "List"  -> IF r.out = "exc" THEN Raised(r, "QueryOk", {"none"}) ELSE {}
      [] a.a = "Extract" ->
           IF r.out = "exc" THEN Raised(r, "ExtractExact", {"none"})
           ELSE IF RawSlice(a.file, r, 0, m.exp.len) THEN {NoTable("ExtractExact", {"none"})}
           ELSE (IF /\ r.matches /\ r.lenr = 0 /\ r.lenu = m.exp.len
                    /\ (r.lenu > 0 => StartIs(r, 0)) THEN {} ELSE {F("ExtractExact", {"none"})})
                \cup (IF r.lenu > m.exp.len \/ (r.lenu = m.exp.len /\ r.lenr > 0)
                      THEN {F("NeverBeyondEnd", {"none"})} ELSE {})

\* the successor the model demands (S2), given the accepted alternatives
Succ(S, a, r, m) == IF Clamped(a, r, m) THEN [S EXCEPT !.streams[a.sid].off = 0] ELSE m.S

Range(q) == {q[i] : i \in 1..Len(q)}

\* the file a logged call addresses
FileOf(S, a) == IF a.a \in {"Open", "Extract"} THEN a.file
                ELSE IF IsStreamAct(a) /\ a.sid \in Sids THEN S.streams[a.sid].file ELSE NoFile
KindOf(S, a) == LET f == FileOf(S, a) IN
                IF f \in TableFiles THEN "table" ELSE IF f \in Files THEN "plain" ELSE "-"

\* tell() of every open stream right after the call.  For the stream that read, the offset
\* must have moved by what was really returned (whether THAT was right is ReadFails' business)
TellFails(S, S2, a, r) ==
    UNION {LET acting == IsStreamAct(a) /\ a.sid = t.sid
               isread == acting /\ a.a \in ReadActs /\ r.out = "ok" /\ S.streams[t.sid].st = "open"
               want == IF isread THEN S.streams[t.sid].off + r.lenu ELSE S2.streams[t.sid].off
               wantr == IF isread THEN r.lenr ELSE 0
               bad == ~t.ok \/ t.u # want \/ t.r # wantr
           IN IF S2.streams[t.sid].st # "open" \/ ~bad THEN {}
              ELSE IF ~acting THEN {F("NoInterference", {OtherKind(a)})}
              ELSE IF a.a = "ReadInto" THEN {F("ReadIntoAdvances", {"ReadInto"})}
              ELSE IF a.a = "Seek" THEN {F("SeekSemantics", After(a.sid))}
              ELSE {F("TellAgrees", After(a.sid))}
           : t \in Range(r.tells)}

ResyncedStreams(S2, r) ==
    [s \in Sids |->
        LET ts == {t \in Range(r.tells) : t.sid = s /\ t.ok} IN
        IF Resync /\ ts # {} /\ S2.streams[s].st = "open"
        THEN [S2.streams[s] EXCEPT !.off = (CHOOSE t \in ts : TRUE).u]
        ELSE S2.streams[s]]

SinceAfter(S, a, r, m) ==
    [s \in Sids |->
        IF a.a = "Extract" THEN since[s] \cup {"Extract"}
        ELSE IF ~IsStreamAct(a) \/ m.exp.out = "refused" THEN since[s]
        ELSE IF a.sid = s THEN
            (CASE a.a = "Open" -> {}
               [] a.a = "Seek" /\ r.out = "ok" -> {}
               [] a.a = "ReadInto" -> since[s] \cup {"ReadInto"}
               [] OTHER -> since[s])
        ELSE IF OtherKind(a) \in Interferers THEN since[s] \cup {OtherKind(a)} ELSE since[s]]

TInit == /\ \E T \in {JsonDeserialize(IOEnv.TRACE_FILE)} : \E i \in 1..Len(T.traces) : tr = T.traces[i]
         /\ l = 1
         /\ since = [s \in Sids |-> {}]
         /\ status = "run"
         /\ Init

TNext ==
    /\ status = "run"
    /\ IF l > Len(tr.ev)
       THEN /\ PrintT(<<"END", ToJson([tid |-> tr.id, n |-> Len(tr.ev)])>>)
            /\ status' = "done"
            /\ UNCHANGED <<fpos, streams, last, tr, l, since>>
       ELSE \E e \in {tr.ev[l]} : \E m \in {Apply(Cur, e.a)} :
            /\ IF m.exp.out = "unsupported"
               THEN /\ PrintT(<<"SKIP", ToJson([tid |-> tr.id, step |-> l, act |-> e.a.a])>>)
                    /\ UNCHANGED <<fpos, streams, last, since>>
               ELSE \E S2 \in {Succ(Cur, e.a, e.r, m)} :
                    \E fl \in {CallFails(Cur, e.a, e.r, m) \cup TellFails(Cur, S2, e.a, e.r)} :
                    /\ (fl # {} => PrintT(<<"DIAG", ToJson([tid |-> tr.id, step |-> l, act |-> e.a.a,
                                                            fails |-> fl, exc |-> e.r.exc,
                                                            kind |-> KindOf(Cur, e.a)])>>))
                    /\ fpos' = S2.fpos
                    /\ streams' = ResyncedStreams(S2, e.r)
                    /\ last' = [a |-> e.a, exp |-> m.exp, pre |-> PreOff(Cur, e.a)]
                    /\ since' = SinceAfter(Cur, e.a, e.r, m)
            /\ l' = l + 1
            /\ UNCHANGED <<tr, status>>

TSpec == TInit /\ [][TNext]_tvars
=============================================================================
