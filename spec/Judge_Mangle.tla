---------------------------- MODULE Judge_Mangle ----------------------------
(***************************************************************************)
(* C18 (and the naming half of C13) on observations of the real code.      *)
(* Items (field t selects the shape; names are code-point sequences):      *)
(*                                                                         *)
(* t = "mangle": src, level, kind ("file" | "dir"),                        *)
(*     outs      identifiers the REAL helpers derived (file: the facades'  *)
(*               join and pycdlib-genisoimage's join; dir: one),           *)
(*               empty if the helper raised (raised = exception type)      *)
(*     accepted  per identifier: result class of offering it to the real   *)
(*               add_fp / add_directory on a new image of that level       *)
(*               ("ok" | "InvalidInput" | "Other:<type>")                  *)
(*     model     what MC_mangle derived for src (<< >> if not modelled)    *)
(* t = "facade": fac ("rr" | "iso" | "joliet" | "udf"), src (the name the  *)
(*     user addresses the entry by), level, kind, out (identifier the real *)
(*     helper derives for src; for fac = "iso" src is an ISO9660 name and  *)
(*     out the Rock Ridge name found for it), add, get, write: result      *)
(*     classes; same: the entry read back by src is the one added (and no  *)
(*     other), miss_lo / miss_hi: result class of looking up an absent     *)
(*     name sorting before / after every child                             *)
(* t = "probe": name, level, kind, res (add_fp / add_directory of that     *)
(*     identifier), write_res (a following write_fp; "-" if not reached)   *)
(* t = "rrmiss": name (absent), children (Rock Ridge names present), res   *)
(*     (get_record(rr_path=...))                                           *)
(*                                                                         *)
(* Failing names: clause names; "why:<clause>:<tag>" (circumstance) and    *)
(* "res:<clause>:<tag>" (what the code did) narrow a finding's signature;  *)
(* "stat:<tag>" counters; "bind:ModelAgrees" says the *)
(* transcription in Mangle.tla and the code have drifted apart.            *)
(***************************************************************************)
EXTENDS Mangle, TLC

ResTag(r) == IF r = "ok" THEN "Accepted" ELSE IF r = "InvalidInput" THEN "Refused" ELSE r

(***************************************************************************)
(* mangle                                                                  *)
(***************************************************************************)
Modelled(x) == x.model # << >> /\ \A i \in 1..Len(x.src) : x.src[i] \in ModelAlphabet

AcceptFailing(x, j) ==
    IF x.accepted[j] = "ok" THEN {}
    ELSE {"LibraryAcceptsIt"}
         \cup Tag("LibraryAcceptsIt", WhyIllegal(x.src, x.outs[j], x.level, x.kind)
                                      \cup (IF MangledIsLegal(x.outs[j], x.level, x.kind)
                                            THEN {"NameLegalByTheRules"} ELSE {}))
         \cup ResT("LibraryAcceptsIt", {ResTag(x.accepted[j])})

MangleItemFailing(x) ==
    IF x.outs = << >> THEN {"HelperReturns", "why:HelperReturns:" \o x.raised}
    ELSE UNION {MangleFailing(x.src, x.outs[j], x.level, x.kind) \cup AcceptFailing(x, j) : j \in 1..Len(x.outs)}
         \cup (IF Modelled(x) /\ x.model # x.outs THEN {"bind:ModelAgrees"} ELSE {})

(***************************************************************************)
(* facade                                                                  *)
(***************************************************************************)
RRNameLegal(s) == s # << >> /\ ~Has(s, SLASH) /\ ~Has(s, 0) /\ Utf8Bytes(s) <= 255

\* the name the user passes is legal in the namespace the facade addresses
FacadePre(x) ==
    CASE x.fac = "rr"     -> RRNameLegal(x.src)
      [] x.fac = "iso"    -> Legality(x.src, x.level, x.kind) = "legal"
      [] x.fac = "joliet" -> JolietLegality(x.src) = "legal"
      [] x.fac = "udf"    -> UdfLegality(x.src) = "legal"

FacadeOK(x) == x.add = "ok" /\ x.get = "ok" /\ x.same /\ x.write = "ok"

FacadeItemFailing(x) ==
       (IF FacadePre(x) => FacadeOK(x) THEN {}
        ELSE {"FacadeAddressesSameEntry"}
             \cup Tag("FacadeAddressesSameEntry",
                      IF x.fac = "rr" THEN WhyIllegal(x.src, x.out, x.level, x.kind) ELSE {})
             \cup ResT("FacadeAddressesSameEntry",
                       {IF x.add # "ok" THEN "Add" \o ResTag(x.add)
                        ELSE IF x.get # "ok" THEN "Get" \o ResTag(x.get)
                        ELSE IF ~x.same THEN "OtherEntry" ELSE "Write" \o ResTag(x.write)}))
  \cup (IF x.add = "ok" /\ ~(x.miss_lo = "InvalidInput" /\ x.miss_hi = "InvalidInput")
        THEN {"FacadeAbsentNameRefused"}
             \cup Tag("FacadeAbsentNameRefused",
                      (IF x.miss_lo # "InvalidInput" THEN {"SortsBeforeFirstChild"} ELSE {})
                      \cup (IF x.miss_hi # "InvalidInput" THEN {"SortsAfterLastChild"} ELSE {}))
             \cup ResT("FacadeAbsentNameRefused",
                       (IF x.miss_lo # "InvalidInput" THEN {ResTag(x.miss_lo)} ELSE {})
                       \cup (IF x.miss_hi # "InvalidInput" THEN {ResTag(x.miss_hi)} ELSE {}))
        ELSE {})

(***************************************************************************)
(* accept-probe (C13 a): legality is computed HERE, from NameRules         *)
(***************************************************************************)
WhyNameIllegal(b, lvl, kind) ==
    IF kind = "dir"
    THEN (IF b = << >> THEN {"Empty"} ELSE {})
         \cup (IF lvl = 1 /\ Len(b) > 8 THEN {"Level1Length"} ELSE {})
         \cup (IF lvl \in {2, 3} /\ Len(b) > 207 THEN {"Level23Length"} ELSE {})
         \cup (IF lvl < 4 /\ ~AllD1(b) THEN {"NotD1"} ELSE {})
         \cup (IF Len(b) > 255 THEN {"LongerThan255"} ELSE {})
         \cup (IF Len(b) > MaxIdentLen THEN {"DoesNotFitDirectoryRecord"} ELSE {})
         \cup (IF Has(b, SLASH) \/ Has(b, 0) THEN {"SlashOrNul"} ELSE {})
    ELSE LET p == SplitIso(b) IN
         (IF p.ver # << >> /\ ~AllDigits(p.ver) THEN {"VersionNotNumeric"} ELSE {})
         \cup (IF p.ver # << >> /\ AllDigits(p.ver) /\ ~VersionOK(p.ver) THEN {"VersionOutOfRange"} ELSE {})
         \cup (IF p.name = << >> /\ p.ext = << >> THEN {"EmptyNameAndExtension"} ELSE {})
         \cup (IF Has(p.name, SEMI) \/ Has(p.ext, SEMI) THEN {"SemicolonInName"} ELSE {})
         \cup (IF lvl = 1 /\ (Len(p.name) > 8 \/ Len(p.ext) > 3) THEN {"Level1Length"} ELSE {})
         \cup (IF lvl < 4 /\ ~(AllD1(p.name) /\ AllD1(p.ext)) THEN {"NotD1"} ELSE {})
         \cup (IF Len(b) > 255 THEN {"LongerThan255"} ELSE {})
         \cup (IF Len(b) > MaxIdentLen THEN {"DoesNotFitDirectoryRecord"} ELSE {})
         \cup (IF Has(b, SLASH) \/ Has(b, 0) THEN {"SlashOrNul"} ELSE {})

ProbeItemFailing(x) ==
    LET leg == Legality(x.name, x.level, x.kind)
        b   == Utf8(x.name)
    IN (IF leg = "illegal" /\ x.res # "InvalidInput"
        THEN {"IllegalIsRefusedAtEdit"}
             \cup Tag("IllegalIsRefusedAtEdit", WhyNameIllegal(b, x.level, x.kind))
             \cup ResT("IllegalIsRefusedAtEdit",
                       {ResTag(x.res)} \cup (IF x.res = "ok" THEN {"Write" \o ResTag(x.write_res)} ELSE {}))
        ELSE {})
    \* whatever the legality: an edit either succeeds or is refused with the invalid-input error
    \cup (IF leg # "illegal" /\ x.res \notin {"ok", "InvalidInput"}
          THEN {"NoForeignException"} \cup ResT("NoForeignException", {x.res}) ELSE {})
    \* an accepted name that is not illegal does not fail later during write ("silent" names:
    \* either outcome of the edit is fine, but if accepted mastering must succeed)
    \cup (IF leg # "illegal" /\ x.res = "ok" /\ x.write_res # "ok"
          THEN {"AcceptedNameMasters"}
               \cup Tag("AcceptedNameMasters", WhyNameIllegal(b, x.level, x.kind))
               \cup ResT("AcceptedNameMasters", {"Accepted", "Write" \o ResTag(x.write_res)})
          ELSE {})
    \cup (IF leg = "legal" /\ x.res = "InvalidInput" THEN {"stat:OverRefused"} ELSE {})
    \cup {"stat:" \o leg \o "/" \o ResTag(x.res)}

(***************************************************************************)
(* Rock Ridge lookup of an absent name                                     *)
(***************************************************************************)
RECURSIVE BytesLess(_, _)
BytesLess(a, b) ==
    IF b = << >> THEN FALSE
    ELSE IF a = << >> THEN TRUE
    ELSE IF a[1] # b[1] THEN a[1] < b[1] ELSE BytesLess(Tail(a), Tail(b))

RRMissFailing(x) ==
    IF x.res = "InvalidInput" THEN {}
    ELSE {"AbsentNameIsRefused"}
         \cup ResT("AbsentNameIsRefused", {ResTag(x.res)})
         \cup Tag("AbsentNameIsRefused",
                  (IF x.children # << >> /\ \A k \in 1..Len(x.children) : BytesLess(Utf8(x.children[k]), Utf8(x.name))
                   THEN {"SortsAfterLastChild"} ELSE {}))

JMFailing(x) ==
    CASE x.t = "mangle" -> MangleItemFailing(x)
      [] x.t = "facade" -> FacadeItemFailing(x)
      [] x.t = "probe"  -> ProbeItemFailing(x)
      [] x.t = "rrmiss" -> RRMissFailing(x)

VARIABLE i
INSTANCE JudgeLoop WITH Failing <- JMFailing
=============================================================================
