------------------------------ MODULE UdfVolume ------------------------------
(***************************************************************************)
(* Property C10 - clauses over ONE observation of a UDF-bridge image.      *)
(*                                                                         *)
(* An observation (item) is what harness/check_C10.py logged for one       *)
(* written image:                                                          *)
(*   item.id      string                                                   *)
(*   item.write   result class of write_fp ("ok" or an exception class)    *)
(*   item.steps   <<[a, x, r]>> per call of the history: action name,      *)
(*                outcome the model demands ("ok" | "refuse"), result      *)
(*                class the implementation produced                        *)
(*   item.rep     image report of harness/decoders/udf.py (judge view:     *)
(*                integers saturated at 10^9, byte counts that may exceed  *)
(*                2^31 as limbs <<blocks, remainder>> base 2048)           *)
(*   item.expect  (optional) <<[path, kind, target, sha]>> - the tree the  *)
(*                model MC_udf.tla says the user built, realised to names, *)
(*                targets (code points) and SHA-256 by the harness         *)
(* The decoder shares no code with pycdlib and starts from the volume      *)
(* recognition sequence and the anchors only.  TLC evaluates the clauses;  *)
(* UdfFailing(item) is the set of names of the clauses that are false.     *)
(*                                                                         *)
(* References: ECMA-167 3rd edition (part/clause), UDF 2.60 (OSTA).        *)
(***************************************************************************)
EXTENDS Naturals, Integers, Sequences, FiniteSets, TLC

SECT == 2048
Range(s) == {s[k] : k \in DOMAIN s}
Sum(s) == LET F[k \in 0..Len(s)] == IF k = 0 THEN 0 ELSE F[k - 1] + s[k] IN F[Len(s)]
Ceil(n) == (n + SECT - 1) \div SECT
\* limbs <<q, r>> stand for q * 2048 + r
Norm(l) == <<l[1] + l[2] \div SECT, l[2] % SECT>>
LimbsOf(n) == <<n \div SECT, n % SECT>>
Indices(s) == DOMAIN s

\* ------------------------------------------------------------------------
\* Volume recognition (ECMA-167 2/8.3.1, 2/9.1-2/9.3, 3/9.1; UDF 2.60 section 2, NSR descriptor):
\* from sector 16 one volume structure descriptor per sector; the ISO 9660
\* descriptors (CD001) come first; then the extended area: exactly one BEA01,
\* exactly one NSR02 or NSR03 after it, exactly one TEA01 after that; all
\* structure versions are 1.
\* ------------------------------------------------------------------------
VrsWellFormed(r) ==
    LET v == r.vrs
        At(id) == {k \in DOMAIN v : v[k].id = id}
        nsr == At("NSR02") \cup At("NSR03")
    IN  /\ Len(v) >= 3
        \* (an ISO9660:1999 enhanced volume descriptor is a CD001 structure of version 2)
        /\ \A k \in DOMAIN v : v[k].sector = 15 + k
                                /\ (v[k].version = 1 \/ (v[k].id = "CD001" /\ v[k].type = 2 /\ v[k].version = 2))
        /\ Cardinality(At("BEA01")) = 1 /\ Cardinality(nsr) = 1 /\ Cardinality(At("TEA01")) = 1
        /\ \E b \in At("BEA01"), n \in nsr, t \in At("TEA01") :
              /\ b < n /\ n < t
              /\ \A k \in DOMAIN v : k < b => v[k].id = "CD001"
              /\ \A k \in DOMAIN v : k > b => v[k].id # "CD001"
              /\ v[b].type = 0 /\ v[n].type = 0 /\ v[t].type = 0

\* ------------------------------------------------------------------------
\* Descriptor tags (ECMA-167 3/7.2, 4/7.2; UDF 2.2.1, 2.3.1): for EVERY descriptor
\* the reader visited - identifier is the one of the structure that was
\* reached, checksum = sum of bytes 0-3 and 5-15 mod 256, CRC-ITU-T over
\* crc_len bytes after the tag (crc_len must stay inside the descriptor),
\* tag location = sector (volume space) or logical block number (partition
\* space) at which the descriptor is recorded; descriptor version 2 or 3.
\* ------------------------------------------------------------------------
TagIdOK(t)   == t.id \in Range(t.id_expected)
TagCsumOK(t) == t.csum_stored = t.csum_computed
TagCrcOK(t)  == t.crc_computed # -1 /\ t.crc_stored = t.crc_computed
TagLocOK(t)  == t.loc_stored = t.loc_expected
TagValid(r) == \A k \in DOMAIN r.tags :
                  LET t == r.tags[k] IN
                  TagIdOK(t) /\ TagCsumOK(t) /\ TagCrcOK(t) /\ TagLocOK(t) /\ t.version \in {2, 3}

\* ------------------------------------------------------------------------
\* Anchors (ECMA-167 3/8.4.2.1, UDF 2.2.3): anchor volume descriptor
\* pointers at sector 256 and at the last sector N-1; both name the same
\* main and reserve volume descriptor sequence extents (a third one at
\* N-257, if recorded, too).
\* ------------------------------------------------------------------------
AnchorAt(r, s) == {k \in DOMAIN r.anchors : r.anchors[k].sector = s /\ r.anchors[k].present}
AnchorAtLastSector(r) ==
    /\ r.whole_sectors
    /\ r.nsect > 257
    /\ AnchorAt(r, 256) # {}
    /\ AnchorAt(r, r.nsect - 1) # {}
AnchorsAgree(r) ==
    LET live == {k \in DOMAIN r.anchors : r.anchors[k].present} IN
    /\ Cardinality(live) >= 2
    /\ \A j, k \in live : /\ r.anchors[j].main = r.anchors[k].main
                          /\ r.anchors[j].reserve = r.anchors[k].reserve
    /\ \A k \in live : r.anchors[k].reserved_zero

\* ------------------------------------------------------------------------
\* Volume descriptor sequences (ECMA-167 3/8.4.2, 3/8.4.2.2; UDF 2.2.3.1/2.2.3.2):
\* a main and a reserve sequence of at least 16 sectors each, not
\* overlapping, inside the volume; the reserve sequence says the same as
\* the main one: same descriptors in the same order with the same content
\* (tag location, checksum and CRC necessarily differ and are left out of
\* the digest).  Each holds one PVD, one PD, one LVD, a USD and ends with a
\* terminating descriptor.
\* ------------------------------------------------------------------------
Count(seq, id) == Cardinality({k \in DOMAIN seq : seq[k].id = id})
SeqComplete(seq) ==
    /\ Len(seq) >= 5
    /\ Count(seq, 1) >= 1 /\ Count(seq, 5) >= 1 /\ Count(seq, 6) = 1 /\ Count(seq, 7) >= 1
    /\ seq[Len(seq)].id = 8
MainEqualsReserve(r) ==
    LET a == r.anchors[1] IN
    /\ a.present
    /\ a.main.len >= 16 * SECT /\ a.reserve.len >= 16 * SECT
    /\ a.main.len % SECT = 0 /\ a.reserve.len % SECT = 0
    /\ a.main.loc + a.main.len \div SECT <= r.nsect
    /\ a.reserve.loc + a.reserve.len \div SECT <= r.nsect
    /\ \/ a.main.loc + a.main.len \div SECT <= a.reserve.loc
       \/ a.reserve.loc + a.reserve.len \div SECT <= a.main.loc
    /\ SeqComplete(r.main) /\ SeqComplete(r.reserve)
    /\ Len(r.main) = Len(r.reserve)
    /\ \A k \in DOMAIN r.main : k \in DOMAIN r.reserve =>
          /\ r.main[k].id = r.reserve[k].id
          /\ r.main[k].digest = r.reserve[k].digest

\* ------------------------------------------------------------------------
\* Partition (ECMA-167 3/10.5, 3/8.7; UDF 2.2.14): the partition descriptor's
\* starting location and length lie inside the volume and do not contain
\* the volume structures (anchors, descriptor sequences, integrity extent);
\* the logical volume has exactly one type 1 partition map naming it
\* (UDF 2.2.8: type 1 map length 6).
\* ------------------------------------------------------------------------
VolumeRegionKinds == {"anchor", "vds_main", "vds_reserve", "lvid"}
PartitionRegionKinds == {"udf_fsd", "udf_fsd_term", "udf_fe", "udf_dir", "udf_file_data", "aed"}
Disjoint(s1, n1, s2, n2) == s1 + n1 <= s2 \/ s2 + n2 <= s1
PartitionInVolume(r) ==
    LET p == r.partition IN
    /\ p.found /\ r.lvd.found
    /\ p.len > 0
    /\ p.start + p.len <= r.nsect
    /\ \A k \in DOMAIN r.regions :
          r.regions[k].kind \in VolumeRegionKinds =>
             Disjoint(p.start, p.len, r.regions[k].start, r.regions[k].nsect)
    /\ r.lvd.lbs = SECT
    /\ r.lvd.nmaps = Len(r.lvd.maps) /\ r.lvd.nmaps >= 1
    /\ r.lvd.map_table_len = r.lvd.maps_bytes
    /\ \E k \in DOMAIN r.lvd.maps : r.lvd.maps[k].type = 1 /\ r.lvd.maps[k].len = 6
                                     /\ r.lvd.maps[k].partnum = p.number

\* every structure and every byte of data the reader was led to lies inside
\* [start, start + len) of the partition (ECMA-167 4/7.1: a logical block number
\* addresses a block OF the partition; 3/10.5.9 partition length)
PartitionCoversAllReferenced(r) ==
    LET p == r.partition IN
    /\ r.fsd.found
    /\ \A k \in DOMAIN r.regions :
          r.regions[k].kind \in PartitionRegionKinds =>
             /\ p.start <= r.regions[k].start
             /\ r.regions[k].start + r.regions[k].nsect <= p.start + p.len

\* ------------------------------------------------------------------------
\* Logical volume integrity (ECMA-167 3/8.8.2, 3/10.10; UDF 2.2.6): the extent
\* named by the logical volume descriptor holds an integrity descriptor; a
\* finished image is closed (type 1).  UDF 2.2.6.4: "Number of Files: the
\* current number of files in the associated logical volume" (every file
\* that is not a directory, counted once per ICB, so a hard-linked file is
\* ONE file; symbolic links are files), "Number of Directories ... the root
\* directory shall be included".
\* ------------------------------------------------------------------------
Lvids(r) == {k \in DOMAIN r.lvid : r.lvid[k].id = 9}
LastLvid(r) == r.lvid[CHOOSE k \in Lvids(r) : \A j \in Lvids(r) : j <= k]
NumFilesByIcb(r) == Cardinality({k \in DOMAIN r.fes : r.fes[k].file_type # 4})
NumDirs(r) == Cardinality({k \in DOMAIN r.fes : r.fes[k].file_type = 4})
LvidCounts(r) ==
    /\ Lvids(r) # {}
    /\ LastLvid(r).type = "close"
    /\ LastLvid(r).num_files = NumFilesByIcb(r)
    /\ LastLvid(r).num_dirs = NumDirs(r)
\* ECMA-167 3/10.10.5-9: number of partitions = number of partition maps; the
\* size table holds the partition's size in blocks, the free space table at
\* most that (UDF 2.2.6.2/2.2.6.3; 0xFFFFFFFF = unknown is not used on read-only media)
LvidSizeTable(r) ==
    /\ Lvids(r) # {}
    /\ LET l == LastLvid(r) IN
       /\ l.npart = r.lvd.nmaps
       /\ Len(l.size) = l.npart /\ Len(l.free) = l.npart
       /\ l.npart >= 1
       /\ l.size[1] = r.partition.len
       /\ l.free[1] <= l.size[1]
       /\ l.len_impl_use >= 46
    /\ r.lvd.integrity.len >= SECT
    /\ r.lvd.integrity.loc + r.lvd.integrity.len \div SECT <= r.nsect

\* ------------------------------------------------------------------------
\* File entries (ECMA-167 4/14.9, 4/14.17, 4/12.1, 4/14.14.1; UDF 2.3.6):
\* information length = sum of the lengths of the allocation descriptors
\* (or the length of the embedded data); logical blocks recorded = sum of
\* ceil(length / block) over recorded extents; every extent but the last
\* is a whole number of blocks; the descriptor fits its block; strategy 4.
\* ------------------------------------------------------------------------
AdSum(fe) == Norm(<<Sum([k \in DOMAIN fe.ads |-> fe.ads[k].len \div SECT]),
                    Sum([k \in DOMAIN fe.ads |-> fe.ads[k].len % SECT])>>)
AdBlocks(fe) == Sum([k \in DOMAIN fe.ads |-> IF fe.ads[k].type = 0 THEN Ceil(fe.ads[k].len) ELSE 0])
FEOne(fe) ==
    /\ fe.fits
    /\ fe.strategy = 4
    /\ fe.ad_type \in {0, 1, 3}
    /\ IF fe.embedded
       THEN /\ fe.info_len = LimbsOf(fe.ad_len)
            /\ fe.blocks_recorded = 0
       ELSE /\ fe.info_len = AdSum(fe)
            /\ fe.ad_sum = AdSum(fe)          \* (the decoder's own sum, cross-checked)
            /\ fe.blocks_recorded = AdBlocks(fe)
            /\ fe.ad_len = Len(fe.ads) * (IF fe.ad_type = 0 THEN 8 ELSE 16)
            /\ \A k \in DOMAIN fe.ads : /\ fe.ads[k].len > 0
                                        /\ k < Len(fe.ads) => fe.ads[k].len % SECT = 0
FEInfoLenEqualsADs(r) == \A k \in DOMAIN r.fes : FEOne(r.fes[k])

\* ------------------------------------------------------------------------
\* Directories (ECMA-167 4/8.6, 4/14.4; UDF 2.3.4): the directory's
\* information length is exactly the total length of its file identifier
\* descriptors; each is 38 + L_IU + L_FI padded to a multiple of 4; they
\* are packed back to back (a descriptor may cross a block boundary, the
\* next one starts right after it), none is cut off by the end of the data.
\* ------------------------------------------------------------------------
DirInfoLenEqualsFIDs(r) ==
    \A k \in DOMAIN r.dirs :
       LET d == r.dirs[k] IN
       /\ LimbsOf(d.fid_bytes) = d.info_len
       /\ LimbsOf(d.data_len) = d.info_len
       /\ d.trailing = 0
       /\ LimbsOf(Sum([j \in DOMAIN d.fids |-> d.fids[j].len])) = d.info_len
       /\ \A j \in DOMAIN d.fids : d.fids[j].complete

FIDsContiguousAcrossSectors(r) ==
    \A k \in DOMAIN r.dirs :
       LET d == r.dirs[k] IN
       \A j \in DOMAIN d.fids :
          LET f == d.fids[j] IN
          /\ f.off = (IF j = 1 THEN 0 ELSE d.fids[j - 1].off + d.fids[j - 1].len)
          /\ f.len = 4 * ((38 + f.liu + f.lfi + 3) \div 4)
          /\ f.pad_zero
          /\ f.version = 1
          \* the tag location is the logical block in which the descriptor STARTS
          /\ f.blk >= 0 /\ f.tag_loc = f.blk

\* ECMA-167 4/8.6 and 4/14.4.3 bit 3, UDF 2.3.4: exactly one descriptor
\* identifies the parent; it is the first one, has the directory bit, no
\* identifier, and its ICB is the parent directory's ICB (the root's own).
FIDParentFirst(r) ==
    \A k \in DOMAIN r.dirs :
       LET d == r.dirs[k] IN
       /\ Len(d.fids) >= 1
       /\ d.fids[1].is_parent /\ d.fids[1].is_dir /\ d.fids[1].lfi = 0
       /\ d.fids[1].icb_lb = d.parent_lb
       /\ \A j \in DOMAIN d.fids : j > 1 => ~d.fids[j].is_parent

\* ECMA-167 4/14.9.6: file link count = number of file identifier descriptors
\* identifying this ICB.  (For a directory these are its entry in the parent
\* and the parent entries of its sub-directories; for the root its own
\* parent entry takes the place of the former, ECMA-167 4/8.6.)
FidRefs(r, lb) ==
    Sum([k \in DOMAIN r.dirs |->
           Cardinality({j \in DOMAIN r.dirs[k].fids :
                          ~r.dirs[k].fids[j].deleted /\ r.dirs[k].fids[j].icb_lb = lb})])
LinkCounts(r) == \A k \in DOMAIN r.fes : r.fes[k].link_count = FidRefs(r, r.fes[k].lb)

\* UDF 2.3.6.7 / 3.2.1.1 (UniqueID) and 2.2.6.4 / 3.2.1 (next UniqueID in the integrity
\* descriptor's logical volume header): distinct ICBs carry distinct ids, all
\* below the next id to be handed out; UDF 2.3.4.3: the UDFUniqueID in the ICB
\* field of a (non-parent) file identifier descriptor is the id of the file entry.
UniqueIds(r) ==
    /\ \A j, k \in DOMAIN r.fes : j # k => r.fes[j].unique_id # r.fes[k].unique_id
    /\ Lvids(r) # {} => \A k \in DOMAIN r.fes : r.fes[k].unique_id < LastLvid(r).next_unique_id
    /\ \A k \in DOMAIN r.dirs : \A j \in DOMAIN r.dirs[k].fids :
          LET f == r.dirs[k].fids[j] IN
          (~f.is_parent /\ ~f.deleted) =>
             \A m \in DOMAIN r.fes : r.fes[m].lb = f.icb_lb => r.fes[m].unique_id = f.icb_uid

\* UDF 2.1.1 (OSTA CS0), 2.3.4.2, ECMA-167 4/14.4.8: identifiers are d-characters with
\* compression id 8 (code points < 256) or 16 (UCS-2, no byte order marks), at
\* least one character, L_FI = 1 + bytes of the characters.
NamesEncodable(r) ==
    \A k \in DOMAIN r.dirs : \A j \in DOMAIN r.dirs[k].fids :
       LET f == r.dirs[k].fids[j] IN
       ~f.is_parent =>
          /\ f.cid \in {8, 16}
          /\ f.name_ok
          /\ Len(f.name) >= 1
          /\ f.lfi = 1 + Len(f.name) * (IF f.cid = 8 THEN 1 ELSE 2)
          /\ \A c \in Range(f.name) : /\ c > 0
                                      /\ c # 47
                                      /\ (f.cid = 8 => c < 256)
                                      /\ (f.cid = 16 => c < 65536 /\ c # 65279 /\ c # 65534)

\* ECMA-167 4/8.6: no two descriptors of a directory have the same identifier (and version)
NoDuplicateNames(r) ==
    \A k \in DOMAIN r.dirs :
       \A i, j \in DOMAIN r.dirs[k].fids :
          LET f == r.dirs[k].fids[i]
              g == r.dirs[k].fids[j] IN
          (i # j /\ ~f.deleted /\ ~g.deleted /\ ~f.is_parent /\ ~g.is_parent) => f.name # g.name

\* every non-parent entry's directory bit agrees with the file type of the ICB it names
\* (ECMA-167 4/14.4.3 bit 1, 4/14.6.6), and the reader met nothing it could not follow
KindsAgree(r) ==
    /\ r.errors = <<>>
    /\ \A k \in DOMAIN r.tree : r.tree[k].kind \in {"dir", "file", "symlink"}
    /\ \A k \in DOMAIN r.tree : r.tree[k].kind = "dir" =>
          \E m \in DOMAIN r.fes : r.fes[m].lb = r.tree[k].fe_lb /\ r.fes[m].file_type = 4

\* ------------------------------------------------------------------------
\* The reader recovers exactly what the user built: same paths (names as code
\* points), same kinds, same symlink targets, same file bytes (SHA-256),
\* nothing more and nothing twice.
\* ------------------------------------------------------------------------
View(t) == [path |-> t.path, kind |-> t.kind, target |-> t.target, sha |-> t.sha]
TreeMatches(r, expect) ==
    /\ Len(r.tree) = Len(expect)
    /\ {View(r.tree[k]) : k \in DOMAIN r.tree} = {View(expect[k]) : k \in DOMAIN expect}
    /\ Cardinality({r.tree[k].path : k \in DOMAIN r.tree}) = Len(r.tree)
\* sizes separately (a wrong information length with right bytes cannot happen, but the
\* expectation carries it): size of every file as limbs
SizesMatch(r, expect) ==
    \A k \in DOMAIN r.tree : r.tree[k].kind = "file" =>
       \A j \in DOMAIN expect : expect[j].path = r.tree[k].path => expect[j].size = r.tree[k].size

\* ------------------------------------------------------------------------
\* The history itself: calls the model accepts are accepted, calls it refuses
\* are refused with the invalid-input error, and the image can be written.
\* ------------------------------------------------------------------------
StepsAccepted(item) == \A k \in DOMAIN item.steps : item.steps[k].x = "ok" => item.steps[k].r = "ok"
StepsRefused(item) == \A k \in DOMAIN item.steps : item.steps[k].x = "refuse" => item.steps[k].r = "InvalidInput"
\* ("not-attempted": the history ended in a Reopen that failed - StepsAccepted reports it)
ImageWritten(item) == item.write \in {"ok", "not-attempted"}

F(b, name) == IF b THEN {} ELSE {name}

ImageFailing(r) ==
         F(VrsWellFormed(r), "VrsWellFormed")
    \cup F(TagValid(r), "TagValid")
    \cup F(AnchorsAgree(r), "AnchorsAgree")
    \cup F(AnchorAtLastSector(r), "AnchorAtLastSector")
    \cup F(MainEqualsReserve(r), "MainEqualsReserve")
    \cup F(PartitionInVolume(r), "PartitionInVolume")
    \cup F(PartitionCoversAllReferenced(r), "PartitionCoversAllReferenced")
    \cup F(LvidCounts(r), "LvidCounts")
    \cup F(LvidSizeTable(r), "LvidSizeTable")
    \cup F(FEInfoLenEqualsADs(r), "FEInfoLenEqualsADs")
    \cup F(DirInfoLenEqualsFIDs(r), "DirInfoLenEqualsFIDs")
    \cup F(FIDsContiguousAcrossSectors(r), "FIDsContiguousAcrossSectors")
    \cup F(FIDParentFirst(r), "FIDParentFirst")
    \cup F(LinkCounts(r), "LinkCounts")
    \cup F(UniqueIds(r), "UniqueIds")
    \cup F(NamesEncodable(r), "NamesEncodable")
    \cup F(NoDuplicateNames(r), "NoDuplicateNames")
    \cup F(KindsAgree(r), "KindsAgree")

HasField(rec, f) == f \in DOMAIN rec

UdfFailing(item) ==
         F(StepsAccepted(item), "StepsAccepted")
    \cup F(StepsRefused(item), "StepsRefused")
    \cup F(ImageWritten(item), "ImageWritten")
    \cup (IF item.write = "ok" THEN ImageFailing(item.rep) ELSE {})
    \cup (IF item.write = "ok" /\ HasField(item, "expect")
          THEN F(TreeMatches(item.rep, item.expect), "TreeMatches")
               \cup F(SizesMatch(item.rep, item.expect), "SizesMatch")
          ELSE {})
=============================================================================
