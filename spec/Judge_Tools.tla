---------------------------- MODULE Judge_Tools ----------------------------
(***************************************************************************)
(* C20 - TLC judges what the two tools did (harness/check_C20.py).         *)
(*                                                                         *)
(* item, kind = "case":                                                    *)
(*   id, tree: [entry], opts (Tools: option vector),                       *)
(*   build: "ok" | "exit:<n>" | "exc:<class>"   result of genisoimage      *)
(*   extract: [iso, rr, joliet, udf |-> "exit:0" | "exit:<n>" |            *)
(*             "exc:<class>" | "skip" (view not requested)]                *)
(*   views:   [iso, rr, joliet, udf |-> [entry]]  the extracted trees      *)
(*            (entry = [p, k, c, t]; c: SHA-256 mapped to the content ids  *)
(*            of the case by the harness, "?<hex>" if unknown)             *)
(*   isolist: [[d |-> path of identifiers, n |-> identifier, dir |-> bool]]*)
(*            the directory records of the ISO9660 tree, read from the     *)
(*            raw bytes (duplicates stay visible)                          *)
(*   flags (pycdlib has_rock_ridge/joliet/udf), rawflags (from raw bytes)  *)
(* item, kind = "numbering": level, isdir, names, idents (what the real    *)
(*   build_iso_path returned for the sibling sequence, <<>> for None).     *)
(*                                                                         *)
(* ToolsFailing(item) = names of the clauses of C20 that are false.        *)
(***************************************************************************)
EXTENDS Tools

VARIABLE i

LongViews == {"rr", "joliet", "udf"}

CaseFailing(it) ==
    LET T == Range(it.tree)
        O == it.opts
    IN IF it.build # "ok" THEN {"BuildCompletes"}
       ELSE    {"ExtractEqualsTree_" \o V : V \in {W \in LongViews : Requested(W, O) /\ ~ExtractEqualsTree(W, T, O, it)}}
          \cup (IF PlainViewOnceLegalDistinct(T, O, it) THEN {} ELSE {"PlainViewOnceLegalDistinct"})
          \cup (IF ExtensionsExactly(O, it) THEN {} ELSE {"ExtensionsExactly"})
          \cup (IF DuplicatesOnceHarmless(T, O, it) THEN {} ELSE {"DuplicatesOnceHarmless"})

NumberingFailing(it) ==
    LET sibs == [j \in 1..Len(it.names) |-> [n |-> it.names[j], d |-> it.isdir]]
    IN    (IF DistinctLegal(sibs, it.idents, it.level) THEN {} ELSE {"NumberingDistinctLegal"})
     \cup \* not a clause of C20: the TLA+ transcription of the scheme and the code disagree
          (IF it.idents = MangleWithNumbering(sibs, it.level) THEN {} ELSE {"NumberingAsModel"})

ToolsFailing(it) == IF it.kind = "numbering" THEN NumberingFailing(it) ELSE CaseFailing(it)

INSTANCE JudgeLoop WITH Failing <- ToolsFailing
=============================================================================
