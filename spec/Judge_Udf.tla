------------------------------ MODULE Judge_Udf ------------------------------
(* Observation judge of property C10: walks the observations of OBS_FILE and   *)
(* prints the failing clauses of UdfVolume.tla per observation (see JudgeLoop). *)
EXTENDS UdfVolume
VARIABLE i
INSTANCE JudgeLoop WITH Failing <- UdfFailing
=============================================================================
