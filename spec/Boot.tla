-------------------------------- MODULE Boot --------------------------------
(***************************************************************************)
(* Clauses of C11 (El Torito) and C12 (hybrid boot data), evaluated by TLC *)
(* on observations of the real library.  One observation (item):           *)
(*   id      : string                                                      *)
(*   elt     : report of decoders/eltorito.py on the mastered image        *)
(*   hyb     : report of decoders/hybrid.py on the mastered image          *)
(*   rb      : what the public API reads back (get_file_from_iso_fp) from  *)
(*             the live object and from a fresh object opened on the image *)
(*             [open_ok: the mastered image can be opened again,           *)
(*              cat: <<[src, ns, path, ok, len, sha]>>,                    *)
(*              boot: <<[src, k, ns, path, ok] @@ eltorito.bit_fields>>]   *)
(*   diffkinds : region kinds in which the image differs from the same     *)
(*             history mastered without add_isohybrid (C12 only)           *)
(*   expect  : what the model (MC_boot) says the image must show, with the *)
(*             abstract ids realised (paths per namespace, SHA-256 of the  *)
(*             requested blobs and of their prefixes):                     *)
(*     div     : <<[k, act, want, got]>>  calls whose outcome differs from *)
(*               the model (the behaviour stops there)                     *)
(*     master  : "ok" or the exception class raised by write_fp            *)
(*     boot, platform                                                      *)
(*     entries : <<[media, count, ind, plat, systype, seg, patched (a boot *)
(*                  info table is maintained), loose (bytes 8..63 are not  *)
(*                  the blob's: patched now, or reopened while patched),   *)
(*                  len,                                                   *)
(*                  names: <<[ns, path]>>, sha_file, sha_file_nobit,       *)
(*                  csum_hex, media_sha]>>                                 *)
(*     catnames: <<[ns, path]>>   (iso / jol / rr names of the catalog)    *)
(*     catpaths: <<[ns, path]>>   (iso / jol paths of the catalog)         *)
(*     files   : <<[ns, path, len, sha, sha_nobit, patched, loose]>>       *)
(*     hyb     : [on, entry, offset, ptype, sectors, heads, idgiven,       *)
(*                id_hex, efi, mac, efik, mack]                            *)
(*                                                                         *)
(* isohybrid semantics used by the C12 clauses (syslinux isohybrid):       *)
(*   cylsize = heads*sectors*512; the image is zero-padded to c cylinders; *)
(*   cc = min(c, 1024).  The active partition starts at LBA `offset` and   *)
(*   has c*heads*sectors - offset sectors, i.e. it ends where the padded   *)
(*   image ends; CHS start encodes `offset`; CHS end = (cc-1, heads-1,     *)
(*   sectors) (all that CHS can express).  Bytes 432..439 = 4 * sector of  *)
(*   the file of the initial/default entry.  EFI image = first section     *)
(*   entry with platform 0xEF in catalog order (MBR slot 2, type 0xEF; GPT *)
(*   entry 2), Mac image = the second (MBR slot 3, type 0; GPT entry 3,    *)
(*   HFS type GUID; APM entries 2 and 3 in 2048-byte blocks).  GPT per     *)
(*   UEFI 2.x ch. 5: header CRC32 over HeaderSize bytes with the CRC field *)
(*   zeroed, entry-array CRC32 over NumberOfEntries*SizeOfEntry bytes, the *)
(*   backup header in the last LBA, same disk GUID and same entry array.   *)
(***************************************************************************)
EXTENDS Naturals, Sequences, FiniteSets

Range(s) == {s[k] : k \in 1..Len(s)}
Min(a, b) == IF a < b THEN a ELSE b
Mod(a, b) == a - b * (a \div b)
If(c, name) == IF c THEN {} ELSE {name}

\* ---------------------------------------------------------------- C11 --------
BootRecordAt17(i) ==
    i.expect.boot => /\ i.elt.br.present /\ i.elt.br.sector = 17 /\ i.elt.br.count = 1
                     /\ i.elt.br.version = 1 /\ i.elt.br.rest_zero
CatalogPointer(i) ==
    i.expect.boot => /\ i.elt.br.cat_in_image
                     /\ i.elt.br.cat_sector > 17 /\ i.elt.br.cat_sector < i.elt.pvd.space
                     /\ i.elt.validation.present
ValidationChecksum(i) == i.expect.boot => i.elt.validation.present /\ i.elt.validation.sum16 = 0
ValidationFields(i) ==
    i.expect.boot => LET v == i.elt.validation IN
                     /\ v.header_id = 1 /\ v.platform = i.expect.platform /\ v.reserved = 0
                     /\ v.key55 = 85 /\ v.keyaa = 170
EntryOk(e, x, k) ==
    /\ e.kind = (IF k = 1 THEN "initial" ELSE "section")
    /\ e.media = x.media /\ e.count = x.count /\ e.indicator = x.ind /\ e.platform = x.plat
    /\ e.systype = x.systype /\ e.seg = x.seg /\ e.unused = 0
EntryFieldsMatch(i) ==
    i.expect.boot => /\ Len(i.elt.entries) = Len(i.expect.entries)
                     /\ \A k \in 1..Min(Len(i.elt.entries), Len(i.expect.entries)) :
                          EntryOk(i.elt.entries[k], i.expect.entries[k], k)
\* the bytes at the load RBA are the requested blob (outside the boot info table if one was
\* requested), every remaining name of the boot file leads to the same sector with the blob's
\* length, and a diskette image is there in full
RbaOk(i, e, x) ==
    /\ e.in_image /\ e.rba > 17 /\ e.rba < i.elt.pvd.space
    /\ IF x.loose THEN e.sha_len_nobit = x.sha_file_nobit ELSE e.sha_len = x.sha_file
    /\ \A n \in Range(x.names) : \E m \in Range(e.names) : m.ns = n.ns /\ m.path = n.path /\ m.size = x.len
    /\ (x.names # <<>> =>
          /\ e.file.known /\ e.file.size = x.len /\ e.file.complete
          /\ IF x.loose THEN e.file.sha_nobit = x.sha_file_nobit ELSE e.file.sha = x.sha_file)
    /\ (x.media_sha # "" => e.media_sha = x.media_sha)
LoadRbaIsWhereBootBytesStart(i) ==
    i.expect.boot => \A k \in 1..Min(Len(i.elt.entries), Len(i.expect.entries)) :
                        RbaOk(i, i.elt.entries[k], i.expect.entries[k])
CatalogReachableAsFile(i) ==
    i.expect.boot =>
      \A n \in Range(i.expect.catnames) :
         \E m \in Range(i.elt.catalog.names) : m.ns = n.ns /\ m.path = n.path /\ m.size = 2048
\* ... with identical bytes through the API; reported per source ("live" object after mastering,
\* "open": fresh object on the written image) and namespace of the name used (iso, rr, jol, udf)
CatalogReadBad(i) ==
    IF i.expect.boot
    THEN {r.src \o "." \o r.ns : r \in {x \in Range(i.rb.cat) : ~(x.ok /\ x.len = 2048 /\ x.sha = i.elt.catalog.sha)}}
    ELSE {}
\* as stored ...
BitStored(i, e, x) ==
    /\ e.bit.pvd = i.elt.pvd.sector /\ e.bit.pvd = 16 /\ e.bit.sector = e.rba /\ e.bit.length = x.len
    /\ e.bit.csum_hex = x.csum_hex /\ e.bit.recomputed_hex = x.csum_hex /\ e.bit.complete
    /\ (x.len >= 64 => e.bit.rest_zero)
\* ... and as read back under every remaining name, from the live object and from a reopened image
BitRead(i, r, e, x) ==
    /\ r.ok /\ r.size = x.len /\ r.has
    /\ r.pvd = 16 /\ r.sector = e.rba /\ r.length = x.len /\ r.csum_hex = x.csum_hex
    /\ r.recomputed_hex = x.csum_hex /\ r.sha_nobit = x.sha_file_nobit
Both(i) == 1..Min(Len(i.elt.entries), Len(i.expect.entries))
BootInfoTableStored(i) ==
    i.expect.boot =>
      \A k \in Both(i) : i.expect.entries[k].patched => BitStored(i, i.elt.entries[k], i.expect.entries[k])
BootInfoTableReadBad(i) ==
    IF i.expect.boot
    THEN {r.src \o "." \o r.ns : r \in {x \in Range(i.rb.boot) :
                         /\ x.k \in Both(i) /\ i.expect.entries[x.k].patched
                         /\ ~BitRead(i, x, i.elt.entries[x.k], i.expect.entries[x.k])}}
    ELSE {}
\* files that are not patched read back as they were added
ReadBackUnpatchedBad(i) ==
    IF i.expect.boot
    THEN {r.src \o "." \o r.ns : r \in {x \in Range(i.rb.boot) :
                         /\ x.k \in Both(i) /\ ~i.expect.entries[x.k].patched
                         /\ ~(x.ok /\ IF i.expect.entries[x.k].loose
                                         THEN x.sha_nobit = i.expect.entries[x.k].sha_file_nobit
                                         ELSE x.sha = i.expect.entries[x.k].sha_file)}}
    ELSE {}
SectionHeadersConsistent(i) ==
    i.expect.boot =>
      LET s == i.elt.sections
          n == Len(s) IN
      /\ \A k \in 1..n : /\ s[k].indicator = (IF k = n THEN 145 ELSE 144)
                         /\ s[k].entries_seen = s[k].nentries /\ s[k].nentries >= 1
      /\ Len(i.elt.entries) >= 1
      /\ Cardinality({k \in 1..Len(i.elt.entries) : i.elt.entries[k].kind = "section"}) = Len(i.elt.entries) - 1
      /\ i.elt.catalog.stray = <<>> /\ i.elt.catalog.rest_zero
      /\ Len(i.elt.entries) = Len(i.expect.entries)
NoEltoritoLeftAfterRemoval(i) ==
    ~i.expect.boot => /\ ~i.elt.br.present /\ i.elt.brs = <<>>
                      /\ \A f \in Range(i.elt.files) : \A c \in Range(i.expect.catpaths) :
                            ~(f.ns = c.ns /\ f.path = c.path)
\* ... "and nothing else": the files are exactly the expected ones with the bytes that were added
\* (a boot file keeps its bytes outside the boot info table while El Torito refers to it)
IsCat(i, f) == i.expect.boot /\ \E c \in Range(i.expect.catpaths) : f.ns = c.ns /\ f.path = c.path
FilesAsExpected(i) ==
    /\ \A x \in Range(i.expect.files) :
          \E f \in Range(i.elt.files) :
             /\ f.ns = x.ns /\ f.path = x.path /\ f.size = x.len /\ f.complete
             /\ IF x.loose THEN f.sha_nobit = x.sha_nobit ELSE f.sha = x.sha
    /\ \A f \in Range(i.elt.files) :
          IsCat(i, f) \/ \E x \in Range(i.expect.files) : f.ns = x.ns /\ f.path = x.path

C11Clauses(i) ==
    If(BootRecordAt17(i), "BootRecordAt17") \cup If(CatalogPointer(i), "CatalogPointer")
    \cup If(ValidationChecksum(i), "ValidationChecksum") \cup If(ValidationFields(i), "ValidationFields")
    \cup If(EntryFieldsMatch(i), "EntryFieldsMatch")
    \cup If(LoadRbaIsWhereBootBytesStart(i), "LoadRbaIsWhereBootBytesStart")
    \cup If(i.rb.open_ok, "ReadBackPossible")     \* the library can open the image it has written
    \cup If(CatalogReachableAsFile(i), "CatalogReachableAsFile")
    \cup {"CatalogReachableAsFile.read." \o ns : ns \in CatalogReadBad(i)}
    \cup If(BootInfoTableStored(i), "BootInfoTable.stored")
    \cup {"BootInfoTable.read." \o ns : ns \in BootInfoTableReadBad(i)}
    \cup {"ReadBackUnpatched." \o ns : ns \in ReadBackUnpatchedBad(i)}
    \cup If(SectionHeadersConsistent(i), "SectionHeadersConsistent")
    \cup If(NoEltoritoLeftAfterRemoval(i), "NoEltoritoLeftAfterRemoval")
    \cup If(FilesAsExpected(i), "FilesAsExpected")

Gate(i, clauses) ==
    IF i.expect.div # <<>> THEN {"ApiOutcomeAsModelled"}
    ELSE IF i.expect.master # "ok" THEN {"Mastered"}
    ELSE IF i.elt.errors # <<>> THEN {"DecoderErrors"}
    ELSE clauses

C11Failing(i) == Gate(i, C11Clauses(i))

\* ---------------------------------------------------------------- C12 --------
HS(i) == i.expect.hyb.heads * i.expect.hyb.sectors
Total(i) == i.hyb.filelen \div 512
Act(i) == i.hyb.mbr.parts[i.hyb.mbr.active[1]]
Gpt(i) == i.hyb.gpt
GEntry(hdr, n) == {e \in Range(hdr.entries) : e.idx = n}

MbrSignature(i) == i.hyb.mbr.present /\ i.hyb.mbr.sig_ok /\ i.hyb.mbr.pad = 0
OneActivePartition(i) ==
    /\ Len(i.hyb.mbr.active) = 1
    /\ \A p \in Range(i.hyb.mbr.parts) : p.status \in {0, 128}
PartitionEntryAtRequestedSlot(i) ==
    /\ i.hyb.mbr.active = <<i.expect.hyb.entry>>
    /\ Range(i.hyb.mbr.nonempty) = {i.expect.hyb.entry} \cup (IF i.expect.hyb.efi THEN {2} ELSE {})
                                   \cup (IF i.expect.hyb.mac THEN {3} ELSE {})
PartitionType(i) == Len(i.hyb.mbr.active) = 1 /\ Act(i).type = i.expect.hyb.ptype
PartitionOffset(i) == Len(i.hyb.mbr.active) = 1 /\ Act(i).lba = i.expect.hyb.offset
PaddedToCylinder(i) ==
    /\ Mod(i.hyb.filelen, HS(i) * 512) = 0
    /\ i.hyb.pvd.present /\ i.hyb.filelen >= i.hyb.pvd.iso_len
    /\ i.hyb.filelen - i.hyb.pvd.iso_len < HS(i) * 512
GeometryCoversPaddedImage(i) ==
    /\ Len(i.hyb.mbr.active) = 1
    /\ LET p == Act(i)
           c == Total(i) \div HS(i)
           cc == Min(c, 1024)
           off == i.expect.hyb.offset IN
       /\ c >= 1
       /\ p.lba + p.count = Total(i)            \* the partition ends where the padded image ends
       /\ p.ehead = i.expect.hyb.heads - 1 /\ p.esect = i.expect.hyb.sectors /\ p.ecyl = cc - 1
       /\ p.bhead = Mod(off \div i.expect.hyb.sectors, i.expect.hyb.heads)
       /\ p.bsect = Mod(off, i.expect.hyb.sectors) + 1
       /\ p.bcyl = Mod(off \div HS(i), 1024)
RbaIsFourTimesBootSector(i) ==
    /\ Len(i.elt.entries) >= 1
    /\ i.hyb.mbr.rba_hi = 0 /\ i.hyb.mbr.rba = 4 * i.elt.entries[1].rba
MbrIdAsRequested(i) == i.expect.hyb.idgiven => i.hyb.mbr.id_hex = i.expect.hyb.id_hex
TailIsZero(i) == IF i.expect.hyb.efi THEN i.hyb.tail.zero_outside_backup_gpt ELSE i.hyb.tail.zero
IsoUnchangedModuloSystemAreaAndPadding(i) == Range(i.diffkinds) \subseteq {"system_area", "tail_padding"}

GptIffEfi(i) == Gpt(i).present <=> i.expect.hyb.efi
HdrShape(h) == h.present /\ h.revision_hex = "00000100" /\ h.hdr_size = 92 /\ h.reserved = 0 /\ h.rest_zero
GptHeaderCrc(i) ==
    i.expect.hyb.efi => /\ HdrShape(Gpt(i).primary) /\ Gpt(i).primary.crc_ok
                        /\ HdrShape(Gpt(i).backup) /\ Gpt(i).backup.crc_ok
GptEntriesCrc(i) ==
    i.expect.hyb.efi => /\ Gpt(i).primary.entries_in_image /\ Gpt(i).primary.entries_crc_ok
                        /\ Gpt(i).backup.entries_in_image /\ Gpt(i).backup.entries_crc_ok
MirrorLocated(i) ==
    LET p == Gpt(i).primary
        b == Gpt(i).backup IN
    /\ p.present /\ b.present
    /\ p.current = 1 /\ p.backup = Total(i) - 1 /\ b.at = Total(i) - 1
    /\ b.current = b.at /\ b.backup = 1
    /\ p.entries_lba >= 2 /\ b.entries_lba + (b.nparts * b.entsize) \div 512 = b.at
MirrorHeaderFields(i) ==
    LET p == Gpt(i).primary
        b == Gpt(i).backup IN
    /\ p.first_usable = b.first_usable /\ p.last_usable = b.last_usable
    /\ p.nparts = b.nparts /\ p.entsize = b.entsize /\ p.entsize = 128
    /\ p.first_usable >= p.entries_lba + (p.nparts * p.entsize) \div 512
    /\ p.last_usable < b.entries_lba
MirrorDiskGuid(i) == Gpt(i).primary.disk_guid = Gpt(i).backup.disk_guid
MirrorPartGuids(i) ==
    LET p == Gpt(i).primary.entries
        b == Gpt(i).backup.entries IN
    /\ Len(p) = Len(b)
    /\ \A k \in 1..Min(Len(p), Len(b)) : p[k].idx = b[k].idx /\ p[k].type_guid = b[k].type_guid
                                         /\ p[k].unique_guid = b[k].unique_guid /\ p[k].name = b[k].name
MirrorExtents(i) ==
    LET p == Gpt(i).primary.entries
        b == Gpt(i).backup.entries IN
    /\ Len(p) = Len(b)
    /\ \A k \in 1..Min(Len(p), Len(b)) : p[k].first_hex = b[k].first_hex /\ p[k].last_hex = b[k].last_hex
SectionOk(i, k) == k >= 2 /\ k <= Len(i.elt.entries)
BasicData == "a2a0d0ebe5b9334487c068b6b72699c7"
Hfs == "005346480000aa11aa1100306543ecac"
EfiPartitionDelimitsItsSection(i) ==
    i.expect.hyb.efi =>
      /\ SectionOk(i, i.expect.hyb.efik)
      /\ LET e == i.elt.entries[i.expect.hyb.efik]
             m == i.hyb.mbr.parts[2] IN
         /\ m.type = 239 /\ m.status = 0 /\ m.lba = 4 * e.rba /\ m.count = e.count
         /\ \E g \in GEntry(Gpt(i).primary, 2) :
               g.type_guid = BasicData /\ g.first = 4 * e.rba /\ g.last = 4 * e.rba + e.count - 1
         /\ Cardinality(GEntry(Gpt(i).primary, 2)) = 1
MacPartitionDelimitsItsSection(i) ==
    i.expect.hyb.mac =>
      /\ SectionOk(i, i.expect.hyb.mack)
      /\ LET e == i.elt.entries[i.expect.hyb.mack]
             m == i.hyb.mbr.parts[3] IN
         /\ m.type = 0 /\ m.status = 0 /\ m.lba = 4 * e.rba /\ m.count = e.count
         /\ \E g \in GEntry(Gpt(i).primary, 3) :
               g.type_guid = Hfs /\ g.first = 4 * e.rba /\ g.last = 4 * e.rba + e.count - 1
ApmConsistent(i) ==
    IF ~i.expect.hyb.mac THEN ~i.hyb.mbr.mac_header /\ i.hyb.apm.entries = <<>>
    ELSE
      /\ i.hyb.apm.ddm.present /\ i.hyb.apm.ddm.block_size = 2048 /\ i.hyb.apm.block = 2048
      /\ Len(i.hyb.apm.entries) = 3
      /\ \A a \in Range(i.hyb.apm.entries) : a.map_count = 3
      /\ Len(i.hyb.apm.entries) = 3 =>
           LET a == i.hyb.apm.entries IN
           /\ a[1].type = "Apple_partition_map" /\ a[1].start = 1 /\ a[1].count >= 3
           /\ a[2].type = "Apple_HFS" /\ a[3].type = "Apple_HFS"
           /\ SectionOk(i, i.expect.hyb.efik) /\ SectionOk(i, i.expect.hyb.mack)
           /\ a[2].start = i.elt.entries[i.expect.hyb.efik].rba
           /\ a[2].count * 4 = i.elt.entries[i.expect.hyb.efik].count
           /\ a[3].start = i.elt.entries[i.expect.hyb.mack].rba
           /\ a[3].count * 4 = i.elt.entries[i.expect.hyb.mack].count

C12Clauses(i) ==
    If(MbrSignature(i), "MbrSignature") \cup If(OneActivePartition(i), "OneActivePartition")
    \cup If(PartitionEntryAtRequestedSlot(i), "PartitionEntryAtRequestedSlot")
    \cup If(PartitionType(i), "PartitionType") \cup If(PartitionOffset(i), "PartitionOffset")
    \cup If(PaddedToCylinder(i), "PaddedToCylinder")
    \cup If(GeometryCoversPaddedImage(i), "GeometryCoversPaddedImage")
    \cup If(RbaIsFourTimesBootSector(i), "RbaIsFourTimesBootSector")
    \cup If(MbrIdAsRequested(i), "MbrIdAsRequested") \cup If(TailIsZero(i), "TailIsZero")
    \cup If(IsoUnchangedModuloSystemAreaAndPadding(i), "IsoUnchangedModuloSystemAreaAndPadding")
    \cup If(GptIffEfi(i), "GptIffEfi")
    \cup If(GptHeaderCrc(i), "GptHeaderCrc") \cup If(GptEntriesCrc(i), "GptEntriesCrc")
    \cup (IF i.expect.hyb.efi /\ Gpt(i).primary.present
          THEN If(MirrorLocated(i), "PrimaryBackupMirror.Located")
               \cup (IF Gpt(i).backup.present
                     THEN If(MirrorHeaderFields(i), "PrimaryBackupMirror.HeaderFields")
                          \cup If(MirrorDiskGuid(i), "PrimaryBackupMirror.DiskGuid")
                          \cup If(MirrorPartGuids(i), "PrimaryBackupMirror.PartGuids")
                          \cup If(MirrorExtents(i), "PrimaryBackupMirror.Extents")
                     ELSE {})
          ELSE {})
    \cup If(EfiPartitionDelimitsItsSection(i), "EfiPartitionDelimitsItsSection")
    \cup If(MacPartitionDelimitsItsSection(i), "MacPartitionDelimitsItsSection")
    \cup If(ApmConsistent(i), "ApmConsistent")

\* "... and is otherwise an unchanged, valid ISO": unchanged is the differential clause above (the
\* validity of the unchanged ISO is the subject of C03/C11, judged on the same bytes there).
C12Failing(i) ==
    Gate(i, IF i.expect.hyb.on
            THEN (IF i.hyb.errors # <<>> THEN {"DecoderErrors"} ELSE C12Clauses(i))
            ELSE If(i.hyb.sysarea_zero /\ i.hyb.tail.len = 0, "NoHybridLeftAfterRemoval"))
=============================================================================
