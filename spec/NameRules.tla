----------------------------- MODULE NameRules -----------------------------
(***************************************************************************)
(* Identifier rules of the namespaces an image can carry.                  *)
(*                                                                         *)
(* Identifiers are sequences of code points (Seq(0..1114111)) for text and *)
(* sequences of bytes (Seq(0..255)) for encoded ISO9660 identifiers.       *)
(* The rules are the ones pycdlib documents (docs/, docstrings of          *)
(* _check_iso9660_filename / _check_iso9660_directory / _check_path_depth) *)
(* plus "fits the on-disc field that holds it".                            *)
(*                                                                         *)
(* Three-valued legality: "legal" (must be storable faithfully if          *)
(* accepted), "illegal" (an edit must be refused with the invalid-input    *)
(* error), "silent" (the documents do not say: either outcome is fine, but *)
(* if accepted it must be stored faithfully and mastering must succeed).   *)
(***************************************************************************)
EXTENDS Naturals, Sequences, FiniteSets

SEMI  == 59
DOT   == 46
SLASH == 47

IsUpper(c) == c >= 65 /\ c <= 90
IsLower(c) == c >= 97 /\ c <= 122
IsDigit(c) == c >= 48 /\ c <= 57
IsD1(c)    == IsUpper(c) \/ IsDigit(c) \/ c = 95

AllD1(s) == \A i \in 1..Len(s) : IsD1(s[i])
AllDigits(s) == \A i \in 1..Len(s) : IsDigit(s[i])
Has(s, c) == \E i \in 1..Len(s) : s[i] = c

\* index of the last occurrence of c in s, 0 if none
LastIndexOf(s, c) ==
    IF Has(s, c) THEN CHOOSE i \in 1..Len(s) : s[i] = c /\ \A j \in (i+1)..Len(s) : s[j] # c
    ELSE 0

\* the split performed on an ISO9660 file identifier: name "." extension ";" version
SplitIso(s) ==
    LET semi == LastIndexOf(s, SEMI)
        rest == IF semi = 0 THEN s ELSE SubSeq(s, 1, semi - 1)
        ver  == IF semi = 0 THEN <<>> ELSE SubSeq(s, semi + 1, Len(s))
        dot  == LastIndexOf(rest, DOT)
    IN [name |-> IF dot = 0 THEN rest ELSE SubSeq(rest, 1, dot - 1),
        ext  |-> IF dot = 0 THEN <<>> ELSE SubSeq(rest, dot + 1, Len(rest)),
        ver  |-> ver]

\* value of a digit string, saturating at 99999 (TLC integers are 32 bit)
RECURSIVE DigitsValue(_)
DigitsValue(s) ==
    IF s = <<>> THEN 0
    ELSE LET v == DigitsValue(SubSeq(s, 1, Len(s) - 1)) * 10 + (s[Len(s)] - 48)
         IN IF v > 99999 THEN 99999 ELSE v

VersionOK(v) == v = <<>> \/ (AllDigits(v) /\ DigitsValue(v) >= 1 /\ DigitsValue(v) <= 32767)

\* longest identifier a directory record can hold (record length is one byte)
MaxIdentLen == 221

IsoFileLegality(s, lvl) ==
    LET p == SplitIso(s) IN
    IF \/ ~VersionOK(p.ver)
       \/ (p.name = <<>> /\ p.ext = <<>>)
       \/ Has(p.name, SEMI) \/ Has(p.ext, SEMI)
       \/ (lvl = 1 /\ (Len(p.name) > 8 \/ Len(p.ext) > 3))
       \/ (lvl < 4 /\ ~(AllD1(p.name) /\ AllD1(p.ext)))
       \/ Len(s) > 255
       \/ Has(s, SLASH) \/ Has(s, 0) \/ s = <<1>>    \* (00) and (01) are "." and ".." (ECMA-119 6.8.2.2)
    THEN "illegal"
    ELSE IF Len(s) > MaxIdentLen - 40 THEN "silent"   \* may not fit next to extension records
    ELSE "legal"

IsoDirLegality(s, lvl) ==
    IF \/ Len(s) = 0
       \/ (lvl = 1 /\ Len(s) > 8)
       \/ (lvl \in {2, 3} /\ Len(s) > 207)
       \/ (lvl < 4 /\ ~AllD1(s))
       \/ Len(s) > 255
       \/ Has(s, SLASH) \/ Has(s, 0) \/ s = <<1>>
    THEN "illegal"
    ELSE IF Len(s) > MaxIdentLen - 40 THEN "silent"
    ELSE "legal"

\* the level a parse infers for an image from one identifier (1 or 3)
LevelFromFile(s) ==
    LET p == SplitIso(s) IN
    IF \/ ~VersionOK(p.ver) \/ Has(p.name, SEMI) \/ Has(p.ext, SEMI)
       \/ Len(p.name) > 8 \/ Len(p.ext) > 3 \/ ~(AllD1(p.name) /\ AllD1(p.ext))
    THEN 3 ELSE 1
LevelFromDir(s) == IF Len(s) > 8 \/ ~AllD1(s) THEN 3 ELSE 1

\* number of UTF-16 code units / UTF-8 bytes of a code point sequence
Utf16Units(s) == Len(s) + Cardinality({i \in 1..Len(s) : s[i] > 65535})
RECURSIVE Utf8Bytes(_)
Utf8Bytes(s) ==
    IF s = <<>> THEN 0
    ELSE (IF s[1] < 128 THEN 1 ELSE IF s[1] < 2048 THEN 2 ELSE IF s[1] < 65536 THEN 3 ELSE 4)
         + Utf8Bytes(Tail(s))

JolietLegality(s) ==
    IF Len(s) = 0 \/ Utf16Units(s) > 64 \/ Has(s, SLASH) \/ Has(s, 0) THEN "illegal"
    ELSE IF Utf8Bytes(s) > 64 \/ (\E i \in 1..Len(s) : s[i] > 65535) THEN "silent"
    ELSE "legal"

\* UDF d-string in a file identifier: 1 byte compression id + 1 or 2 bytes per character,
\* total at most 255
UdfLegality(s) ==
    LET wide == \E i \in 1..Len(s) : s[i] > 255
        need == 1 + (IF wide THEN 2 * Utf16Units(s) ELSE Len(s))
    IN IF Len(s) = 0 \/ need > 255 \/ Has(s, SLASH) \/ Has(s, 0) THEN "illegal"
       ELSE IF (\E i \in 1..Len(s) : s[i] > 65535) THEN "silent"
       ELSE "legal"

(***************************************************************************)
(* ECMA-119 9.3 ordering of identifiers inside a directory.                *)
(***************************************************************************)
PadTo(s, n) == s \o [i \in 1..(n - Len(s)) |-> 32]
RECURSIVE SeqLess(_, _)
SeqLess(a, b) ==   \* strict lexicographic order on equal-length sequences
    IF a = <<>> THEN FALSE
    ELSE IF a[1] # b[1] THEN a[1] < b[1] ELSE SeqLess(Tail(a), Tail(b))
Max2(a, b) == IF a > b THEN a ELSE b
PaddedLess(a, b) == LET n == Max2(Len(a), Len(b)) IN SeqLess(PadTo(a, n), PadTo(b, n))
PaddedEq(a, b) == LET n == Max2(Len(a), Len(b)) IN PadTo(a, n) = PadTo(b, n)

Ecma119Less(a, b) ==
    LET pa == SplitIso(a)
        pb == SplitIso(b)
    IN IF ~PaddedEq(pa.name, pb.name) THEN PaddedLess(pa.name, pb.name)
       ELSE IF ~PaddedEq(pa.ext, pb.ext) THEN PaddedLess(pa.ext, pb.ext)
       ELSE \* versions in descending order
            (AllDigits(pa.ver) /\ AllDigits(pb.ver) /\ DigitsValue(pa.ver) > DigitsValue(pb.ver))
=============================================================================
