---------------------------- MODULE Trace_Model ----------------------------
(***************************************************************************)
(* Validation of recorded executions of the real pycdlib against           *)
(* PyCdlibModel.                                                           *)
(*                                                                         *)
(* Input (JSON, path in env TRACE_FILE):                                   *)
(*   names/blobs/targets : realisation tables (ids and code points)        *)
(*   obs    : array of distinct projections of the implementation          *)
(*   traces : array of [id, ev], ev = array of                             *)
(*              [a |-> action record, res |-> result class, o |-> index    *)
(*               into obs (1-based)]                                       *)
(* For every trace (tid is chosen in Init) and every event the model's     *)
(* transition function computes the outcome the properties demand for the  *)
(* logged call; it is compared, clause by clause, with the logged          *)
(* projection.  Failing clauses are printed as one JSON line each          *)
(* ("DIAG ..."), the run continues from what the implementation actually   *)
(* did (resynchronisation), and every trace ends with an "END" line.       *)
(***************************************************************************)
EXTENDS PyCdlibModel, Json, IOUtils, TLCExt

\* JsonDeserialize is re-evaluated on every use: parse once into a TLC register in TInit
\* (validation runs with -workers 1)
Input == TLCGet(1)

\* realisation tables as literals (module generated per run; literal constants are
\* evaluated once, definitions over the deserialised input were re-evaluated per use)
T == INSTANCE TraceTables
TNames   == T!TabNames
TBlobs   == T!TabBlobs
TTargets == T!TabTargets
TCode    == T!TabCode
TBlobLen == T!TabBlobLen

Obs    == Input.obs
Traces == Input.traces

VARIABLES tid, l, st, status

tvars == <<tid, l, st, status>>

Range(s) == {s[i] : i \in 1..Len(s)}

(***************************************************************************)
(* From a projection to model terms                                        *)
(***************************************************************************)
ObsTree(list) ==
    LET ps == {e.p : e \in Range(list)} IN
    [p \in ps |-> LET e == CHOOSE x \in Range(list) : x.p = p IN Entry(e.k, e.c, e.h, e.t)]
ObsBlobOf(o, c) ==
    LET es == {e \in Range(o.iso) \cup Range(o.jol) \cup Range(o.udf) : e.c = c} IN
    (CHOOSE e \in es : TRUE).b
ObsClasses(o) == {e.c : e \in Range(o.iso) \cup Range(o.jol) \cup Range(o.udf)} \ {0}

\* El Torito references in terms of the observed link classes
ObsClassOf(o, ns, p) ==
    LET es == {e \in Range(IF ns = "iso" THEN o.iso ELSE IF ns = "jol" THEN o.jol ELSE o.udf) : e.p = p}
    IN IF es = {} THEN 0 ELSE (CHOOSE e \in es : TRUE).c
EltFromObs(o, base) ==
    IF ~o.elt.on THEN NoElt
    ELSE LET cats == {e.c : e \in {x \in Range(o.iso) \cup Range(o.jol) \cup Range(o.udf) : x.b = "cat"}}
         IN [on |-> TRUE,
             catino |-> IF cats # {} THEN CHOOSE c \in cats : TRUE ELSE base.elt.catino,
             entries |-> [k \in 1..Len(o.elt.entries) |->
                            IF o.elt.entries[k] = <<>> THEN 0
                            ELSE ObsClassOf(o, o.elt.entries[k][1][1], o.elt.entries[k][1][2])]]

\* the model state the implementation is actually in (link classes as observed)
FromObs(o, base) ==
    [base EXCEPT !.iso = ObsTree(o.iso), !.jol = ObsTree(o.jol), !.udf = ObsTree(o.udf),
                 !.blob = [c \in ObsClasses(o) |-> ObsBlobOf(o, c)],
                 !.grp  = [c \in ObsClasses(o) |-> c],
                 !.elt  = EltFromObs(o, base),
                 !.npvd = o.npvd,
                 !.cfg.level = o.cfg.level]

Shape(t) == [p \in DOMAIN t |-> [k |-> t[p].k, h |-> t[p].h, t |-> t[p].t]]
BlobsOf(s, t) == [p \in {q \in DOMAIN t : t[q].k = "file"} |->
                    IF t[p].ino \in DOMAIN s.blob THEN s.blob[t[p].ino] ELSE "none"]
ObsBlobs(list) == LET fs == {e \in Range(list) : e.k = "file"} IN
                  [p \in {e.p : e \in fs} |-> (CHOOSE e \in fs : e.p = p).b]
\* link classes of non-empty content, as a partition of names
IsEmptyBlob(b) == b \in DOMAIN TBlobLen /\ TBlobLen[b] = 0
ModelPartition(s) ==
    {NameRefs(s, i) : i \in {j \in DOMAIN s.blob : ~IsEmptyBlob(s.blob[j]) /\ NameRefs(s, j) # {}}}
ObsPartition(o) ==
    LET all == {<<"iso", e>> : e \in Range(o.iso)} \cup {<<"jol", e>> : e \in Range(o.jol)}
               \cup {<<"udf", e>> : e \in Range(o.udf)}
        cs  == {x[2].c : x \in {y \in all : y[2].k = "file" /\ y[2].c # 0 /\ ~IsEmptyBlob(y[2].b)}}
    IN {{<<x[1], x[2].p>> : x \in {y \in all : y[2].c = c}} : c \in cs}

\* El Torito: present iff the model says so, and every entry refers to the content the model says
\* (identified by the set of names of that content; an entry whose boot file was unlinked has none)
EltMatches(s, oe) ==
    /\ oe.on = s.elt.on
    /\ (s.elt.on => /\ Len(oe.entries) = Len(s.elt.entries)
                     /\ \A k \in 1..Len(oe.entries) :
                           {<<x[1], x[2]>> : x \in Range(oe.entries[k])} = NameRefs(s, s.elt.entries[k]))

\* ---- what the independent ISO9660/Joliet decoder recovered from the written image ----------
\* in the plain ISO9660 view a Rock Ridge symlink is an empty file
DecShape(t) == {<<p, IF t[p].k = "dir" THEN "dir" ELSE "file">> : p \in DOMAIN t}
DecSeen(list) == {<<e.p, e.k>> : e \in Range(list)}
\* Joliet has no symlinks: the model's jol tree holds only what was put there
DecBlobs(list) == {<<e.p, e.b>> : e \in {x \in Range(list) : x.k = "file" /\ x.n > 0}}
ModelBlobs(s, t) == {<<p, s.blob[t[p].ino]>> : p \in {q \in DOMAIN t : t[q].k = "file" /\ t[q].ino \in DOMAIN s.blob
                                                              /\ ~IsEmptyBlob(s.blob[t[q].ino])}}
\* two names share data sectors iff they are links to the same content (non-empty content)
DecNames(d) == {<<"iso", e>> : e \in {x \in Range(d.iso) : x.k = "file" /\ x.n > 0}}
               \cup {<<"jol", e>> : e \in {x \in Range(d.jol) : x.k = "file" /\ x.n > 0}}
InoOf(s, ns, p) == IF p \in DOMAIN Tree(s, ns) THEN Tree(s, ns)[p].ino ELSE 0
SharedIffLinked(s, d) ==
    \A a \in DecNames(d) : \A b \in DecNames(d) :
        (InoOf(s, a[1], a[2].p) # 0 /\ InoOf(s, b[1], b[2].p) # 0)
        => ((a[2].x = b[2].x) <=> (InoOf(s, a[1], a[2].p) = InoOf(s, b[1], b[2].p)))
\* C06: after force_consistency, the location and length get_record reports for every entry with
\* sectors of its own are the ones found in the image written next (d.fq: the queries; none = not asked)
QuerySet(d) == {<<q.ns, q.p, q.x, q.n>> : q \in {y \in Range(d.fq) : y.ns \in {"iso", "jol", "error"} /\ y.n > 0}}
ImageSet(d) == {<<"iso", e.p, e.x, e.n>> : e \in {y \in Range(d.iso) : y.n > 0}}
               \cup {<<"jol", e.p, e.x, e.n>> : e \in {y \in Range(d.jol) : y.n > 0}}
QueryAgreesWithImage(d) ==
    (\E q \in Range(d.fq) : q.ns # "none") => (QuerySet(d) = ImageSet(d) /\ \A q \in Range(d.fq) : q.ns # "error")
DecMismatch(s, d) ==
       (IF DecShape(s.iso) # DecSeen(d.iso) THEN {"Dec_Tree_iso"} ELSE {})
  \cup (IF s.cfg.joliet # 0 /\ DecShape(s.jol) # DecSeen(d.jol) THEN {"Dec_Tree_jol"} ELSE {})
  \cup (IF ModelBlobs(s, s.iso) # DecBlobs(d.iso) THEN {"Dec_Content_iso"} ELSE {})
  \cup (IF s.cfg.joliet # 0 /\ ModelBlobs(s, s.jol) # DecBlobs(d.jol) THEN {"Dec_Content_jol"} ELSE {})
  \cup (IF ~SharedIffLinked(s, d) THEN {"SharedIffLinked"} ELSE {})
  \cup (IF ~QueryAgreesWithImage(d) THEN {"QueryAgreesWithImage"} ELSE {})

\* ---- the other readers of a freshly opened image: walk(), get_record + full_path_from_dirrecord ----
ObsWalk(list) == {<<x.d, Range(x.ds), Range(x.fs)>> : x \in Range(list)}
\* no directory yielded twice, no name listed twice
WalkExact(list) == /\ Len(list) = Cardinality({x.d : x \in Range(list)})
                   /\ \A x \in Range(list) : Len(x.ds) + Len(x.fs) = Cardinality(Range(x.ds) \cup Range(x.fs))
WalkOK(t, list) == ObsWalk(list) = WalkOf(t) /\ WalkExact(list)
FullPathOK(t, udfns, list) == /\ {x.p : x \in Range(list)} = DOMAIN t
                              /\ \A x \in Range(list) : SameObject(t, udfns, x.p, x.q)
ReadMismatch(s, r) ==
       (IF ~WalkOK(s.iso, r.wiso) THEN {"Tree_walk_iso"} ELSE {})
  \cup (IF s.cfg.rr # "" /\ ~WalkOK(s.iso, r.wrrv) THEN {"Tree_walk_rr"} ELSE {})
  \cup (IF s.cfg.joliet # 0 /\ ~WalkOK(s.jol, r.wjol) THEN {"Tree_walk_jol"} ELSE {})
  \cup (IF s.cfg.udf /\ ~WalkOK(s.udf, r.wudf) THEN {"Tree_walk_udf"} ELSE {})
  \cup (IF ~FullPathOK(s.iso, FALSE, r.fiso) THEN {"Tree_fullpath_iso"} ELSE {})
  \cup (IF s.cfg.rr # "" /\ ~FullPathOK(s.iso, FALSE, r.frrv) THEN {"Tree_fullpath_rr"} ELSE {})
  \cup (IF s.cfg.joliet # 0 /\ ~FullPathOK(s.jol, FALSE, r.fjol) THEN {"Tree_fullpath_jol"} ELSE {})
  \cup (IF s.cfg.udf /\ ~FullPathOK(s.udf, TRUE, r.fudf) THEN {"Tree_fullpath_udf"} ELSE {})

\* names of the clauses in which projection o differs from model state s
\* (\E over singleton sets binds evaluated values once; LET bodies are re-evaluated per use)
MismatchOf(s, o, ti, tj, tu, tr) ==
       (IF Shape(s.iso) # Shape(ti) THEN {"Tree_iso"} ELSE {})
  \cup (IF Shape(s.jol) # Shape(tj) THEN {"Tree_jol"} ELSE {})
  \cup (IF Shape(s.udf) # Shape(tu) THEN {"Tree_udf"} ELSE {})
  \cup (IF s.cfg.rr # "" /\ Shape(s.iso) # Shape(tr) THEN {"Tree_rr"} ELSE {})
  \cup (IF BlobsOf(s, s.iso) # ObsBlobs(o.iso) THEN {"Content_iso"} ELSE {})
  \cup (IF BlobsOf(s, s.jol) # ObsBlobs(o.jol) THEN {"Content_jol"} ELSE {})
  \cup (IF BlobsOf(s, s.udf) # ObsBlobs(o.udf) THEN {"Content_udf"} ELSE {})
  \cup (IF s.cfg.rr # "" /\ BlobsOf(s, s.iso) # ObsBlobs(o.rrv) THEN {"Content_rr"} ELSE {})
  \cup (IF ModelPartition(s) # ObsPartition(o) THEN {"LinkClasses"} ELSE {})
  \cup (IF Len(o.iso) # Cardinality(DOMAIN ti) \/ Len(o.jol) # Cardinality(DOMAIN tj)
           \/ Len(o.udf) # Cardinality(DOMAIN tu) THEN {"UniqueNames"} ELSE {})
  \cup (IF s.npvd # o.npvd THEN {"NumPvd"} ELSE {})
  \cup (IF ~EltMatches(s, o.elt) THEN {"EltRefs"} ELSE {})
  \cup (IF o.dec.on THEN DecMismatch(s, o.dec) ELSE {})
  \cup (IF o.rd.on /\ s.phase # "uninit" THEN ReadMismatch(s, o.rd) ELSE {})
  \* (a closed object has nothing to project: the harness logs "no_observation")
  \cup (IF s.phase = "uninit" THEN (IF o.err = <<"no_observation">> THEN {} ELSE {"ObjectStillOpen"})
        ELSE IF o.err # <<>> THEN {"ProjectionError"} ELSE {})
Mismatch(s, o) ==
    CHOOSE m \in {MismatchOf(s, o, ObsTree(o.iso), ObsTree(o.jol), ObsTree(o.udf), ObsTree(o.rrv))} : TRUE

\* for outcomes where the statement leaves a choice between two sets of names to remove
ObsDom(o, ns) == {x.p : x \in Range(IF ns = "iso" THEN o.iso ELSE IF ns = "jol" THEN o.jol ELSE o.udf)}
Between(acc, alt, o) ==
    \A ns \in NSs : DOMAIN Tree(alt, ns) \subseteq ObsDom(o, ns) /\ ObsDom(o, ns) \subseteq DOMAIN Tree(acc, ns)
Restrict(t, ps) == [p \in DOMAIN t \cap ps |-> t[p]]
Cand(acc, o) == GC([acc EXCEPT !.iso = Restrict(acc.iso, ObsDom(o, "iso")),
                               !.jol = Restrict(acc.jol, ObsDom(o, "jol")),
                               !.udf = Restrict(acc.udf, ObsDom(o, "udf"))])

Documented == {"InvalidInput", "InvalidISO", "InternalError"}

(***************************************************************************)
(* One event                                                               *)
(***************************************************************************)
Emit(kind, e, clauses, why) ==
    PrintT(<<"DIAG", ToJson([tid |-> Traces[tid].id, step |-> l, act |-> e.a.a, kind |-> kind,
                             clauses |-> clauses, why |-> why, res |-> e.res, gen |-> st.gen])>>)

\* judge: compare what the model demands (want, against state s) with the projection
Judge(e, kind, s, why) ==
    \E o \in {Obs[e.o]} : \E m \in {Mismatch(s, o)} :
       /\ (m # {} => Emit(kind, e, m, why))
       /\ st' = IF m = {} THEN [s EXCEPT !.cfg.level = o.cfg.level] ELSE FromObs(o, s)

\* the harness masters the image and opens it in a fresh object: e.wres, e.ores, view e.o
MasterStep(e) ==
    IF e.wres # "ok" THEN Emit("master", e, {"WriteFails"} \cup (IF e.base \in {"same", "none"} THEN {}
                         ELSE IF e.basekind = "refused" THEN {"RefusedDiff"} ELSE {"ScheduleDiff"}), e.wres) /\ st' = st
    ELSE IF e.ores # "ok" THEN Emit("master", e, {"OpenFails"}, e.ores) /\ st' = st
    ELSE \E m \in {Mismatch(st, Obs[e.o])
                   \cup (IF e.base \in {"same", "none"} THEN {}
                         ELSE IF e.basekind = "refused" THEN {"RefusedDiff"} ELSE {"ScheduleDiff"})} :
         /\ (m # {} => Emit("master", e, m, e.base))
         /\ st' = st

ApiStep(e) ==
    \E r \in {Step(st, e.a)} :
    CASE e.o = 0 /\ r.out # "unsupported" ->
           \* a step of a long behaviour that was not observed: follow the implementation's verdict
           st' = IF e.res = "ok" /\ r.out # "refuse" THEN r.acc ELSE st
      [] r.out = "unsupported" ->
           \* outside the model: the rest of this trace is not judged
           /\ PrintT(<<"SKIP", ToJson([tid |-> Traces[tid].id, step |-> l, act |-> e.a.a, why |-> r.why])>>)
           /\ st' = [st EXCEPT !.phase = "skipped"]
      [] e.res \notin Documented \cup {"ok"} ->
           \* an exception type the library does not document escaped
           /\ Emit("undocumented", e, {"UndocumentedException"}, r.why)
           /\ st' = FromObs(Obs[e.o], st)
      [] r.out = "ok" /\ e.res = "ok"      ->
           \* where the statement leaves a choice (r.alt # r.acc) either outcome is accepted
           \* (acc removes the fewest names, alt the most; anything in between that is otherwise
           \* consistent is admissible)
           IF r.alt # r.acc /\ Mismatch(r.acc, Obs[e.o]) # {} /\ Between(r.acc, r.alt, Obs[e.o])
           THEN Judge(e, "accept", Cand(r.acc, Obs[e.o]), "") ELSE Judge(e, "accept", r.acc, "")
      [] r.out = "ok" /\ e.res # "ok"      -> \* over-refusal: allowed, but nothing may change
           /\ PrintT(<<"OVER", ToJson([tid |-> Traces[tid].id, step |-> l, act |-> e.a.a, res |-> e.res])>>)
           /\ Judge(e, "refused", st, "over_refusal")
      [] r.out = "refuse" /\ e.res # "ok"  -> Judge(e, "refused", st, r.why)
      [] r.out = "refuse" /\ e.res = "ok"  ->
           /\ Emit("under_refusal", e, {"Accepted_" \o r.why}, r.why)
           /\ st' = FromObs(Obs[e.o], st)
      [] r.out = "either" /\ e.res = "ok"  -> Judge(e, "accept", r.acc, r.why)
      [] r.out = "either" /\ e.res # "ok"  -> Judge(e, "refused", st, r.why)

\* C17: what modify_file_in_place may touch in the backing file (e.ipk: kinds of changed bytes)
InPlaceAllowed == {"data", "dirrec", "udf_fe", "vd_size"}
InPlaceOK(e) ==
    IF e.res = "ok"
    THEN IF Range(e.ipk) \subseteq InPlaceAllowed THEN TRUE ELSE Emit("inplace", e, {"InPlaceTouchesOnly"}, "")
    ELSE IF Range(e.ipk) = {} THEN TRUE ELSE Emit("inplace", e, {"RefusedInPlaceChangedFile"}, "")

TInit == /\ TLCSet(1, JsonDeserialize(IOEnv.TRACE_FILE))
         /\ tid \in 1..Len(Traces)
         /\ l = 1
         /\ st = Uninit
         /\ status = "run"

TNext == /\ status = "run"
         /\ IF l > Len(Traces[tid].ev)
            THEN /\ PrintT(<<"END", ToJson([tid |-> Traces[tid].id, n |-> Len(Traces[tid].ev)])>>)
                 /\ status' = "done"
                 /\ UNCHANGED <<tid, l, st>>
            ELSE LET e == Traces[tid].ev[l] IN
                 /\ IF st.phase = "skipped" THEN st' = st
                    ELSE IF e.a.a \in {"Master", "BackingView"} THEN MasterStep(e) ELSE ApiStep(e)
                 /\ (e.a.a = "ModifyInPlace" /\ st.phase # "skipped" /\ st'.phase # "skipped" => InPlaceOK(e))
                 /\ l' = l + 1
                 /\ UNCHANGED <<tid, status>>

TSpec == TInit /\ [][TNext]_tvars
=============================================================================
