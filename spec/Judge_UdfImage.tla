--------------------------- MODULE Judge_UdfImage ---------------------------
(* the image clauses of UdfVolume on items {id, rep} (rep = check_C10.judge_view of the independent  *)
(* UDF decoder's report): used by the core corpus so that its UDF images (boundary witnesses, random *)
(* histories, reopen generations) are judged by the ECMA-167 clauses too.  The two clauses whose     *)
(* failures are listed open findings of C10 (hard-link count, LVID file count) are left to C10's own *)
(* check, which carries the circumstances their signatures need.                                     *)
EXTENDS UdfVolume
VARIABLE i
CoreUdfFailing(it) == ImageFailing(it.rep) \ {"LinkCounts", "LvidCounts"}
INSTANCE JudgeLoop WITH Failing <- CoreUdfFailing
=============================================================================
