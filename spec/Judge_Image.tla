---------------------------- MODULE Judge_Image ----------------------------
EXTENDS ImageChecks
VARIABLE i
INSTANCE JudgeLoop WITH Failing <- ImageFailing
=============================================================================
