------------------------------- MODULE Volume -------------------------------
(***************************************************************************)
(* ECMA-119 (ISO9660) / Joliet structural clauses over one image report r  *)
(* (a record as produced by JsonDeserialize from the output of             *)
(* harness/decoders/iso9660.py; the schema is in that file's docstring).   *)
(*                                                                         *)
(* The decoder reports raw fields only; everything below is decided here,  *)
(* by TLC.  VolumeFailing(r) is the set of names of the clauses that are   *)
(* false on r.  Clauses about one directory hierarchy are evaluated per    *)
(* tree t \in DOMAIN r.trees ("iso" = first primary descriptor, "jol" =    *)
(* Joliet supplementary descriptor, "enh" = ISO9660:1999 enhanced          *)
(* descriptor) and are named "<t>:<Clause>".                               *)
(*                                                                         *)
(* Numbers: a both-byte-order field is the pair <<little, big>>.  Fields   *)
(* >= 2^31 arrive as strings (TLC integers are 32 bit); when r.big lists   *)
(* any such field (other than the data length of a file) only the clauses  *)
(* that do no arithmetic are evaluated and "FieldOver31Bits" fails.        *)
(***************************************************************************)
EXTENDS Integers, Sequences, FiniteSets, NameRules

Idx(s) == 1..Len(s)
Agree(p) == p[1] = p[2]
Bit(x, n) == (x \div n) % 2 = 1          \* n = 2^k
IsDirRec(rec) == Bit(rec.flags, 2)
MultiExt(rec) == Bit(rec.flags, 128)
Assoc(rec)    == Bit(rec.flags, 4)
Pad(n) == IF n % 2 = 0 THEN 1 ELSE 0      \* 9.1.12: padding field after an even-length identifier
PtPad(n) == n % 2                         \* 9.4.6: padding field after an odd-length identifier

VolVDs(r) == {k \in Idx(r.vds) : r.vds[k].type \in {1, 2}}
TreeVD(r, t) == r.vds[r.treevd[t]]
Dirs(r, t) == r.trees[t]
PtKinds(r, t) == DOMAIN r.ptables[t]

\* strict lexicographic order on sequences of numbers (a proper prefix is smaller)
RECURSIVE LexLess(_, _)
LexLess(a, b) ==
    IF b = <<>> THEN FALSE
    ELSE IF a = <<>> THEN TRUE
    ELSE IF a[1] # b[1] THEN a[1] < b[1]
    ELSE LexLess(Tail(a), Tail(b))

-----------------------------------------------------------------------------
(* Volume descriptor set                                                   *)

\* ECMA-119 6.7.1: the set starts at sector 16, is recorded in consecutive sectors, contains a
\* primary descriptor and ends with a set terminator; 8.1.2/8.1.3: standard identifier CD001,
\* descriptor version 1 (2 only for an ISO9660:1999 enhanced descriptor).
VDSetTerminated(r) ==
    /\ r.term_index > 0
    /\ \A k \in Idx(r.vds) :
         /\ r.vds[k].ident_ok
         /\ r.vds[k].sector = 15 + k
         /\ (r.vds[k].version = 1 \/ (r.vds[k].type = 2 /\ r.vds[k].version = 2))
    /\ \E k \in Idx(r.vds) : r.vds[k].type = 1 /\ k < r.term_index

\* ECMA-119 7.2.3, 7.3.3 applied to 9.1.3, 9.1.4, 9.1.10
RecAgree(rec) == Agree(rec.extent) /\ Agree(rec.size) /\ Agree(rec.seq)

\* ECMA-119 7.2.3, 7.3.3 applied to 8.4.8, 8.4.10-8.4.13, 8.4.18 (and 8.5 likewise)
VdBothEndianAgree(r) ==
    \A k \in VolVDs(r) :
      \E v \in {r.vds[k]} :
        /\ Agree(v.space) /\ Agree(v.setsize) /\ Agree(v.seq) /\ Agree(v.lbs) /\ Agree(v.ptsize)
        /\ RecAgree(v.root)

\* ECMA-119 8.4.12: logical block size; every image pycdlib writes uses 2048, and the decoder
\* (like pycdlib) addresses extents in 2048-byte blocks.
BlockSizeIs2048(r) == \A k \in VolVDs(r) : r.vds[k].lbs[1] = 2048

\* ECMA-119 8.4.8 Volume Space Size: the volume space (and so the image) holds that many blocks.
\* An image is a whole number of sectors.
SpaceSizeCoversImage(r) ==
    /\ r.filelen_rem = 0
    /\ \A k \in VolVDs(r) : r.vds[k].space[1] <= r.nsect

\* Two primary descriptors describe the same volume (8.4: a copy of the PVD is a PVD).
PvdCopiesAgree(r) ==
    \A j, k \in {x \in Idx(r.vds) : r.vds[x].type = 1} :
      \E a \in {r.vds[j]}, b \in {r.vds[k]} :
        /\ a.space = b.space /\ a.ptsize = b.ptsize /\ a.ptL = b.ptL /\ a.ptM = b.ptM
        /\ a.lbs = b.lbs /\ a.setsize = b.setsize /\ a.seq = b.seq
        /\ a.root.extent = b.root.extent /\ a.root.size = b.root.size
        /\ a.moddate = b.moddate

\* Joliet specification ("SVD escape sequences"): UCS-2 level 1/2/3 = %/@ %/C %/E, rest of the
\* field zero.  If the item carries expect.joliet (0 = no Joliet, 1..3 = level) the level must match.
JolietEsc(l) == <<37, 47, CASE l = 1 -> 64 [] l = 2 -> 67 [] OTHER -> 69>>
JolietEscapeIsLevel(r) ==
    /\ \A k \in Idx(r.vds) :
         (r.vds[k].type = 2 /\ r.vds[k].version = 1) =>
            (r.vds[k].esc \in {JolietEsc(1), JolietEsc(2), JolietEsc(3)} /\ r.vds[k].esc_rest_zero)
    /\ ("expect" \in DOMAIN r /\ "joliet" \in DOMAIN r.expect) =>
         IF r.expect.joliet = 0 THEN "jol" \notin DOMAIN r.trees
         ELSE "jol" \in DOMAIN r.trees /\ TreeVD(r, "jol").esc = JolietEsc(r.expect.joliet)

-----------------------------------------------------------------------------
(* Directories of one tree                                                 *)

\* ECMA-119 7.2.3, 7.3.3: both copies of every both-byte-order field of every directory record
DirBothEndianAgree(r, t) == \A d \in Idx(Dirs(r, t)) : \A k \in Idx(Dirs(r, t)[d].records) :
                               RecAgree(Dirs(r, t)[d].records[k])

\* ECMA-119 6.8.1.1: each directory record ends in the logical sector in which it begins
RecordsInsideSectors(r, t) ==
    \A d \in Idx(Dirs(r, t)) : \A k \in Idx(Dirs(r, t)[d].records) :
       \E rec \in {Dirs(r, t)[d].records[k]} : rec.off + rec.reclen <= 2048

\* ECMA-119 6.8.1.1: unused byte positions after the last record of a sector are (00)
UnusedDirBytesZero(r, t) == \A d \in Idx(Dirs(r, t)) : ~Dirs(r, t)[d].trailing_nonzero

\* ECMA-119 9.1.1, 9.1.11-9.1.13: LEN_DR = 33 + LEN_FI + padding + LEN_SU, an even number;
\* the padding field is (00)
RecLenOK(rec) ==
    /\ rec.len_fi >= 1
    /\ rec.su_len >= 0
    /\ rec.reclen = 33 + rec.len_fi + Pad(rec.len_fi) + rec.su_len
    /\ rec.reclen % 2 = 0
    /\ rec.pad_ok
RecordLengthsConsistent(r, t) ==
    /\ \A d \in Idx(Dirs(r, t)) : \A k \in Idx(Dirs(r, t)[d].records) : RecLenOK(Dirs(r, t)[d].records[k])
    /\ RecLenOK(TreeVD(r, t).root) /\ TreeVD(r, t).root.reclen = 34

\* ECMA-119 9.3: order of directory records.  ISO9660: file name, then extension (both padded
\* with (20)), then version descending, then associated file first, then file sections in order
\* (equal identifiers are only legal for an associated file followed by its file, and for the
\* sections of a multi-extent file: every section but the last has bit 7 set, 9.1.6).
\* Joliet: identifiers are compared as plain sequences of 16-bit code units (a proper prefix first).
\* 6.8.2.2: the first record is (00) "self", the second (01) "parent".
\* A directory identifier (7.6) has no extension or version: the whole identifier is its name.
IsoKey(rec) == IF IsDirRec(rec) THEN [name |-> rec.name, ext |-> <<>>, ver |-> <<>>] ELSE SplitIso(rec.name)
KeyLess(pa, pb) ==      \* NameRules!Ecma119Less on already split identifiers
    IF ~PaddedEq(pa.name, pb.name) THEN PaddedLess(pa.name, pb.name)
    ELSE IF ~PaddedEq(pa.ext, pb.ext) THEN PaddedLess(pa.ext, pb.ext)
    ELSE AllDigits(pa.ver) /\ AllDigits(pb.ver) /\ DigitsValue(pa.ver) > DigitsValue(pb.ver)
IdentLess(t, a, b) ==
    IF t = "jol" THEN LexLess(a.name, b.name)
    ELSE IF ~IsDirRec(a) /\ ~IsDirRec(b) THEN Ecma119Less(a.name, b.name)
    ELSE KeyLess(IsoKey(a), IsoKey(b))
RecOrdered(t, a, b) ==
    \/ IdentLess(t, a, b)
    \/ /\ a.name = b.name
       /\ ~IsDirRec(a) /\ ~IsDirRec(b)
       /\ (MultiExt(a) \/ (Assoc(a) /\ ~Assoc(b)))
DirSortedOne(t, recs) ==
    /\ Len(recs) >= 2
    /\ recs[1].name = <<0>>
    /\ recs[2].name = <<1>>
    /\ \A k \in 3..Len(recs) : recs[k].name # <<0>> /\ recs[k].name # <<1>>
    /\ \A k \in 3..(Len(recs) - 1) : RecOrdered(t, recs[k], recs[k + 1])
DirSorted(r, t) == \A d \in Idx(Dirs(r, t)) : DirSortedOne(t, Dirs(r, t)[d].records)

\* ECMA-119 10.1, 10.2: at interchange levels 1 and 2 every file consists of one file section, so
\* no record has the multi-extent bit (9.1.6 bit 7).  Evaluated when the item says which level
\* was asked for (expect.level); the level is not recorded in the image.
SingleFileSection(r, t) ==
    ("expect" \in DOMAIN r /\ "level" \in DOMAIN r.expect /\ r.expect.level \in {1, 2}) =>
       \A d \in Idx(Dirs(r, t)) : \A k \in Idx(Dirs(r, t)[d].records) : ~MultiExt(Dirs(r, t)[d].records[k])

\* ECMA-119 6.8.2.2: the first record of a directory describes the directory itself
DotIsSelf(r, t) ==
    \A d \in Idx(Dirs(r, t)) :
      \E dir \in {Dirs(r, t)[d]} :
        /\ Len(dir.records) >= 1
        /\ \E rec \in {dir.records[1]} :
             /\ rec.name = <<0>> /\ IsDirRec(rec)
             /\ rec.extent[1] = dir.extent
             /\ rec.size[1] = dir.len

\* ECMA-119 6.8.2.2: the second record describes the parent directory (the root: itself):
\* location AND data length
DotDotIsParent(r, t) ==
    \A d \in Idx(Dirs(r, t)) :
      \E dir \in {Dirs(r, t)[d]} :
        /\ Len(dir.records) >= 2
        /\ dir.parent \in Idx(Dirs(r, t))
        /\ \E rec \in {dir.records[2]}, par \in {Dirs(r, t)[dir.parent]} :
             /\ rec.name = <<1>> /\ IsDirRec(rec)
             /\ rec.extent[1] = par.extent
             /\ rec.size[1] = par.len

\* ECMA-119 6.8.1.3 directory length: record lengths plus the unused bytes of all sectors in
\* which the directory is recorded, i.e. a positive multiple of the sector size that covers
\* every record.  (That the record in the parent, "." and every child's ".." carry this same
\* length is DotIsSelf / DotDotIsParent: dir.len is the length found in the parent's record.)
DirSizeMatches(r, t) ==
    \A d \in Idx(Dirs(r, t)) :
      \E dir \in {Dirs(r, t)[d]} :
        /\ dir.len > 0 /\ dir.len % 2048 = 0
        /\ \A k \in Idx(dir.records) :
             \E rec \in {dir.records[k]} :
               /\ rec.sector >= dir.first
               /\ (rec.sector - dir.first) * 2048 + rec.off + rec.reclen <= dir.len

\* ECMA-119 6.8.1.3 read strictly: no sector after the one holding the last record is part of
\* the directory (a longer length is harmless to readers; reported under its own name).
DirLengthTight(r, t) ==
    \A d \in Idx(Dirs(r, t)) :
      \E dir \in {Dirs(r, t)[d]} :
        Len(dir.records) >= 1 =>
           (dir.records[Len(dir.records)].sector - dir.first + 1) * 2048 >= dir.len

\* ECMA-119 8.4.18 (8.5.15 for a supplementary descriptor): the root record in the descriptor
\* and the first record of the root directory describe the same directory
RootRecordInVDMatchesDot(r, t) ==
    /\ Len(Dirs(r, t)) >= 1 /\ Len(Dirs(r, t)[1].records) >= 1
    /\ \E root \in {TreeVD(r, t).root}, dot \in {Dirs(r, t)[1].records[1]} :
         /\ root.name = <<0>> /\ root.len_fi = 1 /\ IsDirRec(root)
         /\ root.flags = dot.flags /\ root.seq = dot.seq /\ root.xattr = dot.xattr
         /\ root.extent = dot.extent /\ root.size = dot.size

-----------------------------------------------------------------------------
(* Path tables of one tree; P is the record sequence of one copy            *)

\* the path of record i obtained by following parent numbers (sentinel component <<-1>> when
\* the parent number is not a smaller record number)
PtPaths(P) ==
    LET f[i \in Idx(P)] ==
          IF i = 1 THEN <<>>
          ELSE IF P[i].parent >= 1 /\ P[i].parent < i THEN Append(f[P[i].parent], P[i].name)
          ELSE << <<-1>>, P[i].name >>
    IN f

\* ECMA-119 7.2.1/7.2.2, 7.3.1/7.3.2 with 9.4: the type L and type M tables (and optional
\* copies, 8.4.15/8.4.17) hold the same records
PathTableCopiesAgree(r, t) ==
    \A w \in PtKinds(r, t) :
      \E A \in {r.ptables[t]["L"].recs}, B \in {r.ptables[t][w].recs} :
        /\ Len(A) = Len(B)
        /\ \A i \in Idx(A) :
             /\ A[i].len_di = B[i].len_di /\ A[i].xattr = B[i].xattr /\ A[i].extent = B[i].extent
             /\ A[i].parent = B[i].parent /\ A[i].name = B[i].name

\* ECMA-119 6.9.1: the path table lists every directory of the hierarchy, once: the set of
\* (path, location) obtained by following parent numbers equals the set of directories reached
\* from the root directory
PathTableListsExactlyTheDirs(r, t, P) ==
    /\ Len(P) = Len(Dirs(r, t))
    /\ \E paths \in {PtPaths(P)} :
         {<<paths[i], P[i].extent>> : i \in Idx(P)}
           = {<<Dirs(r, t)[d].path, Dirs(r, t)[d].extent>> : d \in Idx(Dirs(r, t))}

\* ECMA-119 6.9.1: records are ordered by level in the hierarchy, then by the number of the
\* parent, then by directory identifier (shorter padded with (20) for ISO9660; code unit order
\* for Joliet); 9.4.4: record 1 is the root, whose parent number is 1; a parent precedes its
\* children
PtNameLess(t, a, b) == IF t = "jol" THEN LexLess(a, b) ELSE PaddedLess(a, b)
PathTableOrder(t, P) ==
    /\ Len(P) >= 1
    /\ P[1].parent = 1 /\ P[1].name = <<0>> /\ P[1].len_di = 1
    /\ \A i \in 2..Len(P) : P[i].parent >= 1 /\ P[i].parent < i
    /\ \E paths \in {PtPaths(P)} :
         \A i \in 2..(Len(P) - 1) :
           \/ Len(paths[i]) < Len(paths[i + 1])
           \/ /\ Len(paths[i]) = Len(paths[i + 1])
              /\ \/ P[i].parent < P[i + 1].parent
                 \/ P[i].parent = P[i + 1].parent /\ PtNameLess(t, P[i].name, P[i + 1].name)

\* ECMA-119 9.4.3, 9.4.4: the record's location is the directory's extent and its parent number
\* is the record of that directory's parent in the hierarchy
PathTableParents(r, t, P) ==
    \A i \in Idx(P) :
      /\ P[i].parent \in Idx(P)
      /\ \E k \in Idx(Dirs(r, t)) :
           \E dir \in {Dirs(r, t)[k]} :
             /\ dir.extent = P[i].extent
             /\ dir.parent \in Idx(Dirs(r, t))
             /\ Dirs(r, t)[dir.parent].extent = P[P[i].parent].extent
             /\ (i > 1 => (dir.path # <<>> /\ dir.path[Len(dir.path)] = P[i].name))

\* ECMA-119 8.4.13 Path Table Size = sum of the record lengths, 9.4: 8 + LEN_DI + padding,
\* 9.4.6: padding field (00)
PathTableSizeField(r, t, T) ==
    /\ T.leftover = 0 /\ ~T.overrun
    /\ Len(T.recs) >= 1
    /\ \E last \in {T.recs[Len(T.recs)]} :
         last.off + 8 + last.len_di + PtPad(last.len_di) = TreeVD(r, t).ptsize[1]
    /\ \A i \in Idx(T.recs) : T.recs[i].pad_ok
    /\ \A i \in 1..(Len(T.recs) - 1) :
         T.recs[i + 1].off = T.recs[i].off + 8 + T.recs[i].len_di + PtPad(T.recs[i].len_di)

\* ECMA-119 8.4.14-8.4.17: locations of the two mandatory tables
PathTableLocations(r, t) ==
    /\ r.ptables[t]["L"].loc = TreeVD(r, t).ptL /\ TreeVD(r, t).ptL # 0
    /\ r.ptables[t]["M"].loc = TreeVD(r, t).ptM /\ TreeVD(r, t).ptM # 0

\* ECMA-119 7.2.3, 7.3.3, 9.4: everything recorded twice agrees (reported per part: "vd:", "<t>:")
BothEndianAgree(r) ==
    /\ VdBothEndianAgree(r)
    /\ \A t \in DOMAIN r.trees : DirBothEndianAgree(r, t) /\ PathTableCopiesAgree(r, t)

-----------------------------------------------------------------------------
F(name, ok) == IF ok THEN {} ELSE {name}

TreeFailing(r, t) ==
    F(t \o ":BothEndianAgree", DirBothEndianAgree(r, t) /\ PathTableCopiesAgree(r, t))
    \cup F(t \o ":RecordsInsideSectors", RecordsInsideSectors(r, t))
    \cup F(t \o ":UnusedDirBytesZero", UnusedDirBytesZero(r, t))
    \cup F(t \o ":RecordLengthsConsistent", RecordLengthsConsistent(r, t))
    \cup F(t \o ":DirSorted", DirSorted(r, t))
    \cup F(t \o ":SingleFileSection", SingleFileSection(r, t))
    \cup F(t \o ":DotIsSelf", DotIsSelf(r, t))
    \cup F(t \o ":DotDotIsParent", DotDotIsParent(r, t))
    \cup F(t \o ":DirSizeMatches", DirSizeMatches(r, t))
    \cup F(t \o ":DirLengthTight", DirLengthTight(r, t))
    \cup F(t \o ":RootRecordInVDMatchesDot", RootRecordInVDMatchesDot(r, t))
    \cup F(t \o ":PathTableLocations", PathTableLocations(r, t))
    \cup F(t \o ":PathTableListsExactlyTheDirs",
           \A w \in PtKinds(r, t) : PathTableListsExactlyTheDirs(r, t, r.ptables[t][w].recs))
    \cup F(t \o ":PathTableOrder", \A w \in PtKinds(r, t) : PathTableOrder(t, r.ptables[t][w].recs))
    \cup F(t \o ":PathTableParents", \A w \in PtKinds(r, t) : PathTableParents(r, t, r.ptables[t][w].recs))
    \cup F(t \o ":PathTableSizeField", \A w \in PtKinds(r, t) : PathTableSizeField(r, t, r.ptables[t][w]))

\* clauses that only compare (no arithmetic): safe when some field is >= 2^31
TreeFailingBig(r, t) == F(t \o ":BothEndianAgree", DirBothEndianAgree(r, t))

VolumeFailing(r) ==
    F("DecoderErrors", r.errors = <<>>)
    \cup F("vd:BothEndianAgree", VdBothEndianAgree(r))
    \cup IF r.big # <<>>
         THEN {"FieldOver31Bits"} \cup UNION {TreeFailingBig(r, t) : t \in DOMAIN r.trees}
         ELSE F("VDSetTerminated", VDSetTerminated(r))
              \cup F("BlockSizeIs2048", BlockSizeIs2048(r))
              \cup F("SpaceSizeCoversImage", SpaceSizeCoversImage(r))
              \cup F("PvdCopiesAgree", PvdCopiesAgree(r))
              \cup F("JolietEscapeIsLevel", JolietEscapeIsLevel(r))
              \cup UNION {TreeFailing(r, t) : t \in DOMAIN r.trees}
=============================================================================
