------------------------------ MODULE Judge_C12 ------------------------------
(* C12 (hybrid boot data) judge: TLC evaluates Boot!C12Failing on every observation. *)
EXTENDS Boot
VARIABLE i
INSTANCE JudgeLoop WITH Failing <- C12Failing
=============================================================================
