------------------------------ MODULE MC_core ------------------------------
(***************************************************************************)
(* Bounded instance of PyCdlibModel used for exhaustive checking of the    *)
(* design-level properties and for generating behaviours that are replayed *)
(* on the implementation.                                                  *)
(*                                                                         *)
(* Arguments are enumerated per equivalence class: every accepted call of  *)
(* the alphabet, and ONE representative refused call per (action, reason). *)
(***************************************************************************)
EXTENDS PyCdlibModel, Json

CONSTANTS MaxEntries,  \* entries per namespace
          MaxDepth,    \* path depth
          MaxLen,      \* length of a behaviour (number of calls after New)
          MaxRefuse,   \* refused calls per behaviour
          MaxSched,    \* schedule steps per behaviour
          MaxGen,      \* reopen generations
          UseBlobs,    \* which contents (subset of MCAllBlobs)
          InPlace,     \* BOOLEAN: include modify_file_in_place (enabled after a reopen)
          Boot,        \* BOOLEAN: include add_eltorito / rm_eltorito / links to the boot catalog
          RefuseByName, \* BOOLEAN: refused representatives per name, not only per (action, reason)
          Only,        \* set of action names the alphabet is restricted to ({} = all): deep runs over a sub-alphabet
          Life,        \* BOOLEAN: lifecycle steps - close(), new() again on the same object, calls on a closed object
          CfgIds,      \* which configurations (indices into Cfgs)
          Modes,       \* consistency modes of the object: subset of {"lazy", "always"}
          Dump         \* "none" | "hist" | "edges"

\* the realisation table (names, code points, blob lengths) is a literal module generated per run
\* from spec/<table>.names.json (harness/gen.py), the same table the replayer uses
T == INSTANCE CoreTables
MCNames    == T!TabNames
MCTargets  == T!TabTargets
MCCode     == T!TabCode
MCAllBlobs == T!TabBlobs \cup {"cat"}
MCBlobs    == UseBlobs \cup {"cat"}
MCBlobLen  == [b \in MCAllBlobs |-> IF b = "cat" THEN 2048 ELSE T!TabBlobLen[b]]

VARIABLES st, h, nref, nsched


\* pairwise cover of level x joliet x rr x udf x xa
Cfgs == <<
  [level |-> 1, joliet |-> 0, rr |-> "",     udf |-> FALSE, xa |-> FALSE],
  [level |-> 3, joliet |-> 3, rr |-> "1.09", udf |-> TRUE,  xa |-> FALSE],
  [level |-> 3, joliet |-> 3, rr |-> "",     udf |-> FALSE, xa |-> FALSE],
  [level |-> 2, joliet |-> 0, rr |-> "1.12", udf |-> FALSE, xa |-> TRUE],
  [level |-> 4, joliet |-> 1, rr |-> "1.10", udf |-> TRUE,  xa |-> TRUE],
  [level |-> 1, joliet |-> 2, rr |-> "1.09", udf |-> FALSE, xa |-> TRUE],
  [level |-> 2, joliet |-> 0, rr |-> "",     udf |-> TRUE,  xa |-> FALSE],
  [level |-> 4, joliet |-> 0, rr |-> "",     udf |-> FALSE, xa |-> FALSE],
  [level |-> 3, joliet |-> 2, rr |-> "1.12", udf |-> TRUE,  xa |-> FALSE],
  [level |-> 1, joliet |-> 3, rr |-> "1.10", udf |-> TRUE,  xa |-> FALSE],
  [level |-> 4, joliet |-> 3, rr |-> "1.12", udf |-> FALSE, xa |-> FALSE],
  [level |-> 2, joliet |-> 1, rr |-> "1.09", udf |-> TRUE,  xa |-> TRUE] >>

Paths == {p \in UNION {[1..n -> Names] : n \in 1..MaxDepth} : TRUE}

\* secondary paths follow the ISO9660 path or are absent
Sec(st0, ns, ip) == IF HasNs(st0, ns) THEN {NoPath, ip} ELSE {NoPath}

\* one path that does not exist in tree t (for "missing" refusals), if any
Absent(t) == LET c == {p \in Paths : p \notin DOMAIN t} IN
             IF c = {} THEN {} ELSE {CHOOSE p \in c : \A q \in c : Len(p) <= Len(q)}
Known(t) == DOMAIN t \cup Absent(t)

CandsOf(s) ==
    LET tri == {<<ip, jp, up>> : ip \in Paths, jp \in {NoPath}, up \in {NoPath}}
               \cup UNION {{<<ip, jp, up>> : jp \in Sec(s, "jol", ip), up \in Sec(s, "udf", ip)} : ip \in Paths}
               \cup {<<NoPath, jp, NoPath>> : jp \in Paths}
               \cup {<<NoPath, NoPath, up>> : up \in Paths}
        rmtri == UNION {{<<ip, jp, up>> : jp \in Sec(s, "jol", ip), up \in Sec(s, "udf", ip)} : ip \in Known(s.iso)}
               \cup {<<NoPath, jp, NoPath>> : jp \in Known(s.jol)}
               \cup {<<NoPath, NoPath, up>> : up \in Known(s.udf)}
               \* the root of a namespace, alone and next to a removable directory of another one
               \cup {<<Root, NoPath, NoPath>>}
               \cup UNION {(IF HasNs(s, "jol") THEN {<<ip, Root, NoPath>>} ELSE {})
                            \cup (IF HasNs(s, "udf") THEN {<<ip, NoPath, Root>>} ELSE {}) : ip \in DOMAIN s.iso}
        nss == {ns \in {"iso", "jol", "udf"} : HasNs(s, ns)}
    IN  {[a |-> "AddFp", blob |-> b, iso |-> t[1], jol |-> t[2], udf |-> t[3]] : b \in UseBlobs, t \in tri}
   \cup {[a |-> "AddDir", iso |-> t[1], jol |-> t[2], udf |-> t[3]] : t \in tri}
   \cup {[a |-> "RmDir", iso |-> t[1], jol |-> t[2], udf |-> t[3]] : t \in rmtri}
   \cup UNION {{[a |-> "AddHardLink", ons |-> o, old |-> p, nns |-> n, new |-> q] :
            p \in Known(Tree(s, o)), n \in nss, q \in Paths} : o \in nss}
   \cup UNION {{[a |-> "RmHardLink", ns |-> n, p |-> p] : p \in Known(Tree(s, n))} : n \in nss}
   \cup UNION {{[a |-> "RmFile", ns |-> n, p |-> p] : p \in Known(Tree(s, n))} : n \in nss}
   \cup UNION {{[a |-> x, ns |-> n, p |-> p] : x \in {"SetHidden", "ClearHidden"}, p \in Known(Tree(s, n))} :
            n \in {ns \in {"iso", "jol"} : HasNs(s, ns)}}
   \cup (IF Boot
         THEN {[a |-> "AddEltorito", boot |-> bp, cat |-> c, media |-> md] :
                  bp \in Known(s.iso), c \in {q \in Paths : Len(q) = 1}, md \in {"noemul", "floppy", "bogus"}}
              \cup {[a |-> "RmEltorito"]}
              \cup {[a |-> "AddHardLink", ons |-> "bootcat", old |-> NoPath, nns |-> n, new |-> q] : n \in nss, q \in Paths}
         ELSE {})
   \cup (IF InPlace /\ s.gen > 0 /\ ~s.dirty
         THEN {[a |-> "ModifyInPlace", p |-> p, blob |-> b] : p \in Known(s.iso), b \in UseBlobs} ELSE {})
   \cup (IF s.npvd < 3 THEN {[a |-> "DuplicatePvd"]} ELSE {})
   \cup {[a |-> "AddSymlink", iso |-> t[1], jol |-> NoPath, udf |-> t[3], t |-> tg] :
            tg \in Targets, t \in {u \in tri : u[2] = NoPath}}

\* paths removed earlier in this behaviour: the interesting absent paths to query
RemovedPaths(hh, ns) ==
    {hh[k].p : k \in {j \in 1..Len(hh) : hh[j].a \in {"RmFile", "RmHardLink"} /\ hh[j].ns = ns}}
    \cup (IF ns = "iso" THEN {hh[k].iso : k \in {j \in 1..Len(hh) : hh[j].a = "RmDir" /\ hh[j].iso # NoPath}}
          ELSE IF ns = "jol" THEN {hh[k].jol : k \in {j \in 1..Len(hh) : hh[j].a = "RmDir" /\ hh[j].jol # NoPath}}
          ELSE IF ns = "udf" THEN {hh[k].udf : k \in {j \in 1..Len(hh) : hh[j].a = "RmDir" /\ hh[j].udf # NoPath}}
          ELSE {})
QueryNs(s) == {ns \in {"iso", "rrv", "jol", "udf"} : HasNs(s, ns)}
Sched(s) ==
    {[a |-> "ForceConsistency"], [a |-> "Write"]}
    \cup {[a |-> "Walk", ns |-> ns] : ns \in QueryNs(s)}
    \cup UNION {{[a |-> "Query", ns |-> ns, p |-> p] :
                  p \in DOMAIN Tree(s, ns) \cup RemovedPaths(h, IF ns = "rrv" THEN "iso" ELSE ns)} : ns \in QueryNs(s)}

Size(s) == Cardinality(DOMAIN s.iso) <= MaxEntries /\ Cardinality(DOMAIN s.jol) <= MaxEntries
           /\ Cardinality(DOMAIN s.udf) <= MaxEntries

Init == /\ st = Uninit
        /\ h = <<>>
        /\ nref = 0
        /\ nsched = 0

Closed(hh) == \E i \in DOMAIN hh : hh[i].a = "Close" /\ "rej" \notin DOMAIN hh[i]
DoNew == /\ st.phase = "uninit" /\ (h = <<>> \/ (Life /\ Len(h) <= MaxLen))
         /\ \E c \in CfgIds, md \in (IF h = <<>> THEN Modes ELSE {h[1].mode}) :
              \* (the consistency mode belongs to the object, not to the image: it survives close())
              LET a == [a |-> "New", cfg |-> Cfgs[c], mode |-> md] IN
              /\ st' = Step(st, a).acc
              /\ h' = Append(h, a)
         /\ UNCHANGED <<nref, nsched>>

\* close() ends the image; the object can be given a new one (at most one close per behaviour)
DoClose == /\ Life /\ st.phase = "live" /\ Len(h) <= MaxLen /\ ~Closed(h)
           /\ st' = Step(st, [a |-> "Close"]).acc
           /\ h' = Append(h, [a |-> "Close"])
           /\ UNCHANGED <<nref, nsched>>

\* an accepted edit
InAlphabet(a) == Only = {} \/ a.a \in Only
Accept == /\ st.phase = "live" /\ Len(h) <= MaxLen
          /\ \E a \in {c \in CandsOf(st) : InAlphabet(c)} :
               LET r == Step(st, a) IN
               /\ r.out \in {"ok", "either"}
               /\ Size(r.acc)
               /\ st' = r.acc
               /\ h' = Append(h, a)
          /\ UNCHANGED <<nref, nsched>>

\* a refused edit: one representative per (action name, reason)
\* one representative refused call per (action, reason) - and, when the names are what a table is
\* about (RefuseByName), per last name of each path the call mentions
LastOf(p) == IF p = NoPath \/ p = <<>> THEN "-" ELSE p[Len(p)]
RefKey(a) ==
    IF ~RefuseByName THEN <<>>
    ELSE <<IF "iso" \in DOMAIN a THEN LastOf(a.iso) ELSE "-", IF "jol" \in DOMAIN a THEN LastOf(a.jol) ELSE "-",
           IF "udf" \in DOMAIN a THEN LastOf(a.udf) ELSE "-", IF "new" \in DOMAIN a THEN LastOf(a.new) ELSE "-",
           IF "p" \in DOMAIN a THEN LastOf(a.p) ELSE "-">>
LifeCands(s) == IF Life THEN {[a |-> "New", cfg |-> Cfgs[c], mode |-> s.mode] : c \in CfgIds} \cup {[a |-> "Close"]}
                ELSE {}
Reject == /\ (st.phase = "live" \/ (Life /\ st.phase = "uninit" /\ h # <<>>)) /\ Len(h) <= MaxLen /\ nref < MaxRefuse
          \* (\E over singleton sets binds evaluated values; a LET would be re-evaluated per use)
          /\ \E cands \in {{c \in CandsOf(st) \cup LifeCands(st) : InAlphabet(c)}} :
             \E outc \in {[a \in cands |-> Step(st, a)]} :
             \E refused \in {{a \in cands : outc[a].out = "refuse"}} :
             \E k \in {<<a.a, outc[a].why, RefKey(a)>> : a \in refused} :
                  LET a == CHOOSE x \in refused : x.a = k[1] /\ outc[x].why = k[2] /\ RefKey(x) = k[3] IN
                  /\ st' = st
                  /\ h' = Append(h, a @@ [rej |-> k[2]])     \* (the marker is dropped by the harness)
          /\ nref' = nref + 1
          /\ UNCHANGED nsched

\* a schedule step (must be a stuttering step of the abstract image)
Schedule == /\ st.phase = "live" /\ Len(h) <= MaxLen /\ nsched < MaxSched
            /\ \E a \in Sched(st) :
                 /\ st' = st        \* accepted or refused (absent path), nothing changes
                 /\ Step(st, a).out \in {"ok", "refuse"}
                 /\ h' = Append(h, a)
            /\ nsched' = nsched + 1
            /\ UNCHANGED nref

\* same = TRUE: close() and open_fp() on the same PyCdlib object; FALSE: a fresh object
Reopen == /\ st.phase = "live" /\ Len(h) <= MaxLen /\ st.gen < MaxGen
          /\ st' = Step(st, [a |-> "Reopen"]).acc
          /\ \E same \in BOOLEAN : h' = Append(h, [a |-> "Reopen", same |-> same])
          /\ UNCHANGED <<nref, nsched>>

Next == DoNew \/ DoClose \/ Accept \/ Reject \/ Schedule \/ Reopen

vars == <<st, h, nref, nsched>>
Spec == Init /\ [][Next]_vars

\* ---- design-level properties -------------------------------------------
InvStateOK == StateOK(st)

\* (the counters identify the kind of step without re-evaluating the action)
RejectChangesNothing == [][nref' = nref + 1 => st' = st]_vars
ScheduleStepsAreStuttering == [][nsched' = nsched + 1 => st' = st]_vars
\* content disappears only with its last reference and keeps its bytes while it lives
IsAct(n) == h' # h /\ h'[Len(h')].a = n /\ nref' = nref
ContentLivesUntilLastName ==
    [][st.phase = "live" /\ st'.phase = "live" =>
         \A i \in DOMAIN st.blob :
            /\ (i \notin DOMAIN st'.blob => ~Live(st', i))
            /\ (i \in DOMAIN st'.blob => st'.blob[i] = st.blob[i] \/ IsAct("ModifyInPlace"))]_vars
GenMonotone == [][st'.gen >= st.gen \/ st'.phase = "uninit"]_vars
IsReopen == h' # h /\ h'[Len(h')].a = "Reopen"
\* a reopen shows the same names, kinds, flags, targets and contents (inode numbers may change)
Shape3(s, ns) == <<ns, [p \in DOMAIN Tree(s, ns) |->
                         LET e == Tree(s, ns)[p] IN <<e.k, e.h, e.t, IF e.ino = 0 THEN "" ELSE s.blob[e.ino]>>]>>
ReopenPreservesView ==
    [][IsReopen => {Shape3(st', ns) : ns \in NSs} = {Shape3(st, ns) : ns \in NSs}]_vars
\* removing one link removes exactly one name; removing a file removes exactly its link class
AllNames(s) == {<<ns, p>> \in NSs \X (DOMAIN s.iso \cup DOMAIN s.jol \cup DOMAIN s.udf) : p \in DOMAIN Tree(s, ns)}
RmHardLinkRemovesOneName ==
    [][IsAct("RmHardLink") => LET a == h'[Len(h')] IN AllNames(st') = AllNames(st) \ {<<a.ns, a.p>>}]_vars
RmFileRemovesExactlyTheLinkClass ==
    [][IsAct("RmFile") =>
         LET a == h'[Len(h')]
             i == Tree(st, a.ns)[a.p].ino
         IN AllNames(st') = AllNames(st) \ (IF i = 0 THEN {<<a.ns, a.p>>} ELSE NameRefs(st, i))]_vars

\* the same action properties as one ACTION_CONSTRAINT (TLC evaluates it on every transition;
\* Assert stops the run naming the property).  Much cheaper than PROPERTY in this TLC build.
Holds(f, name) == Assert(f, name)
ActionProps ==
    /\ Holds(nref' = nref + 1 => st' = st, "RejectChangesNothing")
    /\ Holds(nsched' = nsched + 1 => st' = st, "ScheduleStepsAreStuttering")
    /\ Holds(st.phase = "live" /\ st'.phase = "live" =>
               \A i \in DOMAIN st.blob :
                  /\ (i \notin DOMAIN st'.blob => ~Live(st', i))
                  /\ (i \in DOMAIN st'.blob => st'.blob[i] = st.blob[i] \/ IsAct("ModifyInPlace")),
             "ContentLivesUntilLastName")
    /\ Holds(st'.gen >= st.gen \/ st'.phase = "uninit", "GenMonotone")
    /\ Holds(IsReopen => /\ TRUE
                          /\ {Shape3(st', ns) : ns \in NSs} = {Shape3(st, ns) : ns \in NSs}
                          /\ st'.elt = st.elt, "ReopenPreservesView")
    /\ Holds(IsAct("RmHardLink") => LET a == h'[Len(h')] IN AllNames(st') = AllNames(st) \ {<<a.ns, a.p>>},
             "RmHardLinkRemovesOneName")
    /\ Holds(IsAct("RmFile") =>
               LET a == h'[Len(h')]
                   i == Tree(st, a.ns)[a.p].ino
               IN AllNames(st') = AllNames(st) \ (IF i = 0 THEN {<<a.ns, a.p>>} ELSE NameRefs(st, i)),
             "RmFileRemovesExactlyTheLinkClass")

\* ---- behaviour output ----------------------------------------------------
\* "hist": print every history (h is part of the state, so every path is a state)
\* "edges": print [from, act, to] for every transition (run with VIEW ViewNoHist)
ViewNoHist == <<st, nref, nsched>>

DumpHist == Dump = "hist" => PrintT(<<"HIST", ToJson(h)>>)
DumpEdge == Dump = "edges" => PrintT(<<"HIST", ToJson(h')>>)
\* simulation mode: print a behaviour when it reaches its full length
DumpFinal == (Dump = "final" /\ Len(h) = MaxLen + 1) => PrintT(<<"HIST", ToJson(h)>>)
=============================================================================
