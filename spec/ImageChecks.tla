---------------------------- MODULE ImageChecks ----------------------------
(***************************************************************************)
(* Clauses about one written image as a whole, evaluated by TLC on an      *)
(* observation item                                                        *)
(*   r      : report of the independent ECMA-119/Joliet decoder            *)
(*            (decoders/iso9660.py), see Volume.tla                        *)
(*   regions: all regions [kind, owner, start, nsect] the independent      *)
(*            decoders found (ISO9660 + Rock Ridge continuation areas +    *)
(*            UDF structures + boot catalog)                               *)
(*   wlog   : the (offset, length) writes issued to the output object      *)
(*   bit    : sectors of boot files that carry a boot info table           *)
(*   space  : volume space size declared by the PVD, nsect/rem of the file *)
(*   pad    : hybrid padding sectors allowed after the declared size       *)
(*   api    : what pycdlib itself reports for the image (paths as code     *)
(*            point sequences, kind, SHA-256) per tree                     *)
(*   remaster: region kinds that differ when the image is opened and       *)
(*            written again (twice), with the clock fixed / advanced       *)
(* C03: Volume clauses + ApiMatches; C04: layout clauses; C05: remaster    *)
(* clauses; C09: the "jol:" clauses of Volume + Joliet specific ones.      *)
(***************************************************************************)
EXTENDS Volume

\* ---- C04 ----------------------------------------------------------------
RegIdx(it) == 1..Len(it.regions)
Overlap(a, b) == a.start < b.start + b.nsect /\ b.start < a.start + a.nsect
\* distinct objects never share a sector (same owner = same object, e.g. links)
NoOverlap(it) ==
    \A i \in RegIdx(it) : \A j \in RegIdx(it) :
        (i < j /\ it.regions[i].nsect > 0 /\ it.regions[j].nsect > 0
         /\ it.regions[i].owner # it.regions[j].owner) => ~Overlap(it.regions[i], it.regions[j])
\* everything lies inside the declared volume
InBounds(it) == \A i \in RegIdx(it) : it.regions[i].start + it.regions[i].nsect <= it.space
\* the file is exactly the declared size (plus hybrid cylinder padding only)
ExactLength(it) == it.rem = 0 /\ it.nsect = it.space + it.pad
\* mastering writes no byte twice (except the 56-byte boot info table patch)
WIdx(it) == 1..Len(it.wlog)
IsBitPatch(it, w) == w[2] = 56 /\ \E s \in {it.bit[k] : k \in 1..Len(it.bit)} : w[1] = s * 2048 + 8
WriteOnce(it) ==
    \A i \in WIdx(it) : \A j \in WIdx(it) :
        (i < j /\ it.wlog[i][2] > 0 /\ it.wlog[j][2] > 0
         /\ it.wlog[i][1] < it.wlog[j][1] + it.wlog[j][2] /\ it.wlog[j][1] < it.wlog[i][1] + it.wlog[i][2])
        => (IsBitPatch(it, it.wlog[i]) \/ IsBitPatch(it, it.wlog[j]))
NoWritePastEnd(it) == \A i \in WIdx(it) : it.wlog[i][1] + it.wlog[i][2] <= (it.space + it.pad) * 2048

\* nothing is stored that nothing refers to: a sector inside the volume that is not blank belongs
\* to one of the objects the independent decoders reach (it.orphans: the others; items of older
\* harness versions do not carry the field)
NoOrphanSectors(it) == "orphans" \in DOMAIN it => it.orphans = <<>>

LayoutFailing(it) ==
    F("NoOrphanSectors", NoOrphanSectors(it))
    \cup F("NoOverlap", NoOverlap(it)) \cup F("InBounds", InBounds(it))
    \cup F("ExactLength", ExactLength(it)) \cup F("WriteOnce", WriteOnce(it))
    \cup F("NoWritePastEnd", NoWritePastEnd(it))

\* ---- C03: the independent reader and the library agree on the image ------
DecDirs(r, t)  == {r.trees[t][d].path : d \in 1..Len(r.trees[t])} \ {<<>>}
DecFiles(r, t) == {<<r.files[t][k].path, r.files[t][k].sha>> : k \in 1..Len(r.files[t])}
ApiDirs(a)  == {a[k].p : k \in {j \in 1..Len(a) : a[j].k = "dir"}}
ApiFiles(a) == {<<a[k].p, a[k].sha>> : k \in {j \in 1..Len(a) : a[j].k = "file"}}
ApiMatchesTree(it, t) ==
    t \in DOMAIN it.api =>
        /\ DecDirs(it.r, t) = ApiDirs(it.api[t])
        /\ {x \in DecFiles(it.r, t) : x[2] # ""} = {x \in ApiFiles(it.api[t]) : x[2] # ""}
           \* symlinks and data-less entries: paths only
        /\ {it.r.files[t][k].path : k \in 1..Len(it.r.files[t])} =
           {it.api[t][k].p : k \in {j \in 1..Len(it.api[t]) : it.api[t][j].k # "dir"}}
ApiFailing(it) ==
    UNION {F(t \o ":ApiMatches", ApiMatchesTree(it, t)) : t \in DOMAIN it.r.trees \cap {"iso", "jol"}}

\* ---- C05: open + write reproduces the image -------------------------------
\* it.remaster = [fixed1, fixed2, adv1] : sets (sequences) of region kinds with differing bytes for
\* generation 0->1 and 1->2 with a constant clock, and 0->1 with the clock advanced by a day;
\* [<<"!", reason>>] when a generation could not be produced
AsSet(s) == {s[k] : k \in 1..Len(s)}
RemasterFailing(it) ==
    F("RemasterIdentical", AsSet(it.remaster.fixed1) = {})
    \cup F("RemasterIdempotent", AsSet(it.remaster.fixed2) = {})
    \cup F("RemasterOnlyModDate", AsSet(it.remaster.adv1) \subseteq {"vd_moddate"})

ImageFailing(it) ==
    {"V:" \o c : c \in VolumeFailing(it.r)}
    \cup {"L:" \o c : c \in LayoutFailing(it)}
    \cup {"A:" \o c : c \in ApiFailing(it)}
    \cup {"R:" \o c : c \in RemasterFailing(it)}
=============================================================================
