------------------------------- MODULE Tools -------------------------------
(***************************************************************************)
(* C20 - the round trip  source tree --pycdlib-genisoimage--> image        *)
(*                       --pycdlib-extract-files--> extracted trees.       *)
(*                                                                         *)
(* Text (names, symlink targets) is Seq(Nat) of code points.  A source     *)
(* tree is a finite set of entries                                         *)
(*     [p |-> path (Seq of names), k |-> "dir" | "file" | "symlink",       *)
(*      c |-> content id ("" unless k = "file"; "E" is the empty content), *)
(*      t |-> symlink target (<<>> unless k = "symlink")]                  *)
(* closed under parents (every proper prefix of a path is a "dir" entry).  *)
(* An extracted view has the same shape (for the plain ISO9660 view the    *)
(* path components are the identifiers found in the image).                *)
(*                                                                         *)
(* The option vector:                                                      *)
(*   level 1..4 (-iso-level), rock "none"|"R"|"r" (-R / -r),               *)
(*   joliet (-J), udf "none"|"udf"|"UDF" (-udf / -UDF), dup                *)
(*   (-scan-for-duplicates), boot (name of a root-level file given to      *)
(*   -b ... -no-emul-boot, <<>> = none; bootcat = name given to -c),       *)
(*   fk "none"|"x"|"hide"|"hidej"|"hideu" (-x / -hide / -hide-joliet /     *)
(*   -hide-udf) with the glob fpat = [star, lit]  ("*" \o lit or lit).     *)
(*                                                                         *)
(* Part 1 transcribes what the tool does to names (mangling, collision     *)
(* numbering: tools/pycdlib-genisoimage build_iso_path, pycdlib/utils.py   *)
(* mangle_*_for_iso9660); DistinctLegal is what that scheme must achieve.  *)
(* Part 2 states what the round trip must deliver (clauses of C20) from    *)
(* the documents: the man page, the option help, the format limits.        *)
(* Where the documents are silent an entry is "silent": it may be absent   *)
(* or present in a stated rendition, and no other path may be affected.    *)
(***************************************************************************)
EXTENDS NameRules, TLC

Last(s)  == s[Len(s)]
Take(s, n) == SubSeq(s, 1, IF Len(s) < n THEN Len(s) ELSE n)
IsPrefix(a, b) == Len(a) <= Len(b) /\ SubSeq(b, 1, Len(a)) = a
Range(s) == {s[i] : i \in DOMAIN s}

(***************************************************************************)
(* Part 1 - names.                                                         *)
(***************************************************************************)
\* str.upper() restricted to the characters of the pool: ASCII letters are raised, every other
\* character maps to itself or to another non-d-character (assumption: no character whose upper
\* case is ASCII or longer than one character, e.g. U+00DF, U+0131 - that is C18's subject).
UpChar(c) == IF IsLower(c) THEN c - 32 ELSE c
UpSeq(s)  == [i \in 1..Len(s) |-> UpChar(s[i])]
MapChar(c) == IF IsD1(UpChar(c)) THEN UpChar(c) ELSE 95
MapSeq(s)  == [i \in 1..Len(s) |-> MapChar(s[i])]

\* utils.truncate_basename: basename[:maxlen].upper()[:maxlen], then every non-d-character
\* becomes "_" (the second truncation is the identity on this pool: upper-casing is 1:1 here)
TruncBase(b, lvl, isdir) ==
    IF lvl = 4 THEN b
    ELSE LET m == IF lvl = 1 THEN 8 ELSE IF isdir THEN 31 ELSE 30
         IN MapSeq(Take(UpSeq(Take(b, m)), m))

\* orig.replace(';', '_') (level 4: anything but the separator of the version number)
NoSemi(s) == [i \in 1..Len(s) |-> IF s[i] = SEMI THEN 95 ELSE s[i]]

\* utils.mangle_file_for_iso9660: [name, ext]; ext carries ";1" below level 4.
\*  level 4: ';' replaced, split at the last dot.
\*  levels 1-3: the extension is kept iff it has 1..3 characters, all d-characters once raised
\*  (and still at most 3 then); otherwise it stays part of the name.  The name goes through
\*  truncate_basename and, at levels 2 and 3, is cut to 30 - len(extension) (ECMA-119 7.5.2).
MangleFile(orig0, lvl) ==
    LET orig == IF lvl = 4 THEN NoSemi(orig0) ELSE orig0
        dot == LastIndexOf(orig, DOT)
        ext == IF dot = 0 THEN <<>> ELSE SubSeq(orig, dot + 1, Len(orig))
        pre == IF dot = 0 THEN orig ELSE SubSeq(orig, 1, dot - 1)
    IN  IF lvl = 4
        THEN (IF dot = 0 THEN [name |-> orig, ext |-> <<>>] ELSE [name |-> pre, ext |-> ext])
        ELSE LET keep == dot # 0 /\ Len(ext) # 0 /\ Len(ext) <= 3 /\ AllD1(UpSeq(ext)) /\ Len(UpSeq(ext)) <= 3
                 vext == IF keep THEN UpSeq(ext) ELSE <<>>
                 vb   == TruncBase(IF keep THEN pre ELSE orig, lvl, FALSE)
             IN [name |-> IF lvl \in {2, 3} THEN Take(vb, 30 - Len(vext)) ELSE vb,
                 ext  |-> vext \o <<SEMI, 49>>]

JoinFile(m) == IF m.ext = <<>> THEN m.name ELSE m.name \o <<DOT>> \o m.ext
MangleDir(orig, lvl) == TruncBase(orig, lvl, TRUE)
Mangled(orig, isdir, lvl) == IF isdir THEN MangleDir(orig, lvl) ELSE JoinFile(MangleFile(orig, lvl))

\* build_iso_path: the first use of a mangled identifier keeps it; a later one is replaced by
\* (first five characters of its name part) (three digits from 000) ["." ext for files]
Digits3(n) == <<48 + (n \div 100), 48 + ((n \div 10) % 10), 48 + (n % 10)>>
RECURSIVE FreeNumbered(_, _, _, _, _)
FreeNumbered(prefix, ext, isdir, used, n) ==
    IF n = 1000 THEN <<>>                       \* "Could not find free ISO9660 name"
    ELSE LET tmp == prefix \o Digits3(n) \o (IF isdir THEN <<>> ELSE <<DOT>> \o ext)
         IN IF tmp \in used THEN FreeNumbered(prefix, ext, isdir, used, n + 1) ELSE tmp

\* prefix = basepart[:5]: the first five characters of the NAME PART (the mangled directory
\* identifier, or the file name without extension and version) - never of the joined identifier,
\* whose '.' and ';' would otherwise get into the prefix of a name part shorter than five.
NumberingPrefix(orig, isdir, lvl, fm) == Take(IF isdir THEN fm ELSE MangleFile(orig, lvl).name, 5)
IdentFor(orig, isdir, lvl, used) ==
    LET fm == Mangled(orig, isdir, lvl)
    IN IF fm \in used
       THEN FreeNumbered(NumberingPrefix(orig, isdir, lvl, fm), MangleFile(orig, lvl).ext, isdir, used, 0)
       ELSE fm

\* sibs: sequence of [n |-> name, d |-> is a directory] in the order the tool meets them
RECURSIVE AssignFrom(_, _, _, _)
AssignFrom(sibs, lvl, used, acc) ==
    IF sibs = <<>> THEN acc
    ELSE LET id == IdentFor(sibs[1].n, sibs[1].d, lvl, used)
         IN AssignFrom(Tail(sibs), lvl, used \cup {id}, Append(acc, id))
MangleWithNumbering(sibs, lvl) == AssignFrom(sibs, lvl, {}, <<>>)

\* ECMA-119 7.6: directory identifiers are d-characters below level 4 (NameRules leaves that open)
DirIdentLegal(s, lvl) == IsoDirLegality(s, lvl) # "illegal" /\ (lvl < 4 => AllD1(s))
FileIdentLegal(s, lvl) == IsoFileLegality(s, lvl) # "illegal"
IdentLegal(s, isdir, lvl) == s # <<>> /\ IF isdir THEN DirIdentLegal(s, lvl) ELSE FileIdentLegal(s, lvl)

\* what the numbering must achieve for every sibling sequence
DistinctLegal(sibs, ids, lvl) ==
    /\ Len(ids) = Len(sibs)
    /\ \A i, j \in 1..Len(ids) : i < j => ids[i] # ids[j]
    /\ \A i \in 1..Len(ids) : IdentLegal(ids[i], sibs[i].d, lvl)

\* circumstance (used in signatures): the name part is shorter than five characters - a
\* five-character prefix cut from the joined identifier would reach into the separators
PrefixSpansSeparator(orig, isdir, lvl) ==
    ~isdir /\ lvl < 4 /\ Len(MangleFile(orig, lvl).name) < 5

(***************************************************************************)
(* Part 2 - the round trip.                                                *)
(***************************************************************************)
Matches(n, pat) ==
    IF pat.star THEN Len(n) >= Len(pat.lit) /\ SubSeq(n, Len(n) - Len(pat.lit) + 1, Len(n)) = pat.lit
    ELSE n = pat.lit

Kids(S, p) == {e \in S : Len(e.p) = Len(p) + 1 /\ IsPrefix(p, e.p)}
Requested(V, O) == CASE V = "rr" -> O.rock # "none" [] V = "joliet" -> O.joliet
                     [] V = "udf" -> O.udf # "none" [] OTHER -> TRUE

\* -x / -m: an entry whose own name or an ancestor's name matches is not part of the image
Excluded(e, O) == O.fk = "x" /\ \E i \in 1..Len(e.p) : Matches(e.p[i], O.fpat)
Src(T, O) == {e \in T : ~Excluded(e, O)}

\* man page: "symbolic links will be entered using Rock Ridge if enabled, otherwise they will be
\* ignored"; "-udf-symlinks  Support symlinks in UDF filesystems. This is the default."  A link is
\* kept when Rock Ridge or UDF was asked for (under either spelling, -R / -r, -udf / -UDF) and
\* ignored - absent from every view - otherwise.
SymlinksKept(O) == O.rock # "none" \/ O.udf # "none"
LinkIgnored(e, O) == e.k = "symlink" /\ ~SymlinksKept(O)

\* -hide: "Hide ISO9660/RR file", -hide-joliet, -hide-udf (regular files, by their own name)
HiddenIn(V, e, O) ==
    /\ e.k = "file" /\ Matches(Last(e.p), O.fpat)
    /\ \/ O.fk = "hide"  /\ V \in {"iso", "rr"}
       \/ O.fk = "hidej" /\ V = "joliet"
       \/ O.fk = "hideu" /\ V = "udf"
Expected(V, T, O) == {e \in Src(T, O) : ~HiddenIn(V, e, O) /\ ~LinkIgnored(e, O)}

\* "With all ISO9660 levels from 1 to 3 ... directory nesting is limited to 8 levels" (root is
\* level 1); pycdlib documents and enforces "Directory levels too deep (maximum is 7)" for every
\* ISO9660 path, files included.  Without Rock Ridge relocation an entry with more than seven
\* path components cannot be placed: the tool announces "ignored - continuing" (silent: absent
\* from every view, nothing else affected).  Level 4: "Directory nesting is not limited".
TooDeep(e, O) == O.rock = "none" /\ O.level < 4 /\ Len(e.p) > 7
Relocated(T, O) == O.rock # "none" /\ \E e \in Src(T, O) : e.k = "dir" /\ Len(e.p) > 7

\* A kept link is entered in the Rock Ridge and in the UDF view as a link.  Joliet cannot hold a
\* link and nothing says what the Joliet tree shows instead: silent (absent, or an empty file).
\* (The plain ISO9660 view is not judged by ExtractEqualsTree: see IsoOnce.)
Silent(V, e, O) == TooDeep(e, O) \/ (e.k = "symlink" /\ V = "joliet")
Rendition(s, x) == x = s \/ (s.k = "symlink" /\ x = [p |-> s.p, k |-> "file", c |-> "E", t |-> <<>>])

RrMoved == <<114, 114, 95, 109, 111, 118, 101, 100>>    \* "rr_moved" (man page: cannot be hidden)
AllowedExtra(V, x, T, O) ==
    \/ O.boot # <<>> /\ x.p = <<O.bootcat>> /\ x.k = "file"         \* the boot catalog named by -c
    \/ V = "rr" /\ Relocated(T, O) /\ x.p = <<RrMoved>> /\ x.k = "dir"

ViewSet(ob, V) == Range(ob.views[V])

\* ExtractEqualsTree(V): same relative paths, kinds, content ids, symlink targets
ExtractEqualsTree(V, T, O, ob) ==
    LET X == ViewSet(ob, V)
        E == Expected(V, T, O)
    IN /\ ob.extract[V] = "exit:0"
       /\ Len(ob.views[V]) = Cardinality(X)
       /\ \A e \in E : Silent(V, e, O) \/ e \in X
       /\ \A x \in X : \/ x \in E
                       \/ AllowedExtra(V, x, T, O)
                       \/ \E s \in E : Silent(V, s, O) /\ s.p = x.p /\ Rendition(s, x)

\* ---- plain ISO9660 view ---------------------------------------------------
\* isomorphism of two subtrees / equality of the bags of children up to isomorphism
RECURSIVE IsoSub(_, _, _, _), SameKids(_, _, _, _)
IsoSub(S1, e1, S2, e2) ==
    /\ e1.k = e2.k
    /\ e1.k = "file" => e1.c = e2.c
    /\ e1.k = "symlink" => e1.t = e2.t
    /\ e1.k = "dir" => SameKids(S1, e1.p, S2, e2.p)
SameKids(S1, p1, S2, p2) ==
    LET k1 == Kids(S1, p1)
        k2 == Kids(S2, p2)
    IN /\ Cardinality(k1) = Cardinality(k2)
       /\ \A a \in k1 : Cardinality({b \in k1 : IsoSub(S1, a, S1, b)})
                         = Cardinality({b \in k2 : IsoSub(S1, a, S2, b)})

Contents(S) == {e.c : e \in {f \in S : f.k = "file"}}
CountOf(S, c) == Cardinality({e \in S : e.k = "file" /\ e.c = c})
\* every non-empty content the same number of times; empty files at least as often
FlatFilesEq(X, E) ==
    /\ \A c \in (Contents(X) \cup Contents(E)) \ {"E"} : CountOf(X, c) = CountOf(E, c)
    /\ CountOf(X, "E") >= CountOf(E, "E")

BootCatIdent(O) == LET m == MangleFile(O.bootcat, O.level) IN m.name \o <<DOT>> \o m.ext
IsoCore(O, ob) == {x \in ViewSet(ob, "iso") : ~(O.boot # <<>> /\ x.p = <<BootCatIdent(O)>>)}
ExpIso(T, O) == {e \in Expected("iso", T, O) : ~TooDeep(e, O)}

IsoLegal(O, ob) ==
    /\ \A x \in ViewSet(ob, "iso") : IdentLegal(Last(x.p), x.k = "dir", O.level)
    /\ \A i \in DOMAIN ob.isolist : IdentLegal(ob.isolist[i].n, ob.isolist[i].dir, O.level)
IsoDistinct(ob) ==
    /\ Len(ob.views.iso) = Cardinality(ViewSet(ob, "iso"))
    /\ \A i, j \in DOMAIN ob.isolist :
          i < j => <<ob.isolist[i].d, ob.isolist[i].n>> # <<ob.isolist[j].d, ob.isolist[j].n>>
\* every source file (and directory) exactly once: the ISO9660 tree is the source tree up to
\* renaming.  Links: with Rock Ridge they are "entered using Rock Ridge", i.e. each is in the
\* ISO9660 tree once, as a link with its target; with UDF only the documents do not say what the
\* ISO9660 tree shows (silent: empty files - pycdlib's documented add_symlink behaviour - or
\* nothing); with neither they are ignored (not in Expected).  With relocation the hierarchy
\* differs by design (RR_MOVED): every content exactly once anywhere.
IsoOnce(T, O, ob) ==
    LET X   == IsoCore(O, ob)
        E   == ExpIso(T, O)
        Xn  == {x \in X : x.k # "symlink"}
        En  == {e \in E : e.k # "symlink"}
        Ee  == En \cup {[p |-> e.p, k |-> "file", c |-> "E", t |-> <<>>] : e \in {f \in E : f.k = "symlink"}}
    IN IF Relocated(T, O) THEN FlatFilesEq(Xn, En)
       ELSE IF O.rock # "none" THEN SameKids(X, <<>>, E, <<>>)
       ELSE /\ SameKids(Xn, <<>>, En, <<>>) \/ SameKids(Xn, <<>>, Ee, <<>>)
            /\ \A x \in X : x.k = "symlink" => \E e \in E : e.k = "symlink" /\ e.t = x.t
PlainViewOnceLegalDistinct(T, O, ob) ==
    /\ ob.extract.iso = "exit:0"
    /\ IsoLegal(O, ob) /\ IsoDistinct(ob) /\ IsoOnce(T, O, ob)

\* ---- extensions ------------------------------------------------------------
ExtensionsExactly(O, ob) ==
    /\ ob.flags.has_rr = (O.rock # "none")     /\ ob.rawflags.has_rr = (O.rock # "none")
    /\ ob.flags.has_joliet = O.joliet          /\ ob.rawflags.has_joliet = O.joliet
    /\ ob.flags.has_udf = (O.udf # "none")     /\ ob.rawflags.has_udf = (O.udf # "none")

\* ---- duplicate linking -----------------------------------------------------
\* with -scan-for-duplicates every path still reads its own content
DuplicatesOnceHarmless(T, O, ob) ==
    O.dup =>
      /\ \A V \in {"rr", "joliet", "udf"} :
            Requested(V, O) =>
               \A x \in ViewSet(ob, V) : x.k = "file" =>
                  \A e \in T : (e.p = x.p /\ e.k = "file") => e.c = x.c
      /\ ob.extract.iso = "exit:0" =>
            \A c \in (Contents(IsoCore(O, ob)) \cup Contents(ExpIso(T, O))) \ {"E"} :
               CountOf(IsoCore(O, ob), c) = CountOf(ExpIso(T, O), c)

(***************************************************************************)
(* Circumstances of a case in model terms (used in finding signatures).    *)
(***************************************************************************)
Pairs(S) == {pr \in S \X S : pr[1] # pr[2]}
Features(T, O) ==
    LET S == Src(T, O)
        nondir == {e \in S : e.k # "dir"}
    IN [has_symlink |-> \E e \in S : e.k = "symlink",
        \* link support asked for only through the spellings -R / -UDF
        links_alias_only |-> SymlinksKept(O) /\ O.rock # "r" /\ O.udf # "udf",
        \* two non-directory siblings mangle alike and the numbering prefix reaches the separators
        short_collision |-> \E pr \in Pairs(nondir) :
              /\ Len(pr[1].p) = Len(pr[2].p) /\ IsPrefix(SubSeq(pr[1].p, 1, Len(pr[1].p) - 1), pr[2].p)
              /\ Mangled(Last(pr[1].p), FALSE, O.level) = Mangled(Last(pr[2].p), FALSE, O.level)
              /\ PrefixSpansSeparator(Last(pr[1].p), FALSE, O.level),
        \* a file or link directly inside a directory of depth 7, no Rock Ridge, level < 4
        deep_file_no_rr |-> \E e \in nondir : Len(e.p) = 8 /\ O.rock = "none" /\ O.level < 4,
        deep_dir_no_rr |-> \E e \in S : e.k = "dir" /\ Len(e.p) > 7 /\ O.rock = "none",
        relocated |-> Relocated(T, O),
        \* a path below the root that mixes names needing 16-bit characters with names that do not
        mixed_width_path |-> \E e \in S : \E a, b \in 1..Len(e.p) :
                                  /\ \E n \in 1..Len(e.p[a]) : e.p[a][n] > 255
                                  /\ \A n \in 1..Len(e.p[b]) : e.p[b][n] <= 255,
        boot |-> O.boot # <<>>,
        \* a hide filter names a file that duplicate scanning links to / from an identical file
        hide_dup |-> O.dup /\ O.fk \in {"hide", "hidej", "hideu"} /\ \E pr \in Pairs({e \in S : e.k = "file"}) :
                        pr[1].c = pr[2].c /\ Matches(Last(pr[1].p), O.fpat),
        \* two different contents of equal length and equal 32-bit hash, with duplicate scanning
        hash_twins |-> O.dup /\ {"H1", "H2"} \subseteq {e.c : e \in S},
        same_content |-> \E pr \in Pairs({e \in S : e.k = "file"}) : pr[1].c = pr[2].c,
        entries |-> Cardinality(T),
        depth |-> IF T = {} THEN 0 ELSE CHOOSE n \in {Len(e.p) : e \in T} : \A e \in T : Len(e.p) <= n]
=============================================================================
