--------------------------- MODULE Judge_Hostile ---------------------------
(***************************************************************************)
(* C15 judge.  One observation = one faulted image that the harness opened *)
(* with the real PyCdlib.open_fp in a child process (address space limit,  *)
(* alarm):                                                                 *)
(*   [id, base, faults, result, elapsed_ms, memory_error, timeout,         *)
(*    peak_kb]                                                             *)
(* elapsed_ms is the processor time open_fp consumed, peak_kb the growth of *)
(* the peak resident set, timeout whether the 5 s processor-time alarm (or  *)
(* the parent's wall-clock deadline) fired.                                 *)
(* result is "ok" or the name of the exception class that escaped open_fp  *)
(* ("process_died" when the child was killed).  faults is the sequence of  *)
(* fault records TLC generated from Hostile (checked against the fault     *)
(* space of the base image, module HostileInv, so that an observation of   *)
(* something the model did not ask for is a machinery error).              *)
(*                                                                         *)
(* HostileFailing names the conjuncts of Hostile!AllowedOutcome that are   *)
(* false.  TLC evaluates it; Python only ran the code.                     *)
(***************************************************************************)
EXTENDS Naturals, Sequences, FiniteSets, TLC

VARIABLE i

H == INSTANCE Hostile WITH faults <- {}, MaxFaults <- 2, Dump <- FALSE

HostileFailing(item) ==
    LET clauses ==
          (IF item.result \notin H!DocumentedResults /\ ~item.timeout /\ ~item.memory_error
             THEN {"UndocumentedException"} ELSE {})
          \cup (IF item.timeout \/ item.elapsed_ms > H!Budget THEN {"Timeout"} ELSE {})
          \cup (IF item.memory_error \/ item.peak_kb > H!MemBudgetKb THEN {"MemoryBlowup"} ELSE {})
          \cup (IF item.base # H!Base \/ \E k \in 1..Len(item.faults) : ~H!InFaultSpace(item.faults[k])
                  THEN {"FaultNotInModel"} ELSE {})
    IN  \* the named clauses are exactly the negation of AllowedOutcome
        IF (clauses \ {"FaultNotInModel"} = {}) = H!AllowedOutcome(item)
          THEN clauses ELSE clauses \cup {"ClauseMismatch"}

INSTANCE JudgeLoop WITH Failing <- HostileFailing
=============================================================================
