------------------------------ MODULE Judge_Demo ------------------------------
EXTENDS Naturals, Sequences, FiniteSets
DemoFailing(x) == (IF x.a + x.b # x.sum THEN {"SumWrong"} ELSE {}) \cup (IF Len(x.l) > 2 THEN {"TooLong"} ELSE {})
VARIABLE i
INSTANCE JudgeLoop WITH Failing <- DemoFailing
=============================================================================
