------------------------------ MODULE Hostile ------------------------------
(***************************************************************************)
(* C15 - hostile or damaged images.  This is a FAULT MODEL, not a          *)
(* behavioural model: it describes which damaged variants of one valid     *)
(* base image are generated, and which outcomes of opening them the        *)
(* property allows.                                                        *)
(*                                                                         *)
(* The base image is described by the generated literal module HostileInv  *)
(* (harness/check_C15.py writes it from harness/inventory.py, an           *)
(* independent walker of the image bytes):                                 *)
(*   Base        name of the base image                                    *)
(*   ImageSize   its size in bytes                                         *)
(*   Fields      sequence of records, one per field of every structure a   *)
(*               reader follows:                                           *)
(*                 [id, structure, role, width, ntargets, targets, bits,   *)
(*                  csum]                                                  *)
(*               role    \in Roles                                         *)
(*               width   bytes (both-byte-order fields: both copies)       *)
(*               targets subset of {"self","ancestor","other_structure"}:  *)
(*                       the pointer values present in this image that     *)
(*                       make the pointer refer to the sector holding it,  *)
(*                       to an ancestor directory (a cycle), or to some    *)
(*                       other structure; ntargets = Cardinality(targets)  *)
(*               bits    the flag bits a reader interprets                 *)
(*               csum    TRUE when the field is covered by a checksum/CRC  *)
(*                       an adversary would repair (UDF tags, El Torito    *)
(*                       validation entry)                                 *)
(*   TruncPoints sequence of [at, why, structure]: every sector boundary,  *)
(*               and the start, start+1, middle, end-1 and end of every    *)
(*               structure                                                 *)
(*                                                                         *)
(* A state is the set of faults applied to the base image (one state = one *)
(* faulted image description).  TLC enumerates the space exhaustively for  *)
(* MaxFaults = 1 and samples it (-simulate) for MaxFaults = 2; every state *)
(* is printed as <<"FAULT", ToJson(...)>> and Python applies the faults to *)
(* the bytes and runs the real open_fp.  AllowedOutcome is the clause of   *)
(* the property; it is evaluated by TLC in Judge_Hostile.                  *)
(*                                                                         *)
(* What this does NOT cover: arbitrary byte strings.  The space is the     *)
(* structured single-field faults below plus truncations, over the base    *)
(* images listed in harness/check_C15.py.                                  *)
(***************************************************************************)
EXTENDS Naturals, Sequences, FiniteSets, TLC, Json, HostileInv

CONSTANTS MaxFaults,   \* faults per image (1: exhaustive, 2: sampled with -simulate)
          Dump         \* TRUE: print every state

VARIABLE faults

Roles == {"length", "extent_pointer", "count", "tag_or_magic", "both_endian_copy", "flags",
          "offset_in_sector", "version", "checksum", "char"}

\* ---- the fault alphabet, by role -------------------------------------------
\* lengths and counts: boundary values, off-by-one, and values far beyond the image
LenKinds(f) == {"0", "1", "max", "plus1", "minus1"} \cup (IF f.width >= 4 THEN {"huge"} ELSE {})
\* pointers: nowhere, to itself, to an ancestor (cycle), into another structure, past the end
PtrKinds(f) == {"0", "beyond_eof", "max"} \cup f.targets
OffKinds == {"0", "2047", "beyond"}
TagKinds == {"flip_bit", "zero", "ff"}
BitName(b) == "toggle_bit" \o ToString(b)
FlagKinds(f) == {BitName(b) : b \in f.bits}
CharKinds == {"0x00", "0xff", "slash"}

KindsOf(f) ==
    CASE f.role \in {"length", "count"} -> LenKinds(f)
      [] f.role = "extent_pointer" -> PtrKinds(f)
      [] f.role = "offset_in_sector" -> OffKinds
      [] f.role \in {"tag_or_magic", "version", "checksum"} -> TagKinds
      [] f.role = "both_endian_copy" -> {"swap_one_copy"}
      [] f.role = "flags" -> FlagKinds(f)
      [] f.role = "char" -> CharKinds

\* a corrupted field is left as is (damage) or, where a checksum covers it, also re-sealed
\* (adversary)
FixOpts(f) == IF f.csum THEN {FALSE, TRUE} ELSE {FALSE}

FieldIdx == 1..Len(Fields)
Mutate(i, k, x) == [t |-> "mutate", field |-> Fields[i].id, kind |-> k, fix |-> x, at |-> 0,
                    structure |-> Fields[i].structure, role |-> Fields[i].role]
Truncate(j) == [t |-> "truncate", field |-> "-", kind |-> TruncPoints[j].why, fix |-> FALSE,
                at |-> TruncPoints[j].at, structure |-> TruncPoints[j].structure, role |-> "truncate"]

MutFaults == UNION {{Mutate(i, k, x) : k \in KindsOf(Fields[i]), x \in FixOpts(Fields[i])} : i \in FieldIdx}
TruncFaults == {Truncate(j) : j \in 1..Len(TruncPoints)}

\* A structured multi-field fault family (not reachable by one or two field faults): on the base
\* image "ladder" every directory holds two sub-directories A and B; Ladder(d) makes the record of B
\* point at the extent of A in the top d levels, so that the hierarchy is loop-free but has 2^d paths
\* (a reader that only guards against cycles walks it exponentially long).
LadderDepths == IF Base = "ladder" THEN {3, 10, 18, 24} ELSE {}
Ladder(d) == [t |-> "ladder", field |-> "-", kind |-> "alias_sibling", fix |-> FALSE, at |-> d,
              structure |-> "dir_record", role |-> "extent_pointer"]
LadderFaults == {Ladder(d) : d \in LadderDepths}
AllFaults == MutFaults \cup TruncFaults \cup LadderFaults

\* membership in the fault space without building it (used by the judge on every observation)
InFaultSpace(f) ==
    \/ /\ f.t = "mutate"
       /\ \E i \in FieldIdx : /\ Fields[i].id = f.field
                              /\ f.kind \in KindsOf(Fields[i])
                              /\ f.fix \in FixOpts(Fields[i])
                              /\ f = Mutate(i, f.kind, f.fix)
    \/ /\ f.t = "truncate"
       /\ \E j \in 1..Len(TruncPoints) : TruncPoints[j].at = f.at /\ f = Truncate(j)
    \/ /\ f.t = "ladder"
       /\ f \in LadderFaults

\* two faults combine when they are not on the same field and at most one truncates
Compatible(f, fs) == \A g \in fs : /\ f # g
                                    /\ ~(f.t = "truncate" /\ g.t = "truncate")
                                    /\ ~(f.t = "ladder" /\ g.t = "ladder")
                                    /\ (f.t = "mutate" /\ g.t = "mutate" => f.field # g.field)

Init == faults = {}
Apply == /\ Cardinality(faults) < MaxFaults
         /\ \E f \in AllFaults :
              /\ Compatible(f, faults)
              /\ faults' = faults \cup {f}
Next == Apply
Spec == Init /\ [][Next]_faults

\* sampling of multi-fault images: run with -simulate (-seed S -depth MaxFaults+1); every step
\* draws one fault, so that a simulated behaviour is one random MaxFaults-subset of the space
SampleApply == /\ Cardinality(faults) < MaxFaults
               /\ \E f \in {RandomElement(AllFaults)} :
                    /\ Compatible(f, faults)
                    /\ faults' = faults \cup {f}
SampleSpec == Init /\ [][SampleApply]_faults

\* ---- sanity of the fault model itself (checked by TLC on every run) --------
InventoryOK ==
    /\ \A i \in FieldIdx :
         /\ Fields[i].role \in Roles
         /\ Fields[i].width >= 1
         /\ Fields[i].targets \subseteq {"self", "ancestor", "other_structure"}
         /\ Fields[i].ntargets = Cardinality(Fields[i].targets)
         /\ Fields[i].role # "extent_pointer" => Fields[i].targets = {}
         /\ Fields[i].role = "flags" => Fields[i].bits # {}
         /\ KindsOf(Fields[i]) # {}
    /\ Cardinality({Fields[i].id : i \in FieldIdx}) = Len(Fields)
    /\ \A j \in 1..Len(TruncPoints) : TruncPoints[j].at >= 0 /\ TruncPoints[j].at < ImageSize
ASSUME InventoryOK

StateOK == /\ \A f \in faults : InFaultSpace(f)
           /\ Cardinality(faults) <= MaxFaults
           /\ Cardinality({f \in faults : f.t = "truncate"}) <= 1
           /\ \A f, g \in faults : (f.t = "mutate" /\ g.t = "mutate" /\ f.field = g.field) => f = g

\* ---- output ------------------------------------------------------------------
DumpFault == (Dump /\ faults # {}) =>
                PrintT(<<"FAULT", ToJson([base |-> Base, n |-> Cardinality(faults), faults |-> faults])>>)
\* per-role size of the single-fault space (printed once, from the initial state)
RoleCount(r) == Cardinality({f \in AllFaults : f.role = r})
DumpSpace == (faults = {}) =>
                PrintT(<<"SPACE", ToJson([base |-> Base, fields |-> Len(Fields),
                                          truncpoints |-> Len(TruncPoints),
                                          faults |-> Cardinality(AllFaults),
                                          byrole |-> [r \in Roles \cup {"truncate"} |-> RoleCount(r)]])>>)

\* ---- the property clause ---------------------------------------------------------
\* docs/exceptions.md: every failure of the library is one of these three (all derive from
\* PyCdlibException); an observation o is what the harness saw when the real open_fp ran on one
\* faulted image.
DocumentedResults == {"ok", "PyCdlibInvalidISO", "PyCdlibInvalidInput", "PyCdlibInternalError"}
Budget == 5000          \* ms of PROCESSOR time (o.elapsed_ms); a nominal open of these images takes
                        \* 0.1 - 3 ms.  Wall time is not used: the check shares the machine.
MemBudgetKb == 131072   \* growth of the peak resident set while opening an image of <= 1 MiB
AllowedOutcome(o) == /\ o.result \in DocumentedResults
                     /\ o.elapsed_ms <= Budget
                     /\ ~o.memory_error
                     /\ o.peak_kb <= MemBudgetKb
                     /\ ~o.timeout
=============================================================================
