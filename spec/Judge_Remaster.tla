--------------------------- MODULE Judge_Remaster ---------------------------
(* the re-mastering clauses of ImageChecks on items that carry only `remaster` *)
EXTENDS ImageChecks
VARIABLE i
INSTANCE JudgeLoop WITH Failing <- RemasterFailing
=============================================================================
