------------------------- MODULE Judge_StreamContent -------------------------
(***************************************************************************)
(* C16 - what "the bytes of the file" are for a boot file that carries an  *)
(* El Torito boot info table (Stream!TableFiles).                          *)
(*                                                                         *)
(* One observation per fixture of harness/check_C16.py that has such a     *)
(* file (byte values as sequences of numbers):                             *)
(*   orig      the bytes the file was added with                           *)
(*   size      the data length of the file's directory record on the       *)
(*             written image         } found by the independent decoder    *)
(*   on_image  the `size` bytes at the file's extent on the written image  *)
(*   table     the 56 bytes at offset 8 of that extent                     *)
(*   expected  the content in which the harness locates what the readers   *)
(*             of this fixture return (Trace_Stream judges the positions)  *)
(*   found     the decoder found the file on the written image             *)
(* Clauses                                                                 *)
(*   FileOnImage        the written image has the file, as long as added   *)
(*   ExpectedIsOverlay  expected = Overlaid(orig, table): the table laid   *)
(*                      over bytes 8..63, cut at the end of the file       *)
(*   ImageHoldsOverlay  the written image holds exactly these bytes        *)
(*   TableIsThere       the table differs from the bytes it replaces (so   *)
(*                      that a reader without the table is told apart)     *)
(***************************************************************************)
EXTENDS Naturals, Sequences, FiniteSets, TLC, StreamContent

ContentFailing(o) ==
    IF ~o.found THEN {"FileOnImage"}
    ELSE (IF o.size = Len(o.orig) /\ Len(o.on_image) = o.size /\ Len(o.table) = TableLength
          THEN {} ELSE {"FileOnImage"})
    \cup (IF Len(o.table) = TableLength /\ o.expected = Overlaid(o.orig, o.table)
          THEN {} ELSE {"ExpectedIsOverlay"})
    \cup (IF o.on_image = o.expected THEN {} ELSE {"ImageHoldsOverlay"})
    \cup (IF Len(o.orig) > TableOffset /\ o.expected = o.orig THEN {"TableIsThere"} ELSE {})

VARIABLE i
INSTANCE JudgeLoop WITH Failing <- ContentFailing
=============================================================================
