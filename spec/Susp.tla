-------------------------------- MODULE Susp --------------------------------
(***************************************************************************)
(* C08 - Rock Ridge fidelity.  Clauses over ONE observation ("item"):      *)
(*   item.id      text                                                      *)
(*   item.wrote   BOOLEAN  - write_fp produced an image                     *)
(*   item.rep     the report of harness/decoders/susp.py (names='hex':      *)
(*                byte strings are lower-case hex strings, 32-bit on-disc   *)
(*                fields >= 2^31 are negative) - only when item.wrote       *)
(*   item.expect  <<[path, kind, mode, target]>> what the harness asked     *)
(*                pycdlib to build (path: sequence of hex names; mode 0 =   *)
(*                not given; target hex, "" unless symlink)                 *)
(*   item.want    [version, xa, reloc] requested Rock Ridge version, XA,    *)
(*                and the (hex) name of the relocation directory            *)
(*   item.reopen  [done, ok, view] - pycdlib's own reading of the image:    *)
(*                view = <<[path, kind, target]>>                           *)
(* SuspFailing(item) is the set of names of the clauses that are false.     *)
(* TLC evaluates them; Python only computes the report.                     *)
(***************************************************************************)
EXTENDS Naturals, Integers, Sequences, FiniteSets, TLC

Sector == 2048

Rec(R, k) == R.recs[k + 1]          \* decoder indices are 0-based
Dir(R, d) == R.dirs[d + 1]

RECURSIVE SumLen(_, _)
SumLen(es, k) == IF k = 0 THEN 0 ELSE es[k].len + SumLen(es, k - 1)

RECURSIVE CatCE(_, _)
CatCE(ces, k) == IF k = 0 THEN <<>> ELSE CatCE(ces, k - 1) \o ces[k].ents

\* all entries of a record in reading order: record area, then the continuation areas
Ents(r) == r.dr.ents \o CatCE(r.ce, Len(r.ce))
Sel(es, s) == SelectSeq(es, LAMBDA e : e.sig = s /\ ~e.bad)

EntryOK(e) == e.len >= 4 /\ e.ver = 1 /\ ~e.bad

Bit(f, b) == (f \div b) % 2 = 1

KindOf(mode) == IF mode < 0 THEN "other"
                ELSE LET t == (mode \div 4096) % 16 IN
                     IF t = 4 THEN "dir" ELSE IF t = 8 THEN "file" ELSE IF t = 10 THEN "symlink" ELSE "other"

IsRootDot(R, r) == r.d = 0 /\ r.special = "dot"

(*************************** structure of the areas ***********************)
\* 33 + len_fi + pad (+14 XA / SP.skip) + sum(entry len) + trailing pad = reclen; every entry
\* has len >= 4 and version 1; in every continuation area sum(len) = CE.len
SuspLengthsAddUp(R) ==
  \A k \in DOMAIN R.recs : \E r \in {R.recs[k]} :
     /\ r.reclen = 33 + r.len_fi + r.pad_fi + r.skip + r.dr.sum + r.dr.pad
     /\ r.reclen % 2 = 0
     /\ r.dr.pad <= 1 /\ r.dr.pad_zero /\ r.pad_fi_zero
     /\ r.dr.stop # "badlen"
     /\ \A j \in DOMAIN r.dr.ents : EntryOK(r.dr.ents[j])
     /\ SumLen(r.dr.ents, Len(r.dr.ents)) = r.dr.sum
     /\ \A a \in DOMAIN r.ce : \E c \in {r.ce[a]} :
          /\ c.inside /\ c.stop # "badlen" /\ c.sum = c.len
          /\ \A j \in DOMAIN c.ents : EntryOK(c.ents[j])
          /\ SumLen(c.ents, Len(c.ents)) = c.sum

TFLen(e) == LET n == Cardinality({b \in {1, 2, 4, 8, 16, 32, 64} : Bit(e.flags, b)}) IN
            5 + n * (IF Bit(e.flags, 128) THEN 17 ELSE 7)

RECURSIVE SLCompLen(_, _)
SLCompLen(cs, k) == IF k = 0 THEN 0 ELSE 2 + cs[k][2] + SLCompLen(cs, k - 1)

\* entries with a length fixed by SUSP/RRIP have it
EntryLengthsCanonical(R) ==
  \A k \in DOMAIN R.recs : \E es \in {Ents(R.recs[k])} : \A j \in DOMAIN es : \E e \in {es[j]} :
     ~e.bad =>
       /\ e.sig = "SP" => e.len = 7
       /\ e.sig = "CE" => e.len = 28
       /\ e.sig = "RR" => e.len = 5
       /\ e.sig = "PX" => e.len \in {36, 44}
       /\ e.sig = "PN" => e.len = 20
       /\ e.sig \in {"CL", "PL"} => e.len = 12
       /\ e.sig \in {"RE", "ST"} => e.len = 4
       /\ e.sig = "ES" => e.len = 5
       /\ e.sig = "TF" => e.len = TFLen(e)
       /\ e.sig = "ER" => e.len = 8 + e.len_id + e.len_des + e.len_src /\ e.ext_ver = 1
       /\ e.sig = "SL" => e.comps_ok /\ e.len = 5 + SLCompLen(e.comps, Len(e.comps))
       /\ e.sig = "NM" => e.len = 5 + e.nlen

\* ce_areas[k] = <<owner record, block, off, len>>
CEInsideSector(R) ==
  \A k \in DOMAIN R.ce_areas : \E a \in {R.ce_areas[k]} :
     a[3] >= 0 /\ a[3] < Sector /\ a[4] >= 1 /\ a[4] <= Sector /\ a[3] + a[4] <= Sector

CENoOverlap(R) ==
  \A i, j \in DOMAIN R.ce_areas : \E a \in {R.ce_areas[i]} : \E b \in {R.ce_areas[j]} :
     (i < j /\ a[2] = b[2]) => (a[3] + a[4] <= b[3] \/ b[3] + b[4] <= a[3])

\* the block is a sector of its own kind: inside the image, after the descriptors, in no
\* directory, file or path table; and the reader finds entries there
CELandsOnArea(R) ==
  /\ \A k \in DOMAIN R.ce_areas : \E a \in {R.ce_areas[k]} :
       /\ a[2] >= 18 /\ a[2] < R.nsect
       /\ \A g \in DOMAIN R.regions : ~(R.regions[g][2] <= a[2] /\ a[2] < R.regions[g][2] + R.regions[g][3])
  /\ \A k \in DOMAIN R.recs : \A a \in DOMAIN R.recs[k].ce : \E c \in {R.recs[k].ce[a]} :
       c.inside /\ Len(c.ents) >= 1 /\ ~c.ents[1].bad /\ c.ents[1].sig \in
          {"SP", "CE", "ER", "ES", "RR", "PX", "PN", "SL", "NM", "CL", "PL", "RE", "TF", "SF", "ST", "PD"}

\* SUSP: at most one CE per System Use field / continuation area; chains do not loop
CEChainWellFormed(R) ==
  \A k \in DOMAIN R.recs : \E r \in {R.recs[k]} :
     /\ ~r.ce_loop
     /\ Len(Sel(r.dr.ents, "CE")) <= 1
     /\ \A a \in DOMAIN r.ce : Len(Sel(r.ce[a].ents, "CE")) <= 1

CEBothEndianAgree(R) ==
  \A k \in DOMAIN R.recs : \E es \in {Sel(Ents(R.recs[k]), "CE")} : \A j \in DOMAIN es :
     es[j].block[1] = es[j].block[2] /\ es[j].off[1] = es[j].off[2] /\ es[j].clen[1] = es[j].clen[2]

RRBothEndianAgree(R) ==
  \A k \in DOMAIN R.recs : \E es \in {Ents(R.recs[k])} : \A j \in DOMAIN es : \E e \in {es[j]} :
     ~e.bad =>
       /\ e.sig = "PX" => /\ e.mode[1] = e.mode[2] /\ e.nlink[1] = e.nlink[2]
                          /\ e.uid[1] = e.uid[2] /\ e.gid[1] = e.gid[2]
                          /\ e.len = 44 => e.serial[1] = e.serial[2]
       /\ e.sig \in {"CL", "PL"} => e.loc[1] = e.loc[2]
       /\ e.sig = "PN" => e.high[1] = e.high[2] /\ e.low[1] = e.low[2]

(*************************** relocation ***********************************)
HasExtent(R, x) == {d \in DOMAIN R.dirs : R.dirs[d].extent = x}
CLRecs(R) == {k \in DOMAIN R.recs : R.recs[k].rr.has_cl}
MovedDirs(R) == {d \in DOMAIN R.dirs : R.dirs[d].ent >= 0 /\ Rec(R, R.dirs[d].ent).rr.re}

\* CL.location is the extent of a directory whose "." has that extent, and it is the intended
\* one: the relocated directory (its entry carries RE) with the name of the stand-in
CLLandsOnDir(R) ==
  \A k \in CLRecs(R) : \E r \in {R.recs[k]} :
     /\ r.rr.ncl = 1 /\ ~r.isdir /\ r.special = ""
     /\ \E d \in HasExtent(R, r.rr.cl) :
          /\ R.dirs[d].dot >= 0 /\ Rec(R, R.dirs[d].dot).extent[1] = r.rr.cl
          /\ R.dirs[d].ent >= 0
          /\ Rec(R, R.dirs[d].ent).rr.re
          /\ Rec(R, R.dirs[d].ent).rr.name = r.rr.name

\* the ".." of a relocated directory carries PL = extent of the logical parent (the directory
\* that holds the CL record); PL occurs nowhere else
PLLandsOnParent(R) ==
  /\ \A d \in MovedDirs(R) : \E dd \in {R.dirs[d]} :
       /\ dd.dotdot >= 0
       /\ \E pr \in {Rec(R, dd.dotdot).rr} :
            /\ pr.has_pl /\ pr.npl = 1
            /\ \E k \in CLRecs(R) : R.recs[k].rr.cl = dd.extent /\ Dir(R, R.recs[k].d).extent = pr.pl
  /\ \A k \in DOMAIN R.recs : \E r \in {R.recs[k]} :
       r.rr.has_pl => r.special = "dotdot" /\ (r.d + 1) \in MovedDirs(R)

\* a directory entry carries RE iff a CL points at its directory; exactly one CL does
RELabelsMoved(R) ==
  /\ \A d \in DOMAIN R.dirs : R.dirs[d].ent >= 0 =>
        (Rec(R, R.dirs[d].ent).rr.re <=> \E k \in CLRecs(R) : R.recs[k].rr.cl = R.dirs[d].extent)
  /\ \A d \in MovedDirs(R) : Cardinality({k \in CLRecs(R) : R.recs[k].rr.cl = R.dirs[d].extent}) = 1
  /\ \A k \in DOMAIN R.recs : \E r \in {R.recs[k]} :
        r.rr.re => r.isdir /\ r.special = "" /\ r.rr.nre = 1

(*************************** SP / ER / versions ***************************)
KnownExtIds == {"RRIP_1991A", "IEEE_P1282", "IEEE_1282"}

\* ER only in the root "." record, at least one, no identifier twice, all RRIP identifiers
ERPresentOnce(R) ==
  R.has_susp =>
    /\ R.er.count >= 1 /\ R.er.root_dot_only
    /\ \A i, j \in DOMAIN R.er.ids : i # j => R.er.ids[i] # R.er.ids[j]
    /\ \A i \in DOMAIN R.er.ids : R.er.ids[i] \in KnownExtIds

SPPresentInRootDot(R) ==
  R.has_susp =>
    /\ R.sp.found /\ R.sp.check_ok
    /\ R.dirs[1].dot = 0
    /\ R.sp.off = (IF Rec(R, 0).xa THEN 14 ELSE 0)
    /\ Len(Rec(R, 0).dr.ents) >= 1 /\ Rec(R, 0).dr.ents[1].sig = "SP"
    /\ \A k \in DOMAIN R.recs : \E es \in {Ents(R.recs[k])} :
          \A j \in DOMAIN es : es[j].sig = "SP" => (k = 1 /\ j = 1)

\* the number of bytes SP tells readers to skip is what is in front of the entries
SPSkipMatchesXA(R) ==
  \A k \in DOMAIN R.recs : \E r \in {R.recs[k]} :
     /\ r.xa => R.sp.skip >= 14
     /\ ~IsRootDot(R, r) => R.sp.skip <= r.su_len
     /\ (R.sp.skip = 14 /\ R.has_susp) => r.xa

PXPresent(R) == R.has_susp => \A k \in DOMAIN R.recs : R.recs[k].rr.npx = 1

PXLengthMatchesVersion(R) ==
  \A k \in DOMAIN R.recs : \E r \in {R.recs[k]} :
     r.rr.has_px => r.rr.px_len = (IF R.er.version = "1.12" THEN 44 ELSE 36)

\* RRIP 1.09 "RR": the flags announce exactly the RRIP entries recorded for this record
RRFlagsMatchEntries(R) ==
  \A k \in DOMAIN R.recs : \E r \in {R.recs[k]} :
     /\ r.rr.rr_flags >= 0 => r.rr.rr_flags = r.rr.present
     /\ R.er.version # "1.09" => r.rr.rr_flags = 0 - 1

(*************************** NM / SL ***************************************)
RECURSIVE CatNames(_, _)
CatNames(nms, k) == IF k = 0 THEN "" ELSE CatNames(nms, k - 1) \o nms[k].name

NMWellFormed(R) ==
  R.has_susp =>
  \A k \in DOMAIN R.recs : \E r \in {R.recs[k]} : \E nms \in {Sel(Ents(r), "NM")} :
     IF r.special # ""
     THEN Len(nms) = 0 \/ (Len(nms) = 1 /\ nms[1].nlen = 0 /\
                           nms[1].flags = (IF r.special = "dot" THEN 2 ELSE 4))
     ELSE /\ Len(nms) >= 1
          /\ \A j \in DOMAIN nms : nms[j].flags = (IF j < Len(nms) THEN 1 ELSE 0)
          /\ CatNames(nms, Len(nms)) = r.rr.name
          /\ Len(r.rr.name) > 0

RECURSIVE CatComps(_, _)
CatComps(sls, k) == IF k = 0 THEN <<>> ELSE CatComps(sls, k - 1) \o sls[k].comps

\* RRIP 4.1.3.1: the target from the component records cs[k..]
RECURSIVE Tgt(_, _, _, _)
Tgt(cs, k, cont, afterroot) ==
  IF k > Len(cs) THEN ""
  ELSE LET f == cs[k][1]
           piece == IF Bit(f, 8) THEN "2f" ELSE IF Bit(f, 2) THEN "2e" ELSE IF Bit(f, 4) THEN "2e2e" ELSE cs[k][3]
           sep == IF k > 1 /\ ~cont /\ ~afterroot THEN "2f" ELSE ""
           c2 == Bit(f, 1)
       IN sep \o piece \o Tgt(cs, k + 1, c2, IF c2 THEN afterroot ELSE Bit(f, 8))

SLWellFormed(R) ==
  \A k \in DOMAIN R.recs : \E r \in {R.recs[k]} : \E sls \in {Sel(Ents(r), "SL")} :
     /\ (r.rr.has_px /\ r.special = "") => (KindOf(r.rr.mode) = "symlink" <=> Len(sls) > 0)
     /\ Len(sls) > 0 =>
          \E cs \in {CatComps(sls, Len(sls))} :
            /\ \A j \in DOMAIN sls : sls[j].comps_ok /\ sls[j].flags = (IF j < Len(sls) THEN 1 ELSE 0)
            /\ Len(cs) >= 1
            /\ \A j \in DOMAIN cs : /\ cs[j][1] \in {0, 1, 2, 4, 8}
                                    /\ cs[j][1] \in {2, 4, 8} => cs[j][2] = 0
                                    /\ j > 1 => cs[j][1] # 8
            /\ cs[Len(cs)][1] # 1
            /\ Tgt(cs, 1, FALSE, FALSE) = r.rr.target

(*************************** the logical tree *****************************)
DirNodes(R) == {k \in DOMAIN R.tree : R.tree[k].kind = "dir"}
SubDirs(R, d) == Cardinality({k \in DirNodes(R) : R.tree[k].pdir = d})
PhysSubDirs(R, d) == Cardinality({k \in DOMAIN R.dirs : k > 1 /\ R.dirs[k].parent = d /\ k - 1 # d})

\* POSIX link count of a directory: 2 + number of subdirectories (logical view; the relocation
\* directory itself may count the directories it physically holds)
NlinkOfDirs(R) ==
  R.has_susp =>
  /\ R.dirs[1].dot >= 0 => Rec(R, R.dirs[1].dot).rr.nlink = 2 + SubDirs(R, 0)
  /\ \A k \in DirNodes(R) : \E t \in {R.tree[k]} :
       t.dir >= 0 =>
         \/ t.nlink = 2 + SubDirs(R, t.dir)
         \/ t.reloc /\ t.nlink = 2 + PhysSubDirs(R, t.dir)

\* the entry of a directory in its parent and its "." describe it the same way.  (A CL
\* placeholder is exempt: RRIP 4.1.5.1 tells readers to ignore its other attributes and to
\* use the "." of the relocated directory.  ".." records are not compared: no reader answers
\* a question from them and the statement is silent.)
DirAttrsConsistent(R) ==
  R.has_susp =>
  \A k \in DirNodes(R) : \E t \in {R.tree[k]} :
     /\ t.dir >= 0 => KindOf(t.mode) = "dir"
     /\ (t.dir >= 0 /\ ~t.via_cl) => t.emode = t.mode /\ t.enlink = t.nlink

\* what the reader sees, minus the (logically empty) relocation directory
Seen(item) ==
  LET R == item.rep IN
  {k \in DOMAIN R.tree :
     ~(/\ R.tree[k].path = <<item.want.reloc>> /\ R.tree[k].kind = "dir"
       /\ \A j \in DOMAIN R.tree : Len(R.tree[j].path) >= 2 => R.tree[j].path[1] # item.want.reloc)}

View3(seq, ks) == {[path |-> seq[k].path, kind |-> seq[k].kind, target |-> seq[k].target] : k \in ks}

\* names, kinds and symlink targets are exactly those asked for; modes where given; file
\* link counts are 1 (the harness makes no hard links); no path twice
LogicalTreeMatches(item) ==
  LET R == item.rep IN
  \E seen \in {Seen(item)} :
    /\ View3(R.tree, seen) = View3(item.expect, DOMAIN item.expect)
    /\ Cardinality(View3(R.tree, seen)) = Cardinality(seen)
    /\ \A e \in DOMAIN item.expect : item.expect[e].mode # 0 =>
          \E k \in seen : R.tree[k].path = item.expect[e].path /\ R.tree[k].mode = item.expect[e].mode
    /\ \A k \in seen : R.tree[k].kind # "dir" => R.tree[k].nlink = 1

VersionAsRequested(item) ==
  LET R == item.rep IN
  /\ R.er.version = item.want.version
  /\ \A k \in DOMAIN R.recs : R.recs[k].xa = item.want.xa

\* pycdlib reading its own image back sees what the independent reader sees
ReopenAgrees(item) ==
  item.reopen.done =>
    /\ item.reopen.ok
    /\ View3(item.reopen.view, DOMAIN item.reopen.view) = View3(item.rep.tree, DOMAIN item.rep.tree)

ReportClauses(R) ==
  (IF SuspLengthsAddUp(R) THEN {} ELSE {"SuspLengthsAddUp"}) \cup
  (IF EntryLengthsCanonical(R) THEN {} ELSE {"EntryLengthsCanonical"}) \cup
  (IF CEInsideSector(R) THEN {} ELSE {"CEInsideSector"}) \cup
  (IF CENoOverlap(R) THEN {} ELSE {"CENoOverlap"}) \cup
  (IF CELandsOnArea(R) THEN {} ELSE {"CELandsOnArea"}) \cup
  (IF CEChainWellFormed(R) THEN {} ELSE {"CEChainWellFormed"}) \cup
  (IF CEBothEndianAgree(R) THEN {} ELSE {"CEBothEndianAgree"}) \cup
  (IF RRBothEndianAgree(R) THEN {} ELSE {"RRBothEndianAgree"}) \cup
  (IF CLLandsOnDir(R) THEN {} ELSE {"CLLandsOnDir"}) \cup
  (IF PLLandsOnParent(R) THEN {} ELSE {"PLLandsOnParent"}) \cup
  (IF RELabelsMoved(R) THEN {} ELSE {"RELabelsMoved"}) \cup
  (IF ERPresentOnce(R) THEN {} ELSE {"ERPresentOnce"}) \cup
  (IF SPPresentInRootDot(R) THEN {} ELSE {"SPPresentInRootDot"}) \cup
  (IF SPSkipMatchesXA(R) THEN {} ELSE {"SPSkipMatchesXA"}) \cup
  (IF PXPresent(R) THEN {} ELSE {"PXPresent"}) \cup
  (IF PXLengthMatchesVersion(R) THEN {} ELSE {"PXLengthMatchesVersion"}) \cup
  (IF RRFlagsMatchEntries(R) THEN {} ELSE {"RRFlagsMatchEntries"}) \cup
  (IF NMWellFormed(R) THEN {} ELSE {"NMWellFormed"}) \cup
  (IF SLWellFormed(R) THEN {} ELSE {"SLWellFormed"}) \cup
  (IF NlinkOfDirs(R) THEN {} ELSE {"NlinkOfDirs"}) \cup
  (IF DirAttrsConsistent(R) THEN {} ELSE {"DirAttrsConsistent"}) \cup
  (IF R.errors = <<>> THEN {} ELSE {"DecoderClean"})

SuspFailing(item) ==
  IF ~item.wrote THEN {"ImageProduced"}
  ELSE IF Len(item.rep.dirs) = 0 \/ item.rep.dirs[1].dot # 0 THEN {"DecoderClean"}
  ELSE ReportClauses(item.rep) \cup
       (IF LogicalTreeMatches(item) THEN {} ELSE {"LogicalTreeMatches"}) \cup
       (IF VersionAsRequested(item) THEN {} ELSE {"VersionAsRequested"}) \cup
       (IF ReopenAgrees(item) THEN {} ELSE {"ReopenAgrees"})
=============================================================================
