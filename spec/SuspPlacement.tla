---------------------------- MODULE SuspPlacement ----------------------------
(***************************************************************************)
(* Transcription of the CASE ANALYSIS by which pycdlib decides where the   *)
(* SUSP/RRIP entries of one directory record go: in the record itself (at  *)
(* most 254 bytes) or in the continuation area announced by a CE entry,    *)
(* and where NM and SL split.  It exists ONLY so that TLC can enumerate the *)
(* case space and choose boundary witnesses (lengths just below / at /     *)
(* above every change of placement); it is never used as an oracle for the *)
(* bytes of an image (those are judged by Susp.tla on the report of the    *)
(* independent reader).  The harness additionally counts how often the     *)
(* placement observed in the image equals the one computed here            *)
(* (evidence that the case space enumerated is the real one).              *)
(*                                                                         *)
(* Inputs: version in {"1.09","1.10","1.12"}, xa, kind, length of the      *)
(* ISO9660 identifier, length of the Rock Ridge name, and the symlink      *)
(* target as a sequence of components:  n >= 0 an ordinary component of n  *)
(* bytes, -1 ROOT (first position only), -2 ".", -3 "..".                  *)
(* Kinds: file, dir, symlink, dot, dotdot, rootdot (first record of the    *)
(* root: SP and ER), cl (placeholder of a relocated directory), moved (the *)
(* relocated directory under rr_moved: RE), pldotdot (its "..": PL).       *)
(***************************************************************************)
EXTENDS Naturals, Integers, Sequences, FiniteSets, TLC

Allowed == 254            \* usable bytes of a directory record
CELen == 28
SPLen == 7
RRLen == 5
TFLen == 26               \* three 7-byte stamps
CLLen == 12
PLLen == 12
RELen == 4
SLHeader == 5
SLArea == 250             \* component bytes of one SL entry
NMMax == 250              \* name bytes of one NM entry in a continuation area
PXLen(ver) == IF ver = "1.12" THEN 44 ELSE 36
ERLen(ver) == IF ver = "1.12" THEN 183 ELSE 237

Min(a, b) == IF a < b THEN a ELSE b
Max(a, b) == IF a > b THEN a ELSE b

Start(lenfi, xa) == LET b == 33 + lenfi + (IF xa THEN 14 ELSE 0) IN b + (b % 2)

\* placement state: entries are <<sig, len>>
St0(cur) == [ok |-> TRUE, cur |-> cur, dr |-> <<>>, ce |-> <<>>, heads |-> {}]

Fixed(st, sig, len, hasce) ==
  IF ~st.ok THEN st
  ELSE IF st.cur + len > Allowed
       THEN IF hasce THEN [st EXCEPT !.ce = Append(@, <<sig, len>>)] ELSE [st EXCEPT !.ok = FALSE]
       ELSE [st EXCEPT !.cur = @ + len, !.dr = Append(@, <<sig, len>>)]

RECURSIVE NMChunks(_)
NMChunks(n) == IF n <= 0 THEN <<>> ELSE << <<"NM", 5 + Min(n, NMMax)>> >> \o NMChunks(n - NMMax)

\* the name: as much as fits in the record (if anything fits), the rest in 250-byte pieces
AddName(st, n, hasce) ==
  IF ~st.ok \/ n = 0 THEN st
  ELSE LET raw == Allowed - st.cur - 5 IN
       IF raw < n /\ ~hasce THEN [st EXCEPT !.ok = FALSE]
       ELSE LET here == IF raw < n THEN Max(raw, 0) ELSE raw
                indr == Min(here, n)
                st1  == IF here > 0
                        THEN [st EXCEPT !.cur = @ + 5 + indr, !.dr = Append(@, <<"NM", 5 + indr>>)]
                        ELSE st
            IN [st1 EXCEPT !.ce = @ \o NMChunks(n - here)]

CompLen(c) == 2 + (IF c > 0 THEN c ELSE 0)
RECURSIVE SLTotal(_, _)
SLTotal(comps, k) == IF k = 0 THEN SLHeader ELSE CompLen(comps[k]) + SLTotal(comps, k - 1)

\* s = [cur, area, indr, recs] where recs is a sequence of [w, len, n, cc]:
\* where ("dr"/"ce"), entry length, number of component records, last component continued
AddComp(s, bytes) ==
  LET k == Len(s.recs) IN
  [s EXCEPT !.recs[k].len = @ + bytes, !.recs[k].n = @ + 1,
            !.cur = IF s.indr THEN @ + bytes ELSE @]

RECURSIVE SLStep(_, _, _, _)
SLStep(s, comps, k, off) ==
  IF k > Len(comps) THEN s
  ELSE LET c == comps[k]
           special == c < 0
           minimum == IF special THEN 2 ELSE 3
           s1 == IF minimum > s.area
                 THEN [s EXCEPT !.recs = Append([s.recs EXCEPT ![Len(s.recs)].cc = (off # 0)],
                                                [w |-> "ce", len |-> SLHeader, n |-> 0, cc |-> FALSE]),
                                !.area = SLArea, !.indr = FALSE]
                 ELSE s
       IN IF special
          THEN SLStep([AddComp(s1, 2) EXCEPT !.area = s1.area - 2], comps, k + 1, 0)
          ELSE LET rem == c - off
                   complen == 2 + rem
                   length == IF complen > s1.area THEN s1.area - 2 ELSE complen
                   bytes == Min(length, rem)
                   s2 == [AddComp(s1, 2 + bytes) EXCEPT !.area = s1.area - length - 2,
                             !.heads = IF off + length < c THEN @ \cup {Min(bytes, 3)} ELSE @]
               IN IF off + length >= c THEN SLStep(s2, comps, k + 1, 0)
                  ELSE SLStep(s2, comps, k, off + length)

AddSymlink(st, comps, hasce) ==
  IF ~st.ok \/ Len(comps) = 0 THEN st
  ELSE IF st.cur + SLTotal(comps, Len(comps)) > Allowed /\ ~hasce THEN [st EXCEPT !.ok = FALSE]
  ELSE LET first == IF st.cur + 8 < Allowed
                    THEN [cur |-> st.cur + SLHeader, area |-> Allowed - st.cur - SLHeader, indr |-> TRUE,
                          heads |-> {}, recs |-> << [w |-> "dr", len |-> SLHeader, n |-> 0, cc |-> FALSE] >>]
                    ELSE [cur |-> st.cur, area |-> SLArea, indr |-> FALSE,
                          heads |-> {}, recs |-> << [w |-> "ce", len |-> SLHeader, n |-> 0, cc |-> FALSE] >>]
           fin == SLStep(first, comps, 1, 0)
           drs == SelectSeq(fin.recs, LAMBDA r : r.w = "dr")
           ces == SelectSeq(fin.recs, LAMBDA r : r.w = "ce")
       IN [st EXCEPT !.cur = fin.cur, !.heads = fin.heads,
                     !.dr = @ \o [j \in 1 .. Len(drs) |-> <<"SL", drs[j].len>>],
                     !.ce = @ \o [j \in 1 .. Len(ces) |-> <<"SL", ces[j].len>>]]

\* one pass over the fixed order SP RR NM PX SL TF CL RE PL ER
Assign(ver, kind, cur, nm, comps, hasce) ==
  LET s0 == St0(cur)
      s1 == IF kind = "rootdot" THEN Fixed(s0, "SP", SPLen, hasce) ELSE s0
      s2 == IF ver = "1.09" THEN Fixed(s1, "RR", RRLen, hasce) ELSE s1
      s3 == IF kind \in {"dot", "dotdot", "rootdot", "pldotdot"} THEN s2 ELSE AddName(s2, nm, hasce)
      s4 == Fixed(s3, "PX", PXLen(ver), hasce)
      s5 == IF kind = "symlink" THEN AddSymlink(s4, comps, hasce) ELSE s4
      s6 == Fixed(s5, "TF", TFLen, hasce)
      s7 == IF kind = "cl" THEN Fixed(s6, "CL", CLLen, hasce) ELSE s6
      s8 == IF kind = "moved" THEN Fixed(s7, "RE", RELen, hasce) ELSE s7
      s9 == IF kind = "pldotdot" THEN Fixed(s8, "PL", PLLen, hasce) ELSE s8
  IN IF kind = "rootdot" THEN Fixed(s9, "ER", ERLen(ver), hasce) ELSE s9

RECURSIVE SumLens(_, _)
SumLens(es, k) == IF k = 0 THEN 0 ELSE es[k][2] + SumLens(es, k - 1)

\* (operator arguments are evaluated once, LET definitions on every use: hence the helpers)
Packed(p, needce) ==
  [ok |-> p.ok /\ p.cur <= Allowed, needce |-> needce, reclen |-> p.cur + (p.cur % 2),
   dr |-> IF needce THEN Append(p.dr, <<"CE", CELen>>) ELSE p.dr,
   ce |-> p.ce, celen |-> SumLens(p.ce, Len(p.ce)), heads |-> p.heads]

Retry(p1, ver, kind, cur, nm, comps) ==
  IF p1.ok THEN Packed(p1, FALSE) ELSE Packed(Assign(ver, kind, cur + CELen, nm, comps, TRUE), TRUE)

\* first without a CE entry; if something does not fit, again with one
Place(ver, xa, kind, lenfi, nm, comps) ==
  Retry(Assign(ver, kind, Start(lenfi, xa), nm, comps, FALSE), ver, kind, Start(lenfi, xa), nm, comps)

Sigs(es) == [j \in 1 .. Len(es) |-> es[j][1]]

\* what distinguishes two placements as CASES (lengths abstracted away)
Class(pl) == [ok |-> pl.ok, needce |-> pl.needce, dr |-> Sigs(pl.dr), ce |-> Sigs(pl.ce), heads |-> pl.heads]
=============================================================================
