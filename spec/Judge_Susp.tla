------------------------------ MODULE Judge_Susp ------------------------------
(* Observation judge of C08: every item of OBS_FILE is one image report of          *)
(* harness/decoders/susp.py plus what the harness asked pycdlib to build.           *)
EXTENDS Susp
VARIABLE i
INSTANCE JudgeLoop WITH Failing <- SuspFailing
=============================================================================
