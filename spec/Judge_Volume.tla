---------------------------- MODULE Judge_Volume ----------------------------
(* Observation judge for the ECMA-119 / Joliet clauses of Volume.tla: every item of OBS_FILE is *)
(* one image report of harness/decoders/iso9660.py (plus "id", optionally "expect").           *)
EXTENDS Volume
VARIABLE i
INSTANCE JudgeLoop WITH Failing <- VolumeFailing
=============================================================================
