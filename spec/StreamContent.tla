--------------------------- MODULE StreamContent ---------------------------
(***************************************************************************)
(* C16 - the content of a boot file that carries an El Torito boot info    *)
(* table, as every reader has to return it (Stream.tla, "TableFiles"):     *)
(* the bytes the file was added with, the 56-byte table laid over bytes    *)
(* 8..63, cut at the end of the file.  Byte strings are sequences of byte  *)
(* values (1-based: byte offset k is element k+1).                         *)
(***************************************************************************)
EXTENDS Naturals, Sequences

TableOffset == 8
TableLength == 56

Overlaid(orig, table) ==
    [i \in 1..Len(orig) |-> IF i > TableOffset /\ i <= TableOffset + TableLength
                            THEN table[i - TableOffset] ELSE orig[i]]
=============================================================================
