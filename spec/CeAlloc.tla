------------------------------ MODULE CeAlloc ------------------------------
(***************************************************************************)
(* Reference allocator for Rock Ridge continuation areas (SUSP 5.1: the    *)
(* continuation area of a record is LEN_CONT bytes at OFFSET in block      *)
(* BLOCK; areas of different records must not overlap and must stay inside *)
(* their block).  pycdlib packs the areas of many records first-fit into   *)
(* shared blocks and releases them on removal.                             *)
(*                                                                         *)
(* Like DirPack this is not an oracle for offsets.  TLC checks that the    *)
(* reference allocation never overlaps, and enumerates add/remove          *)
(* histories over three area sizes (c, c+1, c+2) printing those in which   *)
(* an area is placed into a hole it fits exactly, or skips a hole that is  *)
(* one byte too small - the boundary cases of a first-fit allocator.  The  *)
(* harness realises them with Rock Ridge names whose lengths differ by one *)
(* byte and judges the images with the ordinary clauses.                   *)
(***************************************************************************)
EXTENDS Naturals, Sequences, FiniteSets, TLC, Json

CONSTANTS Base,      \* size of the smallest area
          Block,     \* block size (2048)
          MaxLive,   \* live areas
          MaxOps     \* history length

Sizes == {Base, Base + 1, Base + 2}

VARIABLES areas,   \* set of [id, off, len] in the (single) block under study; others overflow
          next,    \* next id
          h,       \* history: <<"add", id, len>> | <<"rm", id>>
          mark     \* "exact" | "near" | "none": what the last add met

vars == <<areas, next, h, mark>>

End(a) == a.off + a.len
Sorted == LET n == Cardinality(areas) IN
          CHOOSE s \in [1..n -> areas] : \A i \in 1..n, j \in 1..n : i < j => s[i].off < s[j].off
\* holes of the block: [start, size]
Holes ==
    LET n == Cardinality(areas)
        s == Sorted
        between == {[start |-> End(s[i]), size |-> s[i + 1].off - End(s[i])] : i \in 1..(n - 1)}
        first == IF n = 0 THEN {[start |-> 0, size |-> Block]}
                 ELSE {[start |-> 0, size |-> s[1].off]}
        last == IF n = 0 THEN {} ELSE {[start |-> End(s[n]), size |-> Block - End(s[n])]}
    IN {x \in between \cup first \cup last : x.size > 0}
\* first fit
Fit(len) == {x \in Holes : x.size >= len}
FirstFit(len) == CHOOSE x \in Fit(len) : \A y \in Fit(len) : x.start <= y.start

Init == areas = {} /\ next = 1 /\ h = <<>> /\ mark = "none"

Add(len) ==
    /\ Cardinality(areas) < MaxLive /\ Len(h) < MaxOps
    /\ Fit(len) # {}
    /\ LET f == FirstFit(len) IN
       /\ areas' = areas \cup {[id |-> next, off |-> f.start, len |-> len]}
       /\ mark' = IF f.size = len /\ f.start + f.size < Block /\ Cardinality(areas) >= 2 THEN "exact"
                  ELSE IF \E x \in Holes : x.size = len - 1 /\ x.start < f.start THEN "near"
                  ELSE "none"
    /\ next' = next + 1
    /\ h' = Append(h, <<"add", next, len>>)
Remove(a) ==
    /\ Len(h) < MaxOps
    /\ areas' = areas \ {a}
    /\ h' = Append(h, <<"rm", a.id>>)
    /\ mark' = "none"
    /\ UNCHANGED next

Next == (\E len \in Sizes : Add(len)) \/ (\E a \in areas : Remove(a))
Spec == Init /\ [][Next]_vars

\* the reference allocation never overlaps and never leaves the block
NoOverlap == \A a \in areas : \A b \in areas : a # b => (End(a) <= b.off \/ End(b) <= a.off)
InBlock == \A a \in areas : End(a) <= Block

Witness == mark \in {"exact", "near"} => PrintT(<<"WIT", ToJson([kind |-> mark, h |-> h])>>)
View == <<areas, mark>>
=============================================================================
