------------------------------ MODULE Judge_C11 ------------------------------
(* C11 (El Torito) judge: TLC evaluates Boot!C11Failing on every observation. *)
EXTENDS Boot
VARIABLE i
INSTANCE JudgeLoop WITH Failing <- C11Failing
=============================================================================
