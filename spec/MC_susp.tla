------------------------------- MODULE MC_susp -------------------------------
(***************************************************************************)
(* Enumerates the placement case space of SuspPlacement and prints boundary *)
(* witnesses for the harness (check_C08.py):                                *)
(*     <<"WIT", ToJson([ver, xa, kind, lenfi, nm, fam, n, comps, why, ...])>> *)
(* A behaviour fixes (version, XA, kind, ISO identifier length, family) and *)
(* sweeps one length upwards: the Rock Ridge name length, or the parameter  *)
(* of a symlink target family.  A witness is printed for the first and last *)
(* value, on both sides of every change of placement class, for every name  *)
(* length up to 255 of a plain file, and for the named lengths.             *)
(***************************************************************************)
EXTENDS SuspPlacement, Json

Versions == {"1.09", "1.10", "1.12"}
NamedLengths == {256, 500, 1000, 1200}
CONSTANTS MaxNameDense,   \* name lengths swept for the reference identifier length of a kind
          MaxNameOther    \* ... and for the other identifier lengths

Pat == <<1, 0 - 2, 0 - 3, 0, 254, 255, 256>>

\* symlink target families: components as a function of the swept parameter n
Comps(fam, n) ==
  CASE fam = "one"     -> <<n>>
    [] fam = "absone"  -> <<0 - 1, n>>
    [] fam = "ones"    -> [j \in 1 .. n |-> 1]
    [] fam = "big255"  -> [j \in 1 .. n |-> 255]
    [] fam = "dots"    -> [j \in 1 .. n |-> IF j % 2 = 1 THEN 0 - 3 ELSE 0 - 2]
    [] fam = "updirs"  -> [j \in 1 .. n |-> 0 - 3] \o <<8>>
    [] fam = "empties" -> <<1>> \o [j \in 1 .. n |-> 0] \o <<1>>
    [] fam = "mixed"   -> <<0 - 1>> \o [j \in 1 .. n |-> Pat[((j - 1) % 7) + 1]]
    [] fam = "slash"   -> <<0 - 1, 0>>
    [] fam = "tail"    -> <<n, 0>>
    [] OTHER           -> <<>>

FamMax(fam) ==
  CASE fam \in {"one", "absone", "tail"} -> 600
    [] fam \in {"ones", "dots", "updirs", "empties"} -> 130
    [] fam = "big255" -> 8
    [] fam = "mixed" -> 40
    [] OTHER -> 1

Families == {"one", "absone", "ones", "big255", "dots", "updirs", "empties", "mixed", "slash", "tail"}

\* fixed targets used while the NAME length of a symlink is swept
FixedTargets == {<<"one", 10>>, <<"one", 300>>, <<"updirs", 3>>, <<"mixed", 10>>, <<"absone", 100>>, <<"dots", 5>>}

FileLenFi == {6, 7, 13, 33, 100, 179, 180, 192, 193}
DirLenFi  == {1, 2, 8, 31, 100, 179, 180, 192, 193}
DenseLenFi == 7
DenseLen(k) == IF k = "file" THEN 7 ELSE 8
NameKinds == {"file", "dir", "cl", "moved"}
FixedKinds == {"dot", "dotdot", "rootdot", "pldotdot"}

VARIABLES ver, xa, kind, lenfi, nm, fam, n, sweep
vars == <<ver, xa, kind, lenfi, nm, fam, n, sweep>>

P(k, l, m, f, x) == Place(ver, xa, k, l, m, IF k = "symlink" THEN Comps(f, x) ELSE <<>>)

Wit(why, pl) ==
  PrintT(<<"WIT", ToJson([ver |-> ver', xa |-> xa', kind |-> kind', lenfi |-> lenfi', nm |-> nm',
                          fam |-> fam', n |-> n', sweep |-> sweep', why |-> why,
                          comps |-> IF kind' = "symlink" THEN Comps(fam', n') ELSE <<>>,
                          ok |-> pl.ok, needce |-> pl.needce, reclen |-> pl.reclen, celen |-> pl.celen,
                          dr |-> pl.dr, ce |-> pl.ce, heads |-> pl.heads])>>)

Last == IF sweep = "nm" THEN (IF kind = "symlink" THEN 215
                                ELSE IF lenfi = DenseLen(kind) THEN MaxNameDense ELSE MaxNameOther)
        ELSE IF sweep = "n" THEN FamMax(fam) ELSE 1

Cur == IF sweep = "nm" THEN nm ELSE n

Init ==
  /\ ver \in Versions /\ xa \in BOOLEAN
  /\ \/ /\ kind \in NameKinds /\ sweep = "nm" /\ fam = "-" /\ n = 0 /\ nm = 1
        /\ lenfi \in (IF kind = "file" THEN FileLenFi ELSE DirLenFi)
     \/ /\ kind \in FixedKinds /\ sweep = "-" /\ fam = "-" /\ n = 0 /\ nm = 0 /\ lenfi = 1
     \/ /\ kind = "symlink" /\ sweep = "n" /\ fam \in Families /\ n = 1 /\ nm \in {3, 150}
        /\ lenfi \in {6, 33}
     \/ /\ kind = "symlink" /\ sweep = "nm" /\ nm = 1 /\ lenfi \in {7, 33}
        /\ \E t \in FixedTargets : fam = t[1] /\ n = t[2]

\* the initial state is a witness too; TLC evaluates this when it generates the successors of
\* an initial state (Cur = first value of the sweep), so every behaviour reports its first value
Step ==
  /\ sweep \in {"nm", "n"}
  /\ Cur < Last
  /\ nm' = (IF sweep = "nm" THEN nm + 1 ELSE nm)
  /\ n' = (IF sweep = "n" THEN n + 1 ELSE n)
  /\ UNCHANGED <<ver, xa, kind, lenfi, fam, sweep>>
  /\ \E a \in {P(kind, lenfi, nm, fam, n)} : \E b \in {P(kind, lenfi, nm', fam, n')} :
       \E changed \in {Class(a) # Class(b)} :
         /\ (changed \/ Cur = 1) =>
               PrintT(<<"WIT", ToJson([ver |-> ver, xa |-> xa, kind |-> kind, lenfi |-> lenfi, nm |-> nm,
                          fam |-> fam, n |-> n, sweep |-> sweep, why |-> IF changed THEN "below" ELSE "first",
                          comps |-> IF kind = "symlink" THEN Comps(fam, n) ELSE <<>>,
                          ok |-> a.ok, needce |-> a.needce, reclen |-> a.reclen, celen |-> a.celen,
                          dr |-> a.dr, ce |-> a.ce, heads |-> a.heads])>>)
         /\ IF changed THEN Wit("above", b)
            ELSE IF Cur + 1 = Last THEN Wit("last", b)
            ELSE IF sweep = "nm" /\ kind = "file" /\ lenfi = DenseLenFi /\ nm' <= 255 THEN Wit("dense", b)
            ELSE IF sweep = "nm" /\ kind # "symlink" /\ nm' \in NamedLengths THEN Wit("named", b)
            ELSE TRUE

\* kinds without a length to sweep: one witness each
Single ==
  /\ Last = 1 /\ Cur < 2 /\ sweep # "done"
  /\ sweep' = "done"
  /\ UNCHANGED <<ver, xa, kind, lenfi, nm, fam, n>>
  /\ Wit("single", P(kind, lenfi, nm, fam, n))

Next == Step \/ Single
Spec == Init /\ [][Next]_vars
=============================================================================
