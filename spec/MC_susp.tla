------------------------------- MODULE MC_susp -------------------------------
(***************************************************************************)
(* Enumerates the placement case space of SuspPlacement and prints boundary *)
(* witnesses for the harness (check_C08.py):                                *)
(*     <<"WIT", ToJson([ver, xa, kind, lenfi, nm, fam, n, comps, why, ...])>> *)
(* A behaviour fixes (version, XA, kind, ISO identifier length, family) and *)
(* sweeps one length upwards: the Rock Ridge name length, or the parameter  *)
(* of a symlink target family.  A witness is printed for the first and last *)
(* value, on both sides of every change of placement class, for every name  *)
(* length up to 255 of a plain file, and for the named lengths.             *)
(***************************************************************************)
EXTENDS SuspPlacement, Json

CONSTANTS MaxNameDense,   \* name lengths swept for the reference identifier length of a kind
          MaxNameOther,   \* ... and for the other identifier lengths
          FileLenFi,      \* ISO9660 identifier lengths of files ("NAME.;1")
          DirLenFi,       \* ... of directories
          RelocLenFi,     \* ... of relocated directories (interchange level < 4 only)
          SymLenFi,       \* ... of symlinks
          SymNames,       \* Rock Ridge name lengths of symlinks while the target is swept
          OneMax          \* largest single component

Versions == {"1.09", "1.10", "1.12"}
NamedLengths == {256, 500, 1000, 1200}

Pat == <<1, 0 - 2, 0 - 3, 0, 254, 255, 256>>

\* symlink target families: components as a function of the swept parameter n
Comps(f, x) ==
  CASE f = "one"     -> <<x>>
    [] f = "absone"  -> <<0 - 1, x>>
    [] f = "ones"    -> [j \in 1 .. x |-> 1]
    [] f = "big255"  -> [j \in 1 .. x |-> 255]
    [] f = "dots"    -> [j \in 1 .. x |-> IF j % 2 = 1 THEN 0 - 3 ELSE 0 - 2]
    [] f = "updirs"  -> [j \in 1 .. x |-> 0 - 3] \o <<8>>
    [] f = "empties" -> <<1>> \o [j \in 1 .. x |-> 0] \o <<1>>
    [] f = "mixed"   -> <<0 - 1>> \o [j \in 1 .. x |-> Pat[((j - 1) % 7) + 1]]
    [] f = "slash"   -> <<0 - 1, 0>>
    [] f = "tail"    -> <<x, 0>>
    [] OTHER         -> <<>>

FamMax(f) ==
  CASE f \in {"one", "absone", "tail"} -> OneMax
    [] f \in {"ones", "dots", "updirs", "empties"} -> 130
    [] f = "big255" -> 8
    [] f = "mixed" -> 40
    [] OTHER -> 1

Families == {"one", "absone", "ones", "big255", "dots", "updirs", "empties", "mixed", "slash", "tail"}

\* fixed targets used while the NAME length of a symlink is swept
FixedTargets == {<<"one", 1>>, <<"one", 2>>, <<"one", 10>>, <<"one", 300>>, <<"updirs", 3>>, <<"mixed", 10>>,
                 <<"absone", 100>>, <<"dots", 1>>, <<"dots", 5>>, <<"slash", 1>>, <<"ones", 12>>}

DenseLen(k) == IF k = "file" THEN 7 ELSE 8
NameKinds == {"file", "dir", "cl", "moved"}
FixedKinds == {"dot", "dotdot", "rootdot", "pldotdot"}

VARIABLES ver, xa, kind, lenfi, nm, fam, n, sweep, pl
vars == <<ver, xa, kind, lenfi, nm, fam, n, sweep, pl>>

P(v, x, k, l, m, f, y) == Place(v, x, k, l, m, IF k = "symlink" THEN Comps(f, y) ELSE <<>>)

Wit(why, m, y, p) ==
  PrintT(<<"WIT", ToJson([ver |-> ver, xa |-> xa, kind |-> kind, lenfi |-> lenfi, nm |-> m,
                          fam |-> fam, n |-> y, sweep |-> sweep, why |-> why,
                          comps |-> IF kind = "symlink" THEN Comps(fam, y) ELSE <<>>,
                          ok |-> p.ok, needce |-> p.needce, reclen |-> p.reclen, celen |-> p.celen,
                          dr |-> p.dr, ce |-> p.ce, heads |-> p.heads])>>)

Last == IF sweep = "nm" THEN (IF kind = "symlink" THEN 215
                                ELSE IF lenfi = DenseLen(kind) THEN MaxNameDense ELSE MaxNameOther)
        ELSE IF sweep = "n" THEN FamMax(fam) ELSE 1

Cur == IF sweep = "nm" THEN nm ELSE n

Init ==
  /\ ver \in Versions /\ xa \in BOOLEAN
  /\ \/ /\ kind \in NameKinds /\ sweep = "nm" /\ fam = "-" /\ n = 0 /\ nm = 1
        /\ lenfi \in (IF kind = "file" THEN FileLenFi ELSE IF kind = "dir" THEN DirLenFi ELSE RelocLenFi)
     \/ /\ kind \in FixedKinds /\ sweep = "-" /\ fam = "-" /\ n = 0 /\ nm = 0 /\ lenfi = 1
     \/ /\ kind = "symlink" /\ sweep = "n" /\ fam \in Families /\ n = 1 /\ nm \in SymNames
        /\ lenfi \in SymLenFi
     \/ /\ kind = "symlink" /\ sweep = "nm" /\ nm = 1 /\ lenfi \in SymLenFi
        /\ \E t \in FixedTargets : fam = t[1] /\ n = t[2]
  /\ pl = P(ver, xa, kind, lenfi, nm, fam, n)

Step ==
  /\ sweep \in {"nm", "n"}
  /\ Cur < Last
  /\ nm' = (IF sweep = "nm" THEN nm + 1 ELSE nm)
  /\ n' = (IF sweep = "n" THEN n + 1 ELSE n)
  /\ UNCHANGED <<ver, xa, kind, lenfi, fam, sweep>>
  /\ pl' = P(ver, xa, kind, lenfi, nm', fam, n')
  /\ \E changed \in {Class(pl) # Class(pl')} :
       /\ (changed \/ Cur = 1) => Wit(IF changed THEN "below" ELSE "first", nm, n, pl)
       /\ IF changed THEN Wit("above", nm', n', pl')
          ELSE IF Cur + 1 = Last THEN Wit("last", nm', n', pl')
          ELSE IF sweep = "nm" /\ kind = "file" /\ lenfi = DenseLen(kind) /\ nm' <= 255 THEN Wit("dense", nm', n', pl')
          ELSE IF sweep = "nm" /\ kind # "symlink" /\ nm' \in NamedLengths THEN Wit("named", nm', n', pl')
          ELSE TRUE

\* cases without a length to sweep: one witness each
Single ==
  /\ Last = 1 /\ Cur < 2 /\ sweep # "done"
  /\ sweep' = "done"
  /\ UNCHANGED <<ver, xa, kind, lenfi, nm, fam, n, pl>>
  /\ Wit("single", nm, n, pl)

Next == Step \/ Single
Spec == Init /\ [][Next]_vars
=============================================================================
