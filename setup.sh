#!/bin/sh
# Offline setup: parse every specification with SANY, byte-compile the harness.
set -e
cd "$(dirname "$0")"
/venv/bin/python -m compileall -q harness >/dev/null
for f in spec/*.tla; do
  case "$f" in spec/Trace_Model.tla|spec/MC_core.tla|spec/Hostile.tla|spec/Judge_Hostile.tla|spec/Trace_Stream.tla) continue;; esac   # need per-run generated table modules
  out=$(cd spec && tla-sany "$(basename "$f")" 2>&1) || { echo "$out"; exit 1; }
  echo "$out" | grep -q "Semantic errors\|Parse Error\|Fatal" && { echo "$out"; exit 1; }
done
mkdir -p evidence
echo "setup ok"
