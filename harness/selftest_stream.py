"""Sensitivity of the C16 machinery (run: PYTHONPATH=/verif/harness:/repo /venv/bin/python selftest_stream.py).

1. the model's invariants are not vacuous: the wrong variant of Stream (Reseek = FALSE: reads
   happen wherever the shared position is) is refuted by TLC;
2. an accepted recorded trace is rejected by Trace_Stream, with the right clause, as soon as ONE
   logged result is corrupted;
3. what the re-synchronisation buys: one stale tell() gives one DIAG with it, one per later
   step without it;
4. boot files with a boot info table (shape b4, 20 bytes): an accepted trace on the reopened image;
   Trace_Stream names an extraction that returns the whole 56-byte table (64 bytes) NeverBeyondEnd,
   a reader that returns the bytes the file was added with "no-boot-info-table", equal bytes at
   another position are the same result (alts); Judge_StreamContent rejects a content that is not
   the overlay / not what the image holds.
"""
import det
det.install()

import copy
import shutil
import sys
import tempfile

import check_C16 as C
import judge

LENS = {'z': 0, 'm': 3}


def A(a, **kw):
    return {'a': dict(kw, a=a)}


# avoids the two known defects: no readinto, nothing between a stream's positioning and its reads
GOOD = [A('Extract', file='m', bs='7'), A('Open', sid=1, file='m'), A('Read', sid=1, n=1), A('Tell', sid=1),
        A('Seek', sid=1, off=-1, wh=2), A('ReadAll', sid=1), A('Seek', sid=1, off=1, wh=2), A('Read', sid=1, n=2),
        A('Seek', sid=1, off=-1, wh=0), A('List'), A('Close', sid=1), A('Read', sid=1, n=1)]


def clauses(res):
    return sorted({(d['step'], f['clause']) for d in res['diag'] for f in d['fails']})


def main():
    ok = True

    def expect(name, cond, got):
        nonlocal ok
        print('%s %s %s' % ('PASS' if cond else 'FAIL', name, got))
        ok = ok and cond

    # 1. model level
    (_h, _l, st) = C.mc_run('zm', reseek=False, need_ok=False)
    expect('wrong model variant refuted by TLC', any('Invariant' in e for e in st['errors']), st['errors'][:1])

    scratch = tempfile.mkdtemp(prefix='verif-c16-self-')
    try:
        fx = C.Fixture('image', 'sector+1', LENS, scratch)
        ev = C.replay(fx, GOOD)
    finally:
        shutil.rmtree(scratch, ignore_errors=True)
    base = C.validate_traces([{'id': 'good', 'ev': ev}], LENS)
    expect('uncorrupted trace accepted', clauses(base) == [], clauses(base))

    # 2. one corrupted result each (step numbers are 1-based)
    def mutate(step, fn):
        e2 = copy.deepcopy(ev)
        fn(e2[step - 1]['r'])
        return e2

    def bump_tell(r):
        r['tells'][0]['u'] += 1
    muts = [
        ('tell value +1', 4, lambda r: r.update(ret=r['ret'] + 1), (4, 'TellAgrees')),
        ('post-call tell +1', 3, bump_tell, (3, 'TellAgrees')),
        ('returned length -1 unit', 3, lambda r: r.update(lenu=r['lenu'] - 1), (3, 'ReadReturnsRequestedSlice')),
        ('returned bytes from elsewhere', 6, lambda r: r.update(start=r['start'] - 1), (6, 'ReadReturnsRequestedSlice')),
        ('bytes at end of file where none are left', 8, lambda r: r.update(lenu=1, start=2), (8, 'NeverBeyondEnd')),
        ('seek result', 5, lambda r: r.update(ret=r['ret'] + 1), (5, 'SeekSemantics')),
        ('negative seek accepted', 9, lambda r: r.update(out='ok', exc='', ret=3), (9, 'SeekSemantics')),
        ('extraction one unit short', 1, lambda r: r.update(lenu=2), (1, 'ExtractExact')),
        ('extraction with bytes beyond the end', 1, lambda r: r.update(lenu=3, lenr=5, matches=False),
         (1, 'NeverBeyondEnd')),
        ('read on closed stream accepted', 12, lambda r: r.update(out='ok', exc=''), (12, 'ClosedRefused')),
        ('undocumented exception', 10, lambda r: r.update(out='exc', exc='KeyError'), (10, 'UndocumentedException')),
    ]
    traces = [{'id': 'm%d' % i, 'ev': mutate(step, fn)} for (i, (_n, step, fn, _w)) in enumerate(muts)]
    res = C.validate_traces(traces, LENS)
    for (i, (name, _step, _fn, want)) in enumerate(muts):
        got = sorted({(d['step'], f['clause']) for d in res['diag'] if d['tid'] == 'm%d' % i for f in d['fails']})
        expect('corrupted: ' + name, want in got, got)

    # 3. re-synchronisation: the offset reported after step 3 stays one unit behind from then on
    e3 = copy.deepcopy(ev[:4]) + [copy.deepcopy(ev[3]) for _ in range(3)]
    for e in e3[2:]:
        e['r']['tells'][0]['u'] -= 1
        if e['a']['a'] == 'Tell':
            e['r']['ret'] -= 1
    with_rs = C.validate_traces([{'id': 'r', 'ev': e3}], LENS, resync=True)
    without = C.validate_traces([{'id': 'r', 'ev': e3}], LENS, resync=False)
    expect('with re-sync: only the step that went wrong', sorted({s for (s, _c) in clauses(with_rs)}) == [3],
           clauses(with_rs))
    expect('without re-sync: every later step', sorted({s for (s, _c) in clauses(without)}) == [3, 4, 5, 6, 7],
           clauses(without))
    # 4. boot file with a boot info table: b = 4 units of 5 bytes
    blens = {'b': 4, 's': 1}
    bgood = [A('Extract', file='b', bs='7'), A('Open', sid=1, file='b'), A('Read', sid=1, n=2), A('Read', sid=1, n=1),
             A('Seek', sid=1, off=1, wh=0), A('ReadInto', sid=1, k=5), A('Extract', file='s', bs='1'),
             A('Seek', sid=1, off=0, wh=0), A('ReadAll', sid=1), A('Close', sid=1)]
    scratch = tempfile.mkdtemp(prefix='verif-c16-self-')
    try:
        fx = C.Fixture('image', 'b5', blens, scratch, ['b'])
        bev = C.replay(fx, bgood)
        raw = C.replay(C.Fixture('added_laid', 'b5', blens, scratch, ['b']), bgood)
    finally:
        shutil.rmtree(scratch, ignore_errors=True)
    bres = C.validate_traces([{'id': 'b', 'ev': bev}], blens, tablefiles=['b'])
    expect('boot info table, reopened image: trace accepted', clauses(bres) == [], clauses(bres))

    def bmut(step, fn):
        e2 = copy.deepcopy(bev)
        fn(e2[step - 1]['r'])
        return e2
    # what the seeded change C16-m3 does: 8 bytes + the whole table = 64 bytes for a 20-byte file
    def whole_table(r):
        r.update(matches=False, lenu=12, lenr=4, phit=True, pstart=0, pmatch=4)
    # a reader without the table: the bytes are those the file was added with, at the same place
    def no_table(r):
        r.update(matches=False, omatches=True, ostart=r['start'])
    bm = [('extraction returns the whole table', 1, whole_table, (1, 'NeverBeyondEnd', 'none')),
          ('extraction without the table', 1, no_table, (1, 'ExtractExact', 'no-boot-info-table')),
          ('stream read without the table', 3, no_table, (3, 'ReadReturnsRequestedSlice', 'no-boot-info-table')),
          ('stream read from elsewhere', 4, lambda r: r.update(start=0, alts=[1]), (4, 'ReadReturnsRequestedSlice', 'none'))]
    bt = [{'id': 'bm%d' % i, 'ev': bmut(step, fn)} for (i, (_n, step, fn, _w)) in enumerate(bm)]
    # equal bytes are found at two places: the expected place among them is the same result
    alt = copy.deepcopy(bev)
    alt[3]['r'].update(start=0, alts=[2, 3])
    bt.append({'id': 'alt', 'ev': alt})
    res = C.validate_traces(bt, blens, tablefiles=['b'])
    for (i, (name, _step, _fn, want)) in enumerate(bm):
        got = sorted({(d['step'], f['clause'], f['cause']) for d in res['diag'] if d['tid'] == 'bm%d' % i
                      for f in d['fails']})
        expect('boot info table, corrupted: ' + name, want in got, got)
    got = [d for d in res['diag'] if d['tid'] == 'alt']
    expect('boot info table: same bytes at several positions accepted', got == [], got)
    # the real library, object not yet written (recorded, not asserted: open findings of C16)
    rres = C.validate_traces([{'id': 'raw', 'ev': raw}], blens, tablefiles=['b'])
    print('INFO not yet written object, real library: %s' % sorted(
        {(d['step'], d['act'], f['clause'], f['cause']) for d in rres['diag'] for f in d['fails']}))
    # the content rule
    obs = fx.content_obs[0]
    o2 = dict(obs, id='cut', expected=obs['expected'] + obs['table'][12:20])       # not cut at the end
    o3 = dict(obs, id='image', on_image=obs['orig'])                               # image without the table
    o4 = dict(obs, id='notable', expected=obs['orig'], on_image=obs['orig'])       # no table anywhere
    (cf, _st) = judge.judge('Judge_StreamContent', [obs, o2, o3, o4])
    expect('content: overlay accepted', obs['id'] not in cf, cf.get(obs['id']))
    expect('content: not cut at the end of the file', 'ExpectedIsOverlay' in cf.get('cut', []), cf.get('cut'))
    expect('content: image holds something else', cf.get('image') == ['ImageHoldsOverlay'], cf.get('image'))
    expect('content: no table', 'TableIsThere' in cf.get('notable', []), cf.get('notable'))
    print('selftest_stream: %s' % ('OK' if ok else 'FAILED'))
    return 0 if ok else 1


if __name__ == '__main__':
    sys.exit(main())
