"""Projection of a PyCdlib object onto the abstract state of PyCdlibModel.tla.

view(iso, tab)  - through the public API only (list_children, get_file_from_iso_fp,
                  get_record); used on freshly opened images.
peek(iso, tab)  - the same shape, read from the object's fields without calling
                  anything that can trigger metadata recomputation; used on the
                  live object between edits so that observing does not change the
                  schedule under test (list_children would call _reshuffle_extents).

Shape (all collections canonically sorted; TLC turns them into sets):
  {cfg:{level,joliet,rr,udf,xa}, iso:[E], rrv:[E], jol:[E], udf:[E],
   elt:..., hyb:..., npvd:n, ninodes:n, stale:b, space:n}
  E = {p:[name ids], k:"dir"|"file"|"symlink", c:class id (0 = none), b:blob id,
       h:hidden, rr:name id or "", t:target id or "", n:len}
"""
import io

from pycdlib import pycdlibexception

NS_KW = {'iso': 'iso_path', 'rrv': 'rr_path', 'jol': 'joliet_path', 'udf': 'udf_path'}
NS_TAB = {'iso': 'iso', 'rrv': 'rr', 'jol': 'jol', 'udf': 'udf'}


def exc_class(e):
    if isinstance(e, pycdlibexception.PyCdlibInvalidInput):
        return 'InvalidInput'
    if isinstance(e, pycdlibexception.PyCdlibInvalidISO):
        return 'InvalidISO'
    if isinstance(e, pycdlibexception.PyCdlibInternalError):
        return 'InternalError'
    return 'Other:' + type(e).__name__


def _is_udf(rec):
    return type(rec).__name__ == 'UDFFileEntry'


def _rec_name(ns, rec, ident=None):
    if ns == 'udf':
        if ident is not None:
            return ident.fi.decode(ident.encoding)
        fi = rec.file_ident
        return fi.fi.decode(fi.encoding)
    if ns == 'jol':
        return rec.file_identifier().decode('utf-16_be')
    if ns == 'rrv':
        return rec.rock_ridge.name().decode('utf-8')
    return rec.file_identifier().decode('utf-8')


def _kind(ns, rec):
    if rec.is_dir():
        return 'dir'
    if rec.is_symlink():
        return 'symlink'
    return 'file'


class Projector(object):
    def __init__(self, iso, tab, public):
        self.iso = iso
        self.tab = tab
        self.public = public
        self.classes = {}     # id(inode) -> list of (ns, path tuple)
        self.inode_blob = {}  # id(inode) -> blob id (peek)
        self.errors = []

    # -- children ---------------------------------------------------------
    def children(self, ns, apipath, rec):
        """yield (record, udf ident or None)"""
        if self.public:
            for c in self.iso.list_children(**{NS_KW[ns]: apipath}):
                if c is None:
                    # the public listing yields None for the parent identifier
                    continue
                if c.is_dot() or c.is_dotdot():
                    continue
                yield (c, None)
            return
        if ns == 'udf':
            for fi in rec.fi_descs:
                if fi.is_parent():
                    continue
                yield (fi.file_entry, fi)
            return
        last = None
        for c in rec.children:
            if c.is_dot() or c.is_dotdot():
                continue
            fi = c.file_identifier()
            if fi == last:
                continue
            last = fi
            if ns == 'rrv':
                rr = c.rock_ridge
                if rr is None:
                    yield (c, None)
                    continue
                # skip the relocation directory's moved children; follow CL
                skip = False
                for ic in c.children:
                    if ic.is_dotdot():
                        if ic.rock_ridge is not None and ic.rock_ridge.parent_link_record_exists():
                            skip = True
                        break
                if skip:
                    continue
                if rr.child_link_record_exists() and rr.cl_to_moved_dr is not None:
                    c = rr.cl_to_moved_dr
            yield (c, None)

    # -- content ----------------------------------------------------------
    def read(self, ns, apipath, rec):
        if self.public:
            out = io.BytesIO()
            self.iso.get_file_from_iso_fp(out, **{NS_KW[ns]: apipath})
            return out.getvalue()
        # live object: go through the extraction routine too (it does not
        # recompute metadata); it is the only reader that knows about the
        # boot-catalog and boot-info-table overlays.
        out = io.BytesIO()
        self.iso.get_file_from_iso_fp(out, **{NS_KW[ns]: apipath})
        return out.getvalue()

    def walk(self, ns, root):
        tab = self.tab
        tns = NS_TAB[ns]
        out = []
        stack = [((), '/', root)]
        seen_dirs = 0
        while stack:
            (mpath, apipath, rec) = stack.pop()
            seen_dirs += 1
            if seen_dirs > 2000:
                self.errors.append('walk_too_large:' + ns)
                break
            try:
                kids = list(self.children(ns, apipath, rec))
            except Exception as e:  # pylint: disable=broad-except
                self.errors.append('list:%s:%s:%s' % (ns, apipath, exc_class(e)))
                continue
            for (c, ident) in kids:
                if c is None:
                    nm = _rec_name(ns, None, ident) if ident is not None else '?none'
                    out.append({'p': list(mpath) + [tab.unname(tns, nm)], 'k': 'null', 'c': 0,
                                'b': '', 'h': False, 'rr': '', 't': '', 'n': 0})
                    continue
                try:
                    nm = _rec_name(ns, c, ident)
                except Exception as e:  # pylint: disable=broad-except
                    nm = '!' + exc_class(e)
                nid = tab.unname(tns, nm)
                p = mpath + (nid,)
                capi = (apipath if apipath != '/' else '') + '/' + nm
                k = _kind(ns, c)
                e = {'p': list(p), 'k': k, 'c': 0, 'b': '', 'h': False, 'rr': '', 't': '', 'n': 0}
                if not _is_udf(c):
                    e['h'] = bool(c.file_flags & 1)
                    if ns == 'iso' and c.rock_ridge is not None and not c.is_root:
                        try:
                            e['rr'] = tab.unname('rr', c.rock_ridge.name().decode('utf-8'))
                        except Exception as ex:  # pylint: disable=broad-except
                            e['rr'] = '!' + exc_class(ex)
                if k == 'symlink':
                    try:
                        if _is_udf(c):
                            e['t'] = tab.untarget(self.udf_target(c))
                        else:
                            e['t'] = tab.untarget(c.rock_ridge.symlink_path().decode('utf-8'))
                    except Exception as ex:  # pylint: disable=broad-except
                        e['t'] = '!' + exc_class(ex)
                if k == 'file' or (k == 'symlink' and _is_udf(c)):
                    ino = c.inode
                    if ino is not None:
                        self.classes.setdefault(id(ino), []).append((ns, p))
                        e['_ino'] = id(ino)
                    elif self.is_catalog_name(c):
                        # names of the boot catalog share its (in-memory) content
                        self.classes.setdefault('cat', []).append((ns, p))
                        e['_ino'] = 'cat'
                if k == 'file' and self.total_length(c) >= (1 << 31):
                    # a multi-extent file: too large to read here; identified by its total length
                    total = self.total_length(c)
                    e['n'] = (1 << 31) - 1
                    hit = [b for b, n in tab.virtual.items() if n == total]
                    e['b'] = hit[0] if hit else '?len%x' % total
                elif k == 'file':
                    e['n'] = c.get_data_length()
                    try:
                        data = self.read(ns, capi, c)
                        e['b'] = tab.classify(data)
                        if len(data) != e['n'] and not e['b'].startswith('cat'):
                            e['b'] += '!len'
                    except Exception as ex:  # pylint: disable=broad-except
                        e['b'] = '!' + exc_class(ex)
                out.append(e)
                if k == 'dir':
                    stack.append((p, capi, c))
        return out

    @staticmethod
    def total_length(rec):
        """data length of a file over all the records of a multi-extent chain"""
        if _is_udf(rec):
            return rec.get_data_length()
        n = 0
        while rec is not None:
            n += rec.get_data_length()
            rec = rec.data_continuation
        return n

    def is_catalog_name(self, rec):
        cat = self.iso.eltorito_boot_catalog
        return cat is not None and any(rec is r for r in cat.dirrecords)

    def udf_target(self, rec):
        # UDF symlink: path components stored as file data (ECMA-167 4/14.16)
        ino = rec.inode
        data = b''
        if ino is not None:
            ino.data_fp.seek(ino.fp_offset if ino.original_data_location == ino.DATA_IN_EXTERNAL_FP
                             else ino.orig_extent_loc * 2048)
            data = ino.data_fp.read(ino.data_length)
        comps = []
        off = 0
        absolute = False
        while off + 4 <= len(data):
            ctype = data[off]
            clen = data[off + 1]
            cid = data[off + 4:off + 4 + clen]
            off += 4 + clen
            if ctype == 2:
                absolute = True
            elif ctype == 3:
                comps.append('..')
            elif ctype == 4:
                comps.append('.')
            elif ctype == 5:
                comps.append(cid[1:].decode('latin-1') if cid[:1] == b'\x08' else cid[1:].decode('utf-16_be'))
            else:
                comps.append('?%d' % ctype)
        return ('/' if absolute else '') + '/'.join(comps)

    def run(self):
        iso = self.iso
        res = {'cfg': {'level': iso.interchange_level, 'joliet': 0, 'rr': iso.rock_ridge or '',
                       'udf': bool(iso._has_udf), 'xa': bool(iso.xa)},  # pylint: disable=protected-access
               'iso': [], 'rrv': [], 'jol': [], 'udf': []}
        res['iso'] = self.walk('iso', iso.pvd.root_directory_record())
        if iso.rock_ridge:
            res['rrv'] = self.walk('rrv', iso.pvd.root_directory_record())
        if iso.joliet_vd is not None:
            esc = iso.joliet_vd.escape_sequences[:3]
            res['cfg']['joliet'] = {b'%/@': 1, b'%/C': 2, b'%/E': 3}.get(esc, 9)
            res['jol'] = self.walk('jol', iso.joliet_vd.root_directory_record())
        if iso.udf_root is not None:
            res['udf'] = self.walk('udf', iso.udf_root)
        # link classes: canonical numbering by smallest member
        order = sorted(self.classes.items(), key=lambda kv: min((NSORD[m[0]], m[1]) for m in kv[1]))
        num = dict((k, i + 1) for i, (k, _) in enumerate(order))
        for ns in ('iso', 'rrv', 'jol', 'udf'):
            for e in res[ns]:
                if '_ino' in e:
                    e['c'] = num[e.pop('_ino')]
            res[ns].sort(key=lambda e: e['p'])
        # redundant bookkeeping kept by the implementation
        res['ninodes'] = len(iso.inodes)
        res['nclasses'] = len(num)
        res['stale'] = bool(iso._needs_reshuffle)  # pylint: disable=protected-access
        res['space'] = iso.pvd.space_size
        res['npvd'] = len(iso.pvds)
        res['elt'] = self.eltorito()
        res['hyb'] = self.hybrid()
        if self.public:
            res['rd'] = self.reads(res)
        res['err'] = sorted(set(self.errors))
        return res

    # -- the other readers: walk(), get_record() + full_path_from_dirrecord() ------------------
    def reads(self, res):
        """what walk() lists and what full_path_from_dirrecord(get_record(path)) answers, in name
        ids (PyCdlibModel: WalkOf, SameObject); judged by Trace_Model (Tree_walk_*, Tree_fullpath_*)"""
        iso = self.iso
        tab = self.tab
        rd = {'on': True}
        for ns in ('iso', 'rrv', 'jol', 'udf'):
            tns = NS_TAB[ns]
            w = []
            fp = []
            rd['w' + ns] = w
            rd['f' + ns] = fp
            present = {'iso': True, 'rrv': bool(iso.rock_ridge), 'jol': iso.joliet_vd is not None,
                       'udf': iso.udf_root is not None}[ns]
            if not present or len(res[ns]) > 400:
                if present:
                    rd['on'] = False
                continue

            def ids(path):
                return [tab.unname(tns, c) for c in path.split('/') if c]
            paths = []
            try:
                for (d, ds, fs) in iso.walk(**{NS_KW[ns]: '/'}):
                    w.append({'d': ids(d), 'ds': [tab.unname(tns, x) for x in ds],
                              'fs': [tab.unname(tns, x) for x in fs]})
                    for x in list(ds) + list(fs):
                        paths.append((d if d != '/' else '') + '/' + x)
                    if len(w) > 2000:
                        raise RuntimeError('walk does not end')
            except Exception as e:  # pylint: disable=broad-except
                self.errors.append('walk:%s:%s' % (ns, exc_class(e)))
                continue
            for path in paths:
                try:
                    rec = iso.get_record(**{NS_KW[ns]: path})
                    back = iso.full_path_from_dirrecord(rec, rockridge=(ns == 'rrv'))
                    fp.append({'p': ids(path), 'q': ids(back)})
                except Exception as e:  # pylint: disable=broad-except
                    self.errors.append('fullpath:%s:%s:%s' % (ns, path, exc_class(e)))
        return rd

    def eltorito(self):
        cat = self.iso.eltorito_boot_catalog
        if cat is None:
            return {'on': False, 'entries': [], 'plat': 0, 'detail': []}
        ents = [cat.initial_entry]
        for sec in cat.sections:
            ents.extend(sec.section_entries)
        out = []
        detail = []
        for ent in ents:
            members = self.classes.get(id(ent.inode), []) if ent.inode is not None else []
            out.append(sorted([NS_TAB[m[0]] if m[0] != 'rrv' else 'rr', list(m[1])] for m in members if m[0] != 'rrv'))
            detail.append({'media': ent.boot_media_type, 'boot': ent.boot_indicator,
                           'count': ent.sector_count, 'seg': ent.load_segment, 'sys': ent.system_type,
                           'bit': ent.inode.boot_info_table is not None if ent.inode is not None else False})
        return {'on': True, 'entries': out, 'plat': cat.validation_entry.platform_id, 'detail': detail}

    def hybrid(self):
        h = self.iso.isohybrid_mbr
        if h is None:
            return None
        return dict((k, getattr(h, k, None)) for k in ('efi', 'mac', 'part_entry', 'geometry_sectors',
                                                       'geometry_heads', 'part_offset'))


NSORD = {'iso': 0, 'rrv': 1, 'jol': 2, 'udf': 3}


def view(iso, tab):
    return Projector(iso, tab, True).run()


def peek(iso, tab):
    return Projector(iso, tab, False).run()
