"""C16 - reading files: exact bytes, stream semantics, no interference.

TLC explores spec/MC_stream.tla (bounded instance of spec/Stream.tla) exhaustively and emits
behaviours (transition tour of the state graph, all histories of a reduced alphabet, seeded
-simulate samples).  Every behaviour is replayed on the real pycdlib for several backings
(files of a written and reopened image; files added but not yet written; ...), the harness only
LOCATES the returned bytes in the known content and converts byte counts to units, and TLC
(spec/Trace_Stream.tla) recomputes the model step for every recorded call and names the failing
clauses.  Python decides nothing.

Shapes b1/b3/b4/b5 have a file "b" that is an El Torito boot file WITH A BOOT INFO TABLE, realised
with lengths on both sides of the table's boundaries (5, 8, 9, 20, 63, 64, 65, 2049, ... bytes).
Its content - for every reader, before and after writing - is "what it was added with, the table
laid over bytes 8..63, cut at the end of the file" (spec/StreamContent.tla).  The table bytes are
taken from the image written by a twin object, at the extent found by the independent decoder
(harness/decoders/iso9660.py; nothing of pycdlib's read path), and TLC (Judge_StreamContent) checks
that the content used is that overlay and is what the written image holds.
"""
import det
det.install()

import hashlib
import io
import json
import multiprocessing
import os
import shutil
import sys
import tempfile

import checklib
import judge
import tlc
from decoders import iso9660

PID = 'C16'

MC_CFG = '''SPECIFICATION MCSpec
CONSTANTS
 Files <- MCFiles
 LenOf <- MCLenOf
 Sids <- MCSids
 Reseek = %(Reseek)s
 ReadSizes <- MCReadSizes
 IntoSizes <- MCIntoSizes
 SeekOffsets <- MCSeekOffsets
 Whences <- MCWhences
 BlockLabels <- MCBlockLabels
 TableFiles <- MCTableFiles
 MaxLen = %(MaxLen)d
 Dump = "%(Dump)s"
 Shape = "%(Shape)s"
 Alpha = "%(Alpha)s"
INVARIANT TypeOK
INVARIANT ResultWithinFile
INVARIANT ReadAtOwnOffset
INVARIANT TellEqualsModelOffset
ACTION_CONSTRAINT ActionProps
%(extra)s
CHECK_DEADLOCK FALSE
'''

TRACE_CFG = '''SPECIFICATION TSpec
CONSTANTS
 Files <- TFiles
 LenOf <- TLenOf
 Sids <- TSids
 Reseek = TRUE
 ReadSizes <- TNoSizes
 IntoSizes <- TNoSizes
 SeekOffsets <- TNoSizes
 Whences <- TNone
 BlockLabels <- TNone
 TableFiles <- TTableFiles
 Resync = %(Resync)s
CHECK_DEADLOCK FALSE
'''


# ---------------------------------------------------------------------------------------------
# behaviours out of TLC
# ---------------------------------------------------------------------------------------------
def mc_run(shape, alpha='full', dump='none', maxlen=12, simulate=None, seed=0, reseek=True, need_ok=True):
    """returns (histories, lens {file: units}, stats)"""
    p = dict(Reseek='TRUE' if reseek else 'FALSE', MaxLen=maxlen, Dump=dump, Shape=shape, Alpha=alpha)
    if dump == 'edges':
        p['extra'] = 'VIEW ViewNoHist\nACTION_CONSTRAINT DumpEdge'
    elif dump == 'hist':
        p['extra'] = 'CONSTRAINT DumpHist'
    elif dump == 'full':
        p['extra'] = ''
    else:
        p['extra'] = 'VIEW ViewNoHist'
    extra = ()
    sim = None
    if simulate:
        sim = 'num=%d' % simulate
        extra = ('-seed', str(seed), '-depth', str(maxlen + 2))
    out, stats = tlc.run_tlc('MC_stream', MC_CFG % p, workers=1, timeout=900, simulate=sim, extra=extra,
                             heap='3g')
    hists = []
    lens = None
    stats['tablefiles'] = []
    for tag, val in tlc.tagged_lines(out):
        if tag == 'HIST':
            hists.append(val)
        elif tag == 'SHAPE':
            lens = val
        elif tag == 'TABLEFILES':
            stats['tablefiles'] = sorted(val['files'])
    if need_ok:
        if simulate:
            if stats.get('exit') != 0 or len(hists) != simulate:
                raise tlc.TlcError('MC_stream -simulate: exit %s, %d of %d behaviours\n%s' % (
                    stats.get('exit'), len(hists), simulate, out[-2000:]))
        else:
            tlc.need_ok(out, stats, 'MC_stream')
        if lens is None:
            raise tlc.TlcError('MC_stream printed no SHAPE line')
    stats['out_tail'] = out[-1500:] if not stats.get('completed') else ''
    return hists, lens, stats


def _mc_star(kw):
    return mc_run(**kw)


# ---------------------------------------------------------------------------------------------
# realisation: units -> bytes, contents, backings
# ---------------------------------------------------------------------------------------------
UNITS = {   # name -> bytes per unit for each model file
    'sector+1': {'z': 1, 's': 1, 'm': 683},       # m = 2049 bytes (crosses a sector boundary), s = 1 byte
    'bytes':    {'z': 1, 's': 2048, 'm': 1},      # m = 3 bytes, s = exactly one sector
    'sectors':  {'z': 1, 's': 2049, 'm': 2048},   # m = whole sectors, s = one sector + 1
    'odd':      {'z': 1, 's': 700, 'm': 1000},
}
NAMES = {'m': 'M', 's': 'S', 'z': 'Z', 'b': 'B', 'decoy': 'N'}     # decoy N sits between M (B) and S on the image
PATHKINDS = {'joliet': 'joliet_path', 'udf': 'udf_path', 'rr': 'rr_path'}


def unit_table(unitname):
    """bytes per unit for each model file; 'b<N>': the boot file b has N bytes per unit"""
    if unitname in UNITS:
        return UNITS[unitname]
    if unitname[0] == 'b' and unitname[1:].isdigit():
        return {'b': int(unitname[1:]), 's': 700, 'z': 1, 'm': 683}
    raise ValueError(unitname)


def split_backing(backing):
    """'image_udf' -> ('image', 'udf'); 'added_shared' -> ('added_shared', None)"""
    (base, _sep, last) = backing.rpartition('_')
    if base and last in PATHKINDS:
        return (base, last)
    return (backing, None)
BLOCKS = {'1': lambda n: 1, '7': lambda n: 7, '2048': lambda n: 2048, '8192': lambda n: 8192,
          'L': lambda n: n, 'L1': lambda n: n + 1}


def prbytes(tag, n):
    """n position-dependent pseudo-random non-zero bytes"""
    out = bytearray()
    c = 0
    while len(out) < n:
        out += bytes(b for b in hashlib.sha256(('%s:%d' % (tag, c)).encode()).digest() if b)
        c += 1
    return bytes(out[:n])


def make_content(tag, units, u):
    """content of units*u bytes whose unit-aligned chunks are pairwise distinct"""
    for salt in range(1000):
        data = prbytes('%s/%d' % (tag, salt), units * u)
        chunks = [data[i * u:(i + 1) * u] for i in range(units)]
        if len(set(chunks)) == len(chunks):
            return data
    raise RuntimeError('no content with distinct units for ' + tag)


class Fixture(object):
    """one way of giving the model's files to a PyCdlib object.  fresh() -> PyCdlib object.

    backing = base[_pathkind], pathkind in joliet/udf/rr (the image then has all namespaces and the
    files are addressed by that kind of path).  bases:
      image         files of a written image, reopened (open_fp)
      added         files added to a new object, nothing written, no query made (layout pending)
      added_laid    the same after one get_record() (the layout has been computed)
      written       the same after write_fp(), on the SAME object (not reopened)
      mixed         an opened image to which the last file (m, or the boot file b) is added
      added_shared  all files are prefixes of ONE buffer behind ONE file object
      added_file    files added with add_file() from the file system
    A file of `tablefiles` is made the El Torito boot file with boot_info_table=True.
    """

    def __init__(self, backing, unitname, lens, scratch, tablefiles=()):
        import pycdlib
        self.pycdlib = pycdlib
        self.backing = backing
        (self.base, pk) = split_backing(backing)
        self.unitname = unitname
        self.lens = dict(lens)
        self.unit = {f: unit_table(unitname)[f] for f in lens}
        self.kind = PATHKINDS.get(pk, 'iso_path')
        self.ext = pk is not None
        self.tablefiles = sorted(tablefiles)
        if len(self.tablefiles) > 1:
            raise ValueError('one boot file with a boot info table per image')
        if self.tablefiles and self.base in ('added_shared', 'added_file'):
            raise ValueError('no boot-info-table fixture for backing ' + backing)
        tag = backing + '/' + unitname
        self.content = {f: make_content(tag + '/' + f, lens[f], self.unit[f]) for f in lens}
        self.decoy = prbytes(tag + '/decoy', 5000)
        self.sharedbuf = None
        if self.base == 'added_shared':
            # every file is a prefix of ONE buffer behind ONE file object (add_fp always reads a
            # file from offset 0 of the object it is given: inode.Inode.new(..., offset=0))
            longest = max(lens[f] * self.unit[f] for f in lens)
            for salt in range(1000):
                buf = prbytes('%s/shared/%d' % (tag, salt), longest + 4096)
                cont = {f: buf[:lens[f] * self.unit[f]] for f in lens}
                if all(len(set(cont[f][i * self.unit[f]:(i + 1) * self.unit[f]] for i in range(lens[f])))
                       == lens[f] for f in lens):
                    break
            self.sharedbuf = buf
            self.content = cont
        self.files = sorted(lens)
        self.orig = dict(self.content)      # what the files are added with
        self.late = None                    # the file that 'mixed' adds to the opened image
        if self.base == 'mixed':
            self.late = 'm' if 'm' in lens else self.tablefiles[0]
        self.image = None
        self.paths = None
        if self.base in ('image', 'mixed'):
            iso = self._new()
            for f in [f for f in self.files if f != self.late] + ['decoy']:
                self._add(iso, f)
            if self.base == 'image':
                self._boot(iso)
            self.image = self._written(iso)
        if self.base == 'added_file':
            self.paths = {}
            d = os.path.join(scratch, 'files-%s-%s' % (backing, unitname))
            os.makedirs(d)
            for f in self.files + ['decoy']:
                self.paths[f] = os.path.join(d, NAMES[f])
                with open(self.paths[f], 'wb') as fh:
                    fh.write(self.decoy if f == 'decoy' else self.content[f])
        self.content_obs = []               # observations for Judge_StreamContent
        for f in self.tablefiles:
            self._table_content(f)

    # ---- building ------------------------------------------------------------------------------
    def _new(self):
        iso = self.pycdlib.PyCdlib()
        if self.ext:
            iso.new(interchange_level=3, joliet=3, rock_ridge='1.09', udf='2.60')
        else:
            iso.new()
        return iso

    def _kw(self, f):
        n = NAMES[f]
        kw = {'iso_path': '/%s.;1' % n}
        if self.ext:
            kw.update(rr_name=n.lower(), joliet_path='/' + n.lower(), udf_path='/' + n.lower())
        return kw

    def _add(self, iso, f, fp=None):
        data = self.decoy if f == 'decoy' else self.orig[f]
        iso.add_fp(fp if fp is not None else io.BytesIO(data), len(data), **self._kw(f))

    def _boot(self, iso):
        for f in self.tablefiles:
            kw = {}
            if self.ext:
                kw.update(rr_bootcatname='boot.cat', joliet_bootcatfile='/boot.cat', udf_bootcatfile='/boot.cat')
            iso.add_eltorito('/%s.;1' % NAMES[f], '/BOOT.CAT;1', boot_info_table=True, **kw)

    @staticmethod
    def _written(iso):
        out = io.BytesIO()
        iso.write_fp(out)
        iso.close()
        return out.getvalue()

    def _unwritten(self):
        """the object of this backing before anything is written / queried"""
        b = self.base
        if b == 'image':
            iso = self.pycdlib.PyCdlib()
            iso.open_fp(io.BytesIO(self.image))
        elif b == 'mixed':
            iso = self.pycdlib.PyCdlib()
            iso.open_fp(io.BytesIO(self.image))
            self._add(iso, self.late)
            self._boot(iso)
        elif b in ('added', 'added_laid', 'written'):
            iso = self._new()
            for f in self.files + ['decoy']:
                self._add(iso, f)
            self._boot(iso)
        elif b == 'added_shared':
            iso = self._new()
            fp = io.BytesIO(self.sharedbuf)
            for f in self.files:
                self._add(iso, f, fp)
            self._add(iso, 'decoy')
        elif b == 'added_file':
            iso = self._new()
            for f in self.files + ['decoy']:
                iso.add_file(self.paths[f], **self._kw(f))
        else:
            raise ValueError(self.backing)
        return iso

    def _table_content(self, f):
        """content of boot file f = what it was added with + the table the WRITTEN image has at
        offset 8 of the file's extent (extent from the independent decoder), cut at its length"""
        ref = self.image if self.base == 'image' else self._written(self._unwritten())
        rep = iso9660.decode(ref)
        want = [list(('%s.;1' % NAMES[f]).encode())]
        recs = [r for r in rep['files']['iso'] if r['path'] == want]
        orig = self.orig[f]
        obs = {'id': '%s/%s/%s' % (self.backing, self.unitname, f), 'found': len(recs) == 1, 'size': 0,
               'orig': list(orig), 'table': [], 'on_image': [], 'expected': list(orig)}
        if recs:
            start = recs[0]['extent'] * iso9660.SECTOR
            table = ref[start + 8:start + 64]
            self.content[f] = (orig[:8] + table + orig[64:])[:len(orig)]
            obs.update(size=recs[0]['size'], table=list(table), on_image=list(ref[start:start + recs[0]['size']]),
                       expected=list(self.content[f]), extent=recs[0]['extent'])
        self.content_obs.append(obs)

    # ---- use -----------------------------------------------------------------------------------
    def path(self, f):
        n = NAMES[f]
        return {self.kind: '/%s.;1' % n if self.kind == 'iso_path' else '/' + n.lower()}

    def root(self):
        return {self.kind: '/'}

    def fresh(self):
        iso = self._unwritten()
        if self.base == 'added_laid':
            iso.get_record(**self.path(self.files[-1]))
        elif self.base == 'written':
            iso.write_fp(io.BytesIO())
        return iso

    def describe(self):
        return {'backing': self.backing, 'units': self.unitname, 'path_kind': self.kind,
                'bytes': {f: len(self.content[f]) for f in self.files},
                'boot_info_table_files': self.tablefiles}


# ---------------------------------------------------------------------------------------------
# replay of one behaviour (projection only: locate returned bytes, bytes -> units)
# ---------------------------------------------------------------------------------------------
def aligned(data, content, u):
    """all unit-aligned positions (in units) at which data occurs in content"""
    out = []
    p = content.find(data)
    while p >= 0:
        if p % u == 0:
            out.append(p // u)
        p = content.find(data, p + 1)
    return out


def locate(data, content, u, orig=None):
    """where (unit-aligned) the returned bytes are bytes of the file; orig (files with a boot info
    table): what the file was added with - looked at only when they are NOT bytes of the file"""
    n = len(data)
    lenu, lenr = divmod(n, u)
    res = {'matches': True, 'start': 0, 'lenu': lenu, 'lenr': lenr, 'phit': False, 'pstart': 0, 'pmatch': 0}
    if n == 0:
        return res
    at = aligned(data, content, u)
    if at:
        res['start'] = at[0]
        if len(at) > 1:
            res['alts'] = at[1:]
        return res
    res['matches'] = False
    if orig is not None:
        at = aligned(data, orig, u)
        res['omatches'] = bool(at)
        res['ostart'] = at[0] if at else 0
    # not bytes of the file as a whole: where does the first unit come from, how far does it agree
    if n >= u:
        for p in range(len(content) // u):
            if content[p * u:(p + 1) * u] == data[:u]:
                m = 1
                while (p + m + 1) * u <= len(content) and data[m * u:(m + 1) * u] == content[(p + m) * u:(p + m + 1) * u]:
                    m += 1
                res.update({'phit': True, 'pstart': p, 'pmatch': m})
                break
    return res


def blank():
    return {'out': 'ok', 'exc': '', 'matches': True, 'start': 0, 'lenu': 0, 'lenr': 0, 'phit': False,
            'pstart': 0, 'pmatch': 0, 'ret': 0, 'retr': 0, 'tells': []}


def replay(fx, beh):
    """beh: list of {'a': action, 'exp': ...} from TLC.  returns list of events {'a', 'r'}."""
    iso = fx.fresh()
    objs = {}       # sid -> (stream object, file id)
    held = set()    # sids the harness opened and has not closed
    ev = []
    try:
        for (i, step) in enumerate(beh):
            a = step['a']
            r = blank()
            k = a['a']
            try:
                if k == 'Open':
                    f = iso.open_file_from_iso(**fx.path(a['file']))
                    f.__enter__()
                    objs[a['sid']] = (f, a['file'])
                    held.add(a['sid'])
                elif k == 'Extract':
                    n = len(fx.content[a['file']])
                    out = io.BytesIO()
                    iso.get_file_from_iso_fp(out, blocksize=BLOCKS[a['bs']](n), **fx.path(a['file']))
                    r.update(locate(out.getvalue(), fx.content[a['file']], fx.unit[a['file']],
                                    fx.orig[a['file']] if a['file'] in fx.tablefiles else None))
                elif k == 'List':
                    r['ret'] = len(list(iso.list_children(**fx.root())))
                    iso.get_record(**fx.path(fx.files[-1]))
                else:
                    if a['sid'] not in objs:
                        break    # outside the model (never produced by MC_stream)
                    (f, fid) = objs[a['sid']]
                    u = fx.unit[fid]
                    orig = fx.orig[fid] if fid in fx.tablefiles else None
                    if k == 'Read':
                        if a['n'] < 0:
                            data = f.read() if a['sid'] == 1 else f.read(-1)
                        else:
                            data = f.read(a['n'] * u)
                        r.update(locate(data, fx.content[fid], u, orig))
                    elif k == 'ReadAll':
                        r.update(locate(f.readall(), fx.content[fid], u, orig))
                    elif k == 'ReadInto':
                        buf = bytearray(a['k'] * u)
                        n = f.readinto(buf)
                        if not isinstance(n, int) or n < 0 or n > len(buf):
                            r.update({'matches': False, 'lenu': 0, 'lenr': 0})
                        else:
                            r.update(locate(bytes(buf[:n]), fx.content[fid], u, orig))
                            if any(buf[n:]):
                                r['matches'] = False
                    elif k == 'Seek':
                        (r['ret'], r['retr']) = divmod(f.seek(a['off'] * u, a['wh']), u)
                    elif k == 'Tell':
                        (r['ret'], r['retr']) = divmod(f.tell(), u)
                    elif k == 'Close':
                        f.close()
                        held.discard(a['sid'])
                    else:
                        raise RuntimeError('unknown action ' + k)
            except Exception as e:  # pylint: disable=broad-except
                if isinstance(e, RuntimeError):
                    raise
                r['out'] = 'exc'
                r['exc'] = type(e).__name__
            for sid in sorted(held):
                (f, fid) = objs[sid]
                t = {'sid': sid, 'ok': True, 'u': 0, 'r': 0}
                try:
                    (t['u'], t['r']) = divmod(f.tell(), fx.unit[fid])
                except Exception:  # pylint: disable=broad-except
                    t['ok'] = False
                r['tells'].append(t)
            ev.append({'a': a, 'r': r})
            if k == 'Open' and r['out'] == 'exc':
                break
    finally:
        for (f, _fid) in objs.values():
            try:
                f.__exit__(None, None, None)
            except Exception:  # pylint: disable=broad-except
                pass
        try:
            iso.close()
        except Exception:  # pylint: disable=broad-except
            pass
    return ev


_FX = None
_BEH = None


def _replay_part(args):
    """replays the (fixture index, behaviour index) pairs of one part, writes the traces as
    comma-separated JSON objects, returns (path, number of traces, number of events)"""
    (part_no, pairs, outdir) = args
    nev = 0
    path = os.path.join(outdir, 'part%03d.json' % part_no)
    with open(path, 'w') as fh:
        first = True
        for (fi, bi) in pairs:
            ev = replay(_FX[fi], _BEH[bi])
            nev += len(ev)
            if not first:
                fh.write(',')
            first = False
            json.dump({'id': '%d:%d' % (fi, bi), 'ev': ev}, fh, separators=(',', ':'))
    return (path, len(pairs), nev)


def _join_parts(parts, path):
    """the JSON document Trace_Stream reads"""
    with open(path, 'w') as out:
        out.write('{"traces":[')
        first = True
        for (pp, n, _e) in parts:
            if n == 0:
                continue
            if not first:
                out.write(',')
            first = False
            with open(pp) as fh:
                shutil.copyfileobj(fh, out)
            os.unlink(pp)
        out.write(']}')


# ---------------------------------------------------------------------------------------------
# TLC validates the traces
# ---------------------------------------------------------------------------------------------
def tables_module(lens, tablefiles=()):
    files = sorted(lens)
    cases = ' [] '.join('f = "%s" -> %d' % (f, lens[f]) for f in files)
    return '\n'.join([
        '---- MODULE StreamTables ----',
        'EXTENDS Naturals',
        'TabFiles == {%s}' % ', '.join('"%s"' % f for f in files),
        'TabLenOf == [f \\in TabFiles |-> CASE %s]' % cases,
        'TabTableFiles == {%s}' % ', '.join('"%s"' % f for f in sorted(tablefiles)),
        '====', ''])


def validate_file(args):
    (path, lens, resync, tablefiles) = args
    text = TRACE_CFG % {'Resync': 'TRUE' if resync else 'FALSE'}
    out, stats = tlc.run_tlc('Trace_Stream', text, workers=1, env={'TRACE_FILE': path}, timeout=1500,
                             heap='3g', aux_modules={'StreamTables': tables_module(lens, tablefiles)})
    res = {'diag': [], 'skip': [], 'end': [], 'stats': stats}
    for tag, val in tlc.tagged_lines(out):
        if tag == 'DIAG':
            res['diag'].append(val)
        elif tag == 'SKIP':
            res['skip'].append(val)
        elif tag == 'END':
            res['end'].append(val['tid'])
    tlc.need_ok(out, stats, 'Trace_Stream')
    return res


def validate_traces(traces, lens, resync=True, tablefiles=()):
    """traces: list of {'id', 'ev'} -> result of one Trace_Stream run (used by the self-test)"""
    d = tempfile.mkdtemp(prefix='verif-c16-')
    try:
        path = os.path.join(d, 'traces.json')
        with open(path, 'w') as fh:
            json.dump({'traces': traces}, fh)
        res = validate_file((path, lens, resync, tuple(tablefiles)))
    finally:
        shutil.rmtree(d, ignore_errors=True)
    if sorted(res['end']) != sorted(t['id'] for t in traces):
        raise tlc.TlcError('Trace_Stream ended %d of %d traces' % (len(res['end']), len(traces)))
    return res


# ---------------------------------------------------------------------------------------------
# the check
# ---------------------------------------------------------------------------------------------
ALL = {'tour': 1, 'hist': 1, 'sim': 1}


def _ts(stride):
    return {'tour': stride, 'sim': 1}


def _boot_plan(units, stride, others, sim=True):
    """fixtures of a boot-info-table shape: for every unit size the reopened written image and the
    not yet written object (layout computed); others: {backing: (unit size, stride)}"""
    def kinds(st):
        return {'tour': st, 'sim': st} if sim else {'tour': st}
    plan = []
    for u in units:
        plan.append(('image', 'b%d' % u, kinds(stride)))
        plan.append(('added_laid', 'b%d' % u, kinds(stride)))
    for b in sorted(others):
        plan.append((b, 'b%d' % others[b][0], kinds(others[b][1])))
    return plan


PLANS = {
    # tier -> [(shape, [(backing, units, {behaviour set: stride})])]
    'quick': [
        ('zm', [('image', 'sector+1', ALL),
                ('added', 'sector+1', ALL),
                ('image', 'bytes', {'tour': 10}),
                ('image', 'sectors', {'tour': 10}),
                ('mixed', 'sector+1', _ts(8)),
                ('added_file', 'odd', _ts(8)),
                ('image_joliet', 'sector+1', _ts(12)),
                ('image_udf', 'sector+1', _ts(12)),
                ('image_rr', 'odd', _ts(12))]),
        ('zsm', [('added_shared', 'sector+1', {'sim': 1}),
                 ('added_shared', 'sectors', {'sim': 1}),
                 ('image', 'sectors', {'sim': 1})]),
        # b = boot file with a boot info table; 'b<N>' = N bytes per unit
        ('b1', _boot_plan([5, 8, 9, 20, 63, 64, 65, 2500], 24, {'added': (20, 24), 'written': (63, 24)}, sim=False)),
        ('b4', _boot_plan([5], 8, {'added': (5, 48), 'mixed': (5, 48), 'written': (5, 48), 'image_udf': (5, 48),
                                   'image_joliet': (5, 48)})              # 20 bytes
               + _boot_plan([2, 16, 513], 32, {})),                      # 8, 64, 2052 bytes
        ('b3', _boot_plan([3, 21], 12, {'added': (21, 32), 'image_rr': (21, 32), 'added_laid_joliet': (3, 32)})
               + _boot_plan([683, 22], 32, {})),                         # 9, 63; 2049, 66 bytes
    ],
    'thorough': [
        ('zm', [('image', 'sector+1', ALL),
                ('added', 'sector+1', {'tour': 1, 'hist': 2, 'sim': 1}),
                ('image', 'bytes', _ts(1)), ('image', 'sectors', _ts(1)), ('image', 'odd', _ts(1)),
                ('added', 'bytes', _ts(1)), ('added', 'sectors', _ts(1)),
                ('mixed', 'sector+1', _ts(1)), ('added_file', 'odd', _ts(1)),
                ('image_joliet', 'sector+1', _ts(1)), ('image_udf', 'sector+1', _ts(1)),
                ('image_rr', 'odd', _ts(1)), ('written', 'sector+1', _ts(1)), ('added_laid', 'odd', _ts(2))]),
        ('zsm', [('image', 'sector+1', _ts(1)), ('added_shared', 'sector+1', _ts(1)),
                 ('added_shared', 'sectors', {'sim': 1}), ('image_udf', 'sectors', {'sim': 1})]),
        ('sm5', [('image', 'odd', _ts(1)), ('added_shared', 'odd', {'sim': 1})]),
        ('b1', _boot_plan([5, 7, 8, 9, 20, 24, 62, 63, 64, 65, 72, 2048, 2500, 4097], 4,
                          {'added': (20, 4), 'written': (63, 4), 'mixed': (9, 4), 'image_udf': (63, 4),
                           'image_joliet': (20, 4), 'image_rr': (64, 4), 'added_laid_joliet': (9, 4),
                           'added_laid_rr': (65, 4), 'added_laid_udf': (20, 4)})),
        ('b3', _boot_plan([3, 21, 22, 683, 8], 4,                        # 9, 63, 66, 2049, 24 bytes
                          {'added': (21, 6), 'written': (3, 6), 'mixed': (21, 6), 'image_udf': (3, 6),
                           'image_joliet': (21, 6), 'image_rr': (21, 6), 'added_laid_joliet': (3, 6)})),
        ('b4', _boot_plan([5, 2, 16, 513], 4,                            # 20, 8, 64, 2052 bytes
                          {'added': (5, 8), 'written': (16, 8), 'mixed': (5, 8), 'image_udf': (5, 8),
                           'image_joliet': (16, 8), 'added_laid_rr': (5, 8)})),
        ('b5', _boot_plan([1, 13, 4], 6,                                 # 5, 65, 20 bytes
                          {'added': (13, 12), 'written': (1, 12), 'mixed': (4, 12)})),
    ],
}
BOUNDS = {
    'quick': {'hist_len': 3, 'sim_n': 600, 'sim_len': 8},
    'thorough': {'hist_len': 4, 'sim_n': 6000, 'sim_len': 10},
}


def run(ctx):
    global _FX, _BEH  # pylint: disable=global-statement
    tier = ctx.tier
    bd = BOUNDS[tier]
    scratch = tempfile.mkdtemp(prefix='verif-c16-')
    t0 = det.real_time()
    try:
        # ---- 1. TLC: exhaustive check of the bounded model + behaviours ---------------------
        shapes = [s for (s, _p) in PLANS[tier]]
        jobs = []
        for (s, plan) in PLANS[tier]:
            tour = any('tour' in kinds for (_b, _u, kinds) in plan)
            jobs.append(dict(shape=s, alpha='full', dump='edges' if tour else 'none', maxlen=12))
            if any('sim' in kinds for (_b, _u, kinds) in plan):
                jobs.append(dict(shape=s, alpha='full', dump='full', maxlen=bd['sim_len'], simulate=bd['sim_n'],
                                 seed=ctx.seed + 1))
            if s == 'zm':
                jobs.append(dict(shape=s, alpha='core', dump='hist', maxlen=bd['hist_len']))
        mp = multiprocessing.get_context('fork')
        with mp.Pool(min(len(jobs), 8)) as pool:
            results = pool.map(_mc_star, jobs, chunksize=1)
        sets = {}      # shape -> {'tour': [...], 'hist': [...], 'sim': [...]}
        lens_of = {}
        table_of = {}
        states = transitions = 0
        mc_stats = []
        for (job, (hists, lens, stats)) in zip(jobs, results):
            s = job['shape']
            lens_of[s] = lens
            table_of[s] = stats['tablefiles']
            kind = {'edges': 'tour', 'none': 'tour', 'full': 'sim', 'hist': 'hist'}[job['dump']]
            if kind == 'hist':
                hists = [h for h in hists if len(h) == job['maxlen']]
            sets.setdefault(s, {})[kind] = hists
            if kind == 'tour':
                # the complete reachable graph of the bounded model, all invariants checked
                states += stats['distinct']
                transitions += stats['generated']
                if job['dump'] == 'edges' and len(hists) + 1 != stats['generated']:
                    raise tlc.TlcError('tour of %s: %d behaviours for %d transitions' % (
                        s, len(hists), stats['generated']))
            mc_stats.append({'shape': s, 'alphabet': job['alpha'], 'mode': kind, 'behaviours': len(hists),
                             'distinct_states': stats.get('distinct'), 'generated': stats.get('generated'),
                             'depth': stats.get('depth'), 'wall_s': stats.get('wall_s')})
            ctx.note('behaviours_' + kind, len(hists))
        print('[C16] TLC model checking done: %d states, %d transitions (%.1fs)' % (
            states, transitions, det.real_time() - t0), flush=True)

        # ---- 2. replay on the real code ----------------------------------------------------
        t1 = det.real_time()
        shards_by_shape = {}
        total_traces = total_events = 0
        fixtures_desc = []
        content_obs = []
        for (shape, plan) in PLANS[tier]:
            lens = lens_of[shape]
            _FX = []
            _BEH = []
            index = {}
            pairs = []
            for (backing, units, kinds) in plan:
                fx = Fixture(backing, units, lens, scratch, table_of[shape])
                content_obs += [dict(o, id=shape + '/' + o['id']) for o in fx.content_obs]
                _FX.append(fx)
                fi = len(_FX) - 1
                fixtures_desc.append(dict(fx.describe(), shape=shape, behaviours=0, sets=kinds))
                for kind in sorted(kinds):
                    stride = kinds[kind]
                    hs = sets[shape].get(kind, [])
                    off = (ctx.seed + fi) % stride
                    for (j, h) in enumerate(hs):
                        if j % stride != off:
                            continue
                        key = (kind, j)
                        if key not in index:
                            _BEH.append(h)
                            index[key] = len(_BEH) - 1
                        pairs.append((fi, index[key]))
                        fixtures_desc[-1]['behaviours'] += 1
            # replay in up to 16 processes; one Trace_Stream document per <= 6000 traces (a JVM
            # start costs more than a thousand traces)
            nshards = max(1, -(-len(pairs) // 6000))
            per = -(-16 // nshards) if len(pairs) >= 600 else 1
            outdir = os.path.join(scratch, 'traces-' + shape)
            os.makedirs(outdir)
            nparts = nshards * per
            tasks = [(k, pairs[k::nparts], outdir) for k in range(nparts)]
            with mp.Pool(min(16, nparts)) as pool:
                parts = pool.map(_replay_part, tasks)
            done = []
            for k in range(nshards):
                mine = parts[k * per:(k + 1) * per]
                path = os.path.join(outdir, 'shard%03d.json' % k)
                _join_parts(mine, path)
                done.append((path, sum(p[1] for p in mine), sum(p[2] for p in mine)))
            shards_by_shape[shape] = (done, list(_FX), list(_BEH))
            print('[C16]   shape %s: %d fixtures, %d behaviours replayed (%.1fs since start of replay)' % (
                shape, len(_FX), len(pairs), det.real_time() - t1), flush=True)
            total_traces += sum(d[1] for d in done)
            total_events += sum(d[2] for d in done)
        print('[C16] replayed %d behaviours (%d calls) on pycdlib at %s (%.1fs)' % (
            total_traces, total_events, checklib.REPO, det.real_time() - t1), flush=True)

        # ---- 3. TLC validates the recorded traces --------------------------------------------
        t2 = det.real_time()
        vjobs = []
        for shape in shards_by_shape:
            for (path, _n, _e) in shards_by_shape[shape][0]:
                vjobs.append((path, lens_of[shape], True, tuple(table_of[shape])))
        with mp.Pool(min(10, len(vjobs))) as pool:
            vres = pool.map(validate_file, vjobs, chunksize=1)
        ended = 0
        ndiag = 0
        k = 0
        failing_traces = set()
        clause_counts = {}
        first_diags = {}
        for shape in shards_by_shape:
            (done, fxs, behs) = shards_by_shape[shape]
            for (path, n, _e) in done:
                res = vres[k]
                k += 1
                if len(set(res['end'])) != n:
                    raise tlc.TlcError('Trace_Stream ended %d of %d traces of %s' % (len(set(res['end'])), n, path))
                ended += n
                ctx.note('events_outside_model', len(res['skip']))
                if shape not in first_diags:
                    first_diags[shape] = res['diag'][:50]
                for d in res['diag']:
                    ndiag += 1
                    (fi, bi) = [int(x) for x in d['tid'].split(':')]
                    fx = fxs[fi]
                    failing_traces.add((shape, d['tid']))
                    for fl in d['fails']:
                        # in model terms: clause, what preceded, the call, the kind of file it
                        # addressed (table = carries a boot info table), how the object came about
                        sig = {'clause': fl['clause'], 'cause': fl['cause'], 'after': sorted(fl['after']),
                               'act': d['act'], 'file': d['kind'], 'object': fx.base, 'path_kind': fx.kind,
                               'exception': d['exc']}
                        key = '%s cause=%s after=%s' % (fl['clause'], fl['cause'], '+'.join(sorted(fl['after'])))
                        clause_counts[key] = clause_counts.get(key, 0) + 1
                        detail = {'backing': fx.backing, 'units': fx.unitname, 'path_kind': fx.kind,
                                  'step': d['step'], 'exception': d['exc'], 'shape': shape}
                        rep = {'how': 'behaviour replayed by harness/check_C16.py replay(Fixture(backing, '
                                      'units, lens), behaviour); step is 1-based',
                               'lens_units': lens_of[shape], 'bytes_per_unit': fx.unit,
                               'behaviour': behs[bi], 'detail': detail}
                        ctx.violation(sig, detail, rep)
        print('[C16] TLC validated %d traces, %d events with failing clauses (%.1fs)' % (
            ended, ndiag, det.real_time() - t2), flush=True)

        # ---- 3b. TLC judges the content used for the boot-info-table files -----------------------
        (cfails, _cstats) = judge.judge('Judge_StreamContent', content_obs)
        for o in content_obs:
            for c in cfails.get(o['id'], []):
                (shape, backing, units, f) = o['id'].split('/')
                (base, pk) = split_backing(backing)
                sig = {'clause': c, 'cause': 'none', 'after': ['none'], 'act': 'Write', 'file': 'table',
                       'object': base, 'path_kind': PATHKINDS.get(pk, 'iso_path'), 'exception': ''}
                clause_counts[c] = clause_counts.get(c, 0) + 1
                detail = {'backing': backing, 'units': units, 'shape': shape, 'bytes': len(o['orig'])}
                ctx.violation(sig, detail, {
                    'how': 'Fixture(backing, units, lens, scratch, ["b"]): the image written by the twin object, the '
                           'boot file located by harness/decoders/iso9660.py; see spec/Judge_StreamContent.tla',
                    'observation': o, 'detail': detail})
        ctx.note('boot_info_table_contents_judged', len(content_obs))
        print('[C16] TLC judged the content of %d boot-info-table files, %d with failing clauses' % (
            len(content_obs), len(cfails)), flush=True)

        # ---- 4. evidence -----------------------------------------------------------------------
        ctx.coverage.update({
            'states': states,
            'transitions': transitions,
            'traces_validated_against_impl': ended,
            'exhaustive': True,
            'exhaustive_scope': 'the reachable state graph of the bounded model (TLC, all invariants) and one '
                                'replayed behaviour per transition of it on the image and added backings; longer '
                                'histories are covered by the reduced-alphabet enumeration and seeded samples',
            'rule': 'states/transitions: complete reachable graph of MC_stream (full alphabet) for shapes %s, '
                    'invariants TypeOK, ResultWithinFile, ReadAtOwnOffset, TellEqualsModelOffset and action '
                    'properties StreamsIndependent, RefusedChangesNothing, ClosedRefused checked by TLC; '
                    'behaviours = one per transition (tour) + all histories of the core alphabet of length %d '
                    '+ %d seeded -simulate behaviours of length %d per shape; each replayed on the backings '
                    'listed in fixtures and validated by Trace_Stream; shapes b* have a boot file with a boot '
                    'info table (content = Overlaid(original, table), judged by Judge_StreamContent)' % (
                        '+'.join(shapes), bd['hist_len'], bd['sim_n'], bd['sim_len']),
            'model_runs': mc_stats,
            'fixtures': fixtures_desc,
            'boot_info_table_files': {
                'fixtures': len(content_obs),
                'lengths_bytes': sorted({len(o['orig']) for o in content_obs}),
                'backings': sorted({o['id'].split('/')[1] for o in content_obs}),
                'behaviours_replayed': sum(f['behaviours'] for f in fixtures_desc if f['boot_info_table_files']),
                'content_clauses': 'Judge_StreamContent: FileOnImage, ExpectedIsOverlay, ImageHoldsOverlay, '
                                   'TableIsThere'},
            'calls_replayed': total_events,
            'traces_with_failing_clauses': len(failing_traces),
            'failing_clause_counts': clause_counts,
        })
        ctx.note('diag_events', ndiag)
        # a few actual cases: per shape the recorded trace with the most kinds of calls, and one
        # trace on which clauses failed together with what TLC said about it
        for shape in shards_by_shape:
            (done, fxs, behs) = shards_by_shape[shape]
            with open(done[0][0]) as fh:
                doc = json.load(fh)
            best = max(doc['traces'][:3000], key=lambda t: (len({e['a']['a'] for e in t['ev']}), len(t['ev'])))
            picks = [(best, None)]
            bad = [d for d in first_diags.get(shape, []) if d['tid'] in {t['id'] for t in doc['traces']}]
            if bad:
                t = [t for t in doc['traces'] if t['id'] == bad[0]['tid']][0]
                picks.append((t, [d for d in bad if d['tid'] == t['id']]))
            for (t, diags) in picks:
                (fi, bi) = [int(x) for x in t['id'].split(':')]
                smp = {'shape': shape, 'fixture': fxs[fi].describe(), 'model_behaviour': behs[bi],
                       'recorded': t['ev']}
                if diags is not None:
                    smp['trace_stream_diag'] = diags
                ctx.sample(smp)
        ctx.assumptions.extend([
            'TLC/SANY and the Json community module are trusted',
            'the harness locates returned bytes in the known content at unit-aligned positions; contents are '
            'pseudo-random with pairwise distinct units, so a located position is unique',
            'the content of a boot file with a boot info table is taken to be what the written image holds at the '
            'file\'s extent (table bytes read from the image written by a twin object, extent from the independent '
            'decoder); whether the TABLE VALUES are right is C11\'s business',
            'block sizes and read sizes are the classes {1, 7, 2048, 8192, L, L+1} / {0, 1, 2, L, L+1, None} units',
        ])
    finally:
        shutil.rmtree(scratch, ignore_errors=True)


if __name__ == '__main__':
    sys.exit(checklib.main(PID, 'model_checking', run))
