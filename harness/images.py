"""Image-level observations: independent decoders' reports + layout facts + differential runs.

Everything here computes observations; the clauses are in spec/ImageChecks.tla (TLC judges)."""
import hashlib
import io

import det
import pycdlib
from decoders import iso9660
from project import exc_class


EMPTY_SHA = hashlib.sha256(b'').hexdigest()


def raw_api(data):
    """what pycdlib itself reports for the image: per tree, raw identifiers + kind + sha."""
    iso = pycdlib.PyCdlib()
    try:
        iso.open_fp(io.BytesIO(data))
    except Exception as e:  # pylint: disable=broad-except
        return {'error': exc_class(e)}
    out = {}
    try:
        trees = [('iso', 'iso_path', iso.pvd.root_directory_record())]
        if iso.joliet_vd is not None:
            trees.append(('jol', 'joliet_path', iso.joliet_vd.root_directory_record()))
        for (ns, kw, _root) in trees:
            ents = []
            stack = [((), '/')]
            while stack:
                (mp, ap) = stack.pop()
                for c in iso.list_children(**{kw: ap}):
                    if c is None or c.is_dot() or c.is_dotdot():
                        continue
                    ident = c.file_identifier()
                    if ns == 'jol':
                        units = [int.from_bytes(ident[k:k + 2], 'big') for k in range(0, len(ident), 2)]
                        name = ident.decode('utf-16_be')
                    else:
                        units = list(ident)
                        name = ident.decode('utf-8', 'surrogateescape')
                    p = mp + (units,)
                    cap = (ap if ap != '/' else '') + '/' + name
                    if c.is_dir():
                        ents.append({'p': [list(x) for x in p], 'k': 'dir', 'sha': ''})
                        stack.append((p, cap))
                        continue
                    sha = EMPTY_SHA   # symlinks and data-less entries have no bytes
                    if not c.is_symlink() and c.inode is not None or _is_cat(iso, c):
                        buf = io.BytesIO()
                        try:
                            iso.get_file_from_iso_fp(buf, **{kw: cap})
                            sha = hashlib.sha256(buf.getvalue()).hexdigest()
                        except Exception as e:  # pylint: disable=broad-except
                            sha = '!' + exc_class(e)
                    ents.append({'p': [list(x) for x in p], 'k': 'file', 'sha': sha})
            # multi-extent files are listed once by list_children
            out[ns] = ents
    finally:
        try:
            iso.close()
        except Exception:  # pylint: disable=broad-except
            pass
    return out


def _is_cat(iso, c):
    cat = iso.eltorito_boot_catalog
    return cat is not None and any(c is r for r in cat.dirrecords)


def _kind_at(report, extra_regions, off):
    sec = off // 2048
    for vd in report['vds']:
        if vd['sector'] == sec:
            if vd['type'] in (1, 2) and 830 <= off % 2048 < 847:
                return 'vd_moddate'
            return 'vd'
    for reg in list(report['regions']) + list(extra_regions):
        if reg['start'] <= sec < reg['start'] + max(1, reg['nsect']):
            return reg['kind']
    return 'unknown'


def diff_kinds(report, extra_regions, a, b):
    """set of region kinds (of image a) that contain a byte differing between a and b."""
    kinds = set()
    if len(a) != len(b):
        kinds.add('length')
    n = min(len(a), len(b))
    if a[:n] == b[:n]:
        return sorted(kinds)
    step = 2048
    for s in range(0, n, step):
        ca = a[s:s + step]
        cb = b[s:s + step]
        if ca == cb:
            continue
        for k in range(len(ca)):
            if ca[k] != cb[k]:
                kinds.add(_kind_at(report, extra_regions, s + k))
    return sorted(kinds)


def _remaster_once(data, advance):
    iso = pycdlib.PyCdlib()
    try:
        iso.open_fp(io.BytesIO(data))
    except Exception as e:  # pylint: disable=broad-except
        return None, 'open:' + exc_class(e)
    try:
        if advance:
            det.clock.advance(advance)
        out = io.BytesIO()
        iso.write_fp(out)
        return out.getvalue(), 'ok'
    except Exception as e:  # pylint: disable=broad-except
        return None, 'write:' + exc_class(e)
    finally:
        try:
            iso.close()
        except Exception:  # pylint: disable=broad-except
            pass


def remaster(report, extra_regions, data):
    res = {}
    t = det.clock.now
    b1, r1 = _remaster_once(data, 0)
    res['fixed1'] = ['!' + r1] if b1 is None else diff_kinds(report, extra_regions, data, b1)
    if b1 is not None:
        b2, r2 = _remaster_once(b1, 0)
        res['fixed2'] = ['!' + r2] if b2 is None else diff_kinds(report, extra_regions, b1, b2)
    else:
        res['fixed2'] = []
    det.clock.set(t)
    b3, r3 = _remaster_once(data, 86400)
    res['adv1'] = ['!' + r3] if b3 is None else diff_kinds(report, extra_regions, data, b3)
    det.clock.set(t)
    return res


def extra_regions(data, report):
    """regions known to the other independent decoders (Rock Ridge continuation areas, UDF, boot)."""
    out = []
    try:
        from decoders import susp
        rep = susp.decode(data)
        for ce in rep.get('ce_areas', []):
            blk = ce.get('block') if isinstance(ce, dict) else ce[1]
            if isinstance(blk, int):
                reg = {'kind': 'rr_ce', 'owner': 'ce:%d' % blk, 'start': blk, 'nsect': 1}
                if reg not in out:
                    out.append(reg)
    except Exception:  # pylint: disable=broad-except
        pass
    try:
        from decoders import udf
        rep = udf.decode(data)
        for reg in rep.get('regions', []):
            if isinstance(reg, dict) and isinstance(reg.get('start'), int):
                r2 = {'kind': 'udf_' + str(reg.get('kind')), 'owner': str(reg.get('owner')),
                      'start': reg['start'], 'nsect': reg.get('nsect', 1)}
                if r2['kind'] == 'udf_file':
                    # file data shared with ISO9660 names: same owner as the ISO decoder uses
                    r2['owner'] = str(reg['start'])
                if r2 not in out:
                    out.append(r2)
    except Exception:  # pylint: disable=broad-except
        pass
    return out


def image_item(iid, data, wlog, bit_sectors=(), pad=0, do_remaster=True, expect=None, report=None):
    report = dict(report) if report is not None else iso9660.decode(data)
    extra = extra_regions(data, report)
    space = 0
    for vd in report['vds']:
        if vd['type'] == 1 and isinstance(vd['space'][0], int):
            space = vd['space'][0]
            break
    item = {'id': iid, 'r': report,
            'regions': list(report['regions']) + extra,
            'wlog': [[o, n] for (o, n) in wlog if o != 'truncate' and n > 0],
            'bit': list(bit_sectors), 'space': space, 'nsect': len(data) // 2048, 'rem': len(data) % 2048,
            'pad': pad, 'api': raw_api(data)}
    if expect:
        report['expect'] = expect
    if 'error' in item['api']:
        item['api'] = {}
        report['errors'] = list(report['errors']) + ['library_cannot_open']
    item['remaster'] = remaster(report, extra, data) if do_remaster else {'fixed1': [], 'fixed2': [], 'adv1': []}
    return item
