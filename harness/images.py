"""Image-level observations: independent decoders' reports + layout facts + differential runs.

Everything here computes observations; the clauses are in spec/ImageChecks.tla (TLC judges)."""
import hashlib
import io

import det
import pycdlib
from decoders import iso9660
from project import exc_class


EMPTY_SHA = hashlib.sha256(b'').hexdigest()


def raw_api(data):
    """what pycdlib itself reports for the image: per tree, raw identifiers + kind + sha."""
    iso = pycdlib.PyCdlib()
    try:
        iso.open_fp(io.BytesIO(data))
    except Exception as e:  # pylint: disable=broad-except
        return {'error': exc_class(e)}
    out = {}
    try:
        trees = [('iso', 'iso_path', iso.pvd.root_directory_record())]
        if iso.joliet_vd is not None:
            trees.append(('jol', 'joliet_path', iso.joliet_vd.root_directory_record()))
        for (ns, kw, _root) in trees:
            ents = []
            stack = [((), '/')]
            while stack:
                (mp, ap) = stack.pop()
                for c in iso.list_children(**{kw: ap}):
                    if c is None or c.is_dot() or c.is_dotdot():
                        continue
                    ident = c.file_identifier()
                    if ns == 'jol':
                        units = [int.from_bytes(ident[k:k + 2], 'big') for k in range(0, len(ident), 2)]
                        name = ident.decode('utf-16_be')
                    else:
                        units = list(ident)
                        name = ident.decode('utf-8', 'surrogateescape')
                    p = mp + (units,)
                    cap = (ap if ap != '/' else '') + '/' + name
                    if c.is_dir():
                        ents.append({'p': [list(x) for x in p], 'k': 'dir', 'sha': ''})
                        stack.append((p, cap))
                        continue
                    sha = EMPTY_SHA   # symlinks and data-less entries have no bytes
                    if not c.is_symlink() and c.inode is not None or _is_cat(iso, c):
                        buf = io.BytesIO()
                        try:
                            iso.get_file_from_iso_fp(buf, **{kw: cap})
                            sha = hashlib.sha256(buf.getvalue()).hexdigest()
                        except Exception as e:  # pylint: disable=broad-except
                            sha = '!' + exc_class(e)
                    ents.append({'p': [list(x) for x in p], 'k': 'file', 'sha': sha})
            # multi-extent files are listed once by list_children
            out[ns] = ents
    finally:
        try:
            iso.close()
        except Exception:  # pylint: disable=broad-except
            pass
    return out


def _is_cat(iso, c):
    cat = iso.eltorito_boot_catalog
    return cat is not None and any(c is r for r in cat.dirrecords)


def _kind_at(report, extra_regions, off):
    sec = off // 2048
    for vd in report['vds']:
        if vd['sector'] == sec:
            if vd['type'] in (1, 2) and 830 <= off % 2048 < 847:
                return 'vd_moddate'
            return 'vd'
    for reg in list(report['regions']) + list(extra_regions):
        if reg['start'] <= sec < reg['start'] + max(1, reg['nsect']):
            return reg['kind']
    return 'unknown'


def diff_kinds(report, extra_regions, a, b):
    """set of region kinds (of image a) that contain a byte differing between a and b."""
    kinds = set()
    if len(a) != len(b):
        kinds.add('length')
    n = min(len(a), len(b))
    if a[:n] == b[:n]:
        return sorted(kinds)
    step = 2048
    for s in range(0, n, step):
        ca = a[s:s + step]
        cb = b[s:s + step]
        if ca == cb:
            continue
        for k in range(min(len(ca), len(cb))):
            if ca[k] != cb[k]:
                kinds.add(_kind_at(report, extra_regions, s + k))
    return sorted(kinds)


def _remaster_once(data, advance):
    iso = pycdlib.PyCdlib()
    try:
        iso.open_fp(io.BytesIO(data))
    except Exception as e:  # pylint: disable=broad-except
        return None, 'open:' + exc_class(e)
    try:
        if advance:
            det.clock.advance(advance)
        out = io.BytesIO()
        iso.write_fp(out)
        return out.getvalue(), 'ok'
    except Exception as e:  # pylint: disable=broad-except
        return None, 'write:' + exc_class(e)
    finally:
        try:
            iso.close()
        except Exception:  # pylint: disable=broad-except
            pass


def remaster(report, extra_regions, data):
    res = {}
    t = det.clock.now
    b1, r1 = _remaster_once(data, 0)
    res['fixed1'] = ['!' + r1] if b1 is None else diff_kinds(report, extra_regions, data, b1)
    if b1 is not None:
        b2, r2 = _remaster_once(b1, 0)
        res['fixed2'] = ['!' + r2] if b2 is None else diff_kinds(report, extra_regions, b1, b2)
    else:
        res['fixed2'] = []
    det.clock.set(t)
    b3, r3 = _remaster_once(data, 86400)
    res['adv1'] = ['!' + r3] if b3 is None else diff_kinds(report, extra_regions, data, b3)
    det.clock.set(t)
    return res


LAST_UDF = {'rep': None}


def extra_regions(data, report):
    """regions known to the other independent decoders (Rock Ridge continuation areas, UDF, boot)."""
    out = []
    LAST_UDF['rep'] = None
    try:
        from decoders import susp
        rep = susp.decode(data)
        for ce in rep.get('ce_areas', []):
            blk = ce.get('block') if isinstance(ce, dict) else ce[1]
            if isinstance(blk, int):
                reg = {'kind': 'rr_ce', 'owner': 'ce:%d' % blk, 'start': blk, 'nsect': 1}
                if reg not in out:
                    out.append(reg)
    except Exception:  # pylint: disable=broad-except
        pass
    try:
        from decoders import udf
        rep = udf.decode(data)
        if rep.get('vrs'):
            LAST_UDF['rep'] = rep
        for reg in rep.get('regions', []):
            if isinstance(reg, dict) and isinstance(reg.get('start'), int):
                r2 = {'kind': 'udf_' + str(reg.get('kind')), 'owner': str(reg.get('owner')),
                      'start': reg['start'], 'nsect': reg.get('nsect', 1)}
                if r2['kind'] == 'udf_file':
                    # file data shared with ISO9660 names: same owner as the ISO decoder uses
                    r2['owner'] = str(reg['start'])
                if r2 not in out:
                    out.append(r2)
    except Exception:  # pylint: disable=broad-except
        pass
    return out


VRS_IDS = (b'BEA01', b'NSR02', b'NSR03', b'TEA01', b'BOOT2', b'CD001')


def orphan_sectors(data, regions, space):
    """sectors inside the declared volume that hold something (not all zero) and belong to no
    region any of the independent decoders knows (C01/C07: nothing else appears, space is released
    with the last reference).  Volume structure descriptors of the ECMA-167 recognition sequence
    are recognised by their identifier.  At most 16 sectors are reported."""
    n = min(space, len(data) // 2048)
    used = bytearray(n)
    for r in regions:
        st, ns = r.get('start'), r.get('nsect')
        if isinstance(st, int) and isinstance(ns, int) and st < n:
            for k in range(max(0, st), min(n, st + max(ns, 0))):
                used[k] = 1
    # El Torito: the catalog, and boot images that have no name in any directory.  The catalog
    # gives their first sector and the number of 512-byte sectors to load, not their length: the
    # image extends to the next object.
    try:
        from decoders import eltorito
        erep = eltorito.decode(data)
        if erep['br']['present'] and 0 < erep['br']['cat_sector'] < n:
            used[erep['br']['cat_sector']] = 1
        for e in erep['entries']:
            k = e.get('rba', -1)
            while isinstance(k, int) and 0 < k < n and not used[k]:
                used[k] = 1
                k += 1
    except Exception:  # pylint: disable=broad-except
        pass
    zero = bytes(2048)
    out = []
    for k in range(n):
        if used[k]:
            continue
        sec = data[k * 2048:(k + 1) * 2048]
        if sec == zero:
            continue
        if 16 <= k < 64 and sec[1:6] in VRS_IDS:
            continue
        out.append(k)
        if len(out) >= 16:
            break
    return out


def image_item(iid, data, wlog, bit_sectors=(), pad=0, do_remaster=True, expect=None, report=None):
    report = dict(report) if report is not None else iso9660.decode(data)
    extra = extra_regions(data, report)
    space = 0
    for vd in report['vds']:
        if vd['type'] == 1 and isinstance(vd['space'][0], int):
            space = vd['space'][0]
            break
    item = {'id': iid, 'r': report,
            'regions': list(report['regions']) + extra,
            'wlog': [[o, n] for (o, n) in wlog if o != 'truncate' and n > 0],
            'bit': list(bit_sectors), 'space': space, 'nsect': len(data) // 2048, 'rem': len(data) % 2048,
            'pad': pad, 'api': raw_api(data)}
    item['orphans'] = orphan_sectors(data, item['regions'], space)
    if expect:
        report['expect'] = expect
    if 'error' in item['api']:
        # the library cannot open its own image: that is C01's clause (OpenFails); here the
        # independent decoder's clauses are judged on their own
        item['api'] = {}
        do_remaster = False
    item['remaster'] = remaster(report, extra, data) if do_remaster else {'fixed1': [], 'fixed2': [], 'adv1': []}
    if LAST_UDF['rep'] is not None and any(x.get('id') == 'NSR02' or x.get('id') == 'NSR03' for x in LAST_UDF['rep'].get('vrs', [])):
        try:
            import check_C10
            item['udfrep'] = check_C10.judge_view(LAST_UDF['rep'])
        except Exception as e:  # pylint: disable=broad-except
            item['udfrep_error'] = type(e).__name__ + ':' + str(e)[:100]
    return item


def inplace_kinds(before, after, iso_names):
    """classify every byte that modify_file_in_place changed in the backing file (C17).
    kinds: data (sectors of the target's content), dirrec (a directory record, in any ISO9660/Joliet
    directory, that points at the target's content), udf_fe (a UDF file entry whose data is the
    target's content), vd_size (volume space size field of a volume descriptor), vd_other,
    other:<region kind>, length (file length changed)"""
    kinds = set()
    if len(before) != len(after):
        kinds.add('length')
    n = min(len(before), len(after))
    if before[:n] == after[:n]:
        return sorted(kinds)
    rep = iso9660.decode(before, hash_limit=0)
    target = [list(x.encode('latin-1')) for x in iso_names]
    ext = None
    size = 0
    for f in rep['files'].get('iso', []):
        if f['path'] == target:
            ext, size = f['extent'], f['size']
    data_secs = set()
    recs = []   # (start, end) byte ranges of directory records pointing at the content
    if isinstance(ext, int):
        nsec = max(1, (size + 2047) // 2048)
        data_secs = set(range(ext, ext + nsec))
        for ns in rep['trees']:
            for d in rep['trees'][ns]:
                for rec in d['records']:
                    if not (rec['flags'] & 2) and rec['extent'][0] == ext and isinstance(rec['size'][0], int) and rec['size'][0] > 0:
                        start = rec['sector'] * 2048 + rec['off']
                        recs.append((start, start + rec['reclen']))
    fe_secs = set()
    try:
        from decoders import udf
        urep = udf.decode(before)
        for sec in udf_fe_sectors(urep, ext):
            fe_secs.add(sec)
    except Exception:  # pylint: disable=broad-except
        pass
    vd_secs = dict((vd['sector'], vd['type']) for vd in rep['vds'])
    extra = extra_regions(before, rep)
    for s in range(0, n, 2048):
        ca = before[s:s + 2048]
        cb = after[s:s + 2048]
        if ca == cb:
            continue
        sec = s // 2048
        for k in range(len(ca)):
            if ca[k] == cb[k]:
                continue
            off = s + k
            if sec in data_secs:
                kinds.add('data')
            elif any(a <= off < b for (a, b) in recs):
                kinds.add('dirrec')
            elif sec in fe_secs:
                kinds.add('udf_fe')
            elif sec in vd_secs:
                kinds.add('vd_size' if (vd_secs[sec] in (1, 2) and 80 <= k < 88) else 'vd_other')
            else:
                kinds.add('other:' + _kind_at(rep, extra, off))
    return sorted(kinds)


def udf_fe_sectors(urep, data_extent):
    """sectors of UDF file entries whose data starts at data_extent (schema of decoders/udf.py)"""
    out = []
    part = urep.get('partition') or {}
    pstart = part.get('start') if isinstance(part, dict) else None
    for fe in urep.get('fes', []):
        if not isinstance(fe, dict):
            continue
        for ad in fe.get('ads', []):
            pos = ad.get('pos') if isinstance(ad, dict) else (ad[1] if len(ad) > 1 else None)
            if isinstance(pos, int) and isinstance(pstart, int) and pos + pstart == data_extent:
                lb = fe.get('lb')
                if isinstance(lb, int):
                    out.append(lb + pstart)
    return out
