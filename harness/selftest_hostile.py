"""Sensitivity of the C15 machinery (run by hand / by setup; not part of ./check):

 1. Judge_Hostile (TLC) must flag a fake observation with an undocumented exception, with a
    timeout, with a memory error / a peak beyond the budget, with an elapsed time beyond the budget,
    and with a fault the model never generated; it must NOT flag "ok" or a documented exception.
 2. The fault application is not vacuous: applying a TLC-generated fault changes exactly the
    inventoried bytes (and the checksum repairs make the UDF tag / El Torito checksum valid again).
 3. The runner reports what happens in the child: a hostile image known to loop is reported as a
    timeout, a valid image as ok, and no child process survives.
 4. A signature outside the listed findings is a VIOLATION (new exception type, or a listed type
    from a structure that is not listed).

usage: PYTHONPATH=/verif/harness:/repo /venv/bin/python /verif/harness/selftest_hostile.py
"""
import det; det.install()  # noqa: E702

import struct
import sys

import check_C15 as c
import checklib
import judge


def fake(i, base, faults, **kw):
    o = {'id': 'fake%d' % i, 'base': base.name, 'faults': faults, 'result': 'ok', 'elapsed_ms': 1,
         'memory_error': False, 'timeout': False, 'peak_kb': 100}
    o.update(kw)
    return o


def main():
    failures = []

    def expect(name, cond, info=''):
        print('%-72s %s' % (name, 'ok' if cond else 'FAILED %s' % (info,)))
        if not cond:
            failures.append(name)

    bases = c.build_bases(['plain1', 'udf', 'eltorito'])
    for b in bases:
        c._BASES[b.name] = b   # pylint: disable=protected-access
    base = bases[0]
    states, space, stats = c.enumerate_faults(base)
    expect('TLC enumerates the single-fault space (states = faults + 1)',
           stats['distinct'] == len(states) + 1 == space['faults'] + 1, stats)
    f1 = states[0]['faults']

    # ---- 1. the judge ---------------------------------------------------------------------------
    items = [
        fake(0, base, f1),
        fake(1, base, f1, result='PyCdlibInvalidISO'),
        fake(2, base, f1, result='PyCdlibInvalidInput'),
        fake(3, base, f1, result='PyCdlibInternalError'),
        fake(4, base, f1, result='struct.error'),
        fake(5, base, f1, result='IndexError'),
        fake(6, base, f1, result='timeout', timeout=True, elapsed_ms=5001),
        fake(7, base, f1, result='MemoryError', memory_error=True),
        fake(8, base, f1, peak_kb=131073),
        fake(9, base, f1, elapsed_ms=5001),
        fake(10, base, [dict(f1[0], kind='no_such_kind')]),
        fake(11, base, f1, result='process_died'),
        fake(12, base, f1, result='PyCdlibException'),      # the base class itself is "never thrown"
        fake(13, base, f1, peak_kb=131072, elapsed_ms=5000),   # exactly at the budgets
    ]
    fails, _ = judge.judge('Judge_Hostile', items, aux_modules={'HostileInv': c.inv_module(base)})
    want = {'fake4': ['UndocumentedException'], 'fake5': ['UndocumentedException'], 'fake6': ['Timeout'],
            'fake7': ['MemoryBlowup'], 'fake8': ['MemoryBlowup'], 'fake9': ['Timeout'],
            'fake10': ['FaultNotInModel'], 'fake11': ['UndocumentedException'],
            'fake12': ['UndocumentedException']}
    expect('Judge_Hostile flags undocumented exception / timeout / memory, passes documented ones',
           fails == want, fails)

    # ---- 2. fault application -------------------------------------------------------------------------
    bad = []
    for st in states:
        f = st['faults'][0]
        data, touched, cut = c.apply_faults(base, st['faults'])
        if f['t'] == 'truncate':
            if data != base.data[:f['at']] or cut != f['at']:
                bad.append(f)
            continue
        fld = base.by_id[f['field']]
        lo, hi = fld['offset'], fld['offset'] + fld['width']
        if data[:lo] != base.data[:lo] or data[hi:] != base.data[hi:] or len(data) != len(base.data):
            bad.append(f)
    expect('a field fault changes only the bytes of its field; a truncation only cuts (%d faults)' % len(states),
           not bad, bad[:2])
    udf = c._BASES['udf']   # pylint: disable=protected-access
    fld = [f for f in udf.fields if f['id'].endswith('part_start_location')][0]
    ft = {'t': 'mutate', 'field': fld['id'], 'kind': 'max', 'fix': True, 'at': 0, 'structure': 'udf_pd',
          'role': 'extent_pointer'}
    data, _, _ = c.apply_faults(udf, [ft])
    tag = fld['fix'][0]['at']
    crc_len = struct.unpack_from('<H', data, tag + 10)[0]
    expect('fix=TRUE re-seals the UDF tag (CRC and checksum valid on the changed descriptor)',
           struct.unpack_from('<H', data, tag + 8)[0] == c.crc_ccitt(data[tag + 16:tag + 16 + crc_len])
           and data[tag + 4] == (sum(data[tag:tag + 4]) + sum(data[tag + 5:tag + 16])) % 256
           and data[fld['offset']:fld['offset'] + 4] == b'\xff\xff\xff\xff')
    data2, _, _ = c.apply_faults(udf, [dict(ft, fix=False)])
    expect('fix=FALSE leaves the UDF tag CRC stale',
           struct.unpack_from('<H', data2, tag + 8)[0] != c.crc_ccitt(data2[tag + 16:tag + 16 + crc_len]))
    el = c._BASES['eltorito']   # pylint: disable=protected-access
    fld = [f for f in el.fields if f['id'].endswith('.platform_id') and f['structure'] == 'eltorito_validation'][0]
    data, _, _ = c.apply_faults(el, [{'t': 'mutate', 'field': fld['id'], 'kind': 'ff', 'fix': True, 'at': 0,
                                      'structure': 'eltorito_validation', 'role': 'tag_or_magic'}])
    at = fld['fix'][0]['at']
    expect('fix=TRUE re-seals the El Torito validation entry (16 words sum to 0)',
           sum(struct.unpack_from('<16H', data, at)) % 65536 == 0 and data[at + 1] == 0xff)

    # ---- 3. the runner -----------------------------------------------------------------------------------
    dot = [f for f in base.fields if f['structure'] == 'dir_record' and f['id'].endswith('.file_identifier')
           and f.get('path', '').endswith('/.')][0]
    loop = {'t': 'mutate', 'field': dot['id'], 'kind': '0xff', 'fix': False, 'at': 0, 'structure': 'dir_record',
            'role': 'char'}
    cases = [{'id': 'valid', 'base': base.name, 'faults': []},
             {'id': 'loop', 'base': base.name, 'faults': [loop]},
             {'id': 'cut', 'base': base.name, 'faults': [{'t': 'truncate', 'field': '-', 'kind': 'sector', 'fix': False,
                                                         'at': 16 * 2048, 'structure': 'pvd', 'role': 'truncate'}]}]
    obs = c.run_cases(cases)
    expect('runner: valid image -> ok, traversal digest present',
           obs['valid']['result'] == 'ok' and obs['valid']['after_open'] == 'ok' and obs['valid']['digest'], obs['valid'])
    import pycdlib
    patched = hasattr(pycdlib.PyCdlib, '_parse_fp')    # proposed fixes applied to the tree under test?
    if patched:
        expect('runner: "." renamed -> documented error (tree has the proposed fixes)',
               obs['loop']['result'] == 'PyCdlibInvalidISO', obs['loop'])
    else:
        expect('runner: "." renamed (directory contains itself) -> timeout after 5 s of processor time',
               obs['loop']['timeout'] and obs['loop']['result'] == 'timeout' and obs['loop']['elapsed_ms'] >= 4900,
               obs['loop'])
    expect('runner: image cut at the first volume descriptor -> documented PyCdlibInvalidISO',
           obs['cut']['result'] == 'PyCdlibInvalidISO' and obs['cut']['read_reached'], obs['cut'])
    import subprocess
    kids = subprocess.run(['pgrep', '-P', str(__import__('os').getpid())], stdout=subprocess.PIPE, check=False).stdout.split()
    expect('runner: no child process survives', not kids, kids)

    # ---- 4. signatures outside the findings are violations --------------------------------------------------
    known = [k for k in checklib.load_known() if k['property'] == 'C15']
    def listed(sig):
        return any(checklib.sig_matches(k['signature'], sig) for k in known)
    s_known = {'clause': 'UndocumentedException', 'exception': 'struct.error', 'structure': 'dir_record',
               'role': 'truncate', 'kind': 'struct_mid', 'field': '-'}
    expect('listed: struct.error on a truncated directory record', listed(s_known) or patched and not known)
    expect('NOT listed: a new exception type (TypeError) from the same fault',
           not listed(dict(s_known, exception='TypeError')))
    expect('NOT listed: struct.error from a structure that is not listed (vdst)',
           not listed(dict(s_known, structure='vdst')))
    expect('NOT listed: an endless loop from a structure other than a directory (path_table_L)',
           not listed({'clause': 'Timeout', 'structure': 'path_table_L', 'role': 'length', 'kind': 'max',
                       'field': 'len_di'}))
    expect('NOT listed: memory blow-up without a loop class (pvd.path_table_size huge)',
           not listed({'clause': 'MemoryBlowup', 'structure': 'pvd', 'role': 'length', 'kind': 'huge',
                       'field': 'path_table_size'}))
    print('selftest_hostile: %s' % ('all ok' if not failures else 'FAILED: %s' % failures))
    return 1 if failures else 0


if __name__ == '__main__':
    c._own_group()   # pylint: disable=protected-access
    sys.exit(main())
