"""C20 - tools round trip: pycdlib-genisoimage builds an image from a directory tree,
pycdlib-extract-files extracts it; every requested long-name view reproduces the tree, the
plain ISO9660 view shows every source file once under legal, distinct identifiers, the image
carries exactly the requested extensions and duplicate linking never changes what a path reads.

TLC (spec/MC_tools.tla) enumerates source trees x option vectors ("cases" mode) and checks the
tool's collision-numbering scheme on every sibling sequence of the name pool ("design" mode).
This module materialises every case in a scratch directory, runs the two tools (in-process via
runpy, or as real subprocesses), records what was extracted, and TLC (spec/Judge_Tools.tla)
evaluates the clauses of spec/Tools.tla.  Python decides nothing.

    ./check C20 --tier quick|thorough [--seed N] [--replay evidence/replays/C20/vNNN.json]
"""
import det
det.install()

import contextlib
import hashlib
import io
import json
import multiprocessing
import os
import random
import runpy
import shutil
import stat
import struct
import subprocess
import sys
import tempfile
import threading

import checklib
import judge
import tlc

REPO = os.environ.get('VERIF_REPO', '/repo')
GENISO = os.path.join(REPO, 'tools', 'pycdlib-genisoimage')
EXTRACT = os.path.join(REPO, 'tools', 'pycdlib-extract-files')
NPROC = 16
QUICK_CAP = 3000          # cases run in the quick tier (deterministic subsample by seed above this)
THOROUGH_CAP = 20000      # same for the thorough tier
SUBPROC_SAMPLE = 320      # thorough: cases also run through the real command lines
VIEWS = ('iso', 'rr', 'joliet', 'udf')
PATH_TYPE = {'iso': 'iso', 'rr': 'rockridge', 'joliet': 'joliet', 'udf': 'udf'}

# ---- realisation of content ids ------------------------------------------------------------
# position-dependent bytes; A and B have the same length (the duplicate scan only hashes files
# of equal size), H1/H2 are two different 22-byte strings with the same 32-bit murmur3 hash.


def _blob(tag, n):
    out = b''
    k = 0
    while len(out) < n:
        out += hashlib.sha256(b'C20-%s-%d' % (tag.encode(), k)).digest()
        k += 1
    return out[:n]


CONTENT = {'E': b'', 'A': _blob('A', 2500), 'B': _blob('B', 2500), 'C': _blob('C', 10),
           'D': _blob('D', 2048), 'H1': b'verif-c20-dup-00030924', 'H2': b'verif-c20-dup-00089203'}
SHA2ID = {hashlib.sha256(v).hexdigest(): k for k, v in CONTENT.items()}


def text(cps):
    return ''.join(chr(c) for c in cps)


def cps(s):
    return [ord(c) for c in s]


# ---- TLC: enumeration and design check -------------------------------------------------------
def mc_cfg(mode, tier, maxsib, invariant):
    cfg = ('SPECIFICATION Spec\nCONSTANTS\n Mode = "%s"\n Tier = "%s"\n MaxSib = %d\n'
           'CONSTRAINT DumpCases\nCONSTRAINT DumpDesign\nINVARIANT TreesWellFormed\n'
           'CHECK_DEADLOCK FALSE\n' % (mode, tier, maxsib))
    if invariant:
        cfg += 'INVARIANT DistinctLegalInv\n'
    return cfg


def gen_cases(tier):
    out, stats = tlc.run_tlc('MC_tools', mc_cfg('cases', tier, 0, False), workers=1, timeout=1500)
    tlc.need_ok(out, stats, 'MC_tools cases')
    cases = [v for t, v in tlc.tagged_lines(out) if t == 'CASE']
    if not cases:
        raise tlc.TlcError('MC_tools printed no cases')
    for c in cases:
        c['tree'] = sorted(c['tree'], key=lambda e: (e['p'], e['k']))
    cases.sort(key=lambda c: json.dumps(c, sort_keys=True))
    for n, c in enumerate(cases):
        c['id'] = 'c%05d' % n
    return cases, stats


def gen_design(tier):
    """TLC checks DistinctLegalInv on the transcribed numbering scheme (-continue: every
    counterexample).  returns (counterexamples, stats, violations reported by TLC)."""
    maxsib = 3
    out, stats = tlc.run_tlc('MC_tools', mc_cfg('design', tier, maxsib, True), workers=1,
                             timeout=1500, extra=['-continue'])
    if stats.get('exit') != 0 or not stats.get('completed'):
        raise tlc.TlcError('MC_tools design: TLC did not complete\n' + out[-3000:])
    des = [v for t, v in tlc.tagged_lines(out) if t == 'DESIGN']
    model = [v for t, v in tlc.tagged_lines(out) if t == 'MODEL']
    nviol = out.count('Invariant DistinctLegalInv is violated')
    if nviol != len(des):
        raise tlc.TlcError('MC_tools design: %d invariant violations but %d DESIGN lines' % (nviol, len(des)))
    stats['maxsib'] = maxsib
    for d in des:
        d['cex'] = True
    for d in model:
        d['cex'] = False
    return des + model, stats, nviol


# ---- running the tools -----------------------------------------------------------------------
def result_class(fn):
    """run fn(); returns ('ok' | 'exit:<code>' | 'exc:<class>', message)"""
    try:
        fn()
        return 'ok', ''
    except SystemExit as e:
        code = e.code
        if code is None or code == 0:
            return ('ok' if code is None else 'exit:0'), ''
        return 'exit:%s' % (code,), ''
    except BaseException as e:  # pylint: disable=broad-except
        if isinstance(e, KeyboardInterrupt):
            raise
        return 'exc:%s' % type(e).__name__, str(e)[:300]


def run_tool_inproc(path, argv):
    """runpy in this process: patched sys.argv, captured stdout, cwd restored."""
    old_argv, old_cwd = sys.argv, os.getcwd()
    sink = io.StringIO()
    sys.argv = [path] + list(argv)
    try:
        with contextlib.redirect_stdout(sink), contextlib.redirect_stderr(sink):
            res, msg = result_class(lambda: runpy.run_path(path, run_name='__main__'))
    finally:
        sys.argv = old_argv
        try:
            os.chdir(old_cwd)
        except OSError:
            pass
    return res, msg, sink.getvalue()[-600:]


def run_tool_subproc(path, argv, cwd):
    env = dict(os.environ)
    env['PYTHONPATH'] = REPO
    env['PYTHONHASHSEED'] = '0'
    env['PYTHONDONTWRITEBYTECODE'] = '1'
    p = subprocess.run([sys.executable, path] + list(argv), cwd=cwd, env=env, stdout=subprocess.PIPE,
                       stderr=subprocess.STDOUT, timeout=300, check=False)
    out = p.stdout.decode('utf-8', 'replace')
    if p.returncode == 0:
        return 'ok', '', out[-600:]
    lines = out.split('\n')
    heads = [n for n, l in enumerate(lines) if l.startswith('Traceback (most recent call last)')]
    if heads:
        # the exception line is the first unindented line after the frames of the last traceback
        # (Python >= 3.11 may print notes after it)
        for l in lines[heads[-1] + 1:]:
            if l and not l[0].isspace():
                cls = l.split(':')[0].strip().split('.')[-1]
                return 'exc:' + cls, l[:300], out[-600:]
    return 'exit:%d' % p.returncode, '', out[-600:]


def geniso_argv(opts, img, src):
    a = ['-iso-level', str(opts['level'])]
    if opts['rock'] != 'none':
        a.append('-' + opts['rock'])
    if opts['joliet']:
        a.append('-J')
    if opts['udf'] != 'none':
        a.append('-' + opts['udf'])
    if opts['dup']:
        a.append('-scan-for-duplicates')
    if opts['boot']:
        a += ['-b', text(opts['boot']), '-c', text(opts['bootcat']), '-no-emul-boot']
    if opts['fk'] != 'none':
        pat = ('*' if opts['fpat']['star'] else '') + text(opts['fpat']['lit'])
        a += [{'x': '-x', 'hide': '-hide', 'hidej': '-hide-joliet', 'hideu': '-hide-udf'}[opts['fk']], pat]
    return a + ['-o', img, src]


MTIME = 1000000000


def materialise(tree, src):
    os.mkdir(src)
    for e in sorted(tree, key=lambda e: len(e['p'])):
        p = os.path.join(src, *[text(n) for n in e['p']])
        if e['k'] == 'dir':
            os.mkdir(p)
        elif e['k'] == 'file':
            with open(p, 'wb') as f:
                f.write(CONTENT[e['c']])
        else:
            os.symlink(text(e['t']), p)
    # one timestamp on the whole tree, as after unpacking an archive or a checkout with normalised
    # times: size and mtime then say nothing about whether two files are equal
    for root, dirs, files in os.walk(src):
        for n in files + dirs:
            os.utime(os.path.join(root, n), (MTIME, MTIME), follow_symlinks=False)


def walk_extracted(top):
    ents = []
    stack = [(top, [])]
    while stack:
        d, rel = stack.pop()
        for name in sorted(os.listdir(d)):
            p = os.path.join(d, name)
            st = os.lstat(p)
            q = rel + [cps(name)]
            if stat.S_ISLNK(st.st_mode):
                ents.append({'p': q, 'k': 'symlink', 'c': '', 't': cps(os.readlink(p))})
            elif stat.S_ISDIR(st.st_mode):
                ents.append({'p': q, 'k': 'dir', 'c': '', 't': []})
                stack.append((p, q))
            else:
                h = hashlib.sha256()
                with open(p, 'rb') as f:
                    for blk in iter(lambda: f.read(1 << 20), b''):
                        h.update(blk)
                hx = h.hexdigest()
                ents.append({'p': q, 'k': 'file', 'c': SHA2ID.get(hx, '?' + hx[:10]), 't': []})
    ents.sort(key=lambda e: e['p'])
    return ents


# ---- reading the raw image (no pycdlib): extensions present, ISO9660 directory records ---------
def _ident_cps(b):
    try:
        return cps(b.decode('utf-8'))
    except UnicodeDecodeError:
        return list(b)


def raw_image(img):
    """returns ({has_rr, has_joliet, has_udf}, [{d, n, dir}]) from the bytes of the image."""
    with open(img, 'rb') as f:
        data = f.read()
    flags = {'has_rr': False, 'has_joliet': False, 'has_udf': False}
    root = None
    s = 16
    while (s + 1) * 2048 <= len(data) and s < 16 + 64:
        vd = data[s * 2048:(s + 1) * 2048]
        if vd[1:6] != b'CD001':
            break
        if vd[0] == 1 and root is None:
            root = vd[156:190]
        if vd[0] == 2 and vd[88:91] in (b'%/@', b'%/C', b'%/E'):
            flags['has_joliet'] = True
        if vd[0] == 255:
            break
        s += 1
    # ECMA-167 volume recognition sequence follows the ISO9660 descriptors
    t = s + 1
    while (t + 1) * 2048 <= len(data) and t < s + 16:
        if data[t * 2048 + 1:t * 2048 + 6] in (b'NSR02', b'NSR03'):
            flags['has_udf'] = True
        t += 1
    listing = []
    if root is None:
        return flags, listing

    def records(extent, size):
        buf = data[extent * 2048:extent * 2048 + size]
        off = 0
        while off < len(buf):
            ln = buf[off]
            if ln == 0:
                off = (off // 2048 + 1) * 2048
                continue
            rec = buf[off:off + ln]
            off += ln
            if len(rec) < 34:
                break
            lfi = rec[32]
            yield rec, rec[33:33 + lfi]

    rext, rsize = struct.unpack_from('<I', root, 2)[0], struct.unpack_from('<I', root, 10)[0]
    first = True
    for rec, name in records(rext, rsize):
        if first:
            su = rec[33 + rec[32] + (1 - rec[32] % 2):]
            # SUSP: "SP" 7 1 BE EF at the start of the system use area of the root's "." record;
            # Rock Ridge: an RR/PX/ER entry follows
            if su[:6] == b'SP\x07\x01\xbe\xef' and (b'PX' in su or b'RR' in su or b'ER' in su or b'CE' in su):
                flags['has_rr'] = True
            first = False
    seen = set()
    todo = [((), rext, rsize)]
    while todo and len(seen) < 20000:
        path, ext, size = todo.pop()
        if ext in seen:
            continue
        seen.add(ext)
        for rec, name in records(ext, size):
            if name in (b'\x00', b'\x01'):
                continue
            isdir = bool(rec[25] & 2)
            listing.append({'d': [_ident_cps(x) for x in path], 'n': _ident_cps(name), 'dir': isdir})
            if isdir:
                todo.append((path + (name,), struct.unpack_from('<I', rec, 2)[0], struct.unpack_from('<I', rec, 10)[0]))
    listing.sort(key=lambda r: (r['d'], r['n']))
    return flags, listing


def lib_flags(img):
    import pycdlib
    iso = pycdlib.PyCdlib()
    iso.open(img)
    try:
        return {'has_rr': bool(iso.has_rock_ridge()), 'has_joliet': bool(iso.has_joliet()),
                'has_udf': bool(iso.has_udf())}
    finally:
        iso.close()


def requested(view, opts):
    return {'iso': True, 'rr': opts['rock'] != 'none', 'joliet': opts['joliet'], 'udf': opts['udf'] != 'none'}[view]


def run_case(case, mode='inproc'):
    """build + extract one case; returns the observation (item for Judge_Tools)."""
    opts = case['opts']
    item = {'kind': 'case', 'id': case['id'], 'tree': case['tree'], 'opts': opts, 'build': 'ok',
            'extract': {v: 'skip' for v in VIEWS}, 'views': {v: [] for v in VIEWS}, 'isolist': [],
            'flags': {'has_rr': False, 'has_joliet': False, 'has_udf': False},
            'rawflags': {'has_rr': False, 'has_joliet': False, 'has_udf': False}}
    info = {'argv': None, 'msg': {}, 'log': {}}
    scratch = tempfile.mkdtemp(prefix='verif-c20-')
    try:
        src = os.path.join(scratch, 'src')
        img = os.path.join(scratch, 'image.iso')
        materialise(case['tree'], src)
        argv = geniso_argv(opts, img, src)
        info['argv'] = ['pycdlib-genisoimage'] + argv[:-3] + ['-o', 'image.iso', 'src']
        if mode == 'inproc':
            res, msg, log = run_tool_inproc(GENISO, argv)
        else:
            res, msg, log = run_tool_subproc(GENISO, argv, scratch)
        item['build'] = res
        if res != 'ok':
            info['msg']['build'] = msg
            info['log']['build'] = log
            return item, info
        try:
            item['flags'] = lib_flags(img)
        except Exception as e:  # pylint: disable=broad-except
            item['build'] = 'unreadable:' + type(e).__name__
            info['msg']['build'] = str(e)[:300]
            return item, info
        item['rawflags'], item['isolist'] = raw_image(img)
        for v in VIEWS:
            if not requested(v, opts):
                continue
            dest = os.path.join(scratch, 'x-' + v)
            os.mkdir(dest)
            xargv = ['-path-type', PATH_TYPE[v], '-extract-to', dest, img]
            if mode == 'inproc':
                res, msg, log = run_tool_inproc(EXTRACT, xargv)
            else:
                res, msg, log = run_tool_subproc(EXTRACT, xargv, scratch)
            if res == 'ok':
                res = 'exit:0'
            item['extract'][v] = res
            if res != 'exit:0':
                info['msg'][v] = msg
                info['log'][v] = log
            item['views'][v] = walk_extracted(dest)
    finally:
        shutil.rmtree(scratch, ignore_errors=True)
    return item, info


def _run_chunk(args):
    cases, mode = args
    out = []
    for c in cases:
        try:
            out.append(run_case(c, mode))
        except Exception as e:  # pylint: disable=broad-except
            raise RuntimeError('harness failure on case %s: %s: %s' % (c['id'], type(e).__name__, e))
    return out


def run_cases(cases, mode='inproc', nproc=NPROC):
    if not cases:
        return []
    chunks = [cases[k::nproc * 4] for k in range(nproc * 4)]
    chunks = [c for c in chunks if c]
    if len(cases) > 4000:      # long runs: smaller chunks, a progress line every ~10 %
        chunks = [cases[k:k + 40] for k in range(0, len(cases), 40)]
    ctxm = multiprocessing.get_context('fork')
    res = []
    t0 = det.real_time()
    step = max(1, len(chunks) // 10)
    with ctxm.Pool(min(nproc, len(chunks))) as pool:
        for n, part in enumerate(pool.imap_unordered(_run_chunk, [(c, mode) for c in chunks]), 1):
            res += part
            if len(cases) > 4000 and n % step == 0:
                print('  %d / %d cases run (%s, %.0fs)' % (len(res), len(cases), mode, det.real_time() - t0), flush=True)
    res.sort(key=lambda r: r[0]['id'])
    return res


# ---- the numbering scheme on the real build_iso_path ---------------------------------------------
def numbering_items(design):
    g = runpy.run_path(GENISO, run_name='verif_c20_import')
    build_iso_path, dirlevel = g['build_iso_path'], g['DirLevel']
    items = []
    for n, d in enumerate(design):
        lvl = dirlevel('/', '/', '/')
        idents = []
        for nm in d['names']:
            r = build_iso_path(lvl, text(nm), d['level'], d['isdir'])
            idents.append([] if r is None else cps(r[1:] if r.startswith('/') else r))
        items.append({'kind': 'numbering', 'id': 'n%05d' % n, 'level': d['level'], 'isdir': d['isdir'],
                      'names': d['names'], 'idents': idents, 'model_idents': d['idents'], 'spans': d['spans'],
                      'cex': d['cex']})
    return items


# ---- verdicts ---------------------------------------------------------------------------------
def clause_view(clause):
    if clause.startswith('ExtractEqualsTree_'):
        return clause.split('_', 1)[1]
    if clause == 'PlainViewOnceLegalDistinct':
        return 'iso'
    return None


def signature(item, clause, feat):
    o = item['opts']
    sig = {'clause': clause, 'build': item['build'], 'level': o['level'], 'rock': o['rock'],
           'joliet': o['joliet'], 'udf': o['udf'], 'dup': o['dup'], 'filter': o['fk']}
    v = clause_view(clause)
    if v is not None:
        sig['extract'] = item['extract'][v]
    for k, val in feat.items():
        if isinstance(val, bool):
            sig[k] = val
    return sig


def pretty_case(case):
    return {'id': case['id'], 'fam': case.get('fam'),
            'tree': [{'path': '/'.join(text(n) for n in e['p']), 'kind': e['k'], 'content': e['c'],
                      'target': text(e['t'])} for e in case['tree']],
            'opts': {k: (text(v) if isinstance(v, list) else v) for k, v in case['opts'].items() if k != 'fpat'},
            'pattern': ('*' if case['opts']['fpat']['star'] else '') + text(case['opts']['fpat']['lit'])}


def pretty_views(item):
    return {v: ['%s %s %s%s' % ('/'.join(text(n) for n in e['p']), e['k'], e['c'],
                                (' -> ' + text(e['t'])) if e['k'] == 'symlink' else '') for e in item['views'][v]]
            for v in VIEWS}


def judge_items(items):
    slim = []
    for it in items:
        slim.append({k: v for k, v in it.items() if k not in ('model_idents', 'spans', 'cex')})
    fails, stats = judge.judge_sharded('Judge_Tools', slim, shards=8)
    return fails, stats


def report(ctx, cases_by_id, results, fails, mode):
    nfail = 0
    for item, info in results:
        cl = fails.get(item['id'])
        ctx.note('cases_judged')
        if item['build'] != 'ok':
            ctx.note('build_' + item['build'])
        if not cl:
            continue
        nfail += 1
        case = cases_by_id[item['id']]
        for clause in cl:
            ctx.note('failing_' + clause)
            sig = signature(item, clause, case['feat'])
            detail = {'case': pretty_case(case), 'argv': info['argv'], 'mode': mode, 'build': item['build'],
                      'extract': item['extract'], 'messages': info['msg'], 'views': pretty_views(item),
                      'flags': item['flags'], 'rawflags': item['rawflags']}
            ctx.violation(sig, detail, {'case': case, 'mode': mode})
    return nfail


def subsample(cases, cap, seed):
    if len(cases) <= cap:
        return cases
    rnd = random.Random(seed)
    # keep at least one option vector of every tree, fill the rest uniformly
    by_tree = {}
    for c in cases:
        by_tree.setdefault(json.dumps(c['tree'], sort_keys=True), []).append(c)
    keep = {}
    for k in sorted(by_tree):
        c = rnd.choice(by_tree[k])
        keep[c['id']] = c
    rest = [c for c in cases if c['id'] not in keep]
    rnd.shuffle(rest)
    for c in rest[:max(0, cap - len(keep))]:
        keep[c['id']] = c
    return sorted(keep.values(), key=lambda c: c['id'])


def replay(ctx):
    with open(ctx.replay) as f:
        doc = json.load(f)
    rep = doc.get('replay', doc)
    case = rep['case']
    results = [run_case(case, rep.get('mode', 'inproc'))]
    fails, _ = judge_items([results[0][0]])
    print(json.dumps({'case': pretty_case(case), 'build': results[0][0]['build'],
                      'extract': results[0][0]['extract'], 'views': pretty_views(results[0][0]),
                      'failing': fails.get(case['id'], [])}, indent=1, ensure_ascii=False))
    report(ctx, {case['id']: case}, results, fails, rep.get('mode', 'inproc'))
    ctx.coverage.update({'states': 1, 'transitions': 1, 'traces_validated_against_impl': 1,
                         'rule': 'replay of one saved case'})
    ctx.sample(pretty_case(case))


def run(ctx):
    if getattr(ctx, 'replay', None):
        return replay(ctx)
    tier = ctx.tier
    # the design check runs beside the case enumeration
    box = {}

    def _design():
        try:
            box['design'] = gen_design(tier)
        except BaseException as e:  # pylint: disable=broad-except
            box['error'] = e
    th = threading.Thread(target=_design)
    th.start()
    t0 = det.real_time()
    cases, cstats = gen_cases(tier)
    total = len(cases)
    print('MC_tools cases: %d cases from %d trees (%.1fs)' % (total, cstats['distinct'], det.real_time() - t0), flush=True)
    cases = subsample(cases, QUICK_CAP if tier == 'quick' else THOROUGH_CAP, ctx.seed)
    cases_by_id = {c['id']: c for c in cases}
    t0 = det.real_time()
    results = run_cases(cases, 'inproc')
    print('ran %d cases in-process (%.1fs)' % (len(results), det.real_time() - t0), flush=True)
    sub_results = []
    if tier == 'thorough':
        rnd = random.Random(ctx.seed + 1)
        pick = sorted(rnd.sample(cases, min(SUBPROC_SAMPLE, len(cases))), key=lambda c: c['id'])
        t0 = det.real_time()
        sub_results = run_cases(pick, 'subproc')
        print('ran %d cases as subprocesses (%.1fs)' % (len(sub_results), det.real_time() - t0), flush=True)
        # the two ways of running the tools must observe the same thing
        inproc = {it['id']: it for it, _ in results}
        for it, _ in sub_results:
            if json.dumps(it, sort_keys=True) != json.dumps(inproc[it['id']], sort_keys=True):
                ctx.note('subprocess_differs_from_inprocess')
                raise RuntimeError('case %s: subprocess and in-process observations differ' % it['id'])
    th.join()
    if 'error' in box:
        raise box['error']
    design, dstats, nviol = box['design']
    nitems = numbering_items(design)
    t0 = det.real_time()
    items = [it for it, _ in results] + nitems
    fails, jstats = judge_items(items)
    print('Judge_Tools: %d observations judged (%.1fs), %d with failing clauses' % (
        len(items), det.real_time() - t0, len(fails)), flush=True)
    nfail = report(ctx, cases_by_id, results, fails, 'inproc')
    if sub_results:
        ctx.note('cases_run_as_subprocess', len(sub_results))
    # design-level counterexamples replayed on the real build_iso_path
    stale = 0
    differs = 0
    for it in nitems:
        cl = fails.get(it['id'], [])
        if 'NumberingAsModel' in cl:
            differs += 1
            ctx.note('numbering_model_differs_from_code')
        if not it['cex']:
            # a sibling sequence the model finds in order: the code must, too
            if 'NumberingDistinctLegal' in cl:
                ctx.violation({'clause': 'NumberingDistinctLegal', 'level': it['level'], 'isdir': it['isdir'],
                               'prefix_spans_separator': it['spans'], 'model_predicts': 'legal'},
                              {'names': [text(n) for n in it['names']], 'idents': [text(n) for n in it['idents']]},
                              {'numbering': it})
            continue
        if 'NumberingDistinctLegal' in cl:
            sig = {'clause': 'NumberingDistinctLegal', 'level': it['level'], 'isdir': it['isdir'],
                   'prefix_spans_separator': it['spans']}
            detail = {'level': it['level'], 'isdir': it['isdir'], 'names': [text(n) for n in it['names']],
                      'idents': [text(n) for n in it['idents']]}
            ctx.violation(sig, detail, {'numbering': it})
        else:
            stale += 1
    if stale:
        ctx.note('design_counterexamples_not_reproduced_by_code', stale)
    if differs:
        print('NOTE: Tools!MangleWithNumbering and build_iso_path disagree on %d of %d sibling sequences '
              '(the transcription in spec/Tools.tla no longer describes the code)' % (differs, len(nitems)), flush=True)
    trees = len({json.dumps(c['tree'], sort_keys=True) for c in cases})
    optv = len({json.dumps(c['opts'], sort_keys=True) for c in cases})
    ctx.coverage.update({
        'states': cstats['distinct'] + dstats['distinct'],
        'transitions': cstats['generated'] + dstats['generated'],
        'traces_validated_against_impl': len(results) + len(sub_results) + len(nitems),
        'exhaustive': total == len(cases),
        'rule': 'TLC enumerates MC_tools (focus sets of a colliding name pool x contexts x option vectors; '
                'design mode: every sibling sequence up to MaxSib x level x kind); each case is built by '
                'pycdlib-genisoimage and extracted per view by pycdlib-extract-files; Judge_Tools evaluates the clauses',
        'mc_cases': {'trees_states': cstats['distinct'], 'generated': cstats['generated'], 'cases_enumerated': total,
                     'cases_run': len(cases), 'distinct_trees_run': trees, 'distinct_option_vectors_run': optv,
                     'tlc_wall_s': cstats['wall_s']},
        'mc_design': {'states': dstats['distinct'], 'generated': dstats['generated'], 'max_siblings': dstats['maxsib'],
                      'DistinctLegalInv_counterexamples': nviol, 'sequences_replayed_on_build_iso_path': len(nitems),
                      'tlc_wall_s': dstats['wall_s']},
        'judge': {'observations': len(items), 'with_failing_clauses': len(fails),
                  'tlc_states': sum(s.get('distinct', 0) for s in jstats)},
        'clauses': ['BuildCompletes', 'ExtractEqualsTree_rr', 'ExtractEqualsTree_joliet', 'ExtractEqualsTree_udf',
                    'PlainViewOnceLegalDistinct', 'ExtensionsExactly', 'DuplicatesOnceHarmless',
                    'NumberingDistinctLegal', 'DistinctLegalInv (model)'],
        'families': {},
    })
    for c in cases:
        ctx.coverage['families'][c['fam']] = ctx.coverage['families'].get(c['fam'], 0) + 1
    ctx.note('cases_with_failing_clauses', nfail)
    ok_items = [it for it, _ in results if it['id'] not in fails]
    for it in ok_items[:: max(1, len(ok_items) // 4)][:4]:
        ctx.sample({'case': pretty_case(cases_by_id[it['id']]), 'views': pretty_views(it), 'failing': []})
    for it, _ in results:
        if it['id'] in fails:
            ctx.sample({'case': pretty_case(cases_by_id[it['id']]), 'build': it['build'], 'extract': it['extract'],
                        'failing': fails[it['id']]})
            break
    ctx.assumptions += [
        'file systems used for the scratch trees are case sensitive and store names as UTF-8',
        'the name pool has no character whose upper case is ASCII or longer than one character (C18 covers those)',
        'boot options: -b/-c/-no-emul-boot only (floppy/hard-disk emulation need exact image sizes; '
        '-boot-info-table rewrites the boot file by design)',
        'a view is judged as pycdlib-extract-files -path-type <view> writes it to disk',
    ]


if __name__ == '__main__':
    sys.exit(checklib.main('C20', 'model_checking', run))
