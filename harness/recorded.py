"""Direction B: traces recorded from the repository's own tests, validated against the model.

record()   runs the repository's integration tests under pytest with harness/pytest_record.py
           loaded (no change to the repository) and returns the recorded traces
collect()  groups the traces into consistent realisation tables (registered as dynamic tables),
           appends the Master event for traces whose last act was a write (fresh open of the written
           bytes + independent decoder, exactly as the replay harness does for generated
           behaviours) and builds the image items for Judge_Image

The traces are then judged by TLC with Trace_Model.tla like every other trace (core.run_suite,
suite "rec").
"""
import glob
import hashlib
import json
import os
import shutil
import subprocess
import sys
import tempfile

import checklib
import det
import realize

TESTS = ['tests/integration/test_new.py', 'tests/integration/test_facade.py']
MUTATORS = ('AddFp', 'AddDir', 'RmDir', 'AddHardLink', 'RmHardLink', 'RmFile', 'SetHidden', 'ClearHidden',
            'AddSymlink', 'AddEltorito', 'RmEltorito', 'DuplicatePvd', 'Outside')


def record(tests=None, always=False):
    """-> (list of trace documents incl. 'image' bytes or None, stats)"""
    repo = checklib.REPO
    out = tempfile.mkdtemp(prefix='verif-rec-')
    try:
        env = dict(os.environ, VERIF_RECORD_DIR=out, PYTHONHASHSEED='0', PYTHONDONTWRITEBYTECODE='1',
                   PYTHONPATH=os.pathsep.join([os.path.join(checklib.VERIF, 'harness'), repo]))
        env.pop('CLALANCETTE_PYCDLIB_VERIF', None)
        if always:
            env['VERIF_RECORD_ALWAYS'] = '1'
        t0 = det.real_time()
        p = subprocess.run([sys.executable, '-m', 'pytest', '-q', '-p', 'no:cacheprovider', '-p', 'pytest_record',
                            '-x', '--no-header', '-rN'] + [t for t in (tests or TESTS) if os.path.exists(os.path.join(repo, t))],
                           cwd=repo, env=env, stdout=subprocess.PIPE, stderr=subprocess.STDOUT, timeout=1500, check=False)
        tail = p.stdout.decode('utf-8', 'replace').strip().split('\n')[-1]
        docs = []
        for f in sorted(glob.glob(os.path.join(out, '*.json'))):
            with open(f) as fh:
                d = json.load(fh)
            d['image'] = None
            img = f[:-5] + '.iso'
            if d.get('image_at') is not None and os.path.exists(img):
                with open(img, 'rb') as fh:
                    d['image'] = fh.read()
            docs.append(d)
        for d in docs:
            d['pass'] = 'always' if always else 'lazy'
        stats = {'pytest_exit': p.returncode, 'pytest_summary': tail, 'traces': len(docs),
                 'wall_s': round(det.real_time() - t0, 1)}
        if not docs:
            raise RuntimeError('no trace was recorded: ' + p.stdout.decode('utf-8', 'replace')[-600:])
        return docs, stats
    finally:
        shutil.rmtree(out, ignore_errors=True)


def _compatible(tab, names, blobs, targets):
    """can the names/blobs/targets of one trace be added to the group table?"""
    real = {}
    for nid, m in tab['names'].items():
        for ns, s in m.items():
            if not s.startswith('\x7f'):
                real[(ns, s)] = nid
    for nid, m in names.items():
        cur = tab['names'].get(nid)
        for ns, s in m.items():
            if s.startswith('\x7f'):
                continue
            if real.get((ns, s), nid) != nid:
                return False
            if cur is not None and not cur[ns].startswith('\x7f') and cur[ns] != s:
                return False
    for tid, s in targets.items():
        if tab['targets'].get(tid, s) != s:
            return False
    return True


def _merge(tab, names, blobs, targets):
    for nid, m in names.items():
        cur = tab['names'].setdefault(nid, dict(m))
        for ns, s in m.items():
            if cur[ns].startswith('\x7f'):
                cur[ns] = s
    tab['blobs'].update(blobs)
    tab['targets'].update(targets)


def group(docs):
    """-> [(table dict, [docs])]: greedy grouping into tables in which every string has one id"""
    groups = []
    for d in docs:
        t = d['table']
        for (tab, members) in groups:
            if _compatible(tab, t['names'], t['blobs'], t['targets']):
                _merge(tab, t['names'], t['blobs'], t['targets'])
                members.append(d)
                break
        else:
            tab = {'names': {}, 'blobs': {}, 'targets': {}}
            _merge(tab, t['names'], t['blobs'], t['targets'])
            groups.append((tab, [d]))
    return groups


_G = {}


def _finish(args):
    """worker: trace document -> trace for Trace_Model (+ image item)"""
    import zlib
    import images
    import replay
    from decoders import iso9660
    (tabname, k) = args
    d = _G[tabname][k]
    tab = replay.get_table(tabname)
    tid = 'r' + hashlib.sha256(('%s#%s#%s' % (d['test'], d['k'], d.get('pass'))).encode()).hexdigest()[:10]
    ev = d['ev']
    t = {'id': tid, 'ev': ev, 'test': d['test'] + (' [always_consistent]' if d.get('pass') == 'always' else ''),
         'key': [d['test'], d['k'], d.get('pass')]}
    at = d.get('image_at')
    data = d.get('image')
    if data is not None and at is not None and not any(e['a']['a'] in MUTATORS and e['res'] == 'ok' for e in ev[at + 1:]) \
            and ev[-1]['res'] != 'Unsupported':
        (ores, v) = replay.open_view(data, tab)
        m = {'a': {'a': 'Master'}, 'res': 'ok', 'wres': 'ok', 'ores': ores, 'o': v, 'base': 'none', 'basekind': 'none'}
        rep = iso9660.decode(data)
        if v is not None:
            v['dec'] = replay.dec_obs(rep, tab, data)
        ev.append(m)
        t['image_sha'] = hashlib.sha256(data).hexdigest()
        hyb = any(e['a']['a'] == 'Outside' and e['res'] == 'ok' for e in ev)
        # (directories relocated by Rock Ridge: the plain ECMA-119 reading of such an image is not
        # what the clauses of Volume.tla describe; C08 judges those images with Susp.tla)
        deep = bool(ev[0]['a'].get('cfg', {}).get('rr')) and any(len(e['a'].get('iso', [])) > 7 for e in ev)
        if not hyb and not deep:
            bits = [x['x'] for x in (v['dec']['iso'] if v is not None else []) if x['b'].startswith('bit:')]
            cfg = ev[0]['a'].get('cfg', {})
            t['item'] = images.image_item(tid, data, [], bit_sectors=bits, report=rep,
                                          do_remaster=(zlib.crc32(tid.encode()) % 2 == 0),
                                          expect={'joliet': cfg.get('joliet', 0), 'level': cfg.get('level', 1)})
            t['sha'] = hashlib.sha256(data).hexdigest()
    return t


def collect(tests=None, procs=16):
    """-> ([(table name, [traces])], stats)"""
    import multiprocessing
    docs, stats = record(tests)
    docs2, stats2 = record(tests, always=True)
    stats['always_pass'] = stats2
    docs += docs2
    groups = group(docs)
    out = []
    for gi, (tab, members) in enumerate(groups):
        tabname = 'dyn:rec%d' % gi
        realize.DYNAMIC[tabname] = realize.Table(tab)
        _G[tabname] = members
    ctx = multiprocessing.get_context('fork')
    for gi, (tab, members) in enumerate(groups):
        tabname = 'dyn:rec%d' % gi
        with ctx.Pool(procs, initializer=det.install) as pool:
            traces = pool.map(_finish, [(tabname, k) for k in range(len(members))], chunksize=4)
        out.append((tabname, traces))
    # C06: the image a scenario writes does not depend on when the metadata was recomputed - the
    # always-consistent pass must produce the bytes of the lazy pass (clause ScheduleDiff)
    lazy = dict(((t['key'][0], t['key'][1]), t.get('image_sha')) for _, ts in out for t in ts if t['key'][2] == 'lazy')
    stats['schedule_pairs'] = 0
    for _, ts in out:
        for t in ts:
            if t['key'][2] == 'always' and t.get('image_sha') and lazy.get((t['key'][0], t['key'][1])):
                m = t['ev'][-1]
                m['basekind'] = 'sched'
                m['base'] = 'same' if lazy[(t['key'][0], t['key'][1])] == t['image_sha'] else 'differs'
                stats['schedule_pairs'] += 1
    stats['tables'] = len(groups)
    stats['names'] = sum(len(t['names']) for t, _ in groups)
    stats['mastered'] = sum(1 for _, ts in out for t in ts if t['ev'][-1]['a']['a'] == 'Master')
    stats['unsupported_tail'] = sum(1 for _, ts in out for t in ts if t['ev'][-1]['res'] == 'Unsupported')
    _G.clear()
    return out, stats
