"""pytest plugin: record what the repository's own tests do to PyCdlib objects, in model terms.

Loaded with `-p pytest_record` (PYTHONPATH=/verif/harness:<repo>); nothing in the repository is
changed.  Every *outermost* call of a public PyCdlib method on an object that was created with
new() becomes one event {a: model action, res: result class, o: projection of the live object}
(harness/project.peek - reads fields only, so observing does not change the schedule).  Names and
contents are turned into ids of a realisation table that grows with the trace (one table per
trace, written with it).  A call the model has no action for ends the trace with an
"Unsupported" event: the prefix is still validated.  Written images are kept next to the trace;
harness/recorded.py turns them into the Master event (fresh open + independent decoder).

The recorder decides nothing: TLC (Trace_Model.tla) judges the traces.
"""
import functools
import hashlib
import io
import json
import os

import pycdlib

import project
import realize

OUT = os.environ.get('VERIF_RECORD_DIR')
MAX_BLOB = 1 << 20       # contents up to this size are kept with the trace
MAX_IMAGE = 64 << 20

_recs = {}        # id(PyCdlib object) -> Rec
_done = []        # finished Rec objects of the current test
_current = [None]
_depth = [0]


def _ident(s):
    """readable, TLA-safe rendering of an identifier string"""
    if s and all(c.isalnum() or c in '._;-' for c in s) and s.isascii():
        return s
    return 'x' + s.encode('utf-8', 'surrogatepass').hex()


def _comps(path):
    return [c for c in path.split('/') if c]


class Rec(object):
    def __init__(self, test, obj):
        self.test = test
        self.obj = obj           # (keeps the object alive: ids are not reused within a test)
        self.tab = realize.Table({'names': {}, 'blobs': {}, 'targets': {}})
        self.ev = []
        self.rock_ridge = False
        self.dead = False        # an unsupported call ended the trace
        self.image = None        # (index of the write event, bytes)
        self.notes = []

    # ---- ids ------------------------------------------------------------------------------
    def name_id(self, group):
        """group: {ns: string} of identifiers that name the same entry in different namespaces.
        One id with these realisations (the id is a function of the strings, so that traces can
        share a table); None when a string is already bound to another id."""
        tab = self.tab
        found = set(tab.rev[ns][s] for ns, s in group.items() if s in tab.rev[ns])
        if len(found) > 1:
            return None
        if found:
            nid = found.pop()
            for ns, s in group.items():
                cur = tab.names[nid][ns]
                if cur.startswith('\x7f'):
                    tab.names[nid][ns] = s
                    tab.rev[ns][s] = nid
                elif cur != s:
                    return None
            return nid
        for ns, tag in (('iso', 'i'), ('jol', 'j'), ('udf', 'u'), ('rr', 'r')):
            if ns in group:
                nid = tag + ':' + _ident(group[ns])
                break
        else:
            return None
        if nid in tab.names:
            return None
        tab.names[nid] = {}
        for ns in ('iso', 'rr', 'jol', 'udf'):
            # (a namespace in which the entry has no name gets a placeholder that nothing uses)
            s = group.get(ns, '\x7f' + nid)
            tab.names[nid][ns] = s
            tab.rev[ns][s] = nid
        return nid

    def paths(self, iso=None, rr=None, jol=None, udf=None):
        """API paths -> {ns: [ids]} (None when the strings cannot be given consistent ids).  The
        components of the paths are matched by position from the end: the last components name the
        entry itself, the ones before it its ancestors."""
        comps = {}
        if iso:
            comps['iso'] = _comps(iso)
        if jol:
            comps['jol'] = _comps(jol)
        if udf:
            comps['udf'] = _comps(udf)
        out = dict((ns, []) for ns in comps)
        depth = max([len(c) for c in comps.values()] or [0])
        for back in range(1, depth + 1):
            group = {}
            for ns, c in comps.items():
                if len(c) >= back:
                    group[ns] = c[-back]
            if back == 1 and rr and 'iso' in comps:
                group['rr'] = rr
            nid = self.name_id(group)
            if nid is None:
                # the strings of this call do not belong together: give each namespace its own id
                for ns, c in comps.items():
                    if len(c) >= back:
                        g1 = {ns: c[-back]}
                        if ns == 'iso' and 'rr' in group:
                            g1['rr'] = group['rr']
                        one = self.name_id(g1)
                        if one is None:
                            return None
                        out[ns].insert(0, one)
                continue
            for ns in comps:
                if len(comps[ns]) >= back:
                    out[ns].insert(0, nid)
        return out

    def blob_id(self, data):
        tab = self.tab
        h = hashlib.sha256(data).hexdigest()
        if h in tab.sha:
            return tab.sha[h]
        bid = 'b' + h[:12]
        tab.blobs[bid] = {'hex': data.hex()} if len(data) <= MAX_BLOB else {'len': len(data), 'sha': h}
        tab.blobdata[bid] = data if len(data) <= MAX_BLOB else b''
        tab.sha[h] = bid
        return bid

    def target_id(self, s):
        tab = self.tab
        if s in tab.rev_t:
            return tab.rev_t[s]
        tid = 't:' + _ident(s)
        tab.targets[tid] = s
        tab.rev_t[s] = tid
        return tid


def _p(d, ns):
    return d[ns] if d and ns in d else ['-']


def _single(rec, kw, keys):
    """exactly one of the path keywords -> (ns, ids)"""
    given = [(k, kw[k]) for k in keys if kw.get(k)]
    if len(given) != 1:
        return None
    k, v = given[0]
    ns = {'iso_path': 'iso', 'joliet_path': 'jol', 'udf_path': 'udf', 'rr_path': 'rrv'}[k]
    if ns == 'rrv':
        ids = []
        for c in _comps(v):
            if c not in rec.tab.rev['rr']:
                return None
            ids.append(rec.tab.rev['rr'][c])
        return ('rrv', ids)
    d = rec.paths(**{{'iso': 'iso', 'jol': 'jol', 'udf': 'udf'}[ns]: v})
    if d is None:
        return None
    return (ns, d[ns])


def _bind(fn, args, kwargs):
    import inspect
    ba = inspect.signature(fn).bind(*args, **kwargs)
    ba.apply_defaults()
    kw = dict(ba.arguments)
    kw.pop('self', None)
    extra = kw.pop('kwargs', None)
    if extra:
        kw.update(extra)
    return kw


# ---- call -> model action (None = unsupported) ------------------------------------------------
def act_new(rec, iso, kw):
    if kw.get('log_block_size', 2048) != 2048:
        return None
    j = kw.get('joliet')
    j = 3 if j is True else (j or 0)
    rr = kw.get('rock_ridge') or ''
    udf = kw.get('udf')
    if udf not in (None, '2.60') or j not in (0, 1, 2, 3) or rr not in ('', '1.09', '1.10', '1.12'):
        return None
    rec.rock_ridge = bool(rr)
    return {'a': 'New', 'cfg': {'level': kw.get('interchange_level', 1), 'joliet': j, 'rr': rr,
                                'udf': bool(udf), 'xa': bool(kw.get('xa'))},
            'mode': 'always' if getattr(iso, '_always_consistent', False) else 'lazy'}


def _content(kw):
    if 'filename' in kw:
        with open(kw['filename'], 'rb') as f:
            return f.read()
    fp = kw['fp']
    pos = fp.tell()
    data = fp.read(kw['length'])
    fp.seek(pos)
    return data if len(data) == kw['length'] else None


def act_add_fp(rec, iso, kw):
    if kw.get('file_mode') is not None:
        return None
    if kw.get('length', 0) > MAX_IMAGE:
        return None
    data = _content(kw)
    if data is None:
        return None
    d = rec.paths(iso=kw.get('iso_path'), rr=kw.get('rr_name'), jol=kw.get('joliet_path'), udf=kw.get('udf_path'))
    if d is None:
        return None
    if kw.get('iso_path') and bool(kw.get('rr_name')) != bool(iso.rock_ridge):
        return None     # (the model passes a Rock Ridge name exactly when the image has Rock Ridge)
    return {'a': 'AddFp', 'blob': rec.blob_id(data), 'iso': _p(d, 'iso'), 'jol': _p(d, 'jol'), 'udf': _p(d, 'udf')}


def act_add_directory(rec, iso, kw):
    if kw.get('file_mode') is not None:
        return None
    d = rec.paths(iso=kw.get('iso_path'), rr=kw.get('rr_name'), jol=kw.get('joliet_path'), udf=kw.get('udf_path'))
    if d is None:
        return None
    if kw.get('iso_path') and bool(kw.get('rr_name')) != bool(iso.rock_ridge):
        return None
    return {'a': 'AddDir', 'iso': _p(d, 'iso'), 'jol': _p(d, 'jol'), 'udf': _p(d, 'udf')}


def act_rm_directory(rec, iso, kw):
    d = rec.paths(iso=kw.get('iso_path'), rr=kw.get('rr_name'), jol=kw.get('joliet_path'), udf=kw.get('udf_path'))
    if d is None:
        return None
    return {'a': 'RmDir', 'iso': _p(d, 'iso'), 'jol': _p(d, 'jol'), 'udf': _p(d, 'udf')}


def act_add_joliet_directory(rec, iso, kw):
    d = rec.paths(jol=kw.get('joliet_path'))
    return None if d is None else {'a': 'AddDir', 'iso': ['-'], 'jol': d['jol'], 'udf': ['-']}


def act_rm_joliet_directory(rec, iso, kw):
    d = rec.paths(jol=kw.get('joliet_path'))
    return None if d is None else {'a': 'RmDir', 'iso': ['-'], 'jol': d['jol'], 'udf': ['-']}


def act_rm_file(rec, iso, kw):
    if kw.get('rr_name'):
        kw = dict(kw, rr_name=None)
    one = _single(rec, kw, ('iso_path', 'joliet_path', 'udf_path'))
    return None if one is None else {'a': 'RmFile', 'ns': one[0], 'p': one[1]}


def act_rm_hard_link(rec, iso, kw):
    one = _single(rec, kw, ('iso_path', 'joliet_path', 'udf_path'))
    return None if one is None else {'a': 'RmHardLink', 'ns': one[0], 'p': one[1]}


def act_hidden(name):
    def f(rec, iso, kw):
        one = _single(rec, kw, ('iso_path', 'rr_path', 'joliet_path'))
        return None if one is None else {'a': name, 'ns': one[0], 'p': one[1]}
    return f


def act_add_hard_link(rec, iso, kw):
    olds = [(k, kw[k]) for k in ('iso_old_path', 'joliet_old_path', 'udf_old_path') if kw.get(k)]
    news = [(k, kw[k]) for k in ('iso_new_path', 'joliet_new_path', 'udf_new_path') if kw.get(k)]
    cat = bool(kw.get('boot_catalog_old'))
    if len(news) != 1 or len(olds) + (1 if cat else 0) != 1:
        return None
    nsof = {'iso': 'iso', 'jol': 'jol', 'udf': 'udf'}
    nk, nv = news[0]
    nns = {'iso_new_path': 'iso', 'joliet_new_path': 'jol', 'udf_new_path': 'udf'}[nk]
    if nns == 'iso' and bool(kw.get('rr_name')) != bool(iso.rock_ridge):
        return None
    dn = rec.paths(**{nsof[nns]: nv, 'rr': kw.get('rr_name') if nns == 'iso' else None})
    if dn is None:
        return None
    if cat:
        return {'a': 'AddHardLink', 'ons': 'bootcat', 'old': ['-'], 'nns': nns, 'new': dn[nns]}
    ok_, ov = olds[0]
    ons = {'iso_old_path': 'iso', 'joliet_old_path': 'jol', 'udf_old_path': 'udf'}[ok_]
    do = rec.paths(**{nsof[ons]: ov})
    if do is None:
        return None
    return {'a': 'AddHardLink', 'ons': ons, 'old': do[ons], 'nns': nns, 'new': dn[nns]}


def act_add_symlink(rec, iso, kw):
    if kw.get('joliet_path'):
        return None
    iso_p = kw.get('symlink_path')
    udf_p = kw.get('udf_symlink_path')
    if iso_p and not (kw.get('rr_symlink_name') and kw.get('rr_path')):
        return None
    targets = set(t for t in (kw.get('rr_path') if iso_p else None, kw.get('udf_target') if udf_p else None) if t)
    if len(targets) != 1:
        return None
    d = rec.paths(iso=iso_p, rr=kw.get('rr_symlink_name'), udf=udf_p)
    if d is None:
        return None
    return {'a': 'AddSymlink', 'iso': _p(d, 'iso'), 'jol': ['-'], 'udf': _p(d, 'udf'), 't': rec.target_id(targets.pop())}


def act_add_eltorito(rec, iso, kw):
    # the model's add_eltorito: a plain entry; the first call names the catalog in every namespace
    # the image has
    # (platform, EFI flag, load size/segment and the bootable flag are fields of the catalog entry:
    # C11's model; a boot info table changes what the boot file reads as: not in this model)
    if kw.get('boot_info_table'):
        return None
    db = rec.paths(iso=kw.get('bootfile_path'))
    if db is None:
        return None
    if iso.eltorito_boot_catalog is not None:
        return {'a': 'AddEltorito', 'boot': db['iso'], 'cat': ['-'], 'media': kw.get('media_name', 'noemul')}
    cat = kw.get('bootcatfile') or '/BOOT.CAT;1'
    rrcat = None
    if iso.rock_ridge:
        rrcat = kw.get('rr_bootcatname') or 'boot.cat'
    if (iso.joliet_vd is not None) != bool(kw.get('joliet_bootcatfile')):
        return None
    if (iso.udf_root is not None) != bool(kw.get('udf_bootcatfile')):
        return None
    dc = rec.paths(iso=cat, rr=rrcat, jol=kw.get('joliet_bootcatfile'), udf=kw.get('udf_bootcatfile'))
    if dc is None or any(dc[ns] != dc['iso'] for ns in dc):
        return None
    return {'a': 'AddEltorito', 'boot': db['iso'], 'cat': dc['iso'], 'media': kw.get('media_name', 'noemul')}


def act_const(name):
    return lambda rec, iso, kw: {'a': name}


ACTIONS = {
    'new': act_new, 'add_fp': act_add_fp, 'add_file': act_add_fp, 'add_directory': act_add_directory,
    'rm_directory': act_rm_directory, 'add_joliet_directory': act_add_joliet_directory,
    'rm_joliet_directory': act_rm_joliet_directory, 'rm_file': act_rm_file, 'rm_hard_link': act_rm_hard_link,
    'add_hard_link': act_add_hard_link, 'add_symlink': act_add_symlink, 'add_eltorito': act_add_eltorito,
    'rm_eltorito': act_const('RmEltorito'), 'set_hidden': act_hidden('SetHidden'),
    'clear_hidden': act_hidden('ClearHidden'), 'duplicate_pvd': act_const('DuplicatePvd'),
    'force_consistency': act_const('ForceConsistency'), 'close': None,
    'write': act_const('Write'), 'write_fp': act_const('Write'),
    # calls outside the abstract image (the model treats them as steps that change nothing)
    'add_isohybrid': act_const('Outside'), 'rm_isohybrid': act_const('Outside'),
    'set_relocated_name': None, 'modify_file_in_place': None, 'open': None, 'open_fp': None,
}
# read-only calls are not events (they may recompute metadata: that is C06's business, checked by
# the schedule suite); they are counted
READERS = ('get_file_from_iso', 'get_file_from_iso_fp', 'get_and_write', 'get_and_write_fp', 'walk',
           'open_file_from_iso', 'full_path_from_dirrecord', 'list_dir', 'file_mode', 'has_rock_ridge',
           'has_joliet', 'has_udf', 'get_entry')


def _result(e):
    return project.exc_class(e)


def _observe(rec, iso):
    if not getattr(iso, '_initialized', False):
        return None
    try:
        return project.peek(iso, rec.tab)
    except Exception as e:  # pylint: disable=broad-except
        return {'peek_error': type(e).__name__ + ':' + str(e)[:100]}


def _wrap(name, orig):
    @functools.wraps(orig)
    def wrapper(self, *args, **kwargs):
        if _depth[0] > 0 or _current[0] is None:
            return orig(self, *args, **kwargs)
        rec = _recs.get(id(self))
        if name == 'new':
            rec = Rec(_current[0], self)
            _recs[id(self)] = rec
            _done.append(rec)
        if rec is None or rec.dead or rec.obj is not self:
            return orig(self, *args, **kwargs)
        if name == 'close':
            rec.dead = True       # the trace ends where the object is closed
            return orig(self, *args, **kwargs)
        try:
            kw = _bind(orig, (self,) + args, kwargs)
            fn = ACTIONS.get(name)
            act = fn(rec, self, kw) if fn is not None else None
        except Exception as e:  # pylint: disable=broad-except
            act = None
            rec.notes.append('mapping:%s:%s' % (name, type(e).__name__))
        if act is None:
            rec.ev.append({'a': {'a': 'Unsupported', 'call': name}, 'res': 'Unsupported', 'o': None})
            rec.dead = True
            return orig(self, *args, **kwargs)
        _depth[0] += 1
        res = 'ok'
        try:
            return orig(self, *args, **kwargs)
        except Exception as e:
            res = _result(e)
            raise
        finally:
            _depth[0] -= 1
            try:
                rec.ev.append({'a': act, 'res': res, 'o': _observe(rec, self)})
                if act['a'] == 'Write' and res == 'ok':
                    data = None
                    if name == 'write_fp' and hasattr(kw.get('outfp'), 'getvalue'):
                        data = kw['outfp'].getvalue()
                    elif name == 'write' and os.path.getsize(kw['filename']) <= MAX_IMAGE:
                        with open(kw['filename'], 'rb') as f:
                            data = f.read()
                    if data is not None and len(data) <= MAX_IMAGE:
                        rec.image = (len(rec.ev) - 1, data)
            except Exception as e:  # pylint: disable=broad-except
                rec.notes.append('record:%s:%s' % (name, type(e).__name__))
                rec.dead = True
    return wrapper


def pytest_configure(config):  # pylint: disable=unused-argument
    if not OUT:
        return
    os.makedirs(OUT, exist_ok=True)
    if os.environ.get('VERIF_RECORD_ALWAYS') == '1':
        # second pass: the same scenarios on objects that keep their metadata consistent after
        # every call (the tests never ask for it; C06 says it must not matter)
        init = pycdlib.PyCdlib.__init__

        @functools.wraps(init)
        def eager(self, always_consistent=False):  # pylint: disable=unused-argument
            init(self, always_consistent=True)
        pycdlib.PyCdlib.__init__ = eager
    # one clock for the whole run: the images the tests write are then reproducible, and re-mastering
    # them (C05) compares like with like
    import det
    det.install()
    for name in list(ACTIONS):
        orig = getattr(pycdlib.PyCdlib, name, None)
        if orig is not None:
            setattr(pycdlib.PyCdlib, name, _wrap(name, orig))


def pytest_runtest_setup(item):
    import det
    det.reset()
    _current[0] = item.nodeid
    del _done[:]
    _recs.clear()


def pytest_runtest_teardown(item):
    if not OUT or _current[0] is None:
        return
    test = _current[0]
    _current[0] = None
    k = 0
    for rec in _done:
        if len(rec.ev) < 2:
            continue
        k += 1
        stem = hashlib.sha256(('%s#%d' % (test, k)).encode()).hexdigest()[:20]
        doc = {'test': test, 'k': k, 'table': {'names': rec.tab.names, 'blobs': rec.tab.blobs, 'targets': rec.tab.targets},
               'ev': rec.ev, 'notes': rec.notes, 'image_at': None}
        if rec.image is not None:
            doc['image_at'] = rec.image[0]
            with open(os.path.join(OUT, stem + '.iso'), 'wb') as f:
                f.write(rec.image[1])
        with open(os.path.join(OUT, stem + '.json'), 'w') as f:
            json.dump(doc, f)
    del _done[:]
    _recs.clear()
