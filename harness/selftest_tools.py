"""Sensitivity of the C20 judge (spec/Judge_Tools.tla): doctored observations must fail the
expected clause, and only then.

A real observation of a tree that round-trips cleanly (built and extracted by the two tools) is
taken as the base; one field at a time is falsified and TLC must name the clause.

    PYTHONPATH=/verif/harness:/repo /venv/bin/python /verif/harness/selftest_tools.py
"""
import det
det.install()

import copy
import sys

import check_C20 as c20
import judge

cps = c20.cps


def entry(path, kind, content='', target=''):
    return {'p': [cps(x) for x in path.split('/')], 'k': kind, 'c': content, 't': cps(target)}


def opts(**kw):
    o = {'level': 1, 'rock': 'r', 'joliet': True, 'udf': 'none', 'dup': False, 'boot': [],
         'bootcat': cps('boot.cat'), 'fk': 'none', 'fpat': {'star': False, 'lit': []}}
    o.update(kw)
    return o


def find(view, path):
    for e in view:
        if e['p'] == [cps(x) for x in path.split('/')]:
            return e
    raise KeyError(path)


def main():
    tree = [entry('sub', 'dir'), entry('sub/longfilename1.txt', 'file', 'A'), entry('sub/longfilename2.txt', 'file', 'B'),
            entry('file.txt', 'file', 'A'), entry('empty', 'file', 'E'), entry('lnk', 'symlink', '', 'file.txt')]
    tree.sort(key=lambda e: (e['p'], e['k']))
    base_rj, _ = c20.run_case({'id': 'base-rj', 'tree': tree, 'opts': opts()})
    tree2 = [e for e in tree if e['k'] != 'symlink']
    base_all, _ = c20.run_case({'id': 'base-all', 'tree': tree2, 'opts': opts(udf='udf', dup=True, level=3)})

    tests = []   # (id, item, expected failing clauses)

    def add(name, base, expect, fn):
        it = copy.deepcopy(base)
        it['id'] = name
        fn(it)
        tests.append((name, it, set(expect)))

    add('clean-rr-joliet', base_rj, [], lambda it: None)
    add('clean-all-dup', base_all, [], lambda it: None)

    # one extracted file with the wrong content id
    add('rr-wrong-content', base_rj, ['ExtractEqualsTree_rr'],
        lambda it: find(it['views']['rr'], 'sub/longfilename1.txt').update(c='B'))
    add('udf-wrong-content-dup', base_all, ['ExtractEqualsTree_udf', 'DuplicatesOnceHarmless'],
        lambda it: find(it['views']['udf'], 'file.txt').update(c='B'))
    add('joliet-unknown-content', base_rj, ['ExtractEqualsTree_joliet'],
        lambda it: find(it['views']['joliet'], 'file.txt').update(c='?0123456789'))
    # one missing path / one extra path / wrong kind
    add('joliet-missing-path', base_rj, ['ExtractEqualsTree_joliet'],
        lambda it: it['views']['joliet'].remove(find(it['views']['joliet'], 'sub/longfilename2.txt')))
    add('rr-extra-path', base_rj, ['ExtractEqualsTree_rr'],
        lambda it: it['views']['rr'].append(entry('stray', 'file', 'A')))
    add('udf-dir-as-file', base_all, ['ExtractEqualsTree_udf'],
        lambda it: find(it['views']['udf'], 'empty').update(k='dir', c=''))
    # symbolic links
    add('rr-wrong-link-target', base_rj, ['ExtractEqualsTree_rr'],
        lambda it: find(it['views']['rr'], 'lnk').update(t=cps('other')))
    add('rr-link-missing', base_rj, ['ExtractEqualsTree_rr'],
        lambda it: it['views']['rr'].remove(find(it['views']['rr'], 'lnk')))
    add('joliet-link-absent-is-silent', base_rj, [],
        lambda it: it['views']['joliet'].remove(find(it['views']['joliet'], 'lnk')))
    add('joliet-link-with-content', base_rj, ['ExtractEqualsTree_joliet'],
        lambda it: find(it['views']['joliet'], 'lnk').update(c='A'))
    # extraction crashed
    add('rr-extract-crash', base_rj, ['ExtractEqualsTree_rr'],
        lambda it: it['extract'].update(rr='exc:AttributeError'))

    # plain ISO9660 view
    def dup_ident(it):
        it['isolist'].append(copy.deepcopy(it['isolist'][0]))
    add('iso-duplicate-identifier', base_rj, ['PlainViewOnceLegalDistinct'], dup_ident)

    def illegal_listing(it):
        r = [x for x in it['isolist'] if not x['dir']][0]
        r['n'] = cps('FILE.000.TXT;1')
    add('iso-illegal-identifier-in-image', base_rj, ['PlainViewOnceLegalDistinct'], illegal_listing)

    def illegal_view(it):
        e = [x for x in it['views']['iso'] if x['k'] == 'file' and len(x['p']) == 1][0]
        e['p'] = [cps('lowercase.txt;1')]
    add('iso-illegal-identifier-extracted', base_rj, ['PlainViewOnceLegalDistinct'], illegal_view)

    def iso_twice(it):
        e = copy.deepcopy(find(it['views']['iso'], 'FILE.TXT;1'))
        e['p'] = [cps('FILE2.TXT;1')]
        it['views']['iso'].append(e)
    add('iso-file-twice', base_rj, ['PlainViewOnceLegalDistinct'], iso_twice)
    add('iso-file-missing', base_rj, ['PlainViewOnceLegalDistinct'],
        lambda it: it['views']['iso'].remove(find(it['views']['iso'], 'FILE.TXT;1')))

    def iso_swapped(it):
        # the two colliding files of sub/ exchange places with the root file: same bag of contents
        # overall, but the hierarchy no longer matches the source
        find(it['views']['iso'], 'FILE.TXT;1').update(c='B')
        for e in it['views']['iso']:
            if len(e['p']) == 2 and e['k'] == 'file' and e['c'] == 'B':
                e['c'] = 'A'
    add('iso-content-in-wrong-directory', base_rj, ['PlainViewOnceLegalDistinct'], iso_swapped)

    # extensions
    add('flag-joliet-missing', base_rj, ['ExtensionsExactly'], lambda it: it['flags'].update(has_joliet=False))
    add('rawflag-udf-unrequested', base_rj, ['ExtensionsExactly'], lambda it: it['rawflags'].update(has_udf=True))
    # duplicates
    add('dup-iso-content-changed', base_all, ['PlainViewOnceLegalDistinct', 'DuplicatesOnceHarmless'],
        lambda it: find(it['views']['iso'], 'FILE.TXT;1').update(c='B'))
    # build
    add('build-crash', base_rj, ['BuildCompletes'], lambda it: it.update(build='exc:PyCdlibInvalidInput'))

    # numbering observations
    def numbering(name, names, idents, level, isdir, expect):
        tests.append((name, {'kind': 'numbering', 'id': name, 'level': level, 'isdir': isdir,
                             'names': [cps(n) for n in names], 'idents': [cps(n) for n in idents]}, set(expect)))
    numbering('num-ok', ['longfilename1.txt', 'longfilename2.txt'], ['LONGFILE.TXT;1', 'LONGF000.TXT;1'], 1, False, [])
    numbering('num-duplicate', ['longfilename1.txt', 'longfilename2.txt'], ['LONGFILE.TXT;1', 'LONGFILE.TXT;1'], 1, False,
              ['NumberingDistinctLegal', 'NumberingAsModel'])
    numbering('num-illegal', ['ab', 'AB'], ['AB.;1', 'AB.;1000.;1'], 1, False, ['NumberingDistinctLegal'])
    numbering('num-repaired-scheme', ['ab', 'AB'], ['AB.;1', 'AB000.;1'], 1, False, ['NumberingAsModel'])
    numbering('num-none', ['sub', 'SUB'], ['SUB', ''], 2, True, ['NumberingDistinctLegal', 'NumberingAsModel'])

    for base in (base_rj, base_all):
        if base['build'] != 'ok':
            print('selftest: base case did not build: %s' % base['build'])
            return 2
    fails, _ = judge.judge('Judge_Tools', [it for _, it, _ in tests])
    bad = 0
    for name, _, expect in tests:
        got = set(fails.get(name, []))
        ok = got == expect
        print('%-36s %s  failing=%s' % (name, 'ok ' if ok else 'BAD', sorted(got)))
        if not ok:
            print('    expected %s' % sorted(expect))
            bad += 1
    print('selftest_tools: %d doctored observations, %d unexpected verdicts' % (len(tests), bad))
    return 1 if bad else 0


if __name__ == '__main__':
    sys.exit(main())
