"""Checks served by the core model corpus (C01 C02 C06 C07 C13 C14)."""
import json

import det
det.install()
import checklib  # noqa: E402
import core      # noqa: E402

# ('rec': traces recorded from the repository's own tests, harness/recorded.py)
SUITES = {'C17': ('inplace', 'pack'), 'C10': ('pack', 'sim'), 'C03': ('tour', 'sim', 'pack', 'rec'),
          'C04': ('tour', 'sim', 'pack', 'rec'), 'C05': ('tour', 'sim', 'pack', 'rec'), 'C09': ('tour', 'sim', 'pack', 'rec'),
          'C01': ('tour', 'sim', 'pack', 'rec'), 'C02': ('tour', 'sim', 'pack'), 'C07': ('tour', 'sim', 'rec'),
          'C13': ('tour', 'sim', 'rec'), 'C14': ('tour', 'sim', 'rec'), 'C06': ('sched', 'rec')}

RULES = {
    'C10': 'UDF images of the core corpus (File Identifier packing witnesses of DirPack.tla, random histories with '
           'reopen generations) decoded by the independent ECMA-167 decoder; TLC evaluates the image clauses of '
           'UdfVolume.tla (Judge_UdfImage)',
    'C17': 'behaviours of the model that reopen an image and call modify_file_in_place (accepted: same sector count; '
           'refused: sector count changes, directory, missing, no data) on files at depth 1-2, hard-linked, with '
           'Joliet/UDF/XA/Rock Ridge twins, repeatedly; the bytes of the backing file before/after are classified '
           '(data of the target, directory records pointing at it, its UDF file entries, VD size fields, other) and '
           'TLC judges InPlaceTouchesOnly / RefusedInPlaceChangedFile; the backing file is opened in a fresh object '
           'and decoded independently and TLC compares it with the model state; Volume/Layout clauses on it',
    'C03': 'images written at the end of the core behaviours (every k-th, deduplicated by SHA-256) decoded by the '
           'independent ECMA-119 decoder (decoders/iso9660.py); TLC evaluates the Volume.tla clauses (descriptor set, '
           'both-endian copies, record packing, 9.3 order, dot/dotdot, sizes, path tables L/M) and ApiMatches '
           '(decoder tree and SHA-256 = what pycdlib reports); Trace_Model compares the decoded tree with the model',
    'C04': 'same images: region list of all independent decoders (ISO9660, Rock Ridge continuation areas, UDF, boot '
           'catalog) + write log of the output object; TLC evaluates NoOverlap, InBounds, ExactLength, WriteOnce, '
           'NoWritePastEnd; Trace_Model evaluates SharedIffLinked against the link classes of the model',
    'C05': 'same images: each is opened and written again twice with a constant clock and once with the clock '
           'advanced by a day; differing bytes are classified by region; TLC evaluates RemasterIdentical, '
           'RemasterIdempotent, RemasterOnlyModDate',
    'C09': 'same images (Joliet configurations): the "jol:" clauses of Volume.tla, ApiMatches for the Joliet tree, '
           'escape sequence = level, and Trace_Model compares the independently decoded Joliet tree and contents with the model',
    'C01': 'behaviours of PyCdlibModel (transition tour per configuration + random deep behaviours from TLC), '
           'replayed on the real PyCdlib; after each behaviour the image is written, opened in a fresh object and '
           'projected through the public API; TLC (Trace_Model) compares trees, kinds, hidden flags, symlink targets '
           'and content ids of every namespace with the model state.  non-trivial = behaviour with >= 1 accepted edit',
    'C02': 'same corpus; judged are the steps and final images of behaviours that contain >= 1 Reopen '
           '(write, close, open_fp) so that edits act on parsed state',
    'C07': 'same corpus; judged are link classes (partition of names by shared content), and the effect of '
           'AddHardLink/RmHardLink/RmFile steps on all namespaces',
    'C13': 'same corpus; judged are refusals the model demands for duplicate/illegal/too deep names '
           '(must be refused with InvalidInput at the edit) and uniqueness of names in every projection',
    'C14': 'same corpus; one representative refused call per (action, reason) at every state of the tour; '
           'judged: projection unchanged by the refused call, later write succeeds and produces the bytes of the '
           'run without the refused call (differential replay)',
    'C06': 'all histories of the bounded model with <= 2 schedule steps (force_consistency, get_record, walk, '
           'write) in lazy and always-consistent mode; each replayed together with its stripped lazy baseline; '
           'TLC judges ScheduleDiff (bytes differ) and that schedule steps leave the projection unchanged',
}


def run_for(pid):
    def run(ctx):
        all_known = checklib.load_known()
        tot = {'states': 0, 'transitions': 0, 'traces': 0, 'steps': 0, 'behaviours': 0}
        relevant = 0
        judged_steps = 0
        for suite in SUITES[pid]:
            res = core.run_suite(ctx.tier, ctx.seed, suite)
            beh = res['behaviours']
            for st in res['gen_stats']:
                tot['states'] += st.get('distinct', 0)
                tot['transitions'] += st.get('generated', 0)
            tot['traces'] += res['ntraces']
            tot['steps'] += res['nsteps']
            ctx.note('suite_%s_traces' % suite, res['ntraces'])
            ctx.note('suite_%s_cached' % suite, 1 if res.get('cached') else 0)
            ctx.note('over_refusals', len(res['over']))
            for act, cnt in res.get('action_counts', {}).items():
                ctx.note('calls_%s_ok' % act, cnt['ok'])
                ctx.note('calls_%s_refused' % act, cnt['refused'])
            ctx.note('out_of_scope_steps', len(res['skip']))
            for tid, h in beh.items():
                if relevant_history(pid, h):
                    relevant += 1
                    if len(ctx.samples) < 4:
                        ctx.sample({'suite': suite, 'id': tid, 'history': h})
            by_trace = {}
            for d in res['diag']:
                by_trace.setdefault(d['tid'], []).append(d)
            # image-level clauses (Judge_Image)
            ctx.note('images_judged', res.get('images_judged', 0))
            ctx.note('udf_images_judged', res.get('udf_images_judged', 0))
            ctx.note('images_remastered', res.get('images_remastered', 0))
            skipped_at = {}
            for sk in res['skip']:
                skipped_at[sk['tid']] = min(sk['step'], skipped_at.get(sk['tid'], 1 << 30))
            for tid, clauses in res.get('image_fails', {}).items():
                if '@' in tid:       # image item of a backing file after modify_file_in_place
                    base, at = tid.split('@')
                    if skipped_at.get(base, 1 << 30) <= int(at):
                        # the model put this call outside its scope (e.g. edits pending): not judged
                        ctx.note('backing_images_out_of_scope')
                        continue
                    mine = sorted(clauses) if pid == 'C17' else []
                else:
                    mine = sorted(c for c in clauses if pid in core.image_properties(c))
                if not mine:
                    continue
                h = beh.get(tid.split('@')[0], [])
                for c in mine:
                    sig = {'property': pid, 'clause': c, 'rr': h[0].get('cfg', {}).get('rr', '') if h else '',
                           'udf': h[0].get('cfg', {}).get('udf', False) if h else False}
                    ctx.violation(sig, {'clauses': clauses, 'suite': suite},
                                  {'table': res.get('tables', {}).get(tid, core.TAB), 'history': h,
                                   'test': res.get('tests', {}).get(tid),
                                   'how': 'replay the history, write_fp, decode with decoders/iso9660.py'})
            for tid, ds in by_trace.items():
                h = beh[tid]
                tainted = False
                for d in sorted(ds, key=lambda x: x['step']):
                    props = core.properties_of(d, h)
                    sig = core.signature(d, h)
                    if pid in props:
                        if tainted:
                            ctx.note('not_judged_after_known_finding')
                        else:
                            sig2 = dict(sig, property=pid)
                            tabn = res.get('tables', {}).get(tid, core.TAB)
                            how = 'harness/explain.py %s <history json>' % tabn
                            if suite == 'rec':
                                how = ('recorded from %s (harness/pytest_record.py); names: i:/j:/u: + the '
                                       'identifier' % res.get('tests', {}).get(tid))
                            ctx.violation(sig2, {'diag': d, 'suite': suite},
                                          {'table': tabn, 'history': h, 'step': d['step'], 'how': how})
                    for k in all_known:
                        if checklib.sig_matches(k['signature'], dict(sig, property=k['property'])):
                            tainted = True
                            break
        ctx.coverage.update({
            'states': tot['states'], 'transitions': tot['transitions'],
            'traces_validated_against_impl': tot['traces'],
            'steps_validated': tot['steps'],
            'behaviours_relevant_to_property': relevant,
            'rule': RULES[pid],
            'exhaustive': False,
            'bounds': core.PLANS[ctx.tier],
        })
        ctx.assumptions += [
            'TLC/SANY, the TLA+ modules PyCdlibModel/NameRules/Trace_Model, the Python projection (harness/project.py)',
            'names a/b/l, blobs of 0 and 2049 bytes, depth <= 2, <= 3-4 entries per namespace (see bounds)',
            'after a step that matches a listed known finding the rest of that behaviour is not judged',
        ]
        if tot['traces'] == 0 or tot['states'] == 0:
            raise RuntimeError('empty corpus (vacuous run)')
        if pid == 'C01':
            # binding self-test: accepted traces stay accepted, every corrupted field is rejected
            import selftest_core
            st = selftest_core.run()
            ctx.coverage['binding_selftest'] = st
            if st['clean_rejected'] or st['not_rejected'] or st['wrong_clause']:
                raise RuntimeError('binding self-test failed: %s' % json.dumps(st)[:400])
    return run


def relevant_history(pid, h):
    names = [a['a'] for a in h]
    if pid == 'C02':
        return 'Reopen' in names
    if pid == 'C07':
        return any(n in names for n in ('AddHardLink', 'RmHardLink', 'RmFile'))
    if pid == 'C06':
        return True
    if pid == 'C17':
        return 'ModifyInPlace' in names
    if pid == 'C09':
        return bool(h) and h[0].get('cfg', {}).get('joliet', 0) != 0
    return len(h) > 1


def main(pid, level='model_checking'):
    import sys
    sys.exit(checklib.main(pid, level, run_for(pid)))
