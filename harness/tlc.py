"""Running TLC / parsing its output."""
import json
import os
import re
import shutil
import subprocess
import tempfile
import time

try:
    from det import real_time as _now
except ImportError:  # pragma: no cover
    _now = time.time

SPEC = os.path.join(os.path.dirname(os.path.dirname(os.path.abspath(__file__))), 'spec')
JAR = '/opt/veriftools/tla/tla2tools.jar'
CM = '/opt/veriftools/tla/CommunityModules-deps.jar'


class TlcError(Exception):
    pass


def _classpath():
    cps = [JAR]
    d = os.path.dirname(JAR)
    for f in sorted(os.listdir(d)):
        if f.endswith('.jar') and os.path.join(d, f) not in cps:
            cps.append(os.path.join(d, f))
    return ':'.join(cps)


def run_tlc(module, cfg_text, workers=16, env=None, timeout=1800, extra=(), heap='8g', simulate=None,
            aux_modules=None):
    """Run TLC on spec/<module>.tla with the given cfg text.  Returns (stdout, stats)."""
    work = tempfile.mkdtemp(prefix='verif-tlc-')
    try:
        cfg = os.path.join(work, module + '.cfg')
        with open(cfg, 'w') as f:
            f.write(cfg_text)
        for (name, text) in (aux_modules or {}).items():
            with open(os.path.join(work, name + '.tla'), 'w') as f:
                f.write(text)
        gct = max(2, min(16, workers))
        cmd = ['java', '-Xmx' + heap, '-XX:+UseParallelGC', '-XX:ParallelGCThreads=%d' % gct,
               '-XX:CICompilerCount=2', '-DTLA-Library=' + work,
               '-Djava.io.tmpdir=' + work,     # (TLC leaves an empty tlc-<n> directory per run there)
               '-cp', _classpath(), 'tlc2.TLC',
               '-workers', str(workers), '-metadir', os.path.join(work, 'meta'),
               '-noGenerateSpecTE', '-config', cfg]
        if simulate:
            cmd += ['-simulate', simulate]
        cmd += list(extra)
        cmd += [os.path.join(SPEC, module + '.tla')]
        e = dict(os.environ)
        if env:
            e.update(env)
        t0 = _now()
        p = subprocess.run(cmd, cwd=SPEC, env=e, stdout=subprocess.PIPE, stderr=subprocess.STDOUT,
                           timeout=timeout, check=False)
        out = p.stdout.decode('utf-8', 'replace')
        stats = parse_stats(out)
        stats['wall_s'] = round(_now() - t0, 2)
        stats['exit'] = p.returncode
        return out, stats
    finally:
        shutil.rmtree(work, ignore_errors=True)


def parse_stats(out):
    st = {}
    m = re.search(r'(\d[\d,]*) states generated, (\d[\d,]*) distinct states found', out)
    if m:
        st['generated'] = int(m.group(1).replace(',', ''))
        st['distinct'] = int(m.group(2).replace(',', ''))
    m = re.search(r'The depth of the complete state graph search is (\d+)', out)
    if m:
        st['depth'] = int(m.group(1))
    st['completed'] = 'Model checking completed. No error has been found.' in out
    st['errors'] = [l for l in out.split('\n') if l.startswith('Error:')][:10]
    return st


_TAGGED = re.compile(r'^<<"([A-Z]+)", "(.*)">>$')


def tagged_lines(out):
    """yield (tag, parsed json) for lines printed as PrintT(<<"TAG", ToJson(x)>>)."""
    for line in out.split('\n'):
        m = _TAGGED.match(line.strip())
        if not m:
            continue
        s = m.group(2).replace('\\"', '"').replace('\\\\', '\\')
        try:
            yield m.group(1), json.loads(s)
        except ValueError:
            raise TlcError('unparsable TLC output line: ' + line[:200])


def need_ok(out, stats, what):
    if stats.get('exit') != 0 or not stats.get('completed'):
        lines = [l for l in out.split('\n') if not l.startswith('<<')]
        first = next((k for k, l in enumerate(lines) if l.startswith('Error')), max(0, len(lines) - 40))
        tail = '\n'.join(l[:400] for l in lines[max(0, first - 3):first + 45])
        raise TlcError('%s: TLC did not complete (exit %s)\n%s' % (what, stats.get('exit'), tail))
