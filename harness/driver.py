"""Execute model actions on the real pycdlib through its public API.

An action is a dict {"a": name, ...args in model terms...}.  The driver maps the
arguments through the realisation table and returns the result class
("ok" | "InvalidInput" | "InvalidISO" | "InternalError" | "Other:<type>").
"""
import io
import os
import sys

import det  # noqa: F401  pylint: disable=unused-import
import pycdlib

from project import exc_class, view, peek


class RecordingIO(io.BytesIO):
    """Output object for write_fp that logs every (offset, length) written."""

    def __init__(self):
        io.BytesIO.__init__(self)
        self.writes = []

    def write(self, b):
        self.writes.append((self.tell(), len(b)))
        return io.BytesIO.write(self, b)

    def truncate(self, size=None):
        self.writes.append(('truncate', size if size is not None else self.tell()))
        return io.BytesIO.truncate(self, size)


def given(p):
    return p is not None and p != '-' and p != ['-']


def _in_library(tb):
    """did the exception travel through pycdlib code (or was it raised by the harness itself)?"""
    while tb is not None:
        fn = tb.tb_frame.f_code.co_filename
        if os.sep + 'pycdlib' + os.sep in fn or fn.endswith('pycdlib-genisoimage') or fn.endswith('pycdlib-extract-files'):
            return True
        tb = tb.tb_next
    return False


class Session(object):
    """One PyCdlib object driven through a behaviour."""

    def __init__(self, tab):
        self.tab = tab
        self.iso = None
        self.images = []     # bytes of every image written by Reopen
        self.backing = None  # BytesIO the current object was opened from
        self.last_write = None
        self.last_writes_log = None

    # -- helpers ------------------------------------------------------------
    def _p(self, ns, p):
        return self.tab.path(ns, p) if given(p) else None

    def _kw(self, ns, p, suffix='_path'):
        key = {'iso': 'iso', 'jol': 'joliet', 'udf': 'udf', 'rrv': 'rr'}[ns] + suffix
        return {key: self.tab.path('rr' if ns == 'rrv' else ns, p)}

    def apply(self, act):
        """returns result class string"""
        if getattr(self, 'dead', False):
            return 'Unsupported'
        try:
            fn = getattr(self, 'do_' + act['a'])
        except AttributeError:
            return 'Unsupported'
        try:
            fn(act)
            return 'ok'
        except Exception as e:  # pylint: disable=broad-except
            if not _in_library(sys.exc_info()[2]):
                raise
            if act['a'] == 'Reopen':
                self.dead = True   # no usable object after a failed write/close/open cycle
            return exc_class(e)

    # -- actions ------------------------------------------------------------
    def do_New(self, a):
        if self.iso is None:
            self.iso = pycdlib.PyCdlib(always_consistent=(a.get('mode', 'lazy') == 'always'))
        c = a['cfg']
        self.iso.new(interchange_level=c['level'],
                     joliet=(c['joliet'] or None),
                     rock_ridge=(c['rr'] or None),
                     udf=('2.60' if c['udf'] else None),
                     xa=bool(c['xa']))

    def do_AddFp(self, a):
        tab = self.tab
        (fp, length) = tab.blob_fp(a['blob'])
        kw = {}
        if given(a.get('iso')):
            kw['iso_path'] = self._p('iso', a['iso'])
            if a.get('rr', True) and self.iso.rock_ridge:
                kw['rr_name'] = tab.name('rr', a['iso'][-1])
        if given(a.get('jol')):
            kw['joliet_path'] = self._p('jol', a['jol'])
        if given(a.get('udf')):
            kw['udf_path'] = self._p('udf', a['udf'])
        self.iso.add_fp(fp, length, **kw)

    def do_AddDir(self, a):
        tab = self.tab
        kw = {}
        if given(a.get('iso')):
            kw['iso_path'] = self._p('iso', a['iso'])
            if a.get('rr', True) and self.iso.rock_ridge:
                kw['rr_name'] = tab.name('rr', a['iso'][-1])
        if given(a.get('jol')):
            kw['joliet_path'] = self._p('jol', a['jol'])
        if given(a.get('udf')):
            kw['udf_path'] = self._p('udf', a['udf'])
        self.iso.add_directory(**kw)

    def do_RmDir(self, a):
        kw = {}
        if given(a.get('iso')):
            kw['iso_path'] = self._p('iso', a['iso'])
        if given(a.get('jol')):
            kw['joliet_path'] = self._p('jol', a['jol'])
        if given(a.get('udf')):
            kw['udf_path'] = self._p('udf', a['udf'])
        self.iso.rm_directory(**kw)

    def do_AddHardLink(self, a):
        kw = {}
        if a['ons'] == 'bootcat':
            kw['boot_catalog_old'] = True
        else:
            kw[{'iso': 'iso_old_path', 'jol': 'joliet_old_path', 'udf': 'udf_old_path'}[a['ons']]] = \
                self._p(a['ons'], a['old'])
        kw[{'iso': 'iso_new_path', 'jol': 'joliet_new_path', 'udf': 'udf_new_path'}[a['nns']]] = \
            self._p(a['nns'], a['new'])
        if a['nns'] == 'iso' and a.get('rr', True) and self.iso.rock_ridge:
            kw['rr_name'] = self.tab.name('rr', a['new'][-1])
        self.iso.add_hard_link(**kw)

    def do_RmHardLink(self, a):
        self.iso.rm_hard_link(**self._kw(a['ns'], a['p']))

    def do_RmFile(self, a):
        self.iso.rm_file(**self._kw(a['ns'], a['p']))

    def do_AddSymlink(self, a):
        tab = self.tab
        kw = {}
        if given(a.get('iso')):
            kw['symlink_path'] = self._p('iso', a['iso'])
            if self.iso.rock_ridge and a.get('rr', True):
                kw['rr_symlink_name'] = tab.name('rr', a['iso'][-1])
                kw['rr_path'] = tab.target(a['t'])
        if given(a.get('jol')):
            kw['joliet_path'] = self._p('jol', a['jol'])
        if given(a.get('udf')):
            kw['udf_symlink_path'] = self._p('udf', a['udf'])
            kw['udf_target'] = tab.target(a['t'])
        self.iso.add_symlink(**kw)

    def do_SetHidden(self, a):
        self.iso.set_hidden(**self._kw(a['ns'], a['p']))

    def do_ClearHidden(self, a):
        self.iso.clear_hidden(**self._kw(a['ns'], a['p']))

    def do_AddEltorito(self, a):
        tab = self.tab
        kw = {}
        if given(a.get('cat')):
            kw['bootcatfile'] = self._p('iso', a['cat'])
            if self.iso.rock_ridge:
                kw['rr_bootcatname'] = tab.name('rr', a['cat'][-1])
            if self.iso.joliet_vd is not None and a.get('catjol', True):
                kw['joliet_bootcatfile'] = self._p('jol', a['cat'])
            if self.iso.udf_root is not None and a.get('catudf', True):
                kw['udf_bootcatfile'] = self._p('udf', a['cat'])
        if 'media' in a:
            kw['media_name'] = a['media']
        for k in ('boot_load_size', 'platform_id', 'boot_info_table', 'efi', 'media_name',
                  'bootable', 'boot_load_seg'):
            if k in a:
                kw[k] = a[k]
        self.iso.add_eltorito(self._p('iso', a['boot']), **kw)

    def do_RmEltorito(self, a):
        self.iso.rm_eltorito()

    def do_AddIsohybrid(self, a):
        kw = {}
        for k in ('part_entry', 'mbr_id', 'part_offset', 'geometry_sectors', 'geometry_heads',
                  'part_type', 'mac', 'efi'):
            if k in a:
                kw[k] = a[k]
        self.iso.add_isohybrid(**kw)

    def do_RmIsohybrid(self, a):
        self.iso.rm_isohybrid()

    def do_ModifyInPlace(self, a):
        data = self.tab.blobdata[a['blob']]
        self.iso.modify_file_in_place(io.BytesIO(data), len(data), self._p('iso', a['p']))

    def do_DuplicatePvd(self, a):
        self.iso.duplicate_pvd()

    def do_SetRelocatedName(self, a):
        self.iso.set_relocated_name(self.tab.name('iso', a['n']), self.tab.name('rr', a['n']))

    # schedule steps
    def do_ForceConsistency(self, a):
        self.iso.force_consistency()

    def do_Query(self, a):
        self.iso.get_record(**self._kw(a['ns'], a['p']))

    def do_Walk(self, a):
        kw = {{'iso': 'iso_path', 'jol': 'joliet_path', 'udf': 'udf_path', 'rrv': 'rr_path'}[a['ns']]: '/'}
        for _ in self.iso.walk(**kw):
            pass

    def do_Write(self, a):
        out = RecordingIO()
        self.iso.write_fp(out)
        self.last_write = out.getvalue()
        self.last_writes_log = out.writes

    def do_Reopen(self, a):
        out = RecordingIO()
        self.iso.write_fp(out)
        data = out.getvalue()
        self.last_write = data
        self.last_writes_log = out.writes
        self.images.append(data)
        always = self.iso._always_consistent  # pylint: disable=protected-access
        self.iso.close()
        self.backing = io.BytesIO(data)
        if not a.get('same', False):
            self.iso = pycdlib.PyCdlib(always_consistent=always)
        self.iso.open_fp(self.backing)

    def do_Close(self, a):
        self.iso.close()

    # -- observation --------------------------------------------------------
    def peek(self):
        return peek(self.iso, self.tab)

    def master(self):
        """write the image; returns (result class, bytes or None, write log)"""
        out = RecordingIO()
        try:
            self.iso.write_fp(out)
        except Exception as e:  # pylint: disable=broad-except
            return (exc_class(e), None, out.writes)
        return ('ok', out.getvalue(), out.writes)


def open_view(data, tab):
    """open image bytes in a fresh object, project through the public API."""
    iso = pycdlib.PyCdlib()
    try:
        iso.open_fp(io.BytesIO(data))
    except Exception as e:  # pylint: disable=broad-except
        return (exc_class(e), None)
    try:
        v = view(iso, tab)
    except Exception as e:  # pylint: disable=broad-except
        return ('view:' + exc_class(e), None)
    finally:
        try:
            iso.close()
        except Exception:  # pylint: disable=broad-except
            pass
    return ('ok', v)
