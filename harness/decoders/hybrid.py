"""Independent decoder of the hybrid boot structures of an ISO image: isohybrid MBR, GPT, APM, tail.

Pure standard library; shares no code with pycdlib.  `decode(data) -> dict` never raises.
Written from: the classical MBR layout, the syslinux `isohybrid` layout of the first 512 bytes
(boot code up to 432; 8-byte LBA of the boot file in 512-byte units at 432; 32-bit disk id at 440;
two zero bytes; four 16-byte partition entries at 446; 55 AA at 510), UEFI 2.x chapter 5 (GPT), and
Inside Macintosh: Devices (driver descriptor record "ER", partition map entries "PM").

64-bit and unsigned 32-bit quantities are emitted as ints when < 2^31 and as -1 otherwise, always
accompanied by a `<name>_hex` string where the value can be large (TLC integers are 32 bit).

Report schema
-------------
{
 "errors": [str], "filelen": int, "sysarea_zero": bool (bytes 0..32767 all zero),
 "pvd":  {"present": bool, "space": int, "iso_len": int (space*2048; -1 if >= 2^31), "iso_sectors512": int},
 "mbr":  {"present": bool (>= 512 bytes), "sig_ok": bool, "head_hex": str (bytes 0..31), "mac_header": bool ("ER" at 0),
          "code_sha": str (bytes 32..431), "rba": int, "rba_hi": int, "rba_hex": str (16 digits),
          "id_hex": str, "pad": int (bytes 444..445 as LE16),
          "parts": [ {"idx": 1..4, "empty": bool, "status": int, "type": int,
                      "bhead": int, "bsect": int, "bcyl": int, "ehead": int, "esect": int, "ecyl": int,
                      "lba": int, "lba_hex": str, "count": int, "count_hex": str, "raw_hex": str} x 4 ],
          "active": [idx of entries with status 0x80], "nonempty": [idx]},
 "gpt":  {"present": bool ("EFI PART" at byte 512),
          "primary": <hdr>, "backup": <hdr> (read at primary.backup), "last": <hdr> (read at the last 512-byte
          block of the file)},
 "apm":  {"ddm": {"present": bool, "block_size": int, "block_count": int, "block_count_hex": str},
          "block": int (2048 | 512 | 0: block size at which "PM" entries were found),
          "entries": [{"idx": int (1-based block number), "offset": int, "map_count": int, "start": int,
                       "count": int, "name": str, "type": str, "data_start": int, "data_count": int,
                       "status": int, "status_hex": str}]},
 "tail": {"len": int (filelen - iso_len), "zero": bool (all of it zero),
          "zero_outside_backup_gpt": bool, "backup_gpt_span": [start, end) in bytes or [0,0],
          "backup_gpt_inside_iso": bool (span starts before iso_len)},
}
<hdr> = {"present": bool, "at": int (LBA read), "revision_hex": str, "hdr_size": int,
         "crc_stored_hex": str, "crc_computed_hex": str, "crc_ok": bool, "reserved": int,
         "current": int, "backup": int, "first_usable": int, "last_usable": int, (each with *_hex)
         "disk_guid": str (hex of the 16 stored bytes), "entries_lba": int, "nparts": int, "entsize": int,
         "entries_crc_stored_hex": str, "entries_crc_computed_hex": str, "entries_crc_ok": bool,
         "entries_in_image": bool, "rest_zero": bool (bytes hdr_size..511 zero), "entries_sha": str,
         "entries": [{"idx": int (1-based), "type_guid": str, "unique_guid": str, "first": int, "last": int,
                      "first_hex": str, "last_hex": str, "attrs_hex": str, "name": str}]  (non-empty ones)}
"""
import hashlib
import struct
import zlib

SECTOR = 2048


def _i(v):
    return v if -1 < v < (1 << 31) else -1


def _sha(b):
    return hashlib.sha256(b).hexdigest()


def _empty_hdr(at=0):
    return {'present': False, 'at': _i(at), 'revision_hex': '', 'hdr_size': 0, 'crc_stored_hex': '',
            'crc_computed_hex': '', 'crc_ok': False, 'reserved': 0, 'current': 0, 'backup': 0,
            'first_usable': 0, 'last_usable': 0, 'current_hex': '', 'backup_hex': '', 'first_usable_hex': '',
            'last_usable_hex': '', 'disk_guid': '', 'entries_lba': 0, 'entries_lba_hex': '', 'nparts': 0,
            'entsize': 0, 'entries_crc_stored_hex': '', 'entries_crc_computed_hex': '',
            'entries_crc_ok': False, 'entries_in_image': False, 'rest_zero': False, 'entries_sha': '',
            'entries': []}


def _gpt_header(data, lba, errors):
    h = _empty_hdr(lba)
    off = lba * 512
    if lba < 0 or off + 512 > len(data):
        return h
    blk = data[off:off + 512]
    if blk[0:8] != b'EFI PART':
        return h
    (rev, hsize, crc, resv, cur, bak, first, last) = struct.unpack_from('<4sLLLQQQQ', blk, 8)
    guid = blk[56:72]
    (elba, nparts, entsize, ecrc) = struct.unpack_from('<QLLL', blk, 72)
    h.update({'present': True, 'revision_hex': rev.hex(), 'hdr_size': _i(hsize), 'crc_stored_hex': '%08x' % crc,
              'reserved': _i(resv), 'current': _i(cur), 'backup': _i(bak), 'first_usable': _i(first),
              'last_usable': _i(last), 'current_hex': '%016x' % cur, 'backup_hex': '%016x' % bak,
              'first_usable_hex': '%016x' % first, 'last_usable_hex': '%016x' % last,
              'disk_guid': guid.hex(), 'entries_lba': _i(elba), 'entries_lba_hex': '%016x' % elba,
              'nparts': _i(nparts), 'entsize': _i(entsize), 'entries_crc_stored_hex': '%08x' % ecrc})
    if 92 <= hsize <= 512:
        z = bytearray(blk[:hsize])
        z[16:20] = b'\x00\x00\x00\x00'
        comp = zlib.crc32(bytes(z)) & 0xffffffff
        h['crc_computed_hex'] = '%08x' % comp
        h['crc_ok'] = comp == crc
        h['rest_zero'] = blk[hsize:] == b'\x00' * (512 - hsize)
    else:
        errors.append('GPT header at LBA %d: header size %d' % (lba, hsize))
    total = nparts * entsize
    estart = elba * 512
    if entsize >= 128 and 0 < total <= (1 << 24) and estart + total <= len(data):
        ents = data[estart:estart + total]
        h['entries_in_image'] = True
        comp = zlib.crc32(ents) & 0xffffffff
        h['entries_crc_computed_hex'] = '%08x' % comp
        h['entries_crc_ok'] = comp == ecrc
        h['entries_sha'] = _sha(ents)
        for k in range(nparts):
            e = ents[k * entsize:(k + 1) * entsize]
            if e[:128] == b'\x00' * 128:
                continue
            (f, l) = struct.unpack_from('<QQ', e, 32)
            try:
                name = e[56:128].decode('utf-16-le').rstrip('\x00')
            except UnicodeDecodeError:
                name = e[56:128].hex()
            h['entries'].append({'idx': k + 1, 'type_guid': e[0:16].hex(), 'unique_guid': e[16:32].hex(),
                                 'first': _i(f), 'last': _i(l), 'first_hex': '%016x' % f,
                                 'last_hex': '%016x' % l, 'attrs_hex': e[48:56].hex(), 'name': name})
    else:
        errors.append('GPT header at LBA %d: partition entry array (lba %d, %d x %d) not inside the image'
                      % (lba, elba, nparts, entsize))
    return h


def _apm(data, rep):
    apm = rep['apm']
    if len(data) >= 512 and data[0:2] == b'ER':
        (bs, bc) = struct.unpack_from('>HL', data, 2)
        apm['ddm'] = {'present': True, 'block_size': bs, 'block_count': _i(bc), 'block_count_hex': '%08x' % bc}
    for blk in (2048, 512):
        if len(data) >= 2 * blk and data[blk:blk + 2] == b'PM':
            apm['block'] = blk
            break
    blk = apm['block']
    if not blk:
        return
    n = 1
    limit = 1
    while n <= limit and n < 64 and (n + 1) * blk <= len(data):
        e = data[n * blk:n * blk + 512]
        if e[0:2] != b'PM':
            break
        (mc, st, ct) = struct.unpack_from('>LLL', e, 4)
        name = e[16:48].split(b'\x00')[0].decode('latin-1')
        typ = e[48:80].split(b'\x00')[0].decode('latin-1')
        (ds, dc, status) = struct.unpack_from('>LLL', e, 80)
        apm['entries'].append({'idx': n, 'offset': n * blk, 'map_count': _i(mc), 'start': _i(st),
                               'count': _i(ct), 'name': name, 'type': typ, 'data_start': _i(ds),
                               'data_count': _i(dc), 'status': _i(status), 'status_hex': '%08x' % status})
        if n == 1:
            limit = min(mc, 63)
        n += 1


def decode(data):
    rep = {'errors': [], 'filelen': len(data), 'sysarea_zero': data[:32768].count(0) == len(data[:32768]),
           'pvd': {'present': False, 'space': 0, 'iso_len': 0, 'iso_sectors512': 0},
           'mbr': {'present': False, 'sig_ok': False, 'head_hex': '', 'mac_header': False, 'code_sha': '',
                   'rba': 0, 'rba_hi': 0, 'rba_hex': '', 'id_hex': '', 'pad': 0, 'parts': [], 'active': [],
                   'nonempty': []},
           'gpt': {'present': False, 'primary': _empty_hdr(1), 'backup': _empty_hdr(0), 'last': _empty_hdr(0)},
           'apm': {'ddm': {'present': False, 'block_size': 0, 'block_count': 0, 'block_count_hex': ''},
                   'block': 0, 'entries': []},
           'tail': {'len': 0, 'zero': False, 'zero_outside_backup_gpt': False, 'backup_gpt_span': [0, 0],
                    'backup_gpt_inside_iso': False}}
    try:
        _decode(data, rep)
    except Exception as e:  # pylint: disable=broad-except
        rep['errors'].append('decoder exception: %s: %s' % (type(e).__name__, e))
    return rep


def _decode(data, rep):
    errors = rep['errors']
    # ---- ISO size from the PVD ---------------------------------------------------
    iso_len = None
    if len(data) >= 17 * SECTOR and data[16 * SECTOR + 1:16 * SECTOR + 6] == b'CD001' and data[16 * SECTOR] == 1:
        space = struct.unpack_from('<L', data, 16 * SECTOR + 80)[0]
        iso_len = space * SECTOR
        rep['pvd'] = {'present': True, 'space': _i(space), 'iso_len': _i(iso_len),
                      'iso_sectors512': _i(space * 4)}
    else:
        errors.append('no primary volume descriptor at sector 16')
    # ---- MBR ------------------------------------------------------------------------
    if len(data) >= 512:
        m = data[0:512]
        mbr = rep['mbr']
        (lo, hi) = struct.unpack_from('<LL', m, 432)
        mbr.update({'present': True, 'sig_ok': m[510:512] == b'\x55\xaa', 'head_hex': m[0:32].hex(),
                    'mac_header': m[0:2] == b'ER', 'code_sha': _sha(m[32:432]), 'rba': _i(lo), 'rba_hi': _i(hi),
                    'rba_hex': '%08x%08x' % (hi, lo), 'id_hex': m[440:444][::-1].hex(),
                    'pad': struct.unpack_from('<H', m, 444)[0]})
        for k in range(4):
            raw = m[446 + 16 * k:462 + 16 * k]
            (status, bh, bs, bc, typ, eh, es, ec, lba, cnt) = struct.unpack('<BBBBBBBBLL', raw)
            p = {'idx': k + 1, 'empty': raw == b'\x00' * 16, 'status': status, 'type': typ,
                 'bhead': bh, 'bsect': bs & 0x3f, 'bcyl': ((bs & 0xc0) << 2) | bc,
                 'ehead': eh, 'esect': es & 0x3f, 'ecyl': ((es & 0xc0) << 2) | ec,
                 'lba': _i(lba), 'lba_hex': '%08x' % lba, 'count': _i(cnt), 'count_hex': '%08x' % cnt,
                 'raw_hex': raw.hex()}
            mbr['parts'].append(p)
            if status == 0x80:
                mbr['active'].append(k + 1)
            if not p['empty']:
                mbr['nonempty'].append(k + 1)
    # ---- GPT ----------------------------------------------------------------------
    gpt = rep['gpt']
    span = [0, 0]
    if len(data) >= 1024 and data[512:520] == b'EFI PART':
        gpt['present'] = True
        gpt['primary'] = _gpt_header(data, 1, errors)
        bl = gpt['primary']['backup']
        gpt['backup'] = _gpt_header(data, bl, errors)
        last_lba = len(data) // 512 - 1
        gpt['last'] = _gpt_header(data, last_lba, errors)
        b = gpt['backup']
        if b['present']:
            start = b['entries_lba'] * 512 if b['entries_lba'] > 0 else b['at'] * 512
            start = min(start, b['at'] * 512)
            span = [start, (b['at'] + 1) * 512]
    # ---- APM ------------------------------------------------------------------------
    _apm(data, rep)
    # ---- tail -----------------------------------------------------------------------
    if iso_len is not None:
        tail = data[iso_len:]
        t = rep['tail']
        t['len'] = _i(len(data) - iso_len)
        t['zero'] = tail.count(0) == len(tail)
        t['backup_gpt_span'] = [_i(span[0]), _i(span[1])]
        t['backup_gpt_inside_iso'] = span[1] > span[0] and span[0] < iso_len
        if span[1] > span[0]:
            a = max(span[0], iso_len) - iso_len
            bnd = max(span[1], iso_len) - iso_len
            rest = tail[:a] + tail[bnd:]
            t['zero_outside_backup_gpt'] = rest.count(0) == len(rest)
        else:
            t['zero_outside_backup_gpt'] = t['zero']
