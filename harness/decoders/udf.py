"""Independent ECMA-167 (3rd ed.) / UDF 2.60 reader.  Pure standard library; shares no code with
pycdlib.  decode(data) -> image report (dict) for spec/UdfVolume.tla.

The reader starts from the volume recognition sequence (sector 16 on) and the anchor volume
descriptor pointers (sector 256, N-1, N-257) only, and follows what the descriptors say:
  anchors -> main / reserve volume descriptor sequence -> partition descriptor, logical volume
  descriptor -> logical volume integrity sequence, file set descriptor -> root ICB -> directories
  (file identifier descriptors) -> file entries -> allocation descriptors -> data.
Nothing is repaired: inconsistencies are reported as fields, the TLA+ clauses decide.

Conventions of the report
  * sector    : absolute 2048-byte sector of the image ("volume space", ECMA-167 3/8.1)
  * lb        : logical block number inside the partition (ECMA-167 4/7.1): sector = start + lb
  * big sizes : byte counts that may exceed 2^31 are "limbs" [blocks, remainder] base 2048
                (n = blocks * 2048 + remainder); other values >= 2^31 are hex strings
  * text      : list of code points
"""
import hashlib
import struct

SECT = 2048
BIG = 1 << 31

MAX_DIRS = 4096
MAX_FIDS = 65536
MAX_ADS = 4096
MAX_VDS = 64


# ---------------------------------------------------------------- primitives
def _crc_table():
    tab = []
    for i in range(256):
        c = i << 8
        for _ in range(8):
            c = ((c << 1) ^ 0x1021) if (c & 0x8000) else (c << 1)
            c &= 0xFFFF
        tab.append(c)
    return tab


_CRC = _crc_table()


def crc_itu_t(b):
    """CRC-CCITT, polynomial x^16+x^12+x^5+1, initial value 0, no reflection (ECMA-167 3/7.2.6)."""
    c = 0
    for x in b:
        c = ((c << 8) & 0xFFFF) ^ _CRC[((c >> 8) ^ x) & 0xFF]
    return c


def tag_checksum(t16):
    """sum modulo 256 of bytes 0-3 and 5-15 of the tag (ECMA-167 3/7.2.3)."""
    return (sum(t16[0:4]) + sum(t16[5:16])) & 0xFF


def num(n):
    """JSON-safe number for TLC (32-bit integers)."""
    return n if -BIG < n < BIG else hex(n)


def limbs(n):
    return [n // SECT, n % SECT]


def u16(b, o):
    return struct.unpack_from('<H', b, o)[0]


def u32(b, o):
    return struct.unpack_from('<L', b, o)[0]


def u64(b, o):
    return struct.unpack_from('<Q', b, o)[0]


def extent_ad(b, o):
    return {'len': num(u32(b, o) & 0x3FFFFFFF), 'loc': num(u32(b, o + 4))}


def long_ad(b, o):
    ln = u32(b, o)
    return {'len': ln & 0x3FFFFFFF, 'type': ln >> 30, 'lb': num(u32(b, o + 4)), 'part': u16(b, o + 8),
            'flags': u16(b, o + 10), 'uid': num(u32(b, o + 12))}


def regid(b, o):
    """entity identifier (ECMA-167 1/7.4): flags, 23 bytes identifier, 8 bytes suffix."""
    ident = bytes(b[o + 1:o + 24]).rstrip(b'\0')
    return {'flags': b[o], 'id': ident.decode('latin-1'), 'suffix': bytes(b[o + 24:o + 32]).hex()}


def timestamp(b, o):
    """ECMA-167 1/7.3: type+timezone (12-bit signed minutes), y, m, d, h, m, s, cs, hus, us."""
    tz = u16(b, o)
    typ = tz >> 12
    off = tz & 0x0FFF
    if off & 0x800:
        off -= 0x1000
    return {'type': typ, 'tz_minutes': off, 'year': struct.unpack_from('<h', b, o + 2)[0],
            'rest': list(b[o + 4:o + 12])}


def cs0(b):
    """OSTA CS0 d-characters (UDF 2.1.1): compression id 8 (one byte per character) or 16
    (two bytes, big endian).  returns (compression id, code points, well_formed)."""
    if len(b) == 0:
        return (0, [], True)
    cid = b[0]
    body = bytes(b[1:])
    if cid == 8:
        return (8, list(body), True)
    if cid == 16:
        ok = len(body) % 2 == 0
        cps = [(body[i] << 8) | body[i + 1] for i in range(0, len(body) - 1, 2)]
        return (16, cps, ok)
    return (cid, list(body), False)


def dstring(b):
    """fixed-length dstring (ECMA-167 1/7.2.12): last byte holds the number of used bytes."""
    if len(b) == 0:
        return {'cid': 0, 'text': [], 'ok': False}
    n = b[-1]
    if n > len(b) - 1:
        return {'cid': 0, 'text': [], 'ok': False}
    cid, cps, ok = cs0(b[:n])
    return {'cid': cid, 'text': cps, 'ok': ok}


VRS_IDS = (b'BEA01', b'NSR02', b'NSR03', b'TEA01', b'BOOT2', b'CD001', b'CDW02')


class _Reader(object):
    def __init__(self, data, hash_limit):
        self.d = data
        self.size = len(data)
        self.nsect = self.size // SECT
        self.hash_limit = hash_limit
        self.errors = []
        self.tags = []
        self.tag_seen = set()
        self.regions = []
        self.region_seen = set()

    # -- low level --------------------------------------------------------
    def err(self, what, **kw):
        if len(self.errors) < 200:
            e = {'what': what}
            e.update(kw)
            self.errors.append(e)

    def sector(self, s, n=1):
        """bytes of sectors [s, s+n); None if outside the image."""
        if s < 0 or n < 0 or (s + n) * SECT > self.size:
            return None
        return self.d[s * SECT:(s + n) * SECT]

    def region(self, kind, owner, start, nsect):
        key = (kind, start, nsect)
        if key in self.region_seen:
            return
        self.region_seen.add(key)
        self.regions.append({'kind': kind, 'owner': num(owner), 'start': num(start), 'nsect': num(nsect)})

    def tag(self, buf, off, where, boff, expected, loc_expected, space, limit=None):
        """record the descriptor tag at buf[off:off+16]; buf must hold the descriptor body as
        far as available.  expected: tuple of acceptable identifiers.  returns tag dict."""
        t = bytes(buf[off:off + 16])
        if len(t) < 16:
            self.err('short-tag', sector=where)
            return None
        ident, ver = u16(t, 0), u16(t, 2)
        csum, serial = t[4], u16(t, 6)
        crc, crc_len, loc = u16(t, 8), u16(t, 10), u32(t, 12)
        body = bytes(buf[off + 16:off + 16 + crc_len])
        if limit is not None and crc_len > limit:
            crc_c = -1      # CRC length reaches beyond the descriptor's space
        elif len(body) < crc_len:
            crc_c = -1
        else:
            crc_c = crc_itu_t(body)
        rec = {'where': num(where), 'off': boff, 'space': space, 'id': ident,
               'id_expected': list(expected), 'version': ver,
               'csum_stored': csum, 'csum_computed': tag_checksum(t), 'serial': serial,
               'crc_stored': crc, 'crc_computed': crc_c, 'crc_len': crc_len,
               'loc_stored': num(loc), 'loc_expected': num(loc_expected)}
        key = (where, boff)
        if key not in self.tag_seen:
            self.tag_seen.add(key)
            self.tags.append(rec)
        return rec


# ---------------------------------------------------------------- volume recognition
def _vrs(r):
    """ECMA-167 2/8.3, 2/9, 3/9.1: volume structure descriptors from sector 16 on, one per
    sector, until a sector that is not one.  reports every descriptor in order."""
    out = []
    s = 16
    while s < r.nsect and len(out) < 64:
        b = r.sector(s)
        typ, ident, ver = b[0], bytes(b[1:6]), b[6]
        if ident not in VRS_IDS:
            break
        out.append({'sector': s, 'type': typ, 'id': ident.decode('latin-1'), 'version': ver})
        s += 1
    return out


# ---------------------------------------------------------------- volume descriptor sequences
def _descriptor_fields(r, b, ident):
    """per type, the fields the clauses need."""
    f = {}
    if ident == 1:      # primary volume descriptor, 3/10.1
        f = {'vdsn': num(u32(b, 16)), 'pvdn': num(u32(b, 20)), 'volid': dstring(b[24:56]),
             'volseq': u16(b, 56), 'maxvolseq': u16(b, 58), 'ilevel': u16(b, 60), 'maxilevel': u16(b, 62),
             'volsetid': dstring(b[72:200]), 'app': regid(b, 344), 'time': timestamp(b, 376),
             'impl': regid(b, 388)}
    elif ident == 4:    # implementation use volume descriptor, 3/10.4
        f = {'vdsn': num(u32(b, 16)), 'impl': regid(b, 20)}
    elif ident == 5:    # partition descriptor, 3/10.5
        f = {'vdsn': num(u32(b, 16)), 'flags': u16(b, 20), 'number': u16(b, 22), 'contents': regid(b, 24),
             'access': num(u32(b, 184)), 'start': num(u32(b, 188)), 'len': num(u32(b, 192)),
             'impl': regid(b, 196)}
    elif ident == 6:    # logical volume descriptor, 3/10.6
        mtl, npm = u32(b, 264), u32(b, 268)
        maps = []
        o = 440
        for _ in range(min(npm, 8)):
            if o + 2 > len(b):
                break
            mt, ml = b[o], b[o + 1]
            if ml < 2 or o + ml > len(b):
                break
            m = {'type': mt, 'len': ml}
            if mt == 1 and ml == 6:     # 3/10.7.2
                m['volseq'] = u16(b, o + 2)
                m['partnum'] = u16(b, o + 4)
            maps.append(m)
            o += ml
        f = {'vdsn': num(u32(b, 16)), 'lvid': dstring(b[84:212]), 'lbs': num(u32(b, 212)),
             'domain': regid(b, 216), 'fsd': long_ad(b, 248), 'map_table_len': num(mtl), 'nmaps': num(npm),
             'maps': maps, 'maps_bytes': o - 440, 'impl': regid(b, 272), 'integrity': extent_ad(b, 432)}
    elif ident == 7:    # unallocated space descriptor, 3/10.8
        n = u32(b, 20)
        f = {'vdsn': num(u32(b, 16)), 'nad': num(n),
             'ads': [extent_ad(b, 24 + 8 * k) for k in range(min(n, 16))]}
    elif ident == 3:    # volume descriptor pointer, 3/10.3
        f = {'vdsn': num(u32(b, 16)), 'next': extent_ad(b, 20)}
    return f


def _content_digest(b, crc_len):
    """digest of what a descriptor says, without where it is recorded: tag identifier, version,
    serial number, CRC length and the body covered by the CRC (tag location, checksum, CRC left
    out).  Used to compare the main and the reserve sequence."""
    t = bytes(b[0:4]) + bytes(b[6:8]) + bytes(b[10:12])
    return hashlib.sha256(t + bytes(b[16:16 + crc_len])).hexdigest()[:32]


def _vds(r, which, ext):
    """walk one volume descriptor sequence (3/8.4.2): descriptors one per sector in the extent,
    until a terminating descriptor, an unrecorded sector, or the end of the extent."""
    out = []
    start, length = ext['loc'], ext['len']
    if not isinstance(start, int) or not isinstance(length, int):
        r.err('vds-extent-out-of-range', which=which)
        return out
    n = length // SECT
    r.region('vds_' + which, start, start, n)
    hops = 0
    s = start
    end = start + n
    while s < end and len(out) < MAX_VDS:
        b = r.sector(s)
        if b is None:
            r.err('vds-outside-image', which=which, sector=s)
            break
        ident = u16(b, 0)
        if ident == 0 and not bytes(b[:16]).strip(b'\0'):
            break   # unrecorded sector ends the sequence (3/8.4.2)
        t = r.tag(b, 0, s, 0, (1, 3, 4, 5, 6, 7, 8), s, 'volume', limit=SECT - 16)
        d = {'sector': s, 'id': ident, 'f': _descriptor_fields(r, b, ident),
             'digest': _content_digest(b, min(t['crc_len'], SECT - 16))}
        out.append(d)
        if ident == 8:
            break
        if ident == 3 and hops < 4:
            nxt = d['f']['next']
            if isinstance(nxt['loc'], int) and nxt['len']:
                hops += 1
                s, end = nxt['loc'], nxt['loc'] + nxt['len'] // SECT
                continue
        s += 1
    return out


def _first(seq, ident):
    best = None
    for d in seq:
        if d['id'] == ident:
            # the descriptor with the highest volume descriptor sequence number prevails (3/8.4.3)
            if best is None or (isinstance(d['f'].get('vdsn'), int) and isinstance(best['f'].get('vdsn'), int)
                                and d['f']['vdsn'] > best['f']['vdsn']):
                best = d
    return best


# ---------------------------------------------------------------- integrity sequence
def _lvid(r, ext):
    """logical volume integrity sequence (3/8.8.2, 3/10.10; UDF 2.2.6)."""
    out = []
    if not isinstance(ext['loc'], int):
        return out
    s, n = ext['loc'], ext['len'] // SECT
    r.region('lvid', s, s, n)
    hops = 0
    k = 0
    while k < n and len(out) < 16:
        b = r.sector(s + k)
        if b is None:
            r.err('lvid-outside-image', sector=s + k)
            break
        ident = u16(b, 0)
        if ident == 0 and not bytes(b[:16]).strip(b'\0'):
            break
        r.tag(b, 0, s + k, 0, (9, 8), s + k, 'volume', limit=SECT - 16)
        if ident == 8:
            out.append({'sector': s + k, 'id': 8})
            break
        if ident != 9:
            out.append({'sector': s + k, 'id': ident})
            break
        npart = u32(b, 72)
        liu = u32(b, 76)
        npc = min(npart, 8)
        free = [num(u32(b, 80 + 4 * i)) for i in range(npc)]
        size = [num(u32(b, 80 + 4 * npc + 4 * i)) for i in range(npc)]
        io = 80 + 8 * npart
        d = {'sector': s + k, 'id': 9, 'type': ('open' if u32(b, 28) == 0 else 'close' if u32(b, 28) == 1
                                                 else 'type%d' % u32(b, 28)),
             'time': timestamp(b, 16), 'next': extent_ad(b, 32), 'next_unique_id': num(u64(b, 40)),
             'npart': num(npart), 'len_impl_use': num(liu), 'free': free, 'size': size}
        if io + 46 <= SECT and liu >= 46:   # UDF 2.2.6.4
            d.update({'impl': regid(b, io), 'num_files': num(u32(b, io + 32)), 'num_dirs': num(u32(b, io + 36)),
                      'min_read': u16(b, io + 40), 'min_write': u16(b, io + 42), 'max_write': u16(b, io + 44)})
        else:
            d.update({'num_files': -1, 'num_dirs': -1, 'min_read': 0, 'min_write': 0, 'max_write': 0})
            r.err('lvid-impl-use-too-short', sector=s + k)
        out.append(d)
        nxt = d['next']
        if nxt['len'] and isinstance(nxt['loc'], int) and hops < 4:
            hops += 1
            s, n, k = nxt['loc'], nxt['len'] // SECT, 0
            r.region('lvid', s, s, n)
            continue
        k += 1
    return out


# ---------------------------------------------------------------- partition space
class _Part(object):
    def __init__(self, r, pd, maps):
        self.r = r
        self.start = pd['f']['start'] if pd else None
        self.len = pd['f']['len'] if pd else None
        self.number = pd['f']['number'] if pd else None
        self.maps = maps
        self.ok = isinstance(self.start, int) and isinstance(self.len, int)

    def resolve(self, ref):
        """partition reference number -> True if it names our (type 1) partition."""
        if ref >= len(self.maps):
            return False
        m = self.maps[ref]
        return m.get('type') == 1 and m.get('partnum') == self.number

    def sect(self, lb):
        """absolute sector of a logical block.  The partition length is NOT applied here: whether
        referenced blocks lie inside the partition is a clause."""
        if not self.ok or not isinstance(lb, int):
            return None
        return self.start + lb

    def block(self, lb, n=1):
        s = self.sect(lb)
        if s is None:
            return None
        return self.r.sector(s, n)


def _parse_ads(r, part, area, ad_type, owner_lb):
    """allocation descriptors of an ICB (4/14.14).  returns (ads, embedded bytes or None).
    ads: dicts len (30 bits), type (2 bits), pos (lb)."""
    ads = []
    if ad_type == 3:
        return ads, bytes(area)
    size = {0: 8, 1: 16, 2: 20}.get(ad_type)
    if size is None:
        r.err('ad-type-invalid', lb=owner_lb, ad_type=ad_type)
        return ads, None
    hops = 0
    o = 0
    while o + size <= len(area) and len(ads) < MAX_ADS:
        if ad_type == 0:
            ln, pos, pref = u32(area, o), u32(area, o + 4), None
        elif ad_type == 1:
            ln, pos, pref = u32(area, o), u32(area, o + 4), u16(area, o + 8)
        else:
            ln, pos, pref = u32(area, o), u32(area, o + 12), u16(area, o + 16)
        typ, ln = ln >> 30, ln & 0x3FFFFFFF
        o += size
        if ln == 0 and typ == 0:
            break       # 4/12.1: an extent of length 0 terminates the descriptors
        if typ == 3:    # next extent of allocation descriptors (4/14.5)
            hops += 1
            if hops > 8:
                r.err('ad-chain-too-long', lb=owner_lb)
                break
            b = part.block(pos)
            if b is None:
                r.err('aed-outside-image', lb=owner_lb, pos=num(pos))
                break
            r.tag(b, 0, part.sect(pos), 0, (258,), pos, 'partition', limit=SECT - 16)
            r.region('aed', owner_lb, part.sect(pos), 1)
            lad = u32(b, 20)
            area = bytes(b[24:24 + min(lad, SECT - 24)])
            o = 0
            continue
        ad = {'len': ln, 'type': typ, 'pos': num(pos)}
        if pref is not None:
            ad['part'] = pref
        ads.append(ad)
    if o < len(area) and len(area) - o < size and any(area[o:]):
        r.err('ad-area-trailing-bytes', lb=owner_lb)
    return ads, None


def _first_sector(part, ads):
    for ad in ads:
        if ad['type'] == 0 and ad['len'] > 0:
            return part.sect(ad['pos'])
    return None


def _read_extents(r, part, ads, want, owner, kind):
    """concatenate recorded extents (at most `want` bytes).  Registers data regions; the owner
    of a file data region is the file's first data sector."""
    out = bytearray()
    if owner is None:
        owner = _first_sector(part, ads)
    for ad in ads:
        nb = (ad['len'] + SECT - 1) // SECT
        if ad['type'] == 0 and ad['len'] > 0:
            s = part.sect(ad['pos'])
            if s is not None:
                r.region(kind, owner, s, nb)
            if len(out) < want:
                b = part.block(ad['pos'], nb) if s is not None else None
                if b is None:
                    # partially outside the image: take what is there
                    r.err('extent-outside-image', owner=owner, pos=ad['pos'])
                    out += b'\0' * ad['len']
                else:
                    out += bytes(b[:ad['len']])
        else:
            if len(out) < want:
                out += b'\0' * ad['len']    # not recorded: reads as zeros (4/12)
    return bytes(out[:want])


def _hash_extents(r, part, ads, info_len, owner):
    """SHA-256 of a file's bytes read through its allocation descriptors, truncated to the
    information length.  With hash_limit and a larger file: 'p:'+SHA-256 of the first and the
    last hash_limit/2 bytes."""
    limit = r.hash_limit
    total = sum(ad['len'] for ad in ads)
    n = min(info_len, total)

    def pieces(lo, hi):
        """yield bytes of [lo, hi) of the extent stream."""
        pos = 0
        for ad in ads:
            a, b = pos, pos + ad['len']
            pos = b
            if b <= lo or a >= hi:
                continue
            x, y = max(a, lo), min(b, hi)
            if ad['type'] != 0:
                left = y - x
                while left > 0:
                    c = min(left, 1 << 20)
                    yield b'\0' * c
                    left -= c
                continue
            s = part.sect(ad['pos'])
            if s is None:
                yield b'\0' * (y - x)
                continue
            base = s * SECT
            p = x - a
            while p < y - a:
                c = min(y - a - p, 1 << 22)
                chunk = bytes(r.d[base + p:base + p + c])
                if len(chunk) < c:
                    r.err('extent-outside-image', owner=owner, pos=ad['pos'])
                    chunk += b'\0' * (c - len(chunk))
                yield chunk
                p += c

    first = _first_sector(part, ads)
    for ad in ads:
        if ad['type'] == 0 and ad['len'] > 0:
            s = part.sect(ad['pos'])
            if s is not None:
                r.region('udf_file_data', first if first is not None else s, s, (ad['len'] + SECT - 1) // SECT)
    h = hashlib.sha256()
    if limit is not None and n > limit:
        half = limit // 2
        for c in pieces(0, half):
            h.update(c)
        for c in pieces(n - half, n):
            h.update(c)
        return 'p:' + h.hexdigest()
    for c in pieces(0, n):
        h.update(c)
    return h.hexdigest()


def _file_entry(r, part, lb, expected=(261, 266)):
    """(extended) file entry at logical block lb (4/14.9, 4/14.17)."""
    b = part.block(lb)
    if b is None:
        r.err('fe-outside-image', lb=num(lb))
        return None
    t = r.tag(b, 0, part.sect(lb), 0, expected, lb, 'partition', limit=SECT - 16)
    ident = t['id']
    if ident not in (261, 266):
        r.err('not-a-file-entry', lb=lb, id=ident)
        return None
    r.region('udf_fe', lb, part.sect(lb), 1)
    icb = 16
    ftype = b[icb + 11]
    flags = u16(b, icb + 18)
    if ident == 261:
        info, rec, uid, lea, lad, base = u64(b, 56), u64(b, 64), u64(b, 160), u32(b, 168), u32(b, 172), 176
        times = {'access': timestamp(b, 72), 'mod': timestamp(b, 84), 'attr': timestamp(b, 96)}
        objsize = info
    else:
        info, objsize, rec, uid, lea, lad, base = (u64(b, 56), u64(b, 64), u64(b, 72), u64(b, 200),
                                                   u32(b, 208), u32(b, 212), 216)
        times = {'access': timestamp(b, 80), 'mod': timestamp(b, 92), 'create': timestamp(b, 104),
                 'attr': timestamp(b, 116)}
    fe = {'lb': lb, 'tag': ident, 'file_type': ftype, 'strategy': u16(b, icb + 4),
          'prior_direct': num(u32(b, icb)), 'max_entries': u16(b, icb + 6),
          'parent_icb': [num(u32(b, icb + 12)), u16(b, icb + 16)],
          'icb_flags': flags, 'ad_type': flags & 7,
          'uid': num(u32(b, 36)), 'gid': num(u32(b, 40)), 'perms': num(u32(b, 44)),
          'link_count': u16(b, 48), 'rec_format': b[50], 'rec_display': b[51], 'rec_len': num(u32(b, 52)),
          'info_len': limbs(info), 'object_size': limbs(objsize),
          'blocks_recorded': num(rec), 'unique_id': num(uid), 'ea_len': num(lea), 'ad_len': num(lad),
          'times': times, 'header_len': base}
    fits = base + lea + lad <= SECT
    fe['fits'] = fits
    if not fits:
        r.err('fe-lengths-exceed-block', lb=lb)
        lea = min(lea, SECT - base)
        lad = min(lad, SECT - base - lea)
    area = bytes(b[base + lea:base + lea + lad])
    ads, embedded = _parse_ads(r, part, area, flags & 7, lb)
    fe['ads'] = ads
    fe['embedded'] = embedded is not None
    if embedded is not None:
        tot = len(embedded)
        fe['ad_sum'] = limbs(tot)
        fe['ad_blocks'] = 0
    else:
        fe['ad_sum'] = limbs(sum(a['len'] for a in ads))
        fe['ad_blocks'] = num(sum((a['len'] + SECT - 1) // SECT for a in ads if a['type'] in (0,)))
    fe['_info'] = info
    fe['_embedded'] = embedded
    return fe


def _symlink_target(r, data, lb):
    """path components (4/14.16) -> Unix-like string (code points)."""
    comps = []
    o = 0
    ok = True
    while o + 4 <= len(data):
        ct, cl = data[o], data[o + 1]
        ident = data[o + 4:o + 4 + cl]
        if len(ident) < cl:
            ok = False
            break
        o += 4 + cl
        if ct == 1:
            comps.append(('root1', []))
        elif ct == 2:
            comps.append(('root', []))
        elif ct == 3:
            comps.append(('name', [46, 46]))
        elif ct == 4:
            comps.append(('name', [46]))
        elif ct == 5:
            cid, cps, good = cs0(ident)
            ok = ok and good
            comps.append(('name', cps))
        else:
            ok = False
            comps.append(('name', [63]))
    if o != len(data):
        ok = False
    out = []
    for k, (kind, cps) in enumerate(comps):
        if kind in ('root', 'root1'):
            if k == 0:
                out += [47]
            continue
        if out and out[-1] != 47:
            out += [47]
        out += cps
    if not ok:
        r.err('symlink-components-malformed', lb=lb)
    return out, ok, len(comps)


def _walk(r, part, root_lb, rep):
    fes = {}
    dirs = []
    tree = []
    fid_refs = []    # every FID (incl. parent entries): [dir lb, icb lb, chars]
    queue = [(root_lb, [], root_lb)]   # (fe lb, path, parent fe lb)
    seen_dirs = set()
    nfid = 0
    while queue:
        lb, path, parent_lb = queue.pop(0)
        if lb in seen_dirs:
            r.err('directory-reached-twice', lb=lb)
            continue
        if len(seen_dirs) >= MAX_DIRS:
            r.err('too-many-directories')
            break
        seen_dirs.add(lb)
        fe = fes.get(lb) or _file_entry(r, part, lb)
        if fe is None:
            continue
        fes[lb] = fe
        if fe['file_type'] != 4:
            r.err('directory-icb-is-not-a-directory', lb=lb, file_type=fe['file_type'])
        info = fe['_info']
        if info > (1 << 26):
            r.err('directory-too-large', lb=lb)
            info = 1 << 26
        if fe['_embedded'] is not None:
            data = fe['_embedded'][:info]
            blockmap = None
        else:
            data = _read_extents(r, part, fe['ads'], info, lb, 'udf_dir')
            blockmap = fe['ads']
        d = {'fe_lb': lb, 'path': path, 'parent_lb': parent_lb, 'fids': [], 'info_len': limbs(fe['_info']),
             'data_len': len(data)}

        def where_of(off, ads=blockmap, felb=lb):
            """(logical block, offset in block) of byte `off` of the directory's data."""
            if ads is None:
                return felb, -1
            pos = 0
            for ad in ads:
                if off < pos + ad['len']:
                    if not isinstance(ad['pos'], int):
                        return -1, -1
                    return ad['pos'] + (off - pos) // SECT, (off - pos) % SECT
                pos += ad['len']
            return -1, -1

        o = 0
        consumed = 0
        while o + 38 <= len(data) and nfid < MAX_FIDS:
            nfid += 1
            liu = u16(data, o + 36)
            lfi = data[o + 19]
            raw = 38 + liu + lfi
            flen = (raw + 3) & ~3
            blk, boff = where_of(o)
            sect = part.sect(blk) if blk >= 0 else -1
            t = r.tag(data, o, sect if sect is not None else -1, boff, (257,), blk, 'partition',
                      limit=max(0, len(data) - o - 16))
            if t['id'] != 257:
                r.err('not-a-fid', dir=lb, off=o)
                break
            chars = data[o + 18]
            icb = long_ad(data, o + 20)
            name_b = data[o + 38 + liu:o + 38 + liu + lfi]
            cid, cps, good = cs0(name_b)
            fid = {'off': o, 'len': flen, 'raw_len': raw, 'version': u16(data, o + 16), 'chars': chars,
                   'is_dir': bool(chars & 2), 'is_parent': bool(chars & 8), 'deleted': bool(chars & 4),
                   'hidden': bool(chars & 1), 'lfi': lfi, 'liu': liu, 'cid': cid, 'name': cps,
                   'name_ok': good and len(name_b) == lfi, 'icb_lb': icb['lb'], 'icb_part': icb['part'],
                   'icb_len': icb['len'], 'icb_uid': icb['uid'],
                   'tag_loc': t['loc_stored'], 'blk': blk, 'boff': boff,
                   'tag_loc_ok': t['loc_stored'] == blk,
                   'pad_zero': not any(data[o + raw:o + flen]), 'complete': o + flen <= len(data),
                   'crosses': (boff >= 0 and boff + flen > SECT)}
            d['fids'].append(fid)
            fid_refs.append({'dir': lb, 'icb_lb': icb['lb'], 'chars': chars})
            o += flen
            if o <= len(data):
                consumed = o
        d['fid_bytes'] = consumed
        d['trailing'] = len(data) - consumed
        dirs.append(d)
        # children
        for fid in d['fids']:
            if fid['is_parent'] or fid['deleted']:
                continue
            cpath = path + [fid['name']]
            clb = fid['icb_lb']
            if not isinstance(clb, int) or not part.resolve(fid['icb_part']):
                r.err('fid-icb-unresolvable', dir=lb, off=fid['off'])
                tree.append({'path': cpath, 'kind': 'unreadable', 'size': [0, 0], 'target': [], 'sha': '',
                             'fe_lb': -1, 'hidden': fid['hidden']})
                continue
            if fid['is_dir']:
                tree.append({'path': cpath, 'kind': 'dir', 'size': [0, 0], 'target': [], 'sha': '',
                             'fe_lb': clb, 'hidden': fid['hidden']})
                queue.append((clb, cpath, lb))
                continue
            cfe = fes.get(clb)
            if cfe is None:
                cfe = _file_entry(r, part, clb)
                if cfe is None:
                    tree.append({'path': cpath, 'kind': 'unreadable', 'size': [0, 0], 'target': [], 'sha': '',
                                 'fe_lb': clb, 'hidden': fid['hidden']})
                    continue
                fes[clb] = cfe
                # content
                if cfe['_embedded'] is not None:
                    body = cfe['_embedded'][:cfe['_info']]
                    cfe['_sha'] = hashlib.sha256(body).hexdigest()
                    cfe['_body'] = body if cfe['file_type'] == 12 else None
                elif cfe['file_type'] == 12:
                    body = _read_extents(r, part, cfe['ads'], min(cfe['_info'], 1 << 20), None, 'udf_file_data')
                    # owner of a data region = its first sector
                    cfe['_sha'] = hashlib.sha256(body).hexdigest()
                    cfe['_body'] = body
                else:
                    cfe['_sha'] = _hash_extents(r, part, cfe['ads'], cfe['_info'], None)
                    cfe['_body'] = None
            ft = cfe['file_type']
            if ft == 12:
                tgt, tok, ncomp = _symlink_target(r, cfe.get('_body') or b'', clb)
                tree.append({'path': cpath, 'kind': 'symlink', 'size': cfe['info_len'], 'target': tgt, 'sha': '',
                             'fe_lb': clb, 'hidden': fid['hidden'], 'target_ok': tok})
            elif ft == 4:
                # a FID without the directory bit that points at a directory ICB
                tree.append({'path': cpath, 'kind': 'dir-unflagged', 'size': [0, 0], 'target': [], 'sha': '',
                             'fe_lb': clb, 'hidden': fid['hidden']})
            else:
                kind = 'file' if ft == 5 else 'type%d' % ft
                tree.append({'path': cpath, 'kind': kind, 'size': cfe['info_len'], 'target': [],
                             'sha': cfe.get('_sha', ''), 'fe_lb': clb, 'hidden': fid['hidden']})
    rep['fes'] = []
    for lb in sorted(fes):
        fe = dict((k, v) for k, v in fes[lb].items() if not k.startswith('_'))
        rep['fes'].append(fe)
    rep['dirs'] = dirs
    rep['tree'] = tree
    rep['fid_refs'] = fid_refs


# ---------------------------------------------------------------- entry point
def _fix_data_regions(rep):
    """owner of a file data region is its first sector."""
    for g in rep['regions']:
        if g['kind'] == 'udf_file_data' and g['owner'] is None:
            g['owner'] = g['start']


def decode(data, hash_limit=None):
    """data: bytes-like (bytes, bytearray, mmap) holding the whole image."""
    rep = {'nsect': 0, 'filelen': limbs(len(data)), 'whole_sectors': len(data) % SECT == 0,
           'vrs': [], 'anchors': [], 'main': [], 'reserve': [], 'lvid': [],
           'partition': {'start': -1, 'len': -1, 'number': -1, 'found': False},
           'lvd': {'found': False}, 'fsd': {'found': False}, 'tags': [], 'fes': [], 'dirs': [], 'tree': [],
           'fid_refs': [], 'regions': [], 'errors': []}
    r = _Reader(data, hash_limit)
    try:
        _decode(r, rep)
    except Exception as e:  # pylint: disable=broad-except
        import traceback
        r.err('decoder-exception', type=type(e).__name__, text=str(e)[:200],
              tb=traceback.format_exc().split('\n')[-4:-1])
    rep['tags'] = r.tags
    rep['regions'] = r.regions
    _fix_data_regions(rep)
    rep['errors'] = r.errors
    return rep


def _decode(r, rep):
    n = r.nsect
    rep['nsect'] = num(n)
    rep['vrs'] = _vrs(r)

    # anchors (3/8.4.2.1, UDF 2.2.3): sector 256, N-1, N-257
    cands = [256]
    for s in (n - 1, n - 257):
        if s > 256 and s not in cands:
            cands.append(s)
    for s in cands:
        b = r.sector(s)
        if b is None:
            rep['anchors'].append({'sector': num(s), 'present': False})
            continue
        if u16(b, 0) != 2:
            rep['anchors'].append({'sector': num(s), 'present': False})
            continue
        r.tag(b, 0, s, 0, (2,), s, 'volume', limit=SECT - 16)
        r.region('anchor', s, s, 1)
        rep['anchors'].append({'sector': num(s), 'present': True, 'main': extent_ad(b, 16),
                               'reserve': extent_ad(b, 24), 'reserved_zero': not any(b[32:512])})
    live = [a for a in rep['anchors'] if a['present']]
    if not live:
        r.err('no-anchor')
        return
    a0 = live[0]
    rep['main'] = _vds(r, 'main', a0['main'])
    rep['reserve'] = _vds(r, 'reserve', a0['reserve'])
    seq = rep['main'] if rep['main'] else rep['reserve']

    pd = _first(seq, 5)
    lvd = _first(seq, 6)
    if pd is not None:
        rep['partition'] = {'start': pd['f']['start'], 'len': pd['f']['len'], 'number': pd['f']['number'],
                            'found': True, 'access': pd['f']['access'], 'contents': pd['f']['contents']['id']}
    else:
        r.err('no-partition-descriptor')
    if lvd is None:
        r.err('no-logical-volume-descriptor')
        return
    rep['lvd'] = {'found': True, 'lbs': lvd['f']['lbs'], 'fsd': lvd['f']['fsd'], 'maps': lvd['f']['maps'],
                  'nmaps': lvd['f']['nmaps'], 'map_table_len': lvd['f']['map_table_len'],
                  'maps_bytes': lvd['f']['maps_bytes'],
                  'integrity': lvd['f']['integrity'], 'domain': lvd['f']['domain']}
    rep['lvid'] = _lvid(r, lvd['f']['integrity'])
    if lvd['f']['lbs'] != SECT:
        r.err('logical-block-size-unsupported', lbs=lvd['f']['lbs'])
        return
    part = _Part(r, pd, lvd['f']['maps'])
    if not part.ok:
        return

    # file set descriptor (4/14.1) from the logical volume contents use (UDF 2.2.4.4)
    fl = lvd['f']['fsd']
    if not part.resolve(fl['part']):
        r.err('fsd-partition-reference-unresolvable', ref=fl['part'])
        return
    if not isinstance(fl['lb'], int):
        r.err('fsd-location-out-of-range')
        return
    b = part.block(fl['lb'])
    if b is None:
        r.err('fsd-outside-image', lb=fl['lb'])
        return
    t = r.tag(b, 0, part.sect(fl['lb']), 0, (256,), fl['lb'], 'partition', limit=SECT - 16)
    nfs = max(1, fl['len'] // SECT)
    r.region('udf_fsd', fl['lb'], part.sect(fl['lb']), nfs)
    if t['id'] != 256:
        r.err('fsd-not-found', lb=fl['lb'], id=t['id'])
        return
    root = long_ad(b, 400)
    rep['fsd'] = {'found': True, 'lb': fl['lb'], 'extent_len': fl['len'], 'root_icb': root,
                  'next': long_ad(b, 448), 'stream_icb': long_ad(b, 464), 'domain': regid(b, 416),
                  'lvid': dstring(b[112:240]), 'fsid': dstring(b[304:336]), 'time': timestamp(b, 16),
                  'fsn': num(u32(b, 40)), 'fsdn': num(u32(b, 44)), 'term': None}
    # descriptors after the FSD inside its extent: terminating descriptor (4/8.3.1)
    for k in range(1, min(nfs, 4)):
        bb = part.block(fl['lb'] + k)
        if bb is None:
            break
        if u16(bb, 0) == 8:
            r.tag(bb, 0, part.sect(fl['lb'] + k), 0, (8,), fl['lb'] + k, 'partition', limit=SECT - 16)
            rep['fsd']['term'] = fl['lb'] + k
            break
    if rep['fsd']['term'] is None:
        # a terminating descriptor directly after the extent is also visited (pycdlib records one)
        bb = part.block(fl['lb'] + nfs)
        if bb is not None and u16(bb, 0) == 8:
            r.tag(bb, 0, part.sect(fl['lb'] + nfs), 0, (8,), fl['lb'] + nfs, 'partition', limit=SECT - 16)
            r.region('udf_fsd_term', fl['lb'] + nfs, part.sect(fl['lb'] + nfs), 1)
            rep['fsd']['term'] = fl['lb'] + nfs
        else:
            rep['fsd']['term'] = -1
    if not part.resolve(root['part']) or not isinstance(root['lb'], int):
        r.err('root-icb-unresolvable')
        return
    _walk(r, part, root['lb'], rep)
