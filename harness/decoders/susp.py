"""Independent SUSP (IEEE P1281) / RRIP (IEEE P1282) reader.

Written from the standards; shares no code with pycdlib and MUST NOT import it.

    decode(data: bytes, names='list') -> dict          (never raises)

The reader contains its own minimal ECMA-119 directory walker (PVD at sector 16.., root
record, every directory reachable through directory records, breadth first, with cycle and
size caps).  For every directory record (including "." and "..") it parses the System Use
field: a CD-ROM XA record (14 bytes, signature 'XA' at offset 6, reserved bytes zero) is
recognised and skipped, the SP entry of the root "." gives the number of bytes to skip in all
other records, then SUSP entries are read until ST / fewer than 4 bytes / a malformed entry,
and the CE chain is followed into the continuation areas.  Nothing is repaired:
inconsistencies are reported as fields or as strings in "errors"; TLC decides.

Byte strings are reported as lists of ints (names='list') or as lower-case hex strings
(names='hex', the lean form the judge uses).  32-bit on-disc fields are reported as TLC can hold
them: values >= 2^31 become negative (two's complement), so the two byte orders of a field still
compare exactly and range clauses reject them; other numbers >= 2^31 (file length) are hex
strings ("0x...").

Report (clauses: spec/Susp.tla):
  lbs, nsect, filelen, root:[extent,len], has_susp, has_rr_entry, px_lens
  regions : [[kind, start_sector, nsect]]          kind in vd|ptable|dir|file
  dirs    : [{id, parent, extent, len, ent (index in recs of the entry in the parent, -1 root),
              dot, dotdot (indices in recs, -1 when missing), nrec}]      breadth first, root = 0
  recs    : [{r (index), d (dir id), k (index in directory), pos:[sector, off],
              ident, special ("dot"|"dotdot"|""), flags, isdir, reclen, len_fi, pad_fi, pad_fi_zero,
              extent:[le,be], size:[le,be], child (dir id this record leads to, -1),
              xa (CD-ROM XA record found), su_len, skip (bytes in front of the first entry),
              dr : {ents:[entry], sum (of entry lengths), pad (bytes left), pad_zero, stop},
              ce : [{block, off, len, ents:[entry], sum, stop, inside}],   areas visited, chain order
              ce_loop (bool), nce_dr (number of CE entries in the record area),
              rr : derived, see _derive(): name, has_nm, nm_special, nm_flags, has_px, npx, mode,
                   nlink, uid, gid, px_len, has_sl, target, sl_ok, sl_flags, comp_flags, has_cl, cl,
                   ncl, cl_dir, has_pl, pl, npl, pl_dir, re, nre, ntf, present (RR-style bit set of
                   the RRIP entries found), rr_flags (flags byte of the RR entry, -1 if none)}]
            stop: "end" (fewer than 4 bytes or zero fill left) | "ST" | "badlen"
  entry   : {sig, len, ver, bad, ...payload}
              SP {check:[b,b], skip}; CE {block:[le,be], off:[le,be], clen:[le,be]};
              ER {len_id, len_des, len_src, ext_ver, ext_id (text)}; ES {seq}; RR {flags};
              PX {mode:[le,be], nlink:[le,be], uid:[le,be], gid:[le,be], serial:[le,be]|[]};
              PN {high:[le,be], low:[le,be]}; NM {flags, name, nlen};
              SL {flags, comps:[[flags,len,bytes]], comps_ok};
              CL/PL {loc:[le,be]}; TF {flags, stamps (hex)}; RE, ST {}; others {raw (hex)}
  ce_areas: [[rec index, block, off, len]]
  tree    : [{path:[names], kind ("dir"|"file"|"symlink"|"other", from PX mode / CL), mode, nlink
              (from "." of the directory when a directory), emode, enlink (from the entry itself),
              target, size, extent, reloc (directory that physically holds RE entries), rec,
              dir (directory id it stands for, -1), pdir (logical parent directory id), via_cl}]
            the Rock Ridge view with relocation undone: a CL record stands for the directory it
            points to, records carrying RE are not listed where they physically are
  er      : {count, where:[[rec index, "dr"|"ce"]], ids:[text], root_dot_only, version}
  sp      : {found, rec, off, skip, check_ok}
  errors  : [text]   structural impossibilities met while reading (never raised)
"""
import struct

SECTOR = 2048
MAX_DIRS = 20000
MAX_RECS = 400000
MAX_CE_CHAIN = 64

S_IFMT = 0o170000
S_IFDIR = 0o040000
S_IFREG = 0o100000
S_IFLNK = 0o120000

KNOWN_SIGS = ('SP', 'CE', 'ER', 'ES', 'RR', 'PX', 'PN', 'SL', 'NM', 'CL', 'PL', 'RE', 'TF',
              'SF', 'ST', 'PD', 'AL')
RR_BITS = {'PX': 1, 'PN': 2, 'SL': 4, 'NM': 8, 'CL': 16, 'PL': 32, 'RE': 64, 'TF': 128}


def _n(x):
    """ints that TLC cannot hold become hex strings."""
    return x if -(1 << 31) < x < (1 << 31) else '0x%x' % x


def _s32(v):
    """a 32-bit on-disc value as TLC can hold it: values >= 2^31 become negative (two's
    complement), so equality of the two byte orders stays exact and range clauses reject them."""
    v &= 0xffffffff
    return v - (1 << 32) if v >= (1 << 31) else v


def _both32(buf, off):
    """a 32-bit both-endian field: [le, be] (see _s32); missing bytes -> [-1,-2]."""
    if off + 8 > len(buf):
        return [-1, -2]
    le = struct.unpack_from('<I', buf, off)[0]
    be = struct.unpack_from('>I', buf, off + 4)[0]
    return [_s32(le), _s32(be)]


class _Enc(object):
    def __init__(self, names):
        self.hex = (names == 'hex')

    def b(self, bs):
        bs = bytes(bs)
        return bs.hex() if self.hex else list(bs)


def _parse_entries(buf, enc):
    """Parse SUSP entries in buf.  Returns (entries, consumed, stop, raws) where stop is one of
    'end' (fewer than 4 bytes left), 'ST', 'badlen' (entry length < 4 or past the end), and raws
    are the raw bytes of each entry (kept out of the report)."""
    ents = []
    raws = []
    off = 0
    stop = 'end'
    n = len(buf)
    while True:
        if n - off < 4:
            stop = 'end'
            break
        sig = buf[off:off + 2]
        ln = buf[off + 2]
        ver = buf[off + 3]
        if sig == b'\x00\x00' and ln == 0:
            # zero fill: not an entry (padding); the caller reports the leftover bytes
            stop = 'end'
            break
        if ln < 4 or off + ln > n:
            stop = 'badlen'
            ents.append({'sig': _sig(sig), 'len': ln, 'ver': ver, 'bad': True})
            raws.append(bytes(buf[off:off + 4]))
            break
        body = bytes(buf[off:off + ln])
        e = {'sig': _sig(sig), 'len': ln, 'ver': ver, 'bad': False}
        _payload(e, body, enc)
        ents.append(e)
        raws.append(body)
        off += ln
        if sig == b'ST':
            stop = 'ST'
            break
    return ents, off, stop, raws


def _sig(sig):
    try:
        s = bytes(sig).decode('ascii')
        if len(s) == 2 and all(32 < ord(c) < 127 for c in s) and '"' not in s and '\\' not in s:
            return s
    except UnicodeDecodeError:
        pass
    return '?' + bytes(sig).hex()


def _payload(e, body, enc):
    sig = e['sig']
    ln = e['len']
    short = False
    if sig == 'SP':
        if ln >= 7:
            e['check'] = [body[4], body[5]]
            e['skip'] = body[6]
        else:
            short = True
    elif sig == 'CE':
        if ln >= 28:
            e['block'] = _both32(body, 4)
            e['off'] = _both32(body, 12)
            e['clen'] = _both32(body, 20)
        else:
            short = True
    elif sig == 'ER':
        if ln >= 8:
            li, ld, ls, ev = body[4], body[5], body[6], body[7]
            e['len_id'], e['len_des'], e['len_src'], e['ext_ver'] = li, ld, ls, ev
            e['ext_id'] = _text(body[8:8 + li])
        else:
            short = True
    elif sig == 'ES':
        if ln >= 5:
            e['seq'] = body[4]
        else:
            short = True
    elif sig == 'RR':
        if ln >= 5:
            e['flags'] = body[4]
        else:
            short = True
    elif sig == 'PX':
        if ln >= 36:
            e['mode'] = _both32(body, 4)
            e['nlink'] = _both32(body, 12)
            e['uid'] = _both32(body, 20)
            e['gid'] = _both32(body, 28)
            e['serial'] = _both32(body, 36) if ln >= 44 else []
        else:
            short = True
    elif sig == 'PN':
        if ln >= 20:
            e['high'] = _both32(body, 4)
            e['low'] = _both32(body, 12)
        else:
            short = True
    elif sig == 'NM':
        if ln >= 5:
            e['flags'] = body[4]
            e['name'] = enc.b(body[5:])
            e['nlen'] = ln - 5
        else:
            short = True
    elif sig == 'SL':
        if ln >= 5:
            e['flags'] = body[4]
            comps = []
            ok = True
            p = 5
            while p < ln:
                if p + 2 > ln:
                    ok = False
                    break
                cf, cl = body[p], body[p + 1]
                if p + 2 + cl > ln:
                    ok = False
                    break
                comps.append([cf, cl, enc.b(body[p + 2:p + 2 + cl])])
                p += 2 + cl
            e['comps'] = comps
            e['comps_ok'] = ok
        else:
            short = True
    elif sig in ('CL', 'PL'):
        if ln >= 12:
            e['loc'] = _both32(body, 4)
        else:
            short = True
    elif sig == 'TF':
        if ln >= 5:
            e['flags'] = body[4]
            e['stamps'] = body[5:].hex()
        else:
            short = True
    elif sig in ('RE', 'ST'):
        pass
    else:
        e['raw'] = body[4:].hex()
    if short:
        e['bad'] = True


def _text(bs):
    return ''.join(chr(c) if 32 <= c < 127 and c not in (34, 92) else '?' for c in bs)


def _val(pair):
    """value of a both-endian pair as read by a little-endian reader (see _s32)."""
    return pair[0]


def decode(data, names='list'):
    enc = _Enc(names)
    rep = {'lbs': SECTOR, 'nsect': len(data) // SECTOR, 'filelen': _n(len(data)), 'root': [-1, -1],
           'regions': [], 'dirs': [], 'recs': [], 'ce_areas': [], 'tree': [],
           'er': {'count': 0, 'where': [], 'ids': [], 'root_dot_only': True, 'version': '?'},
           'sp': {'found': False, 'rec': -1, 'off': -1, 'skip': 0, 'check_ok': False},
           'has_susp': False, 'errors': []}
    try:
        _decode(bytes(data), rep, enc)
    except Exception as exc:  # pylint: disable=broad-except
        rep['errors'].append('decoder exception: %s: %s' % (type(exc).__name__, exc))
    return rep


def _decode(data, rep, enc):
    errors = rep['errors']
    nsect = len(data) // SECTOR
    # ---- volume descriptors
    pvd = None
    s = 16
    while s < nsect and s < 16 + 64:
        vd = data[s * SECTOR:(s + 1) * SECTOR]
        if vd[1:6] != b'CD001':
            errors.append('sector %d: no CD001' % s)
            break
        if vd[0] == 1 and pvd is None:
            pvd = vd
        if vd[0] == 255:
            break
        s += 1
    rep['regions'].append(['vd', 16, max(1, s - 16 + 1)])
    if pvd is None:
        errors.append('no primary volume descriptor')
        return
    lbs = struct.unpack_from('<H', pvd, 128)[0]
    rep['lbs'] = lbs
    if lbs != SECTOR:
        errors.append('logical block size %d not supported by this reader' % lbs)
        return
    ptsize = struct.unpack_from('<I', pvd, 132)[0]
    ptn = max(1, (ptsize + SECTOR - 1) // SECTOR)
    for off, fmt in ((140, '<I'), (144, '<I'), (148, '>I'), (152, '>I')):
        loc = struct.unpack_from(fmt, pvd, off)[0]
        if loc:
            rep['regions'].append(['ptable', _s32(loc), ptn])
    root = pvd[156:156 + 34]
    root_extent = struct.unpack_from('<I', root, 2)[0]
    root_len = struct.unpack_from('<I', root, 10)[0]
    rep['root'] = [_s32(root_extent), _s32(root_len)]

    # ---- pass 1: walk directories, collect raw records
    dirs = rep['dirs']
    recs = rep['recs']
    raw = []          # per record: (su bytes)
    fileregs = []     # (record, region) of non-empty files; CL placeholders are dropped later
    seen = {}
    queue = [(root_extent, root_len, -1, -1)]   # extent, len, parent dir id, entry rec index
    while queue:
        extent, dlen, parent, ent = queue.pop(0)
        if extent in seen:
            errors.append('directory extent %d reached twice (from record %d)' % (extent, ent))
            continue
        if len(dirs) >= MAX_DIRS:
            errors.append('too many directories')
            break
        did = len(dirs)
        seen[extent] = did
        d = {'id': did, 'parent': parent if parent >= 0 else did, 'extent': _s32(extent),
             'len': _s32(dlen), 'ent': ent, 'dot': -1, 'dotdot': -1, 'nrec': 0}
        dirs.append(d)
        if ent >= 0:
            recs[ent]['child'] = did
        nblk = (dlen + SECTOR - 1) // SECTOR
        rep['regions'].append(['dir', _s32(extent), nblk])
        if extent + nblk > nsect or extent < 18:
            errors.append('directory %d extent [%d,+%d) outside the image' % (did, extent, nblk))
            continue
        off = 0
        k = 0
        while off < dlen:
            pos = extent * SECTOR + off
            reclen = data[pos]
            if reclen == 0:
                off = (off // SECTOR + 1) * SECTOR
                continue
            if reclen < 34 or (off % SECTOR) + reclen > SECTOR:
                errors.append('dir %d: record at +%d has impossible length %d' % (did, off, reclen))
                break
            if len(recs) >= MAX_RECS:
                errors.append('too many records')
                break
            rec = data[pos:pos + reclen]
            len_fi = rec[32]
            if 33 + len_fi > reclen:
                errors.append('dir %d: record at +%d: identifier longer than record' % (did, off))
                break
            ident = rec[33:33 + len_fi]
            pad_fi = 1 if len_fi % 2 == 0 else 0
            su = rec[33 + len_fi + pad_fi:]
            flags = rec[25]
            special = ''
            if ident == b'\x00' and k == 0:
                special = 'dot'
            elif ident == b'\x01' and k == 1:
                special = 'dotdot'
            r = {'r': len(recs), 'd': did, 'k': k, 'pos': [_n(pos // SECTOR), pos % SECTOR],
                 'ident': enc.b(ident), 'special': special, 'flags': flags,
                 'isdir': bool(flags & 2), 'reclen': reclen, 'len_fi': len_fi, 'pad_fi': pad_fi,
                 'pad_fi_zero': pad_fi == 0 or rec[33 + len_fi] == 0,
                 'extent': _both32(rec, 2), 'size': _both32(rec, 10), 'child': -1,
                 'xa': False, 'su_len': len(su), 'skip': 0}
            if special == 'dot':
                d['dot'] = r['r']
            elif special == 'dotdot':
                d['dotdot'] = r['r']
            recs.append(r)
            raw.append(su)
            if (flags & 2) and not special:
                cext = struct.unpack_from('<I', rec, 2)[0]
                clen = struct.unpack_from('<I', rec, 10)[0]
                queue.append((cext, clen, did, r['r']))
            elif not (flags & 2):
                fext = struct.unpack_from('<I', rec, 2)[0]
                flen = struct.unpack_from('<I', rec, 10)[0]
                if flen > 0:
                    fileregs.append((r['r'], ['file', _s32(fext), (flen + SECTOR - 1) // SECTOR]))
            off += reclen
            k += 1
        d['nrec'] = k

    # ---- pass 2: the SP entry (root ".")
    sp = rep['sp']
    skip = 0
    if dirs and dirs[0]['dot'] >= 0:
        r0 = dirs[0]['dot']
        su = raw[r0]
        for cand in (0, 14):
            if len(su) >= cand + 7 and su[cand:cand + 2] == b'SP':
                sp['found'] = True
                sp['rec'] = r0
                sp['off'] = cand
                sp['skip'] = su[cand + 6]
                sp['check_ok'] = (su[cand + 4] == 0xBE and su[cand + 5] == 0xEF and
                                  su[cand + 2] == 7 and su[cand + 3] == 1)
                skip = su[cand + 6]
                break

    # ---- pass 3: system use areas
    for r, su in zip(recs, raw):
        xa = (len(su) >= 14 and su[6:8] == b'XA' and su[9:14] == b'\x00' * 5)
        r['xa'] = xa
        is_root_dot = bool(dirs) and r['r'] == dirs[0]['dot']
        if is_root_dot:
            # SUSP 5.3: SP is at BP 1 of the System Use field of the root "." (BP 15 on CD-ROM XA)
            start = 14 if xa else 0
        else:
            start = skip
            if xa and skip < 14:
                # XA record present although SP does not announce it: still skip it, and let the
                # clause SPSkipMatchesXA report the disagreement.
                start = 14
        r['skip'] = start
        area = su[start:] if start <= len(su) else b''
        ents, used, stop, raws = _parse_entries(area, enc)
        left = area[used:]
        r['dr'] = {'ents': ents, 'sum': used, 'pad': len(left), 'pad_zero': left == b'\x00' * len(left),
                   'stop': stop}
        if ents:
            rep['has_susp'] = True
        r['nce_dr'] = sum(1 for e in ents if e['sig'] == 'CE')
        # continuation areas
        r['ce'] = []
        r['ce_loop'] = False
        visited = set()
        pending = [e for e in ents if e['sig'] == 'CE' and not e['bad']]
        while pending:
            ce = pending.pop(0)
            blk, coff, clen = _val(ce['block']), _val(ce['off']), _val(ce['clen'])
            key = (blk, coff, clen)
            if key in visited or len(r['ce']) >= MAX_CE_CHAIN:
                r['ce_loop'] = True
                break
            visited.add(key)
            a = {'block': _n(blk), 'off': _n(coff), 'len': _n(clen), 'ents': [], 'sum': 0,
                 'stop': 'outside', 'inside': False}
            rep['ce_areas'].append([r['r'], _n(blk), _n(coff), _n(clen)])
            start_b = blk * SECTOR + coff
            if blk >= 0 and coff >= 0 and clen >= 0 and start_b + clen <= len(data):
                a['inside'] = True
                cents, cused, cstop, craws = _parse_entries(data[start_b:start_b + clen], enc)
                a['ents'] = cents
                a['sum'] = cused
                a['stop'] = cstop
                pending.extend(e for e in cents if e['sig'] == 'CE' and not e['bad'])
            r['ce'].append(a)
        r['rr'] = _derive(r, enc)
        for where, lst in [('dr', r['dr']['ents'])] + [('ce', a['ents']) for a in r['ce']]:
            for e in lst:
                if e['sig'] == 'ER' and not e['bad']:
                    rep['er']['count'] += 1
                    rep['er']['where'].append([r['r'], where])
                    rep['er']['ids'].append(e['ext_id'])
                    if not is_root_dot:
                        rep['er']['root_dot_only'] = False

    for (ri, reg) in fileregs:
        if not recs[ri]['rr']['has_cl']:
            rep['regions'].append(reg)

    # ---- version guess
    ids = rep['er']['ids']
    px_lens = set()
    has_rr = False
    for r in recs:
        for e in _all_entries(r):
            if e['sig'] == 'PX':
                px_lens.add(e['len'])
            if e['sig'] == 'RR':
                has_rr = True
    if 'IEEE_P1282' in ids or 'IEEE_1282' in ids:
        rep['er']['version'] = '1.12'
    elif 'RRIP_1991A' in ids:
        rep['er']['version'] = '1.09' if has_rr else '1.10'
    rep['px_lens'] = sorted(px_lens)
    rep['has_rr_entry'] = has_rr

    # ---- CL / PL resolution and the logical tree
    by_extent = {}
    for d in dirs:
        e = d['extent']
        if isinstance(e, int):
            by_extent[e] = d['id']
    for r in recs:
        rr = r['rr']
        rr['cl_dir'] = by_extent.get(rr['cl'], -1) if rr['has_cl'] else -1
        rr['pl_dir'] = by_extent.get(rr['pl'], -1) if rr['has_pl'] else -1
    _logical_tree(rep, enc)


def _all_entries(r):
    for e in r['dr']['ents']:
        yield e
    for a in r['ce']:
        for e in a['ents']:
            yield e


def _derive(r, enc):
    """What an RRIP reader concludes from the entries of one record (record area first, then
    the continuation areas in chain order)."""
    name = b''
    nm_flags = []
    has_nm = False
    nm_special = ''
    px = None
    npx = 0
    target = b''
    has_sl = False
    sl_ok = True
    cont = False             # the previous component record had CONTINUE
    after_root = False       # the previous complete component was ROOT
    first = True
    cl = pl = -1
    ncl = npl = nre = 0
    present = 0
    rr_flags = -1
    sl_rec_flags = []
    comp_flags = []
    tf = 0
    for e in _all_entries(r):
        if e.get('bad'):
            continue
        sig = e['sig']
        if sig in RR_BITS:
            present |= RR_BITS[sig]
        if sig == 'NM':
            has_nm = True
            nm_flags.append(e['flags'])
            if e['flags'] & 2:
                nm_special = 'dot'
            elif e['flags'] & 4:
                nm_special = 'dotdot'
            else:
                name += _raw(e['name'])
        elif sig == 'PX':
            npx += 1
            if px is None:
                px = e
        elif sig == 'SL':
            has_sl = True
            sl_rec_flags.append(e['flags'])
            if not e['comps_ok']:
                sl_ok = False
            for (cf, cl_, cb) in e['comps']:
                comp_flags.append(cf)
                if cf & 8:
                    piece = b'/'
                elif cf & 2:
                    piece = b'.'
                elif cf & 4:
                    piece = b'..'
                else:
                    piece = _raw(cb)
                # RRIP 4.1.3.1: component records without CONTINUE end a component; components
                # are separated by "/", except that nothing is inserted after a ROOT component
                if not first and not cont and not after_root:
                    target += b'/'
                target += piece
                cont = bool(cf & 1)
                if not cont:
                    after_root = bool(cf & 8)
                first = False
        elif sig == 'CL':
            ncl += 1
            cl = _val(e['loc'])
        elif sig == 'PL':
            npl += 1
            pl = _val(e['loc'])
        elif sig == 'RE':
            nre += 1
        elif sig == 'RR':
            rr_flags = e['flags']
        elif sig == 'TF':
            tf += 1
    mode = _val(px['mode']) if px else 0
    nlink = _val(px['nlink']) if px else 0
    return {'name': enc.b(name), 'has_nm': has_nm, 'nm_special': nm_special, 'nm_flags': nm_flags,
            'has_px': px is not None, 'npx': npx, 'mode': _n(mode), 'nlink': _n(nlink),
            'uid': _n(_val(px['uid'])) if px else 0, 'gid': _n(_val(px['gid'])) if px else 0,
            'px_len': px['len'] if px else 0,
            'has_sl': has_sl, 'target': enc.b(target), 'sl_ok': sl_ok,
            'sl_flags': sl_rec_flags, 'comp_flags': comp_flags,
            'has_cl': ncl > 0, 'cl': _n(cl), 'ncl': ncl, 'has_pl': npl > 0, 'pl': _n(pl), 'npl': npl,
            're': nre > 0, 'nre': nre, 'ntf': tf, 'present': present, 'rr_flags': rr_flags}


def _raw(x):
    if isinstance(x, str):
        return bytes.fromhex(x)
    return bytes(x)


def _kind(mode):
    if not isinstance(mode, int):
        return 'other'
    t = mode & S_IFMT
    if t == S_IFDIR:
        return 'dir'
    if t == S_IFREG:
        return 'file'
    if t == S_IFLNK:
        return 'symlink'
    return 'other'


def _logical_tree(rep, enc):
    """The Rock Ridge view with relocation undone: a record carrying CL stands for the
    directory at CL.loc (attributes from that directory's "." record, RRIP 4.1.5.1); records
    carrying RE are not listed where they physically are."""
    dirs = rep['dirs']
    recs = rep['recs']
    errors = rep['errors']
    if not dirs:
        return
    children = {}
    for r in recs:
        children.setdefault(r['d'], []).append(r)
    tree = rep['tree']
    reloc_dirs = set()
    for r in recs:
        if r['rr']['re'] and not r['special']:
            reloc_dirs.add(r['d'])
    stack = [(0, [], frozenset([0]))]
    count = 0
    while stack:
        did, path, onpath = stack.pop()
        for r in children.get(did, []):
            if r['special']:
                continue
            rr = r['rr']
            if rr['re']:
                continue
            count += 1
            if count > MAX_RECS:
                errors.append('logical tree too large')
                return
            name = _raw(rr['name']) if rr['has_nm'] else _raw(r['ident'])
            p = path + [enc.b(name)]
            target_dir = -1
            src = rr
            if rr['has_cl']:
                target_dir = rr['cl_dir']
                if target_dir >= 0 and dirs[target_dir]['dot'] >= 0:
                    src = recs[dirs[target_dir]['dot']]['rr']
            elif r['isdir']:
                target_dir = r['child']
            if rr['has_cl'] or r['isdir']:
                kind = 'dir'
            else:
                kind = _kind(src['mode']) if src['has_px'] else 'file'
                if src['has_px'] and kind == 'dir':
                    kind = 'other'       # PX says directory, ECMA-119 says file and no CL
            tree.append({'path': p, 'kind': kind, 'mode': src['mode'], 'nlink': src['nlink'],
                         'emode': rr['mode'], 'enlink': rr['nlink'],
                         'target': rr['target'] if kind == 'symlink' else enc.b(b''),
                         'size': r['size'][0], 'extent': r['extent'][0],
                         'reloc': (r['child'] in reloc_dirs) if r['isdir'] else False,
                         'rec': r['r'], 'dir': target_dir, 'pdir': did, 'via_cl': rr['has_cl']})
            if target_dir >= 0:
                if target_dir in onpath:
                    errors.append('logical tree: directory %d is its own ancestor' % target_dir)
                    continue
                stack.append((target_dir, p, onpath | frozenset([target_dir])))
