"""Independent El Torito decoder (El Torito 1.0, ECMA-119 for the directory walk).

Pure standard library; shares no code with pycdlib.  `decode(data) -> dict` never raises: anything
that cannot be read is reported in `errors` and the corresponding fields keep their defaults.
Nothing is repaired or guessed: inconsistencies are reported as fields and the TLA+ clauses decide.

Numbers that may exceed 2^31-1 (checksums) are emitted as 8-digit hex strings (TLC integers are
32 bit); sector numbers and lengths of the images handled here are far below that and stay ints
(values >= 2^31 are emitted as -1 next to a `<name>_hex` string).

Report schema
-------------
{
 "errors":   [str],
 "filelen":  int, "nsect": int,
 "pvd":      {"present": bool, "sector": 16, "space": int, "lbs": int, "root_extent": int, "root_len": int},
 "joliet":   {"present": bool, "sector": int, "root_extent": int, "root_len": int},
 "vds":      [{"type": int, "sector": int}],             # descriptor set up to the first terminator
 "brs":      [{"sector": int, "sysid": str, "eltorito": bool, "cat_sector": int}],   # all type-0 descriptors
 "br":       {"present": bool, "sector": int, "count": int, "version": int, "cat_sector": int,
              "cat_in_image": bool, "rest_zero": bool},   # first El Torito boot record
 "validation": {"present": bool, "header_id": int, "platform": int, "reserved": int, "id_hex": str,
              "checksum": int, "sum16": int, "key55": int, "keyaa": int},   # sum16 = sum of the 16 LE words mod 65536
 "initial":  <entry>,
 "sections": [{"pos": int, "indicator": int, "platform": int, "nentries": int, "id_hex": str,
               "entries_seen": int}],
 "entries":  [<entry>],     # initial entry first, then section entries in catalog order
 "catalog":  {"sector": int, "sha": str, "slots_used": int, "rest_zero": bool, "stray": [int],
              "names": [{"ns": "iso"|"jol"|"rr", "path": str, "size": int, "flags": int}]},
 "files":    [{"ns": "iso"|"jol", "path": str, "rr": str, "extent": int, "size": int, "flags": int,
               "complete": bool, "sha": str, "sha_nobit": str}],     # all file records, with content hashes
}
<entry> = {"pos": int (32-byte slot in the catalog), "kind": "initial"|"section", "section": int (0 = none),
           "platform": int (validation platform for the initial entry, section header platform otherwise),
           "indicator": int, "media": int, "seg": int, "systype": int, "unused": int, "count": int,
           "rba": int, "criteria": int, "tail_zero": bool,
           "in_image": bool (sector rba exists), "count_in_image": bool (all count*512 bytes exist), "head_hex": str (first 64 bytes at rba),
           "sha_count": str  (SHA-256 of count*512 bytes at rba),
           "sha_count_nobit": str (same with bytes 8..63 replaced by zeros),
           "sha_sectors": str (SHA-256 of the 2048-rounded region),
           "sha_len", "sha_len_nobit": str (SHA-256 of the first entry_lens[k] bytes at rba when the caller
                         says how many bytes to hash - the length of the blob it asked to boot; else ""),
           "media_sha": str (media 1/2/3: SHA-256 of the 1228800/1474560/2949120 bytes of the diskette image at rba; else ""),
           "names": [{"ns","path","rr","size","flags"}]  (records whose extent == rba),
           "file": {"known": bool, "size": int, "sha": str, "sha_nobit": str}  (size from the first record found),
           "bit": {"looks": bool, "pvd": int, "sector": int, "length": int, "csum_hex": str,
                   "recomputed_hex": str, "len_source": "dir"|"bit", "rest_zero": bool, "complete": bool}}
"""
import hashlib
import struct

SECTOR = 2048
ELTORITO_ID = b'EL TORITO SPECIFICATION'


def _i(v):
    return v if -1 < v < (1 << 31) else -1


def _sha(b):
    return hashlib.sha256(b).hexdigest()


def _h32(v):
    return '%08x' % (v & 0xffffffff)


def _words32(buf):
    """sum of LE32 words of buf (zero padded to a multiple of 4) mod 2^32"""
    if len(buf) % 4:
        buf = buf + b'\x00' * (4 - len(buf) % 4)
    total = 0
    for k in range(0, len(buf), 4096):
        chunk = buf[k:k + 4096]
        total += sum(struct.unpack('<%dL' % (len(chunk) // 4), chunk))
    return total & 0xffffffff


def _nobit(b):
    if len(b) <= 8:
        return b
    n = min(len(b), 64)
    return b[:8] + b'\x00' * (n - 8) + b[64:]


def _rr_name(su, data, lbs, errors, depth=0):
    """Rock Ridge NM name from a system use field (follows CE at most 4 times)."""
    name = b''
    pos = 0
    ce = None
    if len(su) >= 14 and su[6:14] == b'CD-XA001':
        pos = 14
    while pos + 4 <= len(su):
        sig = su[pos:pos + 2]
        ln = su[pos + 2]
        if ln < 4 or pos + ln > len(su):
            break
        if sig == b'NM' and ln >= 5:
            name += su[pos + 5:pos + ln]
        elif sig == b'CE' and ln >= 28:
            ce = (struct.unpack_from('<L', su, pos + 4)[0], struct.unpack_from('<L', su, pos + 12)[0],
                  struct.unpack_from('<L', su, pos + 20)[0])
        elif sig == b'ST':
            break
        pos += ln
    if ce is not None and depth < 4:
        start = ce[0] * lbs + ce[1]
        if start + ce[2] <= len(data):
            name += _rr_name(data[start:start + ce[2]], data, lbs, errors, depth + 1)
    return name


def _walk(data, root_extent, root_len, lbs, ns, errors, skip_su=0):
    """minimal ECMA-119 directory walk; returns list of file records."""
    out = []
    seen = set()
    todo = [('', root_extent, root_len)]
    guard = 0
    while todo:
        path, ext, ln = todo.pop()
        if (ext, ln) in seen:
            continue
        seen.add((ext, ln))
        guard += 1
        if guard > 20000:
            errors.append('%s: directory walk aborted (too many directories)' % ns)
            break
        start = ext * lbs
        if ln <= 0 or start + ln > len(data):
            errors.append('%s: directory %s extent %d len %d outside the image' % (ns, path or '/', ext, ln))
            continue
        buf = data[start:start + ln]
        pos = 0
        idx = 0
        while pos < len(buf):
            rl = buf[pos]
            if rl == 0:
                # records do not span sectors: skip to the next sector
                pos = (pos // lbs + 1) * lbs
                continue
            if rl < 34 or pos + rl > len(buf):
                errors.append('%s: bad record length %d in %s at %d' % (ns, rl, path or '/', pos))
                break
            rec = buf[pos:pos + rl]
            extent = struct.unpack_from('<L', rec, 2)[0]
            size = struct.unpack_from('<L', rec, 10)[0]
            flags = rec[25]
            lfi = rec[32]
            ident = rec[33:33 + lfi]
            su_off = 33 + lfi + (1 - lfi % 2)
            su = rec[su_off:] if su_off < rl else b''
            pos += rl
            idx += 1
            if idx <= 2 and ident in (b'\x00', b'\x01'):
                continue
            if ns == 'jol':
                try:
                    name = ident.decode('utf-16-be')
                except UnicodeDecodeError:
                    name = ident.hex()
            else:
                name = ident.decode('latin-1')
            full = path + '/' + name
            if flags & 0x02:
                todo.append((full, extent, size))
            else:
                rr = ''
                if ns == 'iso' and su:
                    rr = _rr_name(su, data, lbs, errors).decode('latin-1')
                body = data[extent * lbs:extent * lbs + size] if extent * lbs + size <= len(data) else b''
                out.append({'ns': ns, 'path': full, 'rr': rr, 'extent': _i(extent), 'size': _i(size),
                            'flags': flags, 'complete': len(body) == size,
                            'sha': _sha(body), 'sha_nobit': _sha(_nobit(body))})
    out.sort(key=lambda r: (r['ns'], r['path'], r['extent']))
    return out


def _entry(raw, pos, kind, section, platform):
    (ind, media, seg, systype, unused, count, rba, crit) = struct.unpack_from('<BBHBBHLB', raw, 0)
    return {'pos': pos, 'kind': kind, 'section': section, 'platform': platform, 'indicator': ind,
            'media': media, 'seg': seg, 'systype': systype, 'unused': unused, 'count': count,
            'rba': _i(rba), 'rba_hex': _h32(rba), 'criteria': crit,
            'tail_zero': raw[13:32] == b'\x00' * 19 if kind == 'section' else raw[12:32] == b'\x00' * 20,
            'in_image': False, 'count_in_image': False, 'head_hex': '', 'sha_count': '', 'sha_count_nobit': '', 'sha_sectors': '',
            'media_sha': '', 'sha_len': '', 'sha_len_nobit': '', 'names': [],
            'file': {'known': False, 'size': 0, 'sha': '', 'sha_nobit': ''},
            'bit': {'looks': False, 'pvd': 0, 'sector': 0, 'length': 0, 'csum_hex': '', 'recomputed_hex': '',
                    'len_source': '', 'rest_zero': False, 'complete': False}}


def _fill_entry(e, data, files, pvd_sector, lbs):
    rba = e['rba']
    if rba < 0:
        return
    start = rba * lbs
    n = e['count'] * 512
    if rba >= 16 and start + lbs <= len(data):
        e['in_image'] = True          # the load sector exists (the load size may exceed the file: requester's choice)
    e['count_in_image'] = rba >= 16 and start + max(n, 1) <= len(data)
    region = data[start:start + n]
    e['head_hex'] = data[start:start + 64].hex()
    e['sha_count'] = _sha(region)
    e['sha_count_nobit'] = _sha(_nobit(region))
    rounded = ((n + lbs - 1) // lbs) * lbs
    e['sha_sectors'] = _sha(data[start:start + rounded])
    msize = {1: 1228800, 2: 1474560, 3: 2949120}.get(e['media'])
    if msize is not None and start + msize <= len(data):
        e['media_sha'] = _sha(data[start:start + msize])
    e['names'] = [{'ns': f['ns'], 'path': f['path'], 'rr': f['rr'], 'size': f['size'], 'flags': f['flags']}
                  for f in files if f['extent'] == rba and f['size'] > 0]
    size = None
    if e['names']:
        size = e['names'][0]['size']
        body = data[start:start + size]
        e['file'] = {'known': True, 'size': size, 'sha': _sha(body), 'sha_nobit': _sha(_nobit(body)),
                     'complete': len(body) == size}
    # boot info table: bytes 8..63 = 4 LE32 + 40 reserved bytes
    head = data[start:start + 64]
    if len(head) >= 24:
        (bp, bs, bl, bc) = struct.unpack_from('<LLLL', head, 8)
        looks = (bp == pvd_sector and bs == rba and bl > 0)
        src = 'dir'
        length = size
        if length is None:
            src = 'bit'
            length = bl
        rest = data[start + 64:start + length] if length > 64 else b''
        e['bit'] = {'looks': looks, 'pvd': _i(bp), 'sector': _i(bs), 'length': _i(bl), 'csum_hex': _h32(bc),
                    'recomputed_hex': _h32(_words32(rest)), 'len_source': src,
                    'rest_zero': head[24:64] == b'\x00' * len(head[24:64]),
                    'complete': start + length <= len(data)}


def bit_fields(body):
    """boot info table fields of a boot file's bytes (as read back through any API): pure function."""
    out = {'has': len(body) >= 24, 'pvd': 0, 'sector': 0, 'length': 0, 'csum_hex': '', 'recomputed_hex': '',
           'rest_zero': False, 'size': len(body), 'sha': _sha(body), 'sha_nobit': _sha(_nobit(body))}
    if len(body) >= 24:
        (bp, bs, bl, bc) = struct.unpack_from('<LLLL', body, 8)
        out.update({'pvd': _i(bp), 'sector': _i(bs), 'length': _i(bl), 'csum_hex': _h32(bc),
                    'recomputed_hex': _h32(_words32(body[64:])),
                    'rest_zero': body[24:64] == b'\x00' * len(body[24:64])})
    return out


def decode(data, entry_lens=None):
    """entry_lens (optional): number of bytes to hash at the load RBA of entry 1, 2, ... (sha_len)."""
    rep = {'errors': [], 'filelen': len(data), 'nsect': len(data) // SECTOR,
           'pvd': {'present': False, 'sector': 16, 'space': 0, 'lbs': SECTOR, 'root_extent': 0, 'root_len': 0},
           'joliet': {'present': False, 'sector': 0, 'root_extent': 0, 'root_len': 0},
           'vds': [], 'brs': [],
           'br': {'present': False, 'sector': 0, 'count': 0, 'version': 0, 'cat_sector': 0,
                  'cat_in_image': False, 'rest_zero': False},
           'validation': {'present': False, 'header_id': 0, 'platform': 0, 'reserved': 0, 'id_hex': '',
                          'checksum': 0, 'sum16': 0, 'key55': 0, 'keyaa': 0},
           'initial': None, 'sections': [], 'entries': [],
           'catalog': {'sector': 0, 'sha': '', 'slots_used': 0, 'rest_zero': False, 'stray': [], 'names': []},
           'files': []}
    try:
        _decode(data, rep)
        for k, n in enumerate(entry_lens or ()):
            if k < len(rep['entries']) and rep['entries'][k]['rba'] >= 0:
                start = rep['entries'][k]['rba'] * SECTOR
                body = data[start:start + n]
                if len(body) == n:
                    rep['entries'][k]['sha_len'] = _sha(body)
                    rep['entries'][k]['sha_len_nobit'] = _sha(_nobit(body))
    except Exception as e:  # pylint: disable=broad-except
        rep['errors'].append('decoder exception: %s: %s' % (type(e).__name__, e))
    if rep['initial'] is None:
        rep['initial'] = _entry(b'\x00' * 32, 1, 'initial', 0, 0)
        rep['initial']['pos'] = -1
    return rep


def _decode(data, rep):
    errors = rep['errors']
    lbs = SECTOR
    # ---- volume descriptor set ------------------------------------------------
    s = 16
    jol = None
    while (s + 1) * SECTOR <= len(data) and s < 16 + 64:
        vd = data[s * SECTOR:(s + 1) * SECTOR]
        if vd[1:6] != b'CD001':
            break
        t = vd[0]
        rep['vds'].append({'type': t, 'sector': s})
        if t == 255:
            break
        if t == 1 and not rep['pvd']['present']:
            rep['pvd'] = {'present': True, 'sector': s, 'space': _i(struct.unpack_from('<L', vd, 80)[0]),
                          'lbs': struct.unpack_from('<H', vd, 128)[0],
                          'root_extent': _i(struct.unpack_from('<L', vd, 156 + 2)[0]),
                          'root_len': _i(struct.unpack_from('<L', vd, 156 + 10)[0])}
        elif t == 2 and vd[88:91] in (b'%/@', b'%/C', b'%/E') and jol is None:
            jol = {'present': True, 'sector': s,
                   'root_extent': _i(struct.unpack_from('<L', vd, 156 + 2)[0]),
                   'root_len': _i(struct.unpack_from('<L', vd, 156 + 10)[0])}
        elif t == 0:
            sysid = vd[7:39]
            is_elt = sysid.rstrip(b'\x00') == ELTORITO_ID
            cat = struct.unpack_from('<L', vd, 71)[0]
            rep['brs'].append({'sector': s, 'sysid': sysid.rstrip(b'\x00').decode('latin-1'),
                               'eltorito': is_elt, 'cat_sector': _i(cat)})
            if is_elt:
                rep['br']['count'] += 1
                if not rep['br']['present']:
                    rep['br'].update({'present': True, 'sector': s, 'version': vd[6], 'cat_sector': _i(cat),
                                      'cat_in_image': 16 < cat and (cat + 1) * SECTOR <= len(data),
                                      'rest_zero': vd[39:71] == b'\x00' * 32 and vd[75:] == b'\x00' * (SECTOR - 75)})
        s += 1
    if jol is not None:
        rep['joliet'] = jol
    if not rep['pvd']['present']:
        errors.append('no primary volume descriptor at sector 16')
    else:
        if rep['pvd']['lbs'] != SECTOR:
            errors.append('logical block size %d not supported by this decoder' % rep['pvd']['lbs'])
        rep['files'] = _walk(data, rep['pvd']['root_extent'], rep['pvd']['root_len'], lbs, 'iso', errors)
        if jol is not None:
            rep['files'] += _walk(data, jol['root_extent'], jol['root_len'], lbs, 'jol', errors)
    files = rep['files']
    if not rep['br']['present']:
        return
    cat = rep['br']['cat_sector']
    rep['catalog']['sector'] = cat
    if not rep['br']['cat_in_image']:
        errors.append('boot catalog sector %d outside the image' % cat)
        return
    c = data[cat * SECTOR:(cat + 1) * SECTOR]
    rep['catalog']['sha'] = _sha(c)
    for f in files:
        if f['extent'] == cat:
            rep['catalog']['names'].append({'ns': f['ns'], 'path': f['path'], 'size': f['size'],
                                            'flags': f['flags']})
            if f['rr']:
                rep['catalog']['names'].append({'ns': 'rr', 'path': f['rr'], 'size': f['size'],
                                                'flags': f['flags']})
    # ---- validation entry -------------------------------------------------------
    v = c[0:32]
    words = struct.unpack('<16H', v)
    rep['validation'] = {'present': True, 'header_id': v[0], 'platform': v[1],
                         'reserved': struct.unpack_from('<H', v, 2)[0], 'id_hex': v[4:28].hex(),
                         'checksum': struct.unpack_from('<H', v, 28)[0], 'sum16': sum(words) & 0xffff,
                         'key55': v[30], 'keyaa': v[31]}
    pvd_sector = rep['pvd']['sector']
    # ---- initial/default entry --------------------------------------------------
    ini = _entry(c[32:64], 1, 'initial', 0, v[1])
    _fill_entry(ini, data, files, pvd_sector, lbs)
    rep['initial'] = ini
    rep['entries'].append(ini)
    # ---- section headers and entries -----------------------------------------
    pos = 2
    cur = None      # current section
    nsec = 0
    last_used = 1
    while pos < SECTOR // 32:
        raw = c[pos * 32:(pos + 1) * 32]
        b0 = raw[0]
        if raw == b'\x00' * 32:
            pos += 1
            continue
        if cur is not None and cur['entries_seen'] < cur['nentries'] and b0 in (0x88, 0x00):
            e = _entry(raw, pos, 'section', nsec, cur['platform'])
            _fill_entry(e, data, files, pvd_sector, lbs)
            rep['entries'].append(e)
            cur['entries_seen'] += 1
            last_used = pos
        elif b0 in (0x90, 0x91):
            nsec += 1
            cur = {'pos': pos, 'indicator': b0, 'platform': raw[1],
                   'nentries': struct.unpack_from('<H', raw, 2)[0], 'id_hex': raw[4:32].hex(),
                   'entries_seen': 0}
            rep['sections'].append(cur)
            last_used = pos
        elif b0 == 0x44:
            last_used = pos     # section entry extension: not interpreted
        else:
            rep['catalog']['stray'].append(pos)
            last_used = pos
        pos += 1
    rep['catalog']['slots_used'] = last_used + 1
    # rest_zero: no non-zero slot after a zero slot (entries are contiguous)
    used = [k for k in range(SECTOR // 32) if c[k * 32:(k + 1) * 32] != b'\x00' * 32]
    rep['catalog']['rest_zero'] = used == list(range(len(used)))
