"""Independent ECMA-119 (ISO9660) / Joliet decoder: raw bytes -> "image report".

Written from the standards (ECMA-119 2nd/4th ed., Joliet specification, El Torito 1.0 for the
boot record volume descriptor).  Imports nothing from pycdlib.  The decoder never repairs or
hides anything: every both-byte-order number is reported as the pair [little-endian copy,
big-endian copy], every directory record and path table record is reported with its raw fields,
and TLC (spec/Volume.tla) decides what is wrong.  It never raises on bad input: structural
impossibilities are recorded in report["errors"] and decoding continues where possible.

Numbers: JSON numbers >= 2^31 cannot be read by TLC.  num(x) gives x for x < 2^31 and the string
'0x%08x' otherwise; both members of a both-endian pair are strings as soon as one of them is
(so that TLC can still compare them).  Every such place EXCEPT the data length of a
non-directory record (a file of 2 GiB or more is legal) is listed in report["big"]: on such a
report TLC only evaluates the clauses that do no arithmetic.

Report (all keys always present unless marked '?'):
  nsect, filelen_rem, errors:[str], big:[str],
  vds: [ {type, sector, version, ident_ok}                                  any descriptor
         + {bootsys:str, elt:bool, catalog:num}                             type 0
         + {vflags, fsver, esc:[3 ints], esc_rest_zero, space:[le,be], setsize:[le,be],
            seq:[le,be], lbs:[le,be], ptsize:[le,be], ptL, ptLopt, ptM, ptMopt,
            root:<record>, moddate:[17 ints]}                               type 1 and 2 ],
  term_index: 1-based index in vds of the first terminator, 0 if none within 64 descriptors,
  trees:   {iso|jol|enh: [ {id, parent, path:[[int]], extent, first (= extent + xattr length),
                            len, trailing_nonzero, records:[<record>]} ]},
  treevd:  {iso|jol|enh: 1-based index in vds},
  ptables: {iso|jol|enh: {L|M|Lopt?|Mopt?: {loc, recs:[{num, off, len_di, xattr, extent, parent,
                                                   name:[int], pad_ok}], leftover, overrun}}},
  files:   {iso|jol|enh: [ {path, extent, size, sha, flags, parts?:[[extent, size]]} ]},
  regions: [ {kind, owner, start, nsect} ]   owner is always a string; objects at the same place share it:
           system "sys" (sectors 0..15) | vd "vd<index>" | ptable "pt:<sector>" (ceil(ptsize/2048)
           sectors per copy) | dir "dir:<extent>" | file "<extent>" (one per file section; hard links
           and the Joliet/ISO names of one file share it; zero-length files own nothing) |
           bootcat "<sector>" (1 sector, when an El Torito boot record points at it).  Identical
           entries are emitted once.  Rock Ridge continuation areas and UDF structures: other decoders.
  <record> = {sector, off, reclen, xattr, extent:[le,be], size:[le,be], date:[7 ints], flags,
              unit, gap, seq:[le,be], len_fi, name:[int], pad_ok, su_len, su_hex?, crosses?}
Names (name, path components): raw identifier bytes for iso/enh, UCS-2BE code units for jol
((00) and (01) stay [0] and [1]).  su_len = reclen - 33 - len_fi - padding (may be negative on a
broken record); su_hex (hex of the system use bytes) only when su_len > 0; crosses only (true)
when off + reclen > 2048.  files: one entry per file (sections of a multi-extent file are joined:
extent = first section, size = sum, parts = all sections); sha = SHA-256 of the data taken from
the image, '' when size > hash_limit or the data runs past the end of the image (also an error).
An item handed to Judge_Volume may add  id:str  and  expect: {joliet: 0..3, level: 1..4}.
"""
import hashlib
import struct

SECTOR = 2048
MAX_DIRS = 5000
MAX_VDS = 64
JOLIET_ESCAPES = (b'%/@', b'%/C', b'%/E')


def num(x):
    """JSON-safe number for TLC (32-bit signed integers only)."""
    return x if x < 0x80000000 else '0x%08x' % x


def _pair(le, be):
    if le >= 0x80000000 or be >= 0x80000000:
        return ['0x%08x' % le, '0x%08x' % be]
    return [le, be]


def _isbig(p):
    return isinstance(p, str) or (isinstance(p, list) and isinstance(p[0], str))


class _Dec(object):
    def __init__(self, data, hash_limit):
        self.d = data
        self.n = len(data)
        self.hash_limit = hash_limit
        self.errors = []
        self.big = []
        self.regions = []
        self._regset = set()

    # ---------------------------------------------------------------- helpers
    def err(self, msg):
        if len(self.errors) < 50:
            self.errors.append(msg)

    def region(self, kind, owner, start, nsect):
        key = (kind, owner, start, nsect)
        if key in self._regset:
            return
        self._regset.add(key)
        self.regions.append({'kind': kind, 'owner': owner, 'start': num(start), 'nsect': num(nsect)})

    def sector(self, s):
        """bytes of sector s, or None if it is not completely inside the image."""
        if s < 0 or (s + 1) * SECTOR > self.n:
            return None
        return self.d[s * SECTOR:(s + 1) * SECTOR]

    def both32(self, buf, off):
        return _pair(struct.unpack_from('<L', buf, off)[0], struct.unpack_from('>L', buf, off + 4)[0])

    def both16(self, buf, off):
        return [struct.unpack_from('<H', buf, off)[0], struct.unpack_from('>H', buf, off + 2)[0]]

    def note_big(self, where, *vals):
        for v in vals:
            if _isbig(v):
                self.big.append(where)
                return

    # ------------------------------------------------------ directory records
    def record(self, buf, off, sector, secoff, joliet, where, in_vd=False):
        """Decode the directory record at buf[off:]; reclen is buf[off].  buf must hold at least
        34 bytes from off; fields that lie beyond the available bytes are cut short."""
        reclen = buf[off]
        end = off + reclen
        if end > len(buf):
            end = len(buf)
        len_fi = buf[off + 32]
        name_end = min(off + 33 + len_fi, len(buf))
        raw = buf[off + 33:name_end]
        if joliet and len(raw) > 1:
            name = [(raw[k] << 8) | raw[k + 1] for k in range(0, len(raw) - 1, 2)]
            if len(raw) % 2:
                name.append(raw[-1])
                self.err('%s: Joliet identifier with odd length %d' % (where, len(raw)))
        else:
            name = list(raw)
        pad = 1 if len_fi % 2 == 0 else 0
        pad_ok = True
        if pad:
            p = off + 33 + len_fi
            pad_ok = p < len(buf) and buf[p] == 0
        su_start = off + 33 + len_fi + pad
        su_len = reclen - (33 + len_fi + pad)
        rec = {
            'sector': sector, 'off': secoff, 'reclen': reclen, 'xattr': buf[off + 1],
            'extent': self.both32(buf, off + 2), 'size': self.both32(buf, off + 10),
            'date': list(buf[off + 18:off + 25]), 'flags': buf[off + 25], 'unit': buf[off + 26],
            'gap': buf[off + 27], 'seq': self.both16(buf, off + 28), 'len_fi': len_fi,
            'name': name, 'pad_ok': pad_ok, 'su_len': su_len,
        }
        if su_len > 0:
            rec['su_hex'] = bytes(buf[su_start:end]).hex()
        if secoff + reclen > SECTOR:
            rec['crosses'] = True
        self.note_big(where + ':extent', rec['extent'])
        if rec['flags'] & 2 or in_vd:
            self.note_big(where + ':size', rec['size'])
        return rec

    # ----------------------------------------------------- volume descriptors
    def vds(self):
        out = []
        term = 0
        for k in range(MAX_VDS):
            s = 16 + k
            buf = self.sector(s)
            if buf is None:
                self.err('volume descriptor set runs past the end of the image at sector %d' % s)
                break
            t = buf[0]
            vd = {'type': t, 'sector': s, 'version': buf[6], 'ident_ok': buf[1:6] == b'CD001'}
            if t == 0:
                bootsys = buf[7:39]
                vd['bootsys'] = bootsys.rstrip(b'\x00 ').decode('latin-1')
                vd['elt'] = bootsys == b'EL TORITO SPECIFICATION'.ljust(32, b'\x00')
                cat = struct.unpack_from('<L', buf, 71)[0]
                vd['catalog'] = num(cat)
                self.note_big('vd%d:catalog' % (k + 1), vd['catalog'])
            elif t in (1, 2):
                w = 'vd%d' % (k + 1)
                vd['vflags'] = buf[7]
                vd['fsver'] = buf[881]
                vd['esc'] = list(buf[88:91])
                vd['esc_rest_zero'] = buf[91:120] == b'\x00' * 29
                vd['space'] = self.both32(buf, 80)
                vd['setsize'] = self.both16(buf, 120)
                vd['seq'] = self.both16(buf, 124)
                vd['lbs'] = self.both16(buf, 128)
                vd['ptsize'] = self.both32(buf, 132)
                vd['ptL'] = num(struct.unpack_from('<L', buf, 140)[0])
                vd['ptLopt'] = num(struct.unpack_from('<L', buf, 144)[0])
                vd['ptM'] = num(struct.unpack_from('>L', buf, 148)[0])
                vd['ptMopt'] = num(struct.unpack_from('>L', buf, 152)[0])
                is_jol = t == 2 and bytes(buf[88:91]) in JOLIET_ESCAPES
                vd['root'] = self.record(buf, 156, s, 156, is_jol, w + ':root', in_vd=True)
                vd['moddate'] = list(buf[830:847])
                self.note_big(w, vd['space'], vd['ptsize'], vd['ptL'], vd['ptLopt'], vd['ptM'], vd['ptMopt'])
            out.append(vd)
            self.region('vd', 'vd%d' % (k + 1), s, 1)
            if t == 255:
                term = k + 1
                break
        if term == 0 and len(out) == MAX_VDS:
            self.err('no volume descriptor set terminator within %d descriptors' % MAX_VDS)
        return out, term

    # ------------------------------------------------------------- directories
    def tree(self, ns, root, joliet):
        """Breadth-first walk from the root record of a descriptor."""
        dirs = []
        files = []
        seen = set()
        if _isbig(root['extent']) or _isbig(root['size']):
            self.err('%s: root directory record has a field >= 2^31' % ns)
            return dirs, files
        queue = [(root['extent'][0], root['size'][0], root['xattr'], 0, [])]
        while queue:
            extent, length, xattr, parent, path = queue.pop(0)
            if extent in seen:
                self.err('%s: directory extent %d is reached more than once' % (ns, extent))
                continue
            if len(dirs) >= MAX_DIRS:
                self.err('%s: more than %d directories' % (ns, MAX_DIRS))
                break
            seen.add(extent)
            did = len(dirs) + 1
            first = extent + xattr
            d = {'id': did, 'parent': parent or did, 'path': path, 'extent': extent, 'first': first,
                 'len': length, 'trailing_nonzero': False, 'records': []}
            dirs.append(d)
            nsec = (length + SECTOR - 1) // SECTOR
            if first + nsec > self.n // SECTOR:
                self.err('%s: directory %d (extent %d, length %d) runs past the end of the image'
                         % (ns, did, extent, length))
                nsec = max(0, self.n // SECTOR - first)
            if nsec:
                self.region('dir', 'dir:%d' % extent, first, nsec)
            buf = self.d[first * SECTOR:(first + nsec) * SECTOR]
            pos = 0
            pending = None      # multi-extent file being collected
            while pos < len(buf):
                secoff = pos % SECTOR
                reclen = buf[pos]
                if reclen == 0:
                    nxt = pos - secoff + SECTOR
                    if any(buf[pos:nxt]):
                        d['trailing_nonzero'] = True
                    pos = nxt
                    continue
                if pos + 34 > len(buf):
                    self.err('%s: directory %d: record at byte %d is cut by the end of the extent'
                             % (ns, did, pos))
                    break
                where = '%s:d%d:r%d' % (ns, did, len(d['records']) + 1)
                rec = self.record(buf, pos, first + pos // SECTOR, secoff, joliet, where)
                d['records'].append(rec)
                if len(d['records']) > 100000:
                    self.err('%s: directory %d has more than 100000 records' % (ns, did))
                    break
                pos += reclen
                if _isbig(rec['extent']):
                    continue
                name = rec['name']
                special = name in ([0], [1])
                if rec['flags'] & 2:
                    pending = None
                    if not special:
                        if _isbig(rec['size']):
                            self.err('%s: directory record of size >= 2^31' % where)
                        else:
                            queue.append((rec['extent'][0], rec['size'][0], rec['xattr'], did, path + [name]))
                elif not special:
                    size = rec['size'][0]
                    if isinstance(size, str):
                        size = int(size, 16)
                    part = (rec['extent'][0], size, rec['xattr'])
                    if pending is not None and pending['name'] == name:
                        pending['parts'].append(part)
                    else:
                        pending = {'name': name, 'path': path + [name], 'flags': rec['flags'], 'parts': [part]}
                        files.append(pending)
                    if not rec['flags'] & 0x80:
                        pending = None
        return dirs, files

    def finish_files(self, ns, files):
        out = []
        total_sectors = self.n // SECTOR
        for f in files:
            total = sum(p[1] for p in f['parts'])
            h = hashlib.sha256()
            ok = total <= self.hash_limit
            for (extent, size, xattr) in f['parts']:
                if size == 0:
                    continue
                start = extent + xattr
                nsec = (size + SECTOR - 1) // SECTOR
                self.region('file', str(extent), start, nsec)
                if start * SECTOR + size > self.n:
                    self.err('%s: data of file at extent %d (%d bytes) runs past the end of the image'
                             % (ns, extent, size))
                    ok = False
                elif ok:
                    h.update(self.d[start * SECTOR:start * SECTOR + size])
            e = {'path': f['path'], 'extent': num(f['parts'][0][0]), 'size': num(total) if total < 1 << 32 else hex(total),
                 'sha': h.hexdigest() if ok else '', 'flags': f['flags']}
            if len(f['parts']) > 1:
                e['parts'] = [[num(p[0]), num(p[1])] for p in f['parts']]
            out.append(e)
        return out

    # -------------------------------------------------------------- path tables
    def ptable(self, ns, which, loc, ptsize, big_endian, joliet):
        res = {'loc': loc, 'recs': [], 'leftover': 0, 'overrun': False}
        if _isbig(loc) or _isbig(ptsize):
            self.err('%s: path table %s location or size >= 2^31' % (ns, which))
            return res
        nsec = (ptsize + SECTOR - 1) // SECTOR
        if nsec:
            self.region('ptable', 'pt:%d' % loc, loc, nsec)
        if loc * SECTOR + ptsize > self.n:
            self.err('%s: path table %s (sector %d, %d bytes) runs past the end of the image'
                     % (ns, which, loc, ptsize))
            return res
        buf = self.d[loc * SECTOR:loc * SECTOR + ptsize]
        fmt32, fmt16 = ('>L', '>H') if big_endian else ('<L', '<H')
        pos = 0
        while pos < ptsize:
            if pos + 8 > ptsize or buf[pos] == 0:
                res['leftover'] = ptsize - pos
                break
            len_di = buf[pos]
            pad = len_di % 2
            raw = buf[pos + 8:pos + 8 + len_di]
            if joliet and len_di > 1:
                name = [(raw[k] << 8) | raw[k + 1] for k in range(0, len(raw) - 1, 2)]
                if len(raw) % 2:
                    name.append(raw[-1])
            else:
                name = list(raw)
            end = pos + 8 + len_di + pad
            ext = struct.unpack_from(fmt32, buf, pos + 2)[0]
            rec = {'num': len(res['recs']) + 1, 'off': pos, 'len_di': len_di, 'xattr': buf[pos + 1],
                   'extent': num(ext), 'parent': struct.unpack_from(fmt16, buf, pos + 6)[0], 'name': name,
                   'pad_ok': (not pad) or (end <= ptsize and buf[end - 1] == 0)}
            self.note_big('%s:pt%s:%d' % (ns, which, rec['num']), rec['extent'])
            res['recs'].append(rec)
            if end > ptsize:
                res['overrun'] = True
                break
            pos = end
        return res


def decode(data, hash_limit=64 << 20):
    """Decode an image held in a bytes-like object.  Never raises on bad input."""
    data = bytes(data)
    dec = _Dec(data, hash_limit)
    report = {'nsect': len(data) // SECTOR, 'filelen_rem': len(data) % SECTOR, 'errors': dec.errors,
              'big': dec.big, 'vds': [], 'term_index': 0, 'trees': {}, 'treevd': {}, 'ptables': {},
              'files': {}, 'regions': dec.regions}
    try:
        _decode(dec, report)
    except Exception as e:      # a decoder bug or an impossibility not foreseen: report, do not raise
        dec.err('decoder stopped: %s: %s' % (type(e).__name__, e))
    return report


def _decode(dec, report):
    dec.region('system', 'sys', 0, 16)
    if dec.n < 17 * SECTOR:
        dec.err('image shorter than 17 sectors')
        return
    vds, term = dec.vds()
    report['vds'] = vds
    report['term_index'] = term
    chosen = {}
    for k, vd in enumerate(vds):
        if vd['type'] == 1 and 'iso' not in chosen:
            chosen['iso'] = k
        elif vd['type'] == 2:
            if bytes(vd['esc']) in JOLIET_ESCAPES:
                chosen.setdefault('jol', k)
            elif vd['version'] == 2:
                chosen.setdefault('enh', k)
        elif vd['type'] == 0 and vd['elt'] and not isinstance(vd['catalog'], str):
            dec.region('bootcat', str(vd['catalog']), vd['catalog'], 1)
    for ns in ('iso', 'jol', 'enh'):
        if ns not in chosen:
            continue
        vd = vds[chosen[ns]]
        joliet = ns == 'jol'
        report['treevd'][ns] = chosen[ns] + 1
        dirs, files = dec.tree(ns, vd['root'], joliet)
        report['trees'][ns] = dirs
        report['files'][ns] = dec.finish_files(ns, files)
        pt = {}
        ptsize = vd['ptsize'][0]
        pt['L'] = dec.ptable(ns, 'L', vd['ptL'], ptsize, False, joliet)
        pt['M'] = dec.ptable(ns, 'M', vd['ptM'], ptsize, True, joliet)
        if vd['ptLopt'] != 0:
            pt['Lopt'] = dec.ptable(ns, 'Lopt', vd['ptLopt'], ptsize, False, joliet)
        if vd['ptMopt'] != 0:
            pt['Mopt'] = dec.ptable(ns, 'Mopt', vd['ptMopt'], ptsize, True, joliet)
        report['ptables'][ns] = pt


if __name__ == '__main__':
    import json
    import sys
    with open(sys.argv[1], 'rb') as fp:
        json.dump(decode(fp.read()), sys.stdout)
