"""Determinism: virtual clock, counters for random/uuid, fixed TZ.

Imported before pycdlib by every harness entry point.  Nothing here touches
/repo: the standard-library functions pycdlib calls are replaced in-process.
"""
import os
import random
import sys
import time
import uuid

REPO = os.environ.get('VERIF_REPO', '/repo')
if REPO not in sys.path:
    sys.path.insert(0, REPO)

EPOCH = 1600000000.0   # 2020-09-13T12:26:40Z


class Clock(object):
    def __init__(self):
        self.now = EPOCH

    def __call__(self):
        return self.now

    def set(self, t):
        self.now = float(t)

    def advance(self, dt):
        self.now += dt


clock = Clock()
_real_time = time.time
_ctr = {'rand': 0, 'uuid': 0}


def _getrandbits(k):
    _ctr['rand'] += 1
    return (0x5eed0000 + _ctr['rand']) & ((1 << k) - 1)


def _uuid4():
    _ctr['uuid'] += 1
    return uuid.UUID(int=(0x1234 << 96) | _ctr['uuid'])


def install(tz='UTC'):
    os.environ['TZ'] = tz
    time.tzset()
    time.time = clock
    random.getrandbits = _getrandbits
    uuid.uuid4 = _uuid4
    reset()


def reset():
    clock.set(EPOCH)
    _ctr['rand'] = 0
    _ctr['uuid'] = 0


def real_time():
    return _real_time()
