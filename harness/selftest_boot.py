"""Sensitivity of the C11/C12 machinery: corrupt bytes of images mastered by pycdlib and demand that
exactly the expected clause starts failing (TLC judges the corrupted image with the same
expectation).  Also negative control: the uncorrupted image keeps its verdict.

    PYTHONHASHSEED=0 PYTHONPATH=/verif/harness:/repo /venv/bin/python harness/selftest_boot.py

Exit 0 when every corruption is detected by its clause, 1 otherwise.
"""
import det; det.install()  # noqa: E702  pylint: disable=multiple-statements,wrong-import-position

import struct
import sys
import zlib

import check_C11 as L
from decoders import eltorito as dec_elt
from decoders import hybrid as dec_hyb

P4B = {"media": "noemul", "load": 4, "bootable": True, "bit": True, "efi": False, "platform": 0, "seg": 0}
EFI = {"media": "noemul", "load": 0, "bootable": True, "bit": False, "efi": True, "platform": 0, "seg": 0}
HYB = {"entry": 1, "offset": 0, "ptype": 999, "sectors": 32, "heads": 64, "idk": "small", "efi": "none", "mac": True}
HYB_EFI = dict(HYB, mac=False, efi="yes")
# EFI-only hybrid whose single EFI section is the last one: pycdlib gets its extents right
SCRIPT_EFI = [{"a": "AddFile", "n": "I", "blob": "h2049"}, {"a": "AddFile", "n": "E", "blob": "e6000"},
              {"a": "AddEltorito", "f": "I", "spec": P4B}, {"a": "AddEltorito", "f": "E", "spec": EFI},
              {"a": "AddIsohybrid", "spec": HYB_EFI}]
SCRIPT = [{"a": "AddFile", "n": "I", "blob": "h2049"}, {"a": "AddFile", "n": "E", "blob": "e6000"},
          {"a": "AddFile", "n": "M", "blob": "m100"}, {"a": "AddEltorito", "f": "I", "spec": P4B},
          {"a": "AddEltorito", "f": "E", "spec": EFI}, {"a": "AddEltorito", "f": "M", "spec": EFI},
          {"a": "AddIsohybrid", "spec": HYB}]
# BIOS hybrid whose boot file has a second ISO9660 name (hard link) made before add_eltorito
HYB_BIOS = dict(HYB, mac=False, efi="none")
SCRIPT_LINK = [{"a": "AddFile", "n": "I", "blob": "h2049"}, {"a": "AddLink", "n": "I"},
               {"a": "AddEltorito", "f": "I", "spec": P4B}, {"a": "AddIsohybrid", "spec": HYB_BIOS}]


def put(data, off, b):
    return data[:off] + b + data[off + len(b):]


def flip(data, off):
    return put(data, off, bytes([data[off] ^ 0x5a]))


def fix_gpt_crcs(data, hdr_lba):
    """recompute entry-array and header CRC32 of the GPT header at hdr_lba (to isolate other corruptions)"""
    off = hdr_lba * 512
    (elba, n, sz) = struct.unpack_from('<QLL', data, off + 72)
    data = put(data, off + 88, struct.pack('<L', zlib.crc32(data[elba * 512:elba * 512 + n * sz]) & 0xffffffff))
    h = bytearray(data[off:off + 92])
    h[16:20] = b'\x00' * 4
    return put(data, off + 16, struct.pack('<L', zlib.crc32(bytes(h)) & 0xffffffff))


CAT_RB = ['CatalogReachableAsFile.read.live.iso', 'CatalogReachableAsFile.read.open.iso']
BIT_RB = ['BootInfoTable.read.live.iso', 'BootInfoTable.read.open.iso']


def corruptions_efi(data):
    h = dec_hyb.decode(data)
    pe = h['gpt']['primary']['entries_lba'] * 512
    yield 'EFI slot LBA in the MBR', ['EfiPartitionDelimitsItsSection'], put(data, 446 + 16 + 8, struct.pack('<L', h['mbr']['parts'][1]['lba'] + 4))
    yield 'EFI slot sector count in the MBR', ['EfiPartitionDelimitsItsSection'], put(data, 446 + 16 + 12, struct.pack('<L', h['mbr']['parts'][1]['count'] + 1))
    yield 'GPT EFI partition first LBA (CRCs recomputed)', ['EfiPartitionDelimitsItsSection', 'PrimaryBackupMirror.Extents'], \
        fix_gpt_crcs(put(data, pe + 128 + 32, struct.pack('<Q', h['gpt']['primary']['entries'][1]['first'] + 4)), 1)
    yield 'GPT EFI partition last LBA (CRCs recomputed)', ['EfiPartitionDelimitsItsSection', 'PrimaryBackupMirror.Extents'], \
        fix_gpt_crcs(put(data, pe + 128 + 40, struct.pack('<Q', h['gpt']['primary']['entries'][1]['last'] - 1)), 1)


def corruptions_link(data):
    """the alias of the boot file is part of what C11 expects; the MBR address is judged as in the seeded change C12-m2"""
    e = dec_elt.decode(data)
    h = dec_hyb.decode(data)
    ident = L.ALIAS['I']['iso'].encode()
    root = e['pvd']['root_extent'] * 2048
    pos = data.index(ident, root, root + e['pvd']['root_len']) - 33      # start of the alias' directory record
    ext = struct.unpack_from('<L', data, pos + 2)[0]
    assert ext == e['entries'][0]['rba']
    yield 'extent of the second name of the boot file (+1)', ['LoadRbaIsWhereBootBytesStart', 'FilesAsExpected'], \
        put(data, pos + 2, struct.pack('<L', ext + 1))
    yield 'second name of the boot file renamed', ['LoadRbaIsWhereBootBytesStart', 'FilesAsExpected'], \
        put(data, pos + 33, b'X' + ident[1:])
    yield 'MBR boot file address points past the boot file', ['RbaIsFourTimesBootSector'], \
        put(data, 432, struct.pack('<L', h['mbr']['rba'] + 8))


def repairs(data):
    """the opposite direction: repair what pycdlib gets wrong and demand that the clause stops failing"""
    e = dec_elt.decode(data)
    h = dec_hyb.decode(data)
    d = data
    for lba in (1, len(data) // 512 - 1):
        d = fix_gpt_crcs(d, lba)
    yield 'GPT entry-array CRCs recomputed over 128 x 128 bytes', 'GptEntriesCrc', d
    d = data
    ents = e['entries']
    for (blk, k) in ((2, 1), (3, 2)):
        d = put(d, blk * 2048 + 8, struct.pack('>LL', ents[k]['rba'], ents[k]['count'] // 4))
    d = put(d, 2048 + 8, struct.pack('>LL', 1, 3))
    yield 'APM entries filled in', 'ApmConsistent', d
    d = put(data, 446 + 16 + 12, struct.pack('<L', ents[1]['count']))
    pe = h['gpt']['primary']['entries_lba'] * 512
    d = put(d, pe + 128 + 40, struct.pack('<Q', 4 * ents[1]['rba'] + ents[1]['count'] - 1))
    yield 'EFI partition given the length of its own section', 'EfiPartitionDelimitsItsSection', d


def corruptions(data):
    e = dec_elt.decode(data)
    h = dec_hyb.decode(data)
    cat = e['catalog']['sector'] * 2048
    boot = e['entries'][0]['rba'] * 2048
    pe = h['gpt']['primary']['entries_lba'] * 512
    yield 'validation checksum word', ['ValidationChecksum'] + CAT_RB, put(data, cat + 28, b'\x00\x00')
    yield 'validation platform id', ['ValidationFields', 'ValidationChecksum', 'EntryFieldsMatch'] + CAT_RB, put(data, cat + 1, b'\x01')
    yield 'load RBA of the initial entry (+1)', ['LoadRbaIsWhereBootBytesStart', 'RbaIsFourTimesBootSector', 'BootInfoTable.stored'] + CAT_RB + BIT_RB, \
        put(data, cat + 32 + 8, struct.pack('<L', e['entries'][0]['rba'] + 1))
    yield 'sector count of the initial entry', ['EntryFieldsMatch'] + CAT_RB, put(data, cat + 32 + 6, struct.pack('<H', 5))
    yield 'media type of the second section entry', ['EntryFieldsMatch'] + CAT_RB, put(data, cat + 32 * 5 + 1, b'\x02')
    yield 'last section header indicator 0x91 -> 0x90', ['SectionHeadersConsistent'] + CAT_RB, put(data, cat + 32 * 4, b'\x90')
    yield 'catalog pointer in the boot record (+3: another sector)', ['ValidationFields', 'CatalogPointer', 'ValidationChecksum', 'EntryFieldsMatch',
                                                  'CatalogReachableAsFile', 'SectionHeadersConsistent', 'LoadRbaIsWhereBootBytesStart',
                                                  'BootInfoTable.stored', 'RbaIsFourTimesBootSector', 'EfiPartitionDelimitsItsSection',
                                                  'MacPartitionDelimitsItsSection', 'ApmConsistent'] + CAT_RB + BIT_RB, \
        put(data, 17 * 2048 + 71, struct.pack('<L', e['catalog']['sector'] + 3))
    yield 'boot record moved off sector 17 (identifier destroyed)', ['BootRecordAt17', 'CatalogPointer', 'ValidationChecksum',
                                                                     'ValidationFields', 'EntryFieldsMatch', 'CatalogReachableAsFile',
                                                                     'SectionHeadersConsistent', 'RbaIsFourTimesBootSector',
                                                                     'EfiPartitionDelimitsItsSection', 'MacPartitionDelimitsItsSection',
                                                                     'ApmConsistent'] + CAT_RB, \
        put(data, 17 * 2048 + 7, b'XX')
    yield 'boot info table: file length field', ['BootInfoTable.stored'], put(data, boot + 16, struct.pack('<L', 2048))
    yield 'boot info table: checksum field', ['BootInfoTable.stored'], flip(data, boot + 20)
    yield 'boot info table: PVD sector field', ['BootInfoTable.stored'], put(data, boot + 8, struct.pack('<L', 17))
    yield 'one byte of the boot file body', ['LoadRbaIsWhereBootBytesStart', 'BootInfoTable.stored', 'FilesAsExpected'], flip(data, boot + 100)
    yield 'one byte of the EFI image', ['LoadRbaIsWhereBootBytesStart', 'FilesAsExpected'], flip(data, e['entries'][1]['rba'] * 2048 + 5000)
    yield 'MBR signature', ['MbrSignature'], put(data, 510, b'\x55\xab')
    yield 'MBR boot file address', ['RbaIsFourTimesBootSector'], put(data, 432, struct.pack('<L', h['mbr']['rba'] + 4))
    yield 'MBR disk id', ['MbrIdAsRequested'], flip(data, 441)
    yield 'second active partition', ['OneActivePartition', 'PartitionEntryAtRequestedSlot', 'PartitionType', 'PartitionOffset', 'GeometryCoversPaddedImage'], put(data, 446 + 48, b'\x80')
    yield 'partition type', ['PartitionType'], put(data, 446 + 4, b'\x83')
    yield 'partition start LBA', ['PartitionOffset', 'GeometryCoversPaddedImage'], put(data, 446 + 8, struct.pack('<L', 1))
    yield 'partition sector count (-1)', ['GeometryCoversPaddedImage'], put(data, 446 + 12, struct.pack('<L', h['mbr']['parts'][0]['count'] - 1))
    yield 'CHS end head', ['GeometryCoversPaddedImage'], put(data, 446 + 5, b'\x3e')
    yield 'Mac slot LBA in the MBR', ['MacPartitionDelimitsItsSection'], put(data, 446 + 32 + 8, struct.pack('<L', h['mbr']['parts'][2]['lba'] + 4))
    yield 'primary GPT header CRC', ['GptHeaderCrc'], flip(data, 512 + 16)
    yield 'primary GPT header field (first usable LBA) without CRC update', ['GptHeaderCrc', 'PrimaryBackupMirror.HeaderFields'], flip(data, 512 + 40)
    yield 'backup GPT header CRC', ['GptHeaderCrc'], flip(data, len(data) - 512 + 16)
    yield 'GPT Mac partition last LBA (CRCs recomputed)', ['MacPartitionDelimitsItsSection', 'PrimaryBackupMirror.Extents'], \
        fix_gpt_crcs(put(data, pe + 256 + 40, struct.pack('<Q', h['gpt']['primary']['entries'][2]['last'] + 1)), 1)
    yield 'primary GPT backup-LBA field (CRC recomputed)', ['PrimaryBackupMirror.Located', 'GptHeaderCrc', 'GptEntriesCrc',
                                                            'PrimaryBackupMirror.HeaderFields', 'PrimaryBackupMirror.DiskGuid',
                                                            'PrimaryBackupMirror.PartGuids', 'PrimaryBackupMirror.Extents', 'TailIsZero'], \
        fix_gpt_crcs(put(data, 512 + 32, struct.pack('<Q', h['gpt']['primary']['backup'] - 1)), 1)
    yield 'one byte of the tail padding', ['TailIsZero'], flip(data, h['pvd']['iso_len'] + 4096)
    yield 'image truncated by one 512-byte block', ['PaddedToCylinder', 'GeometryCoversPaddedImage', 'PrimaryBackupMirror.Located',
                                                    'GptHeaderCrc', 'GptEntriesCrc', 'TailIsZero', 'PrimaryBackupMirror.HeaderFields',
                                                    'PrimaryBackupMirror.DiskGuid', 'PrimaryBackupMirror.PartGuids',
                                                    'PrimaryBackupMirror.Extents'], data[:-512]


def observe(hist, cfg, base_item, data, iid):
    """observation of (possibly corrupted) image bytes against the unchanged expectation"""
    it = {k: base_item[k] for k in ('rb', 'diffkinds', 'expect')}
    it['elt'] = L.trim_elt(dec_elt.decode(data, [e['len'] for e in base_item['expect']['entries']]))
    it['hyb'] = dec_hyb.decode(data)
    it['id'] = iid
    return it


def main():
    hist = L.oracle([SCRIPT])[0]
    assert all(s['out'] == 'ok' for s in hist['h'])
    r = L.run_history(hist, 'plain', want_hybrid=True, keep_image=True)
    data = r['image']
    base = r['item']
    hist2 = L.oracle([SCRIPT_EFI])[0]
    r2 = L.run_history(hist2, 'plain', want_hybrid=True, keep_image=True)
    bad = 0
    ncases = 0
    hist3 = L.oracle([SCRIPT_LINK])[0]
    assert all(s['out'] == 'ok' for s in hist3['h']) and hist3['exp']['entries'][0]['alias']
    r3 = L.run_history(hist3, 'plain', want_hybrid=True, keep_image=True)
    for (tag, hh, rr, gen) in (('mac', hist, r, corruptions), ('efi', hist2, r2, corruptions_efi), ('link', hist3, r3, corruptions_link)):
        cases = list(gen(rr['image']))
        ncases += len(cases)
        items = [observe(hh, 'plain', rr['item'], rr['image'], 'base')]
        for n, (_, _, d) in enumerate(cases):
            items.append(observe(hh, 'plain', rr['item'], d, 'c%d' % n))
        f11, _, _ = L.judge_items('Judge_C11', items)
        f12, _, _ = L.judge_items('Judge_C12', items)
        base_fail = set(f11.get('base', [])) | set(f12.get('base', []))
        print('[%s] baseline (uncorrupted image; known pycdlib defects only): %s' % (tag, sorted(base_fail)))
        for n, (what, expect, _) in enumerate(cases):
            got = (set(f11.get('c%d' % n, [])) | set(f12.get('c%d' % n, []))) - base_fail
            ok = expect[0] in got and got <= set(expect)
            print('%-4s %-62s -> %s' % ('ok' if ok else 'FAIL', what, sorted(got)))
            if not ok:
                bad += 1
                print('       expected %s (first one mandatory, no others)' % expect)
        if tag == 'mac':
            reps = list(repairs(rr['image']))
            ncases += len(reps)
            items = [observe(hh, 'plain', rr['item'], d, 'r%d' % n) for n, (_, _, d) in enumerate(reps)]
            g12, _, _ = L.judge_items('Judge_C12', items)
            for n, (what, clause, _) in enumerate(reps):
                if clause not in base_fail:
                    # the defect this repair undoes has been fixed in the tree under test
                    print('n/a  repair: %-54s -> %s already holds on the unrepaired image' % (what, clause))
                    continue
                ok = clause not in g12.get('r%d' % n, [])
                print('%-4s repair: %-54s -> %s no longer fails' % ('ok' if ok else 'FAIL', what, clause))
                bad += 0 if ok else 1
    cases = [None] * ncases
    # negative controls of the judge itself: expectation changed instead of the image
    ctl = []
    x = observe(hist, 'plain', base, data, 'x-platform')
    x['expect'] = dict(x['expect'], platform=1)
    ctl.append((x, 'ValidationFields'))
    x = observe(hist, 'plain', base, data, 'x-diff')
    x['diffkinds'] = ['system_area', 'iso_body']
    ctl.append((x, 'IsoUnchangedModuloSystemAreaAndPadding'))
    x = observe(hist, 'plain', base, data, 'x-removed')
    x['expect'] = dict(x['expect'], boot=False)
    ctl.append((x, 'NoEltoritoLeftAfterRemoval'))
    g11, _, _ = L.judge_items('Judge_C11', [c[0] for c in ctl])
    g12, _, _ = L.judge_items('Judge_C12', [c[0] for c in ctl])
    for (x, clause) in ctl:
        got = set(g11.get(x['id'], [])) | set(g12.get(x['id'], []))
        ok = clause in got
        print('%-4s expectation changed (%s) -> %s' % ('ok' if ok else 'FAIL', x['id'], clause))
        bad += 0 if ok else 1
    print('%d corruptions + %d controls, %d not detected as expected' % (len(cases), len(ctl), bad))
    return 1 if bad else 0


if __name__ == '__main__':
    sys.exit(main())
