import check_core
check_core.main("C17")
