"""Self-test of the C10 machinery (decoders/udf.py, UdfVolume.tla, Judge_Udf.tla).

1. Sensitivity: one image that satisfies every clause is corrupted in specific bytes (tag CRC,
   tag location, anchor extent, FID length, partition length, LVID counts, ...).  TLC judges the
   corrupted images; for every corruption the clause that speaks about those bytes must be
   reported false (and the uncorrupted image must be reported clean).
2. Decoder cross-check: on ~20 images of varied content the tree recovered by the independent
   decoder is compared with pycdlib's own reader (open_fp + the public API, harness/project.py).
   Two readers that share no code agree on names, kinds, targets and contents.

Run:  PYTHONHASHSEED=0 PYTHONPATH=/verif/harness:/repo /venv/bin/python harness/selftest_udf.py
Exit 0 = every expectation met.
"""
import det; det.install()  # noqa: E702  pylint: disable=multiple-statements,wrong-import-position

import hashlib
import json
import struct
import sys

import check_C10 as c10
from decoders import udf as dec
from driver import open_view

S = 2048


def build(hist, cfg='udf'):
    obs = c10.replay('self', hist, cfg)
    o = obs[-1]
    assert o['write'] == 'ok', o['write']
    assert all(s['r'] == 'ok' for s in o['steps']), o['steps']
    return o['image']


def A(a, **kw):
    d = {'a': a, 'x': 'ok', 'exp': []}
    d.update(kw)
    return d


NP = ['-']


def fix_tag(img, off):
    """recompute CRC and checksum of the descriptor whose tag starts at byte off."""
    crc_len = struct.unpack_from('<H', img, off + 10)[0]
    crc = dec.crc_itu_t(bytes(img[off + 16:off + 16 + crc_len]))
    struct.pack_into('<H', img, off + 8, crc)
    img[off + 4] = 0
    img[off + 4] = (sum(img[off:off + 4]) + sum(img[off + 5:off + 16])) & 0xFF


def clean_image():
    """an image on which every clause holds: the reserve PVD is made a copy of the main one
    (the unmodified pycdlib gives it its own volume set identifier - finding C10-udf-reserve-pvd-differs),
    and the content avoids the other known findings (no hard links, no nested directories)."""
    L = ['L%d' % k for k in range(1, 8)]
    hist = [A('AddFp', blob='t', iso=['i1'], udf=['a']),
            A('AddDir', iso=NP, udf=['d']),
            A('AddFp', blob='s', iso=NP, udf=['d', 'u']),
            A('AddSymlink', iso=NP, jol=NP, udf=['e'], t='t3'),
            A('Fill', blob='o', udf=['d'], names=L),
            A('AddFp', blob='z', iso=NP, udf=['u'])]
    exp = [{'p': ['a'], 'k': 'file', 'b': 't', 't': '-'}, {'p': ['d'], 'k': 'dir', 'b': '-', 't': '-'},
           {'p': ['d', 'u'], 'k': 'file', 'b': 's', 't': '-'}, {'p': ['e'], 'k': 'sym', 'b': '-', 't': 't3'},
           {'p': ['u'], 'k': 'file', 'b': 'z', 't': '-'}] + \
          [{'p': ['d', n], 'k': 'file', 'b': 'o', 't': '-'} for n in L]
    img = bytearray(build(hist))
    rep = dec.decode(bytes(img))
    m = [d for d in rep['main'] if d['id'] == 1][0]['sector']
    r = [d for d in rep['reserve'] if d['id'] == 1][0]['sector']
    img[r * S:(r + 1) * S] = img[m * S:(m + 1) * S]
    struct.pack_into('<L', img, r * S + 12, r)
    fix_tag(img, r * S)
    return img, c10.expect_of(exp)


def item(iid, img, expect):
    rep = dec.decode(bytes(img))
    return {'id': iid, 'write': 'ok', 'steps': [], 'rep': c10.judge_view(rep), 'expect': expect}, rep


def sensitivity():
    img0, expect = clean_image()
    it0, rep = item('clean', img0, expect)
    part = rep['partition']['start']
    nsect = rep['nsect']
    fes = dict((fe['lb'], fe) for fe in rep['fes'])
    root = [d for d in rep['dirs'] if d['path'] == []][0]
    sub = [d for d in rep['dirs'] if d['path'] != []][0]
    root_fe = part + root['fe_lb']
    root_data = part + fes[root['fe_lb']]['ads'][0]['pos']
    sub_data = part + fes[sub['fe_lb']]['ads'][0]['pos']
    file_a = [t for t in rep['tree'] if t['path'] == [c10.cps('aa')]][0]
    fe_a = part + file_a['fe_lb']
    data_a = part + fes[file_a['fe_lb']]['ads'][0]['pos']
    lvid = rep['lvid'][0]['sector']
    crossing = [f for f in sub['fids'] if f['crosses']]
    assert crossing, 'the self-test image must have a FID that crosses a sector boundary'
    pd_m = [d for d in rep['main'] if d['id'] == 5][0]['sector']
    pd_r = [d for d in rep['reserve'] if d['id'] == 5][0]['sector']
    lvd_m = [d for d in rep['main'] if d['id'] == 6][0]['sector']
    pvd_r = [d for d in rep['reserve'] if d['id'] == 1][0]['sector']
    nsr = [v for v in rep['vrs'] if v['id'].startswith('NSR')][0]['sector']
    fid1 = root['fids'][1]      # first named entry of the root
    fid2 = root['fids'][2]

    cases = []

    def case(name, expect_clauses, mutate, fix=()):
        img = bytearray(img0)
        r = mutate(img)
        if r is not None:
            img = r
        for off in fix:
            fix_tag(img, off)
        cases.append((name, set(expect_clauses), img))

    def flip(off):
        def f(img):
            img[off] ^= 0x5A
        return f

    def put(fmt, off, val):
        def f(img):
            struct.pack_into(fmt, img, off, val)
        return f

    def add(fmt, off, delta):
        def f(img):
            v = struct.unpack_from(fmt, img, off)[0]
            struct.pack_into(fmt, img, off, v + delta)
        return f

    def both(*fs):
        def f(img):
            for g in fs:
                g(img)
        return f

    # --- tags
    case('tag CRC: flip a byte of the root file entry body', ['TagValid'], flip(root_fe * S + 45))
    case('tag CRC of a FID that crosses a sector boundary', ['TagValid'],
         flip(sub_data * S + crossing[0]['off'] + 30))
    case('tag location of the file set descriptor + 1 (checksum recomputed)', ['TagValid'],
         both(add('<L', part * S + 12, 1), lambda img: fix_tag(img, part * S)))
    case('tag location of the crossing FID names the block where it ENDS', ['TagValid', 'FIDsContiguousAcrossSectors'],
         both(add('<L', sub_data * S + crossing[0]['off'] + 12, 1),
              lambda img: fix_tag(img, sub_data * S + crossing[0]['off'])))
    case('tag checksum of the logical volume descriptor', ['TagValid'], add('<B', lvd_m * S + 4, 1))
    case('tag identifier of the root ICB changed to 260', ['TagValid'],
         both(put('<H', root_fe * S, 260), lambda img: fix_tag(img, root_fe * S)))
    # --- volume recognition, anchors, sequences
    case('NSR descriptor identifier overwritten', ['VrsWellFormed'], put('5s', nsr * S + 1, b'XSR02'))
    case('anchor at N-1: main extent location 32 -> 33', ['AnchorsAgree'],
         add('<L', (nsect - 1) * S + 20, 1), fix=[(nsect - 1) * S])
    case('anchor at 256: reserve extent length halved', ['AnchorsAgree', 'MainEqualsReserve'],
         put('<L', 256 * S + 24, 8 * S), fix=[256 * S])
    case('last sector cut off', ['AnchorAtLastSector'], lambda img: img[:-S])
    case('a sector appended after the last anchor', ['AnchorAtLastSector'], lambda img: img + bytearray(S))
    case('reserve PVD: one byte of the volume identifier', ['MainEqualsReserve'],
         flip(pvd_r * S + 26), fix=[pvd_r * S])
    # --- partition
    case('partition length - 1 (main and reserve)', ['PartitionCoversAllReferenced', 'LvidSizeTable'],
         both(add('<L', pd_m * S + 192, -1), add('<L', pd_r * S + 192, -1)), fix=[pd_m * S, pd_r * S])
    case('partition length + 100000 (main and reserve)', ['PartitionInVolume', 'LvidSizeTable'],
         both(add('<L', pd_m * S + 192, 100000), add('<L', pd_r * S + 192, 100000)), fix=[pd_m * S, pd_r * S])
    case('partition start moved onto the anchor at 256', ['PartitionInVolume'],
         both(add('<L', pd_m * S + 188, -1), add('<L', pd_r * S + 188, -1)), fix=[pd_m * S, pd_r * S])
    # --- integrity descriptor
    io = 80 + 8
    case('LVID number of files + 1', ['LvidCounts'], add('<L', lvid * S + io + 32, 1), fix=[lvid * S])
    case('LVID number of directories - 1', ['LvidCounts'], add('<L', lvid * S + io + 36, -1), fix=[lvid * S])
    case('LVID integrity type open', ['LvidCounts'], put('<L', lvid * S + 28, 0), fix=[lvid * S])
    case('LVID size table + 1', ['LvidSizeTable'], add('<L', lvid * S + 84, 1), fix=[lvid * S])
    case('LVID next unique id = 0', ['UniqueIds'], put('<Q', lvid * S + 40, 0), fix=[lvid * S])
    # --- file entries
    case('file entry: information length + 1', ['FEInfoLenEqualsADs'], add('<Q', fe_a * S + 56, 1), fix=[fe_a * S])
    case('file entry: logical blocks recorded + 1', ['FEInfoLenEqualsADs'], add('<Q', fe_a * S + 64, 1), fix=[fe_a * S])
    case('file entry: allocation descriptor length - 1', ['FEInfoLenEqualsADs', 'TreeMatches'],
         add('<L', fe_a * S + 176, -1), fix=[fe_a * S])
    case('file entry: link count 2', ['LinkCounts'], put('<H', fe_a * S + 48, 2), fix=[fe_a * S])
    case('root file entry: link count + 1', ['LinkCounts'], add('<H', root_fe * S + 48, 1), fix=[root_fe * S])
    case('file entry: unique id of the root', ['UniqueIds'],
         put('<Q', fe_a * S + 160, struct.unpack_from('<Q', img0, root_fe * S + 160)[0]), fix=[fe_a * S])
    case('directory information length + 4', ['DirInfoLenEqualsFIDs', 'FEInfoLenEqualsADs'],
         add('<Q', root_fe * S + 56, 4), fix=[root_fe * S])
    # --- file identifier descriptors
    o1 = root_data * S + fid1['off']
    o2 = root_data * S + fid2['off']
    case('FID: length of implementation use 0 -> 4 (descriptor claims 4 more bytes)',
         ['DirInfoLenEqualsFIDs'], put('<H', o1 + 36, 4), fix=[o1])
    case('FID: length of file identifier + 4', ['DirInfoLenEqualsFIDs'], add('<B', o1 + 19, 4), fix=[o1])
    case('FID: compression id 8 -> 9', ['NamesEncodable'], put('<B', o1 + 38, 9), fix=[o1])
    case('first FID of the root: parent bit cleared', ['FIDParentFirst'],
         put('<B', root_data * S + 18, 2), fix=[root_data * S])
    case('parent FID of the sub-directory names another ICB', ['FIDParentFirst', 'LinkCounts'],
         put('<L', sub_data * S + 24, file_a['fe_lb']), fix=[sub_data * S])
    case('FID: directory bit set on a file', ['KindsAgree'], put('<B', o1 + 18, 2), fix=[o1])
    if fid1['lfi'] == fid2['lfi']:
        case('FID: second entry renamed to the first one\'s name', ['NoDuplicateNames', 'TreeMatches'],
             lambda img: img.__setitem__(slice(o2 + 38, o2 + 38 + fid2['lfi']), img[o1 + 38:o1 + 38 + fid1['lfi']]),
             fix=[o2])
    case('FID: non-zero padding', ['FIDsContiguousAcrossSectors'],
         put('<B', o1 + fid1['raw_len'], 7) if fid1['raw_len'] < fid1['len'] else
         put('<B', o2 + fid2['raw_len'], 7), fix=[o1, o2])
    case('FID: ICB unique id differs from the file entry', ['UniqueIds'], add('<L', o1 + 20 + 12, 1), fix=[o1])
    # --- content
    case('one byte of file data', ['TreeMatches'], flip(data_a * S + 100))
    case('symlink component type 5 -> 3', ['TreeMatches'],
         lambda img: img.__setitem__(
             part * S + [fes[t['fe_lb']]['ads'][0]['pos'] for t in rep['tree'] if t['kind'] == 'symlink'][0] * S + 4, 3))

    items = [it0]
    for k, (name, _, img) in enumerate(cases):
        it, _ = item('c%02d' % k, img, expect)
        items.append(it)
    fails, stats = c10.judge.judge('Judge_Udf', items)
    ok = True
    base = set(fails.get('clean', []))
    print('clean image: failing clauses %s' % (sorted(base) or 'none'))
    if base:
        ok = False
    for k, (name, want, _) in enumerate(cases):
        got = set(fails.get('c%02d' % k, []))
        good = want <= got
        ok = ok and good
        print('%-4s %-78s expected %s  got %s' % ('ok' if good else 'MISS', name, sorted(want), sorted(got)))
    print('sensitivity: %d corruptions, TLC judged %d observations' % (len(cases), len(items)))
    return ok


# ---------------------------------------------------------------- cross-check with pycdlib's reader
def scenarios():
    L7 = ['L%d' % k for k in range(1, 8)]
    EX = ['L1', 'L2', 'L3', 'L4', 'L5', 'L6', 'M']
    TWO = L7 + ['K%d' % k for k in range(1, 8)]
    sc = []
    for cfg in ('udf', 'udf+jol+rr'):
        sc += [
            (cfg, []),
            (cfg, [A('AddFp', blob=b, iso=NP, udf=[n]) for b, n in zip('zost', 'aeud')]),
            (cfg, [A('AddFp', blob='t', iso=['i1'], udf=['a']), A('AddFp', blob='s', iso=['i2'], udf=NP),
                   A('AddHardLink', ons='iso', old=['i2'], nns='udf', new=['u']),
                   A('AddHardLink', ons='udf', old=['a'], nns='udf', new=['e'])]),
            (cfg, [A('AddDir', iso=NP, udf=['d']), A('AddDir', iso=NP, udf=['d', 'u']),
                   A('AddFp', blob='o', iso=NP, udf=['d', 'u', 'e']),
                   A('AddSymlink', iso=NP, jol=NP, udf=['d', 'a'], t='t2'),
                   A('AddSymlink', iso=NP, jol=NP, udf=['a'], t='t1'),
                   A('AddSymlink', iso=NP, jol=NP, udf=['u'], t='t3')]),
            (cfg, [A('Fill', blob='o', udf=[], names=L7), A('AddFp', blob='t', iso=NP, udf=['a'])]),
            (cfg, [A('AddDir', iso=NP, udf=['e']), A('Fill', blob='o', udf=['e'], names=EX),
                   A('AddFp', blob='s', iso=NP, udf=['e', 'a'])]),
            (cfg, [A('AddDir', iso=NP, udf=['u']), A('Fill', blob='o', udf=['u'], names=TWO),
                   A('RmFile', ns='udf', p=['u', 'L1']), A('RmHardLink', ns='udf', p=['u', 'K7'])]),
            (cfg, [A('AddFp', blob='t', iso=NP, udf=['a']), A('AddFp', blob='s', iso=NP, udf=['u']),
                   A('RmFile', ns='udf', p=['a']), A('AddDir', iso=NP, udf=['a']),
                   A('AddFp', blob='o', iso=NP, udf=['a', 'a'])]),
            (cfg, [A('AddFp', blob='t', iso=NP, udf=['a']), A('Reopen'), A('AddFp', blob='s', iso=NP, udf=['u']),
                   A('AddDir', iso=NP, udf=['d']), A('Reopen'), A('AddSymlink', iso=NP, jol=NP, udf=['d', 'e'], t='t1')]),
            (cfg, [A('AddDir', iso=NP, udf=['d']), A('AddDir', iso=NP, udf=['e']), A('RmDir', iso=NP, udf=['d']),
                   A('AddFp', blob='z', iso=NP, udf=['e', 'u'])]),
        ]
    return sc


def crosscheck():
    tab = c10.table()
    ok = True
    n = 0
    for k, (cfg, hist) in enumerate(scenarios()):
        img = build(hist, cfg)
        rep = dec.decode(img)
        mine = []
        for t in rep['tree']:
            p = [tab.unname('udf', ''.join(chr(x) for x in comp)) for comp in t['path']]
            e = {'p': p, 'k': t['kind'], 'b': '', 't': '', 'n': 0}
            if t['kind'] == 'file':
                e['b'] = tab.sha.get(t['sha'], '?' + t['sha'][:8])
                e['n'] = t['size'][0] * 2048 + t['size'][1]
            elif t['kind'] == 'symlink':
                e['t'] = tab.untarget(''.join(chr(x) for x in t['target']))
            mine.append(e)
        mine.sort(key=lambda e: e['p'])
        (res, v) = open_view(img, tab)
        if res != 'ok':
            print('MISS scenario %d: pycdlib cannot read its image: %s' % (k, res))
            ok = False
            continue
        theirs = sorted(({'p': e['p'], 'k': e['k'], 'b': e['b'], 't': e['t'], 'n': e['n']} for e in v['udf']),
                        key=lambda e: e['p'])
        same = (mine == theirs) and not rep['errors']
        n += 1
        ok = ok and same
        print('%-4s scenario %2d (%s, %d calls): %d entries, %d directories, FIDs crossing a boundary: %d'
              % ('ok' if same else 'DIFF', k, cfg, len(hist), len(mine), len(rep['dirs']),
                 sum(1 for d in rep['dirs'] for f in d['fids'] if f['crosses'])))
        if not same:
            print('   decoder : %s' % json.dumps(mine)[:600])
            print('   pycdlib : %s' % json.dumps(theirs)[:600])
            print('   errors  : %s' % rep['errors'])
    print('cross-check: %d images, decoder and pycdlib reader agree: %s' % (n, ok))
    return ok


def main():
    a = sensitivity()
    b = crosscheck()
    print('SELFTEST %s' % ('PASSED' if a and b else 'FAILED'))
    return 0 if a and b else 1


if __name__ == '__main__':
    sys.exit(main())
