"""Concrete realisation of the model's abstract ids (names, blobs, targets).

A realisation table is a JSON file committed next to each MC_* instance:
  names:   id -> {iso, rr, jol, udf}      (identifier strings per namespace)
  blobs:   id -> length                   (content = position dependent PRNG bytes)
  targets: id -> string                   (symlink targets)
"""
import hashlib
import json
import os
import struct

SPEC = os.path.join(os.path.dirname(os.path.dirname(os.path.abspath(__file__))), 'spec')

_blob_cache = {}
SHAKE = '~0'
DYNAMIC = {}     # tables built at run time (name -> Table), inherited by forked workers


def blob_bytes(bid, length):
    """Position dependent pseudo-random bytes: any misplaced sector changes the hash."""
    key = (bid, length)
    if key in _blob_cache:
        return _blob_cache[key]
    out = bytearray()
    ctr = 0
    seed = hashlib.sha256(('blob:%s' % bid).encode()).digest()
    while len(out) < length:
        out += hashlib.sha256(seed + struct.pack('<Q', ctr)).digest()
        ctr += 1
    data = bytes(out[:length])
    if len(_blob_cache) < 256 and length <= (1 << 22):
        _blob_cache[key] = data
    return data


class ZeroFile(object):
    """a readable, seekable file of `length` zero bytes that occupies no memory (files > 4 GiB)"""
    def __init__(self, length):
        self.length = length
        self.pos = 0
        self.mode = 'rb'

    def seek(self, off, whence=0):
        self.pos = off if whence == 0 else (self.pos + off if whence == 1 else self.length + off)
        return self.pos

    def tell(self):
        return self.pos

    def read(self, n=-1):
        left = max(0, self.length - self.pos)
        n = left if n is None or n < 0 else min(n, left)
        self.pos += n
        return bytes(n)

    def close(self):
        pass


class Table(object):
    def __init__(self, d):
        self.names = dict(d['names'])
        # a name the model checker does not enumerate: the harness appends "add a file that sorts
        # first" to behaviours (core.shake) - an edit that moves every other file's data
        self.names.setdefault(SHAKE, {'iso': '0.;1', 'rr': '0', 'jol': '0', 'udf': '0'})
        self.blobs = d['blobs']
        self.targets = d.get('targets', {})
        self.rev = {}
        for ns in ('iso', 'rr', 'jol', 'udf'):
            self.rev[ns] = {}
            for nid, m in self.names.items():
                if ns in m:
                    self.rev[ns].setdefault(m[ns], nid)
        self.rev_t = dict((v, k) for k, v in self.targets.items())
        self.sha = {}
        self.blobdata = {}
        self.virtual = {}       # blob id -> declared length of a content that is never materialised
        for bid, spec in self.blobs.items():
            if isinstance(spec, dict) and 'sha' in spec:
                # recorded content that was too large to keep: known by length and SHA-256 only
                self.virtual[bid] = spec['len']
                self.blobdata[bid] = b''
                self.sha[spec['sha']] = bid
                continue
            if isinstance(spec, dict) and spec.get('virtual'):
                self.virtual[bid] = spec['len']
                self.blobdata[bid] = b''
                continue
            if isinstance(spec, dict):
                data = bytes.fromhex(spec['hex']) if 'hex' in spec else blob_bytes(bid, spec['len'])
                if 'prefix_hex' in spec:
                    p = bytes.fromhex(spec['prefix_hex'])
                    data = p + data[len(p):]
            else:
                data = blob_bytes(bid, spec)
            self.blobdata[bid] = data
            self.sha[hashlib.sha256(data).hexdigest()] = bid

    @classmethod
    def load(cls, name):
        path = name if os.path.isabs(name) else os.path.join(SPEC, name)
        with open(path) as f:
            return cls(json.load(f))

    def blob_len(self, bid):
        """length as the model sees it (TLC integers are 32 bit: huge contents are capped)"""
        return min(self.virtual[bid], (1 << 31) - 1) if bid in self.virtual else len(self.blobdata[bid])

    def blob_fp(self, bid):
        """(file object, length) to hand to add_fp"""
        if bid in self.virtual:
            return ZeroFile(self.virtual[bid]), self.virtual[bid]
        import io
        data = self.blobdata[bid]
        return io.BytesIO(data), len(data)

    def path(self, ns, p):
        """Model path (list of name ids) -> API path string in namespace ns."""
        if p is None:
            return None
        return '/' + '/'.join(self.names[n][ns] for n in p)

    def name(self, ns, n):
        return self.names[n][ns]

    def unname(self, ns, s):
        return self.rev[ns].get(s, '?' + s)

    def classify(self, data):
        """bytes -> blob id ('?' + short hash if unknown)."""
        h = hashlib.sha256(data).hexdigest()
        if h in self.sha:
            return self.sha[h]
        # boot catalog: 2048-byte sector starting with a validation entry
        if len(data) >= 32 and len(data) % 2048 == 0 and data[0] == 1 and data[30:32] == b'\x55\xaa':
            return 'cat'
        # boot-info-table patched variant of a known blob
        for bid, orig in self.blobdata.items():
            if len(orig) == len(data) and len(orig) > 8 and orig[:8] == data[:8] and orig[64:] == data[64:]:
                return 'bit:' + bid
        return '?' + h[:8]

    def target(self, tid):
        return self.targets[tid]

    def untarget(self, s):
        return self.rev_t.get(s, '?' + s)
