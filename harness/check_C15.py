"""C15 - hostile or damaged images: open_fp terminates promptly with success or a documented error.

Level: fault_enumeration with an explicit TLA+ fault model (spec/Hostile.tla).

  base images (built with the real pycdlib)  -> harness/inventory.py (independent walker: every
  field of every structure a reader follows)  -> literal module HostileInv -> TLC enumerates
  Hostile.tla (every single fault exhaustively; pairs as a seeded -simulate sample) and prints
  each faulted-image description  -> the faults are applied to the bytes  -> the real
  PyCdlib.open_fp (+ a traversal of every namespace, + close) runs in a forked child with
  RLIMIT_AS = 1 GiB and a 5 s alarm, reading through a recording file object  -> TLC
  (Judge_Hostile.tla) evaluates AllowedOutcome on every observation.

NOT covered: arbitrary byte strings.  Coverage is the structured fault space over the base
images below plus truncations; the evidence says so.
"""
import det; det.install()  # noqa: E702  (must come before pycdlib)

import hashlib
import io
import json
import logging
import multiprocessing
import os
import re
import resource
import select
import signal
import struct
import sys
import traceback

import checklib
import inventory
import judge
import tlc

logging.disable(logging.CRITICAL)

TIMEOUT_S = 5.0          # processor-time alarm in the child (Hostile!Budget)
WALL_S = 90.0            # wall-clock deadline per case, enforced by the parent (SIGKILL)
AS_LIMIT = 1 << 30       # RLIMIT_AS of the child
NPROC = 16
SECTOR = 2048
DOCUMENTED = ('ok', 'PyCdlibInvalidISO', 'PyCdlibInvalidInput', 'PyCdlibInternalError')
LOOP_CLAUSES = ('Timeout', 'MemoryBlowup')


# =============================================================================================
# base images
# =============================================================================================
def _fp(b):
    return io.BytesIO(b)


def _master(iso):
    out = io.BytesIO()
    iso.write_fp(out)
    iso.close()
    return out.getvalue()


ISOLINUX = b'\x00' * 0x40 + b'\xfb\xc0\x78\x70'


def b_plain1(p):
    iso = p.PyCdlib()
    iso.new()
    iso.add_fp(_fp(b'foo\n'), 4, '/FOO.;1')
    iso.add_directory('/DIR1')
    iso.add_fp(_fp(b'bar\n' * 600), 2400, '/DIR1/BAR.TXT;1')
    iso.add_fp(_fp(b''), 0, '/EMPTY.;1')
    return _master(iso)


def b_l3_joliet(p):
    iso = p.PyCdlib()
    iso.new(interchange_level=3, joliet=3)
    iso.add_fp(_fp(b'foo\n'), 4, '/FOO.;1', joliet_path='/foo')
    iso.add_directory('/DIR1', joliet_path='/dir1')
    iso.add_directory('/DIR1/SUBDIR', joliet_path='/dir1/subdir')
    iso.add_fp(_fp(b'bar\n'), 4, '/DIR1/SUBDIR/LONGNAME.TXT;1',
               joliet_path='/dir1/subdir/a long joliet name.txt')
    return _master(iso)


def b_rr109(p):
    iso = p.PyCdlib()
    iso.new(rock_ridge='1.09')
    iso.add_fp(_fp(b'foo\n'), 4, '/FOO.;1', rr_name='foo')
    iso.add_directory('/DIR1', rr_name='dir1')
    iso.add_fp(_fp(b'bar\n'), 4, '/DIR1/BAR.;1', rr_name='b' * 200)
    iso.add_fp(_fp(b'baz\n'), 4, '/BAZ.;1', rr_name='z' * 120)
    iso.add_symlink('/SYM.;1', 'sym', 'dir1/' + 'b' * 200)
    iso.add_symlink('/DIR1/SYM2.;1', 'sym2', '/../foo/./x')
    return _master(iso)


def b_rr112(p):
    iso = p.PyCdlib()
    iso.new(rock_ridge='1.12')
    iso.add_fp(_fp(b'foo\n'), 4, '/FOO.;1', rr_name='foo')
    iso.add_directory('/DIR1', rr_name='dir1')
    iso.add_fp(_fp(b'bar\n'), 4, '/DIR1/BAR.;1', rr_name='bar')
    iso.add_symlink('/SYM.;1', 'sym', 'foo')
    return _master(iso)


def b_deep(p):
    iso = p.PyCdlib()
    iso.new(rock_ridge='1.09')
    path = ''
    for i in range(1, 10):
        path += '/DIR%d' % i
        iso.add_directory(path, rr_name='dir%d' % i)
    iso.add_fp(_fp(b'deep\n'), 5, path + '/FOO.;1', rr_name='foo')
    return _master(iso)


def b_l4(p):
    iso = p.PyCdlib()
    iso.new(interchange_level=4)
    iso.add_fp(_fp(b'foo\n'), 4, '/foo')
    iso.add_directory('/a directory with a long name')
    iso.add_fp(_fp(b'bar\n'), 4, '/a directory with a long name/file.with.dots')
    return _master(iso)


def b_xa(p):
    iso = p.PyCdlib()
    iso.new(xa=True)
    iso.add_fp(_fp(b'foo\n'), 4, '/FOO.;1')
    iso.add_directory('/DIR1')
    return _master(iso)


def b_udf(p):
    iso = p.PyCdlib()
    iso.new(interchange_level=3, udf='2.60')
    iso.add_fp(_fp(b'foo\n'), 4, '/FOO.;1', udf_path='/foo')
    iso.add_directory('/DIR1', udf_path='/dir1')
    iso.add_fp(_fp(b'bar\n'), 4, '/DIR1/BAR.;1', udf_path='/dir1/bar')
    iso.add_symlink(udf_symlink_path='/sym', udf_target='/dir1/bar')
    iso.add_fp(_fp(b''), 0, '/EMPTY.;1', udf_path='/empty')
    return _master(iso)


def b_eltorito(p):
    # with a Joliet tree: the boot files and the catalog are reached by two directory walks
    iso = p.PyCdlib()
    iso.new(joliet=3)
    iso.add_fp(_fp(b'boot\n'), 5, '/BOOT.;1', joliet_path='/boot')
    iso.add_fp(_fp(b'boot2\n'), 6, '/BOOT2.;1', joliet_path='/boot2')
    iso.add_fp(_fp(b'boot3\n'), 6, '/BOOT3.;1')
    iso.add_eltorito('/BOOT.;1', '/BOOT.CAT;1', joliet_bootcatfile='/boot.cat')
    iso.add_eltorito('/BOOT2.;1', efi=True)
    iso.add_eltorito('/BOOT3.;1', platform_id=2)
    return _master(iso)


def b_hybrid_mbr(p):
    iso = p.PyCdlib()
    iso.new()
    iso.add_fp(_fp(ISOLINUX), len(ISOLINUX), '/ISOLINUX.BIN;1')
    iso.add_eltorito('/ISOLINUX.BIN;1', '/BOOT.CAT;1', boot_load_size=4, boot_info_table=True)
    iso.add_isohybrid()
    return _master(iso)


def b_hybrid_efi_mac(p):
    iso = p.PyCdlib()
    iso.new()
    iso.add_fp(_fp(ISOLINUX), len(ISOLINUX), '/ISOLINUX.BIN;1')
    iso.add_fp(_fp(b'a'), 1, '/EFIBOOT.IMG;1')
    iso.add_fp(_fp(b'b'), 1, '/MACBOOT.IMG;1')
    iso.add_eltorito('/ISOLINUX.BIN;1', '/BOOT.CAT;1', boot_load_size=4, boot_info_table=True)
    iso.add_eltorito('/MACBOOT.IMG;1', efi=True)
    iso.add_eltorito('/EFIBOOT.IMG;1', efi=True)
    iso.add_isohybrid(mac=True)
    return _master(iso)


def b_dup_pvd(p):
    iso = p.PyCdlib()
    iso.new()
    iso.add_fp(_fp(b'foo\n'), 4, '/FOO.;1')
    iso.duplicate_pvd()
    return _master(iso)


def b_multisector_dir(p):
    iso = p.PyCdlib()
    iso.new(interchange_level=3)
    for i in range(60):
        iso.add_fp(_fp(b'x'), 1, '/FILE%04d.TXT;1' % i)
    return _master(iso)


def b_combo(p):
    """every extension at once: Rock Ridge, Joliet, UDF, El Torito, hard links across namespaces"""
    iso = p.PyCdlib()
    iso.new(interchange_level=3, joliet=3, rock_ridge='1.09', udf='2.60')
    iso.add_fp(_fp(b'boot\n' * 500), 2500, '/BOOT.;1', rr_name='boot', joliet_path='/boot', udf_path='/boot')
    iso.add_directory('/DIR1', rr_name='dir1', joliet_path='/dir1', udf_path='/dir1')
    iso.add_fp(_fp(b'bar\n'), 4, '/DIR1/BAR.;1', rr_name='bar', joliet_path='/dir1/bar', udf_path='/dir1/bar')
    iso.add_hard_link(iso_old_path='/DIR1/BAR.;1', iso_new_path='/BAR2.;1', rr_name='bar2')
    iso.add_symlink('/SYM.;1', 'sym', 'dir1/bar', joliet_path='/sym')
    iso.add_eltorito('/BOOT.;1', '/BOOT.CAT;1', rr_bootcatname='boot.cat', joliet_bootcatfile='/boot.cat',
                     boot_info_table=True)
    return _master(iso)


def b_ladder(p):
    """every directory of a 24 level chain holds two sub-directories A (the chain) and B (empty)"""
    iso = p.PyCdlib()
    iso.new(interchange_level=4)
    path = ''
    for i in range(25):
        iso.add_directory(path + '/B')
        path += '/A'
        iso.add_directory(path)
    iso.add_fp(_fp(b'bottom\n'), 7, path + '/F')
    return _master(iso)


BASE_BUILDERS = [
    ('plain1', b_plain1), ('l3_joliet', b_l3_joliet), ('rr109', b_rr109), ('rr112', b_rr112),
    ('deep', b_deep), ('l4', b_l4), ('xa', b_xa), ('udf', b_udf), ('eltorito', b_eltorito),
    ('hybrid_mbr', b_hybrid_mbr), ('hybrid_efi_mac', b_hybrid_efi_mac), ('dup_pvd', b_dup_pvd),
    ('multisector_dir', b_multisector_dir), ('ladder', b_ladder), ('combo', b_combo)]
# quick tier: every single fault on these (one per parser family), sector truncations on all
QUICK_FULL = ('rr109', 'udf', 'eltorito', 'hybrid_efi_mac', 'deep')


class Base(object):
    def __init__(self, name, data):
        self.name = name
        self.data = data
        self.fields, self.structs = inventory._walk(data)   # pylint: disable=protected-access
        self.by_id = dict((f['id'], f) for f in self.fields)
        self.truncpoints = trunc_points(data, self.structs)


def build_bases(names=None):
    import pycdlib
    out = []
    for (name, fn) in BASE_BUILDERS:
        if names is not None and name not in names:
            continue
        det.reset()
        out.append(Base(name, fn(pycdlib)))
    return out


# =============================================================================================
# inventory -> literal TLA+ module
# =============================================================================================
def trunc_points(data, structs):
    n = len(data)
    pts = {}

    def owner(at):
        for s in structs:
            if s['start'] <= at < s['end']:
                return s['structure']
        return 'data'

    def add(at, why, structure):
        if 0 <= at < n and at not in pts:
            pts[at] = {'at': at, 'why': why, 'structure': structure}
    for s in structs:
        add(s['start'], 'struct_start', s['structure'])
        add(s['start'] + 1, 'struct_start_plus1', s['structure'])
        add((s['start'] + s['end']) // 2, 'struct_mid', s['structure'])
        add(s['end'] - 1, 'struct_end_minus1', s['structure'])
    for s in structs:
        add(s['end'], 'struct_end', s['structure'])
    for k in range(0, n // SECTOR + 1):
        add(k * SECTOR, 'sector', owner(k * SECTOR))
    return [pts[k] for k in sorted(pts)]


def _tla_str(s):
    return '"' + s.replace('\\', '\\\\').replace('"', '\\"') + '"'


def _tla_set(xs, conv):
    return '{' + ', '.join(conv(x) for x in xs) + '}'


def inv_module(base):
    """the literal module HostileInv for one base image"""
    lines = ['---- MODULE HostileInv ----', 'Base == %s' % _tla_str(base.name),
             'ImageSize == %d' % len(base.data), 'Fields == <<']
    recs = []
    for f in base.fields:
        tg = sorted(f.get('targets', {}).keys())
        recs.append(' [id |-> %s, structure |-> %s, role |-> %s, width |-> %d, ntargets |-> %d, '
                    'targets |-> %s, bits |-> %s, csum |-> %s]' % (
                        _tla_str(f['id']), _tla_str(f['structure']), _tla_str(f['role']), f['width'],
                        len(tg), _tla_set(tg, _tla_str), _tla_set(f.get('bits', []), str),
                        'TRUE' if f.get('fix') else 'FALSE'))
    lines.append(',\n'.join(recs))
    lines.append('>>')
    lines.append('TruncPoints == <<')
    lines.append(',\n'.join(' [at |-> %d, why |-> %s, structure |-> %s]' % (
        t['at'], _tla_str(t['why']), _tla_str(t['structure'])) for t in base.truncpoints))
    lines.append('>>')
    lines.append('====')
    return '\n'.join(lines) + '\n'


HOSTILE_CFG = '''SPECIFICATION %s
CONSTANTS
 MaxFaults = %d
 Dump = TRUE
INVARIANT StateOK
CONSTRAINT DumpFault
CONSTRAINT DumpSpace
CHECK_DEADLOCK FALSE
'''


def enumerate_faults(base, max_faults=1, simulate=None, seed=0):
    """TLC enumerates the fault space of one base image.  returns (states, space, stats);
    states: list of {"base","n","faults":[...]}"""
    extra = []
    sim = None
    if simulate:
        sim = 'num=%d' % simulate
        extra = ['-seed', str(seed), '-depth', str(max_faults + 1)]
    out, stats = tlc.run_tlc('Hostile', HOSTILE_CFG % ('SampleSpec' if simulate else 'Spec', max_faults), workers=1 if simulate else 2,
                             timeout=600, heap='3g', simulate=sim, extra=extra,
                             aux_modules={'HostileInv': inv_module(base)})
    if simulate:
        if stats.get('exit') != 0:
            raise tlc.TlcError('Hostile -simulate failed for %s\n%s' % (base.name, out[-3000:]))
    else:
        tlc.need_ok(out, stats, 'Hostile(%s)' % base.name)
    states = []
    space = None
    seen = set()
    for tag, val in tlc.tagged_lines(out):
        if tag == 'FAULT':
            if val['n'] != max_faults and simulate:
                continue
            key = json.dumps(val['faults'], sort_keys=True)
            if key in seen:
                continue
            seen.add(key)
            states.append(val)
        elif tag == 'SPACE':
            space = val
    return states, space, stats


def _enum_star(args):
    return enumerate_faults(*args)


# =============================================================================================
# applying a fault to the bytes
# =============================================================================================
def crc_ccitt(data):
    crc = 0
    for b in data:
        crc ^= b << 8
        for _ in range(8):
            crc = ((crc << 1) ^ 0x1021) & 0xffff if crc & 0x8000 else (crc << 1) & 0xffff
    return crc


def _enc(f, v):
    """raw bytes of value v in field f"""
    w = f['width']
    if f['endian'] == 'both':
        h = w // 2
        v &= (1 << (8 * h)) - 1
        return v.to_bytes(h, 'little') + v.to_bytes(h, 'big')
    v &= (1 << (8 * w)) - 1
    return v.to_bytes(w, 'big' if f['endian'] == 'be' else 'little')


def _bits(f):
    return 8 * (f['width'] // 2 if f['endian'] == 'both' else f['width'])


def mutated_bytes(f, kind, buf):
    """the new raw bytes of field f under fault kind (pure function of the inventory entry)"""
    w = f['width']
    off = f['offset']
    old = bytes(buf[off:off + w])
    role = f['role']
    nb = _bits(f)
    mask = (1 << nb) - 1
    if role in ('length', 'count'):
        v = f['value']
        nv = {'0': 0, '1': 1, 'max': mask, 'plus1': (v + 1) & mask, 'minus1': (v - 1) & mask,
              'huge': 0x20000000}[kind]
        return _enc(f, nv)
    if role == 'extent_pointer':
        if kind in ('self', 'ancestor', 'other_structure'):
            nv = f['targets'][kind]
        elif kind == 'beyond_eof':
            nv = (len(buf) + f['unit'] - 1) // f['unit'] + 3 - f.get('base', 0)
        else:
            nv = {'0': 0, 'max': mask}[kind]
        return _enc(f, nv)
    if role == 'offset_in_sector':
        return _enc(f, {'0': 0, '2047': 2047, 'beyond': 4096}[kind])
    if role in ('tag_or_magic', 'version', 'checksum'):
        if kind == 'flip_bit':
            return bytes([old[0] ^ 1]) + old[1:]
        return (b'\x00' if kind == 'zero' else b'\xff') * w
    if role == 'both_endian_copy':
        h = w // 2
        le, be = old[:h], old[h:]
        new_be = le                      # the big-endian copy holds the little-endian bytes
        if new_be == be:                 # palindromic value: make it differ anyway
            new_be = be[:-1] + bytes([be[-1] ^ 1])
        return le + new_be
    if role == 'flags':
        b = int(kind[len('toggle_bit'):])
        return _enc(f, f['value'] ^ (1 << b))
    if role == 'char':
        return {'0x00': b'\x00', '0xff': b'\xff', 'slash': b'/'}[kind] + old[1:]
    raise ValueError('unknown role %r' % role)


def _refix(buf, fx):
    at = fx['at']
    if fx['kind'] in ('udf_tag', 'udf_tag_csum_only'):
        if at + 16 > len(buf):
            return
        if fx['kind'] == 'udf_tag':
            (crc_len,) = struct.unpack_from('<H', buf, at + 10)
            struct.pack_into('<H', buf, at + 8, crc_ccitt(bytes(buf[at + 16:at + 16 + crc_len])))
        buf[at + 4] = (sum(buf[at:at + 4]) + sum(buf[at + 5:at + 16])) % 256
    elif fx['kind'] == 'eltorito':
        if at + 32 > len(buf):
            return
        struct.pack_into('<H', buf, at + 28, 0)
        s = sum(struct.unpack_from('<16H', buf, at)) & 0xffff
        struct.pack_into('<H', buf, at + 28, (0x10000 - s) & 0xffff)


def apply_faults(base, faults):
    """returns (mutated bytes, touched offsets [(off, width)], cut or None)"""
    buf = bytearray(base.data)
    touched = []
    cut = None
    for ft in sorted(faults, key=lambda x: (x['t'] == 'truncate', x['field'], x['kind'])):
        if ft['t'] == 'mutate':
            f = base.by_id[ft['field']]
            raw = mutated_bytes(f, ft['kind'], buf)
            for off in [f['offset']] + list(f.get('also', []) if ft['fix'] else []):
                buf[off:off + len(raw)] = raw
                touched.append((off, len(raw)))
            if ft['fix']:
                for fx in f.get('fix', []):
                    _refix(buf, fx)
        elif ft['t'] == 'ladder':
            for (off, raw) in _ladder_patches(base.data, ft['at']):
                buf[off:off + len(raw)] = raw
                touched.append((off, len(raw)))
        else:
            cut = ft['at']
    out = bytes(buf)
    if cut is not None:
        out = out[:cut]
    return out, touched, cut


def _ladder_patches(data, depth):
    """in the top `depth` levels of the A-chain: the record named B gets the extent of the record named A"""
    import struct
    out = []
    ext = struct.unpack_from('<L', data, 16 * 2048 + 158)[0]      # root directory extent (PVD)
    size = struct.unpack_from('<L', data, 16 * 2048 + 166)[0]
    for _ in range(depth):
        recs = {}
        pos = ext * 2048
        end = pos + size
        while pos < end:
            n = data[pos]
            if n == 0:
                pos = (pos // 2048 + 1) * 2048
                continue
            name = bytes(data[pos + 33:pos + 33 + data[pos + 32]])
            recs[name] = pos
            pos += n
        if b'A' not in recs or b'B' not in recs:
            break
        a = recs[b'A']
        b = recs[b'B']
        out.append((b + 2, bytes(data[a + 2:a + 10])))             # extent, both byte orders
        ext = struct.unpack_from('<L', data, a + 2)[0]
        size = struct.unpack_from('<L', data, a + 10)[0]
    return out


# =============================================================================================
# running the real code on one faulted image (in a forked child)
# =============================================================================================
class RecIO(io.BytesIO):
    """BytesIO that logs (offset, requested size) of every read"""
    LOGMAX = 50000

    def __init__(self, data):
        io.BytesIO.__init__(self, data)
        self.log = []
        self.size = len(data)
        self.nreads = 0

    def _note(self, n):
        self.nreads += 1
        if len(self.log) < self.LOGMAX:
            pos = self.tell()
            self.log.append((pos, self.size - pos if (n is None or n < 0) else n))

    def read(self, n=-1):
        self._note(n)
        return io.BytesIO.read(self, n)

    def readinto(self, b):
        self._note(len(b))
        return io.BytesIO.readinto(self, b)

    def read_covers(self, off, width):
        for (p, n) in self.log:
            if p < off + width and off < p + n:
                return True
        return False

    def read_beyond(self, cut):
        for (p, n) in self.log:
            if n > 0 and p + n > cut:
                return True
        return False


class _Alarm(BaseException):
    pass


def _cpu():
    ru = resource.getrusage(resource.RUSAGE_SELF)
    return ru.ru_utime + ru.ru_stime


def _on_alarm(signum, frame):
    raise _Alarm()


def exc_name(e):
    t = type(e)
    if t.__module__ in ('builtins', 'pycdlib.pycdlibexception'):
        return t.__name__
    return t.__module__ + '.' + t.__name__


def _where(tb):
    """innermost pycdlib frame as module.function (diagnostics only; no line numbers)"""
    last = ''
    for fs in traceback.extract_tb(tb):
        if '/pycdlib/' in fs.filename:
            last = '%s.%s' % (os.path.basename(fs.filename)[:-3], fs.name)
    return last


def _traverse(iso):
    """walk every namespace of an opened image through list_children; returns a digest.  Only
    names that can be addressed by a path are descended into (a corrupted name may be empty,
    contain '/', or not decode); a guard bounds the walk."""
    import pycdlib
    h = hashlib.sha256()
    n = 0
    nss = ['iso_path']
    if iso.has_rock_ridge():
        nss.append('rr_path')
    if iso.has_joliet():
        nss.append('joliet_path')
    if iso.has_udf():
        nss.append('udf_path')
    for ns in nss:
        stack = [('/', 0)]
        while stack:
            (d, depth) = stack.pop()
            try:
                children = list(iso.list_children(**{ns: d}))
            except pycdlib.pycdlibexception.PyCdlibInvalidInput:
                if d == '/':
                    raise
                h.update(repr((ns, d, 'unaddressable')).encode())
                continue
            for c in children:
                if c is None or c.is_dot() or c.is_dotdot():
                    continue
                if ns == 'rr_path':
                    if c.rock_ridge is None:
                        continue
                    name = c.rock_ridge.name()
                else:
                    name = c.file_identifier()
                isdir = c.is_dir()
                ln = c.get_data_length()
                n += 1
                h.update(repr((ns, d, name, isdir, ln)).encode())
                if n > 20000:
                    raise RuntimeError('traversal_unbounded')
                if isdir and depth < 24:
                    try:
                        nm = name.decode('utf-16_be' if ns == 'joliet_path' else 'utf-8')
                    except UnicodeDecodeError:
                        continue
                    if nm and '/' not in nm and '\x00' not in nm:
                        stack.append((d.rstrip('/') + '/' + nm, depth + 1))
    return '%d:%s' % (n, h.hexdigest()[:12])


def _child(data, touched, cut):
    """runs in the forked child: open_fp + traversal + close on data; returns the observation"""
    import pycdlib
    resource.setrlimit(resource.RLIMIT_AS, (AS_LIMIT, AS_LIMIT))
    rss0 = resource.getrusage(resource.RUSAGE_SELF).ru_maxrss
    fp = RecIO(data)
    res = {'result': 'ok', 'phase': 'open', 'memory_error': False, 'timeout': False, 'where': '',
           'after_open': 'ok', 'after_where': '', 'digest': ''}
    # The budget is processor time (ITIMER_PROF): the check shares the machine with other jobs and
    # wall time of a 1 ms parse was seen to vary by 1000x; an endless loop burns processor time.
    signal.signal(signal.SIGPROF, _on_alarm)
    t0 = det.real_time()
    c0 = _cpu()
    signal.setitimer(signal.ITIMER_PROF, TIMEOUT_S)
    iso = pycdlib.PyCdlib()
    try:
        try:
            iso.open_fp(fp)
        except _Alarm:
            res['result'] = 'timeout'
            res['timeout'] = True
            res['where'] = _where(sys.exc_info()[2])
        except MemoryError:
            res['result'] = 'MemoryError'
            res['memory_error'] = True
            res['where'] = _where(sys.exc_info()[2])
        except Exception as e:  # pylint: disable=broad-except
            res['result'] = exc_name(e)
            res['where'] = _where(sys.exc_info()[2])
            res['msg'] = str(e)[:120]
        res['elapsed_ms'] = int((_cpu() - c0) * 1000)
        res['wall_ms'] = int((det.real_time() - t0) * 1000)
        res['peak_kb'] = max(0, resource.getrusage(resource.RUSAGE_SELF).ru_maxrss - rss0)
        if res['result'] == 'ok':
            # what a consumer does next; observed, but the property speaks about opening only
            res['phase'] = 'walk'
            signal.setitimer(signal.ITIMER_PROF, TIMEOUT_S)
            try:
                res['digest'] = _traverse(iso)
                res['phase'] = 'close'
                iso.close()
                res['phase'] = 'done'
            except _Alarm:
                res['after_open'] = 'timeout'
                res['after_where'] = _where(sys.exc_info()[2])
            except MemoryError:
                res['after_open'] = 'MemoryError'
                res['after_where'] = _where(sys.exc_info()[2])
            except Exception as e:  # pylint: disable=broad-except
                res['after_open'] = exc_name(e)
                res['after_where'] = _where(sys.exc_info()[2])
    except _Alarm:
        res['after_open'] = 'timeout'
    finally:
        signal.setitimer(signal.ITIMER_PROF, 0)
    res['total_ms'] = int((det.real_time() - t0) * 1000)
    res['nreads'] = fp.nreads
    reached = False
    for (off, w) in touched:
        if fp.read_covers(off, w):
            reached = True
    if cut is not None and fp.read_beyond(cut):
        reached = True
    res['read_reached'] = reached
    return res


try:
    import ctypes
    _LIBC = ctypes.CDLL('libc.so.6', use_errno=True)
except Exception:  # pylint: disable=broad-except
    _LIBC = None


def _set_pdeathsig():
    """the calling process gets SIGKILL when its parent dies (no orphans whatever happens)"""
    if _LIBC is not None:
        _LIBC.prctl(1, signal.SIGKILL)   # PR_SET_PDEATHSIG


def _worker_init():
    """pool workers: default signal dispositions (the main process installs Python-level
    handlers; inherited by a worker they can keep Pool.terminate() from ending it) and death
    with the parent"""
    for sig in (signal.SIGTERM, signal.SIGINT, signal.SIGHUP):
        signal.signal(sig, signal.SIG_DFL)
    _set_pdeathsig()


def _pool_map(nproc, fn, args, timeout):
    """Pool.map with a deadline (a lost worker must not hang the check)"""
    ctx = multiprocessing.get_context('fork')
    pool = ctx.Pool(nproc, initializer=_worker_init)
    try:
        out = pool.map_async(fn, args, chunksize=1).get(timeout)
        pool.close()
        pool.join()
        return out
    finally:
        pool.terminate()


RESTART_KB = 16384    # a child whose peak RSS grew by more than this is replaced (clean measurements)


def _child_loop(cases, w):
    """in the forked child: run the cases one after the other, one JSON line per observation.
    The child ends itself after any anomaly so that the next case starts from a clean process."""
    for case in cases:
        base = _BASES[case['base']]
        data, touched, cut = apply_faults(base, case['faults'])
        res = _child(data, touched, cut)
        res['id'] = case['id']
        os.write(w, (json.dumps(res) + '\n').encode())
        if (res['timeout'] or res['memory_error'] or res['peak_kb'] > RESTART_KB
                or res['after_open'] in ('timeout', 'MemoryError')):
            break
    os.write(w, b'{"bye": true}\n')


def _dead(case, killed, status):
    return {'id': case['id'], 'result': 'timeout' if killed else 'process_died', 'phase': 'open',
            'timeout': killed, 'memory_error': False,
            'where': 'killed by harness' if killed else 'exit status %d' % status,
            'after_open': 'ok', 'after_where': '', 'digest': '',
            'elapsed_ms': int(WALL_S * 1000) if killed else 0,
            'total_ms': 0, 'peak_kb': 0, 'nreads': 0, 'read_reached': True}


def run_forked(cases, out):
    """fork one child for a list of cases; the child reports per case through a pipe; the parent
    enforces a deadline per case and kills the child's process group.  Appends the observations
    to out and returns the cases that still have to run (in a fresh child).  Survives any death of
    the child."""
    r, w = os.pipe()
    pid = os.fork()
    if pid == 0:
        code = 0
        try:
            os.close(r)
            os.setpgid(0, 0)
            _set_pdeathsig()
            _child_loop(cases, w)
        except BaseException:  # pylint: disable=broad-except
            code = 3
            try:
                os.write(w, (json.dumps({'result': 'harness_error', 'id': '?',
                                         'msg': traceback.format_exc()[-800:]}) + '\n').encode())
            except BaseException:  # pylint: disable=broad-except
                pass
        finally:
            os._exit(code)
    os.close(w)
    per_case = WALL_S
    deadline = det.real_time() + per_case
    buf = b''
    ndone = 0
    killed = False
    bye = False
    harness_error = None
    while not bye:
        left = deadline - det.real_time()
        rl = select.select([r], [], [], left)[0] if left > 0 else []
        if not rl:
            killed = True
            break
        chunk = os.read(r, 1 << 16)
        if not chunk:
            break
        buf += chunk
        while b'\n' in buf:
            line, buf = buf.split(b'\n', 1)
            rec = json.loads(line.decode())
            if rec.get('bye'):
                bye = True
            elif rec.get('result') == 'harness_error':
                harness_error = rec
                bye = True
            else:
                out.append(rec)
                ndone += 1
                deadline = det.real_time() + per_case
    os.close(r)
    for target in (-pid, pid):
        try:
            os.kill(target, signal.SIGKILL)
        except OSError:
            pass
    status = os.waitpid(pid, 0)[1]
    if harness_error is not None:
        raise RuntimeError('harness error in child: %s' % harness_error.get('msg'))
    if not bye and ndone < len(cases):
        # the child hung beyond the alarm or died while running cases[ndone]
        out.append(_dead(cases[ndone], killed, status))
        ndone += 1
    return cases[ndone:]


_BASES = {}    # name -> Base; set before the pool forks


def _run_chunk(chunk):
    out = []
    rest = list(chunk)
    while rest:
        rest = run_forked(rest, out)
    return out


def _risk(case):
    """scheduling hint only: faults that may make a directory its own descendant are started first
    and spread over the workers (each costs a full alarm period)"""
    for f in case['faults']:
        if f['kind'] in ('self', 'ancestor'):
            return 0
        if f['structure'] == 'dir_record' and f['field'].split('.')[-1] in ('file_identifier', 'len_fi', 'flags'):
            return 0
    return 1


def run_cases(cases, progress=None):
    """cases: [{'id','base','faults'}] -> {id: observation}"""
    cases = sorted(cases, key=lambda c: (_risk(c), hashlib.sha256(c['id'].encode()).hexdigest()))
    if not cases:
        return {}
    nchunks = max(1, (len(cases) + 47) // 48)
    chunks = [cases[k::nchunks] for k in range(nchunks)]
    ctx = multiprocessing.get_context('fork')
    results = {}
    pool = ctx.Pool(NPROC, initializer=_worker_init)
    try:
        done = 0
        mark = 0
        for out in pool.imap_unordered(_run_chunk, chunks):
            for r in out:
                results[r['id']] = r
            done += len(out)
            if progress and done - mark >= 5000:
                mark = done
                progress(done, len(cases))
        pool.close()
        pool.join()
    finally:
        pool.terminate()
    return results


# =============================================================================================
# the check
# =============================================================================================
def plan(base, states):
    """apply and dedupe the faulted images of one base.  returns (cases by sha, attribution)
    attribution: list of (state, sha or None)  - None: identical to the base image"""
    base_sha = hashlib.sha256(base.data).hexdigest()
    by_sha = {}
    attrib = []
    for st in states:
        data, _, _ = apply_faults(base, st['faults'])
        sha = hashlib.sha256(data).hexdigest()
        if sha == base_sha:
            attrib.append((st, None))
            continue
        if sha not in by_sha:
            by_sha[sha] = {'id': '%s#%d' % (base.name, len(by_sha)), 'base': base.name, 'faults': st['faults']}
        attrib.append((st, sha))
    return by_sha, attrib


def _plan_star(args):
    (name, states) = args
    by_sha, attrib = plan(_BASES[name], states)
    return name, by_sha, attrib


def _field_class(f):
    """field name without the instance part: 'dr@47104.comp0.len' -> 'compN.len'"""
    name = f['field'].split('.', 1)[1] if '.' in f['field'] else f['field']
    return re.sub(r'\d+', 'N', name)


def fault_sig(clause, obs, faults):
    """signature in model terms: clause (+ exception) and the structure / field / role / kind
    classes of the faults applied"""
    def one(vals):
        vals = sorted(set(vals))
        return vals[0] if len(vals) == 1 else vals
    sig = {'clause': clause,
           'structure': one(f['structure'] for f in faults),
           'role': one(f['role'] for f in faults),
           'kind': one(f['kind'] for f in faults),
           'field': one(_field_class(f) for f in faults)}
    if clause == 'UndocumentedException':
        sig['exception'] = obs['result']
    return sig


def _fkey(fault):
    return json.dumps(fault, sort_keys=True)


def _differs(r, ref):
    return r['result'] != 'ok' or r['digest'] != ref['digest'] or r['after_open'] != 'ok'


def nominal_open_ms(base):
    """processor time of opening the unmodified base image (best of 5, warm)"""
    import pycdlib
    best = None
    for _ in range(5):
        t = _cpu()
        iso = pycdlib.PyCdlib()
        iso.open_fp(io.BytesIO(base.data))
        dt = (_cpu() - t) * 1000.0
        iso.close()
        best = dt if best is None else min(best, dt)
    return round(best, 3)


def replay(ctx):
    """--replay PATH: re-run the one faulted image of a VIOLATION replay file (and the base image),
    let TLC judge it, print the observation.  Does not write evidence."""
    with open(ctx.replay) as fh:
        rep = json.load(fh)['replay']
    base = build_bases([rep['base']])[0]
    _BASES[base.name] = base
    cases = [{'id': '%s#base' % base.name, 'base': base.name, 'faults': []},
             {'id': '%s#replay' % base.name, 'base': base.name, 'faults': rep['faults']}]
    obs = run_cases(cases)
    items = [{'id': c['id'], 'base': c['base'], 'faults': c['faults'], 'result': obs[c['id']]['result'],
              'elapsed_ms': obs[c['id']]['elapsed_ms'], 'memory_error': obs[c['id']]['memory_error'],
              'timeout': obs[c['id']]['timeout'], 'peak_kb': obs[c['id']]['peak_kb']} for c in cases]
    fails, _ = judge.judge('Judge_Hostile', items, aux_modules={'HostileInv': inv_module(base)})
    r = obs[cases[1]['id']]
    print('REPLAY property=C15 base=%s faults=%s' % (base.name, json.dumps(rep['faults'])))
    print('  observation: result=%s where=%s msg=%r processor_ms=%s peak_kb=%s timeout=%s' % (
        r['result'], r['where'], r.get('msg', ''), r['elapsed_ms'], r['peak_kb'], r['timeout']))
    bad = fails.get(cases[1]['id'], [])
    for clause in bad:
        sig = fault_sig(clause, r, rep['faults'])
        listed = [k['id'] for k in ctx.known if checklib.sig_matches(k['signature'], sig)]
        print('  %s signature=%s%s' % ('KNOWN-FINDING' if listed else 'VIOLATION', json.dumps(sig, sort_keys=True),
                                     ' (%s)' % listed[0] if listed else ''))
    if not bad:
        print('  AllowedOutcome holds')
    raise SystemExit(1 if bad else 0)


def run(ctx):
    log = lambda *a: (sys.stdout.write(' '.join(str(x) for x in a) + '\n'), sys.stdout.flush())
    if getattr(ctx, 'replay', None):
        replay(ctx)
    t0 = det.real_time()
    only = os.environ.get('C15_BASES')     # development aid: restrict the base images
    bases = build_bases(only.split(',') if only else None)
    for b in bases:
        _BASES[b.name] = b
    nominal = dict((b.name, nominal_open_ms(b)) for b in bases)
    log('C15: %d base images, %d fields, %d truncation points; nominal open %.2f - %.2f ms' % (
        len(bases), sum(len(b.fields) for b in bases), sum(len(b.truncpoints) for b in bases),
        min(nominal.values()), max(nominal.values())))

    # ---- 1. TLC enumerates the fault space of every base image --------------------------------
    jobs = [(b, 1, None, ctx.seed) for b in bases]
    npairs = 300 if ctx.tier == 'thorough' else 0
    if npairs:
        jobs += [(b, 2, npairs, ctx.seed + 1) for b in bases]
    enum = _pool_map(8, _enum_star, jobs, 900)
    tlc_states = 0
    tlc_trans = 0
    spaces = {}
    singles = {}
    pairs = {}
    for (job, (states, space, stats)) in zip(jobs, enum):
        b = job[0]
        if job[1] == 1:
            singles[b.name] = states
            spaces[b.name] = space
            tlc_states += stats['distinct']
            tlc_trans += stats['generated'] - 1
            if space is None or len(states) != space['faults'] or stats['distinct'] != space['faults'] + 1:
                raise tlc.TlcError('fault space of %s: %d states printed, TLC reports %s distinct, space %s' % (
                    b.name, len(states), stats.get('distinct'), space))
        else:
            pairs[b.name] = states
    log('C15: TLC enumerated %d single-fault states (%d transitions) in %.1f s; %d sampled pairs' % (
        tlc_states, tlc_trans, det.real_time() - t0, sum(len(v) for v in pairs.values())))

    # ---- 2. select per tier ----------------------------------------------------------------------
    selected = {}
    for b in bases:
        sts = singles[b.name]
        if ctx.tier == 'quick' and b.name not in QUICK_FULL:
            sts = [s for s in sts if s['faults'][0]['t'] == 'ladder' or
                   (s['faults'][0]['t'] == 'truncate' and s['faults'][0]['kind'] == 'sector')]
        selected[b.name] = sts + pairs.get(b.name, [])

    # ---- 3. apply, dedupe, run the real code ---------------------------------------------------------
    planned = _pool_map(NPROC, _plan_star, [(b.name, selected[b.name]) for b in bases], 600)
    cases = []
    attrib = {}
    for (name, by_sha, att) in planned:
        attrib[name] = att
        cases += [dict(c, sha=sha) for sha, c in by_sha.items()]
    ref_cases = [{'id': '%s#base' % b.name, 'base': b.name, 'faults': []} for b in bases]
    log('C15: %d faulted-image descriptions selected, %d distinct images to open' % (
        sum(len(v) for v in selected.values()), len(cases)))
    t1 = det.real_time()
    obs = run_cases(ref_cases + cases,
                    progress=lambda d, n: log('C15:   opened %d / %d (%.0f s)' % (d, n, det.real_time() - t1)))
    log('C15: opened %d images in %.1f s' % (len(obs), det.real_time() - t1))
    if len(obs) != len(cases) + len(ref_cases):
        raise RuntimeError('lost observations: %d of %d' % (len(obs), len(cases) + len(ref_cases)))
    for b in bases:
        r = obs['%s#base' % b.name]
        if r['result'] != 'ok' or r['after_open'] != 'ok':
            raise RuntimeError('base image %s does not open cleanly: %r' % (b.name, r))

    # ---- 4. TLC judges every observation ------------------------------------------------------------------
    t2 = det.real_time()
    items_by_base = {}
    for c in ref_cases + cases:
        r = obs[c['id']]
        items_by_base.setdefault(c['base'], []).append({
            'id': c['id'], 'base': c['base'], 'faults': c['faults'], 'result': r['result'],
            'elapsed_ms': r['elapsed_ms'], 'memory_error': r['memory_error'], 'timeout': r['timeout'],
            'peak_kb': r['peak_kb']})
    jjobs = []
    for b in bases:
        its = items_by_base[b.name]
        nshard = max(1, (len(its) + 2999) // 3000)
        for k in range(nshard):
            jjobs.append(('Judge_Hostile', its[k::nshard], 3600, {'HostileInv': inv_module(b)}))
    verdicts = _pool_map(8, judge._judge_star, jjobs, 1800)   # pylint: disable=protected-access
    fails = {}
    for (f, _) in verdicts:
        fails.update(f)
    log('C15: TLC judged %d observations in %.1f s: %d fail AllowedOutcome' % (
        sum(len(v) for v in items_by_base.values()), det.real_time() - t2, len(fails)))

    # ---- 5. verdicts ---------------------------------------------------------------------------------------------
    case_by_id = dict((c['id'], c) for c in cases)
    single_obs = {}      # (base, fault) -> observation, for attributing a failing pair to one of its faults
    for c in cases:
        if len(c['faults']) == 1:
            single_obs[(c['base'], _fkey(c['faults'][0]))] = c['id']
    sha_to_id = dict(((c['base'], c['sha']), c['id']) for c in cases)
    for b in bases:
        for (st, sha) in attrib[b.name]:
            if len(st['faults']) == 1 and sha is not None:
                single_obs[(b.name, _fkey(st['faults'][0]))] = sha_to_id[(b.name, sha)]
    dump = []
    for cid in sorted(fails):
        if cid.endswith('#base'):
            ctx.violation({'clause': fails[cid], 'structure': 'base image'}, obs[cid], {'base': cid})
            continue
        c = case_by_id[cid]
        r = obs[cid]
        for clause in fails[cid]:
            if clause in ('FaultNotInModel', 'ClauseMismatch'):
                raise RuntimeError('judge: %s on %s' % (clause, c))
            blame = c['faults']
            if len(blame) > 1:
                # 1-minimal: a pair whose failure one of its faults produces alone is that fault's
                # (an endless loop shows as Timeout and/or MemoryBlowup: one class)
                same = LOOP_CLAUSES if clause in LOOP_CLAUSES else (clause,)
                for f in c['faults']:
                    sid = single_obs.get((c['base'], _fkey(f)))
                    if sid is not None and set(same) & set(fails.get(sid, [])) and obs[sid]['result'] == r['result']:
                        blame = [f]
                        break
            sig = fault_sig(clause, r, blame)
            if len(blame) > 1:
                # a genuinely combined pair: it belongs to a listed finding when one of its faults
                # is of that finding's class (the other fault only opened the way); otherwise it is
                # reported with both faults in the signature
                for f in blame:
                    sf = fault_sig(clause, r, [f])
                    if any(checklib.sig_matches(k['signature'], sf) for k in ctx.known):
                        sig = sf
                        break
            detail = {'base': c['base'], 'faults': c['faults'], 'result': r['result'], 'where': r['where'],
                      'msg': r.get('msg', ''), 'elapsed_ms': r['elapsed_ms'], 'peak_kb': r['peak_kb']}
            ctx.note('fail_' + clause)
            dump.append({'sig': sig, 'detail': detail})
            if ctx.violation(sig, detail, {'base': c['base'], 'faults': c['faults'], 'seed': ctx.seed}):
                ctx.note('unlisted_' + clause)

    if os.environ.get('C15_DUMP'):      # development aid: every failing observation with its signature
        with open(os.environ['C15_DUMP'], 'w') as fh:
            json.dump(dump, fh)

    # ---- 6. coverage ---------------------------------------------------------------------------------------------
    by_role = {}
    identical = 0
    evaluations = 0
    unreached_samples = []
    for b in bases:
        ref = obs['%s#base' % b.name]
        for (st, sha) in attrib[b.name]:
            evaluations += 1
            role = '+'.join(sorted(set(f['role'] for f in st['faults'])))
            br = by_role.setdefault(role, {'faults': 0, 'identical_to_base': 0, 'reached': 0})
            br['faults'] += 1
            if sha is None:
                identical += 1
                br['identical_to_base'] += 1
                continue
            r = obs[sha_to_id[(b.name, sha)]]
            if r['read_reached'] or _differs(r, ref):
                br['reached'] += 1
            elif len(unreached_samples) < 5:
                unreached_samples.append({'base': b.name, 'faults': st['faults']})
    outcomes = {}
    after_open = {}
    nontrivial = 0
    for c in cases:
        r = obs[c['id']]
        if r['read_reached'] or _differs(r, obs['%s#base' % c['base']]):
            nontrivial += 1
        outcomes[r['result']] = outcomes.get(r['result'], 0) + 1
        if r['after_open'] != 'ok':
            k = '%s in %s' % (r['after_open'], r['after_where'] or 'harness traversal')
            after_open[k] = after_open.get(k, 0) + 1
    shown = sorted(cases, key=lambda c: hashlib.sha256(c['id'].encode()).hexdigest())
    for c in shown[:3]:
        r = obs[c['id']]
        ctx.sample({'base': c['base'], 'faults': c['faults'], 'result': r['result'], 'elapsed_ms': r['elapsed_ms'],
                    'peak_kb': r['peak_kb'], 'parser_read_the_fault': r['read_reached']})
    for cid in sorted(fails)[:2]:
        if cid in case_by_id:
            r = obs[cid]
            ctx.sample({'base': case_by_id[cid]['base'], 'faults': case_by_id[cid]['faults'], 'result': r['result'],
                        'where': r['where'], 'failing_clauses': fails[cid]})

    tier_rule = ('all of it on every base image, plus a seeded -simulate sample of %d fault pairs per base image '
                 '(SampleSpec, -seed %d)' % (npairs, ctx.seed + 1)) if ctx.tier == 'thorough' else (
        'quick tier: all of it on %s; only the sector-boundary truncations on the other base images'
        % ', '.join(n for n in QUICK_FULL if n in _BASES))
    ctx.coverage.update({
        'evaluations': evaluations,
        'distinct_nontrivial': nontrivial,
        'rule': ('TLC enumerates spec/Hostile.tla per base image: every single fault Mutate(field, kind[, fix]) over the '
                 'independent structure inventory (harness/inventory.py), kind by role (length/count: 0,1,max,+1,-1,huge; '
                 'extent pointer: 0,self,ancestor,other structure,beyond EOF,max; offset: 0,2047,beyond; tag/version/'
                 'checksum: flip bit,zero,ff; both-endian copy: swap one copy; flags: toggle each interpreted bit; char: '
                 '00,ff,/; fix = checksum/CRC re-sealed), and Truncate(at) at every sector boundary and at start, '
                 'start+1, middle, end-1, end of every structure; ' + tier_rule +
                 '.  evaluations = faulted-image descriptions generated and applied.  Images identical to their base '
                 '(%d) are not opened; byte-identical faulted images are opened once.  distinct_nontrivial = distinct '
                 'faulted images (SHA-256) that differ from the base AND that the parser reached: the recording file '
                 'object saw a read covering a changed byte (truncation: a read request extending past the cut), '
                 'or the outcome (exception or traversal digest) differs from the base image\'s.' % identical),
        'exhaustive': False,
        'states': tlc_states,
        'transitions': tlc_trans,
        'not_covered': ('Arbitrary byte strings are NOT covered.  "Every byte string" is approximated by the structured '
                        'single-fault space (plus sampled pairs in the thorough tier) over %d valid base images and by '
                        'truncations; corruptions of three or more fields, of bytes no inventoried field owns, and inputs '
                        'that never were a valid image are outside this check.' % len(bases)),
        'bases': dict((b.name, {'bytes': len(b.data), 'fields': len(b.fields), 'truncation_points': len(b.truncpoints),
                                'single_faults': spaces[b.name]['faults'], 'by_role': spaces[b.name]['byrole'],
                                'selected': len(selected[b.name]), 'nominal_open_ms': nominal[b.name]}) for b in bases),
        'by_role': by_role,
        'images_opened': len(cases),
        'identical_to_base': identical,
        'outcomes_of_open': outcomes,
        'after_open_anomalies_not_judged': after_open,
        'unreached_samples': unreached_samples,
        'failing_observations': len(fails),
        'sampled_pairs': sum(len(v) for v in pairs.values()),
        'budget': {'timeout_ms_processor_time': int(TIMEOUT_S * 1000), 'slowest_nominal_open_ms': max(nominal.values()),
                   'slowest_terminating_open_ms': max([obs[c['id']]['elapsed_ms'] for c in cases if not obs[c['id']]['timeout']] or [0]),
                   'largest_peak_growth_kb_of_terminating_open': max([obs[c['id']]['peak_kb'] for c in cases if not obs[c['id']]['timeout'] and not obs[c['id']]['memory_error']] or [0]),
                   'rlimit_as_bytes': AS_LIMIT, 'mem_budget_kb': 131072},
    })
    ctx.assumptions += [
        'TLC/SANY; spec/Hostile.tla (fault alphabet), spec/Judge_Hostile.tla (clauses)',
        'harness/inventory.py finds the structures the parser follows in the base images (independent walker written '
        'from ECMA-119, SUSP/RRIP, El Torito, ECMA-167/UDF, UEFI GPT; the "reached" measurement cross-checks it)',
        'a 5 s processor-time alarm (>= 1000x the slowest nominal open; wall time is not used because the machine is '
        'shared) separates an endless loop from a slow parse; RLIMIT_AS 1 GiB and 128 MiB growth of the peak RSS separate '
        'disproportionate memory use from normal use on images <= 1 MiB',
        'what a consumer does after a successful open (list_children over every namespace, close) is observed and '
        'reported under after_open_anomalies_not_judged, not judged: the statement speaks about opening',
    ]


def _own_group():
    """put the check into its own process group and make sure the whole group (pool workers,
    TLC JVMs) is gone when the check ends, however it ends.  (The children that run pycdlib are
    in groups of their own, are killed by their parent at a deadline, and die with it.)"""
    import atexit
    try:
        os.setpgid(0, 0)
    except OSError:
        pass
    if os.getpgrp() != os.getpid():
        return

    def reap(*_):
        signal.signal(signal.SIGTERM, signal.SIG_IGN)
        try:
            os.killpg(os.getpid(), signal.SIGTERM)
        except OSError:
            pass

    def on_signal(signum, _frame):
        reap()
        os._exit(128 + signum)
    atexit.register(reap)
    signal.signal(signal.SIGTERM, on_signal)
    signal.signal(signal.SIGINT, on_signal)
    signal.signal(signal.SIGHUP, on_signal)


if __name__ == '__main__':
    import faulthandler
    faulthandler.dump_traceback_later(3000, exit=True)    # a hang becomes a visible failure
    _own_group()
    sys.exit(checklib.main('C15', 'fault_enumeration', run))
