"""C19 - time stamps denote the instant they were made from, in every zone; parse/record identity.

1. Model level: TLC checks spec/MC_dates.tla (bounded instance of spec/Dates.tla): the library's
   algorithm as transcribed (gmtoffset_from_tm and the new() methods) against the denotation of
   the on-disc forms, for every (instant, zone) of the grid.  The runs are sharded by zone
   (single-worker JVMs).  Every pair is emitted by TLC and a non-empty failing set is a
   design-level counterexample.
2. Implementation level: the emitted pairs (quick: a seeded subsample) are run on the real
   classes with the process zone set to a POSIX fixed-offset TZ string, plus real tz-database
   zones around their transitions (computed with zoneinfo) and around local New Year; a number
   of images are mastered under the virtual clock and the stamps found in their bytes are
   included.  The harness decodes the recorded BYTES with struct (never with pycdlib) and TLC
   (spec/Judge_Dates.tla) evaluates the clauses.  Python decides nothing.
"""
import det
det.install()

import datetime
import io
import json
import multiprocessing
import os
import random
import struct
import sys
import time

import checklib
import judge
import tlc

PID = 'C19'
DAY = 86400
ZONE_BIAS = 48          # zones -48..+56 quarter hours are ZLo..ZHi = 0..104 in the cfg
NZONES = 105

MC_CFG = '''SPECIFICATION Spec
CONSTANTS
 YearLo = %(YearLo)d
 YearHi = 2099
 NYStep = %(NYStep)d
 NYPhase = %(NYPhase)d
 LeapHourStep = %(LeapHourStep)d
 GridStep = %(GridStep)d
 ZoneBias = 48
 ZLo = %(ZLo)d
 ZHi = %(ZHi)d
 Emit = TRUE
INVARIANT CalendarOK
CHECK_DEADLOCK FALSE
'''

REAL_ZONES = [
    'Australia/Lord_Howe', 'Pacific/Chatham', 'Asia/Kathmandu', 'America/St_Johns', 'Pacific/Apia',
    'Pacific/Kiritimati', 'Europe/London', 'America/New_York', 'Australia/Sydney', 'Asia/Kolkata',
    'America/Caracas', 'Asia/Tehran', 'Pacific/Marquesas', 'Australia/Eucla', 'Africa/Monrovia',
    'Asia/Pyongyang', 'Europe/Dublin', 'America/Sao_Paulo', 'Antarctica/Troll', 'Africa/Casablanca',
    'Pacific/Tongatapu', 'America/Adak', 'Asia/Kabul', 'Pacific/Kwajalein']
ZONEINFO_DIR = '/usr/share/zoneinfo'


# ----------------------------------------------------------------------------------------------
# 1. model level
# ----------------------------------------------------------------------------------------------
def _mc_shard(args):
    params, lo, hi = args
    cfg = MC_CFG % dict(params, ZLo=lo, ZHi=hi)
    out, st = tlc.run_tlc('MC_dates', cfg, workers=1, timeout=1500, heap='2g')
    tlc.need_ok(out, st, 'MC_dates[%d..%d]' % (lo, hi))
    cases = []
    for tag, v in tlc.tagged_lines(out):
        if tag == 'CASE':
            cases.append((v['d'], v['s'], v['q'], tuple(sorted(tuple(x) for x in v['f']))))
    return st, cases


def model_level(ctx, params, shards):
    per = (NZONES + shards - 1) // shards
    rng = [(params, lo, min(lo + per - 1, NZONES - 1)) for lo in range(0, NZONES, per)]
    t0 = det.real_time()
    with multiprocessing.get_context('fork').Pool(len(rng)) as pool:
        rs = pool.map(_mc_shard, rng)
    cases = []
    distinct = generated = 0
    for st, cs in rs:
        distinct += st['distinct']
        generated += st['generated']
        cases += cs
    cases.sort()
    print('MC_dates: %d JVMs, %d distinct states, %d transitions (one per (instant, zone)), %.1f s'
          % (len(rng), distinct, len(cases), det.real_time() - t0), flush=True)
    return cases, {'distinct': distinct, 'generated': generated, 'shards': len(rng),
                   'wall_s': round(det.real_time() - t0, 1)}


def report_failures(ctx, stage, fails):
    """fails: iterable of (kind, clause names incl. why: tags, zone_nonzero, detail, replay)."""
    for kind, names, nonzero, detail, replay in fails:
        whys = sorted(n[4:] for n in names if n.startswith('why:'))
        for c in sorted(n for n in names if ':' not in n):
            sig = {'clause': c, 'kind': kind, 'zone_nonzero': bool(nonzero), 'stage': stage,
                   'why': whys[0] if whys else 'none'}
            ctx.note('failing_%s_%s_%s' % (stage, kind, c))
            ctx.violation(sig, detail, replay)


# ----------------------------------------------------------------------------------------------
# 2. implementation level
# ----------------------------------------------------------------------------------------------
def posix_tz(offmin):
    """POSIX TZ string of a zone that is always offmin minutes east of UTC."""
    a = abs(offmin)
    name = '<%s%02d%02d>' % ('+' if offmin >= 0 else '-', a // 60, a % 60)
    return '%s%s%d:%02d' % (name, '-' if offmin > 0 else '', a // 60, a % 60)


def set_tz(tzs):
    os.environ['TZ'] = tzs
    time.tzset()


def dec7(b):
    y, mo, d, h, mi, s, off = struct.unpack('=BBBBBBb', b)
    return {'y1900': y, 'mon': mo, 'mday': d, 'hour': h, 'min': mi, 'sec': s, 'off': off}


def _digits(b):
    return int(b) if b.isdigit() else -1


def dec17(b):
    off, = struct.unpack('=b', b[16:17])
    return {'year': _digits(b[0:4]), 'mon': _digits(b[4:6]), 'mday': _digits(b[6:8]),
            'hour': _digits(b[8:10]), 'min': _digits(b[10:12]), 'sec': _digits(b[12:14]),
            'hsec': _digits(b[14:16]), 'off': off}


def decudf(b):
    tt, year, mo, d, h, mi, s, cs, hus, us = struct.unpack('<HhBBBBBBBB', b)
    tz = tt & 0x0fff
    if tz & 0x800:
        tz -= 0x1000
    return {'type': tt >> 12, 'tz': tz, 'year': year, 'mon': mo, 'mday': d, 'hour': h, 'min': mi,
            'sec': s, 'csec': cs, 'husec': hus, 'usec': us}


def dectf(b, want_flags):
    """-> (hdr, stamps) of a whole "TF" entry."""
    sig_ok = b[0:2] == b'TF'
    ln, ver, flags = struct.unpack('=BBB', b[2:5])
    w = 17 if flags & 0x80 else 7
    stamps = []
    pos = 5
    while pos + w <= len(b):
        stamps.append(dec17(b[pos:pos + w]) if w == 17 else dec7(b[pos:pos + w]))
        pos += w
    hdr = {'sig_ok': sig_ok, 'len': ln, 'ver': ver, 'flags': flags, 'want_flags': want_flags,
           'total': len(b)}
    return hdr, stamps


NOHDR = {'sig_ok': True, 'len': 0, 'ver': 0, 'flags': 0, 'want_flags': 0, 'total': 0}
TF_FLAGS = (0x0e, 0x7f, 0x01, 0x41, 0x2a)


def class_items(idp, t, gmtoff_min, n):
    """Run the four classes on instant t (float seconds) in the current process zone."""
    from pycdlib import dates, rockridge, udf
    inst = {'day': int(t // DAY), 'sec': int(t % DAY)}
    out = []

    def item(kind, raw, re, stamps, hdr):
        out.append({'id': '%s/%s' % (idp, kind), 'instant': inst, 'tz_offset_min': gmtoff_min,
                    'kind': kind, 'stamps': stamps, 'hdr': hdr, 'raw': raw.hex(),
                    'reparsed': re.hex() if isinstance(re, bytes) else str(re), 'source': 'class'})

    def rt(cls, raw):
        try:
            o = cls()
            o.parse(raw)
            return o.record()
        except Exception as e:  # pylint: disable=broad-except
            return 'raised ' + type(e).__name__

    def one(kind, cls, new_args, decode, want_flags=None):
        try:
            o = cls()
            o.new(*new_args)
            raw = o.record()
        except Exception as e:  # pylint: disable=broad-except
            # an exception instead of a record is an observation: no stamp denotes the instant
            out.append({'id': '%s/%s' % (idp, kind), 'instant': inst, 'tz_offset_min': gmtoff_min,
                        'kind': kind, 'stamps': [], 'hdr': dict(NOHDR, sig_ok=(want_flags is None)),
                        'raw': 'raised ' + type(e).__name__, 'reparsed': 'raised ' + type(e).__name__,
                        'source': 'class'})
            return
        if want_flags is None:
            item(kind, raw, rt(cls, raw), [decode(raw)], NOHDR)
        else:
            hdr, stamps = dectf(raw, want_flags)
            item(kind, raw, rt(cls, raw), stamps, hdr)

    one('dr7', dates.DirectoryRecordDate, (t,), dec7)
    one('vd17', dates.VolumeDescriptorDate, (t,), dec17)
    fl = TF_FLAGS[n % len(TF_FLAGS)]
    one('tf7', rockridge.RRTFRecord, (fl, t), None, fl)
    one('tf17', rockridge.RRTFRecord, (fl | 0x80, t), None, fl | 0x80)
    one('udf', udf.UDFTimestamp, (t,), decudf)
    return out


# --- stamps found in a mastered image (independent of pycdlib: struct on raw bytes) -----------
def image_stamps(img):
    """-> list of (kind, where, bytes[, hdr flags])."""
    found = []
    pvd = img[16 * 2048:17 * 2048]
    if pvd[0:6] != b'\x01CD001':
        return found
    for name, off in (('pvd.creation', 813), ('pvd.modification', 830), ('pvd.effective', 864)):
        found.append(('vd17', name, pvd[off:off + 17]))
    root = pvd[156:190]
    found.append(('dr7', 'pvd.rootdr', root[18:25]))
    ext, = struct.unpack('<L', root[2:6])
    ln, = struct.unpack('<L', root[10:14])
    data = img[ext * 2048:ext * 2048 + ln]
    pos = 0
    nrec = 0
    while pos < len(data):
        rl = data[pos]
        if rl == 0:
            pos = (pos // 2048 + 1) * 2048
            continue
        rec = data[pos:pos + rl]
        found.append(('dr7', 'root[%d].date' % nrec, rec[18:25]))
        idl = rec[32]
        su = 33 + idl + (1 - idl % 2)
        while su + 4 <= rl:
            sl = rec[su + 2]
            if sl < 4:
                break
            if rec[su:su + 2] == b'TF':
                found.append(('tf17' if rec[su + 4] & 0x80 else 'tf7', 'root[%d].TF' % nrec,
                              rec[su:su + sl]))
            su += sl
        pos += rl
        nrec += 1
    # UDF descriptors: any sector that starts with a descriptor tag whose checksum is right
    offs = {1: (376,), 9: (16,), 256: (16,), 261: (72, 84, 96), 266: (72, 84, 96, 108)}
    for sec in range(17, len(img) // 2048):
        tag = img[sec * 2048:sec * 2048 + 16]
        ident, ver, cks = struct.unpack('<HHB', tag[0:5])
        if ident not in offs or ver not in (2, 3):
            continue
        if (sum(tag) - tag[4]) % 256 != cks:
            continue
        for o in offs[ident]:
            found.append(('udf', 'udf.tag%d@%d+%d' % (ident, sec, o),
                          img[sec * 2048 + o:sec * 2048 + o + 12]))
    return found


def image_items(idp, t, gmtoff_min):
    import pycdlib
    det.reset()
    det.clock.set(t)
    iso = pycdlib.PyCdlib()
    iso.new(interchange_level=3, rock_ridge='1.09', joliet=3, udf='2.60')
    iso.add_fp(io.BytesIO(b'x' * 10), 10, '/FOO.;1', rr_name='foo', joliet_path='/foo', udf_path='/foo')
    iso.add_directory('/DIR', rr_name='dir', joliet_path='/dir', udf_path='/dir')
    buf = io.BytesIO()
    iso.write_fp(buf)
    iso.close()
    img = buf.getvalue()
    # parse + record of the whole image, clock unchanged: every stamp must come back
    iso2 = pycdlib.PyCdlib()
    iso2.open_fp(io.BytesIO(img))
    buf2 = io.BytesIO()
    iso2.write_fp(buf2)
    iso2.close()
    st1 = image_stamps(img)
    st2 = dict(((k, w), b) for k, w, b in image_stamps(buf2.getvalue()))
    inst = {'day': int(t // DAY), 'sec': int(t % DAY)}
    out = []
    for kind, where, b in st1:
        hdr = NOHDR
        if kind in ('tf7', 'tf17'):
            hdr, stamps = dectf(b, b[4])
        elif kind == 'dr7':
            stamps = [dec7(b)]
        elif kind == 'vd17':
            stamps = [dec17(b)]
        else:
            stamps = [decudf(b)]
        re = st2.get((kind, where))
        out.append({'id': '%s/img/%s' % (idp, where), 'instant': inst, 'tz_offset_min': gmtoff_min,
                    'kind': kind, 'stamps': stamps, 'hdr': hdr, 'raw': b.hex(),
                    'reparsed': re.hex() if re is not None else 'absent after reopen',
                    'source': 'image'})
    return out


def image_items_safe(idp, t, gmtoff_min):
    try:
        return image_items(idp, t, gmtoff_min)
    except Exception as e:  # pylint: disable=broad-except
        return [{'id': '%s/img' % idp, 'instant': {'day': int(t // DAY), 'sec': int(t % DAY)},
                 'tz_offset_min': gmtoff_min, 'kind': 'dr7', 'stamps': [], 'hdr': NOHDR,
                 'raw': 'mastering raised ' + type(e).__name__, 'reparsed': 'nothing',
                 'source': 'image'}]


# --- real zones ------------------------------------------------------------------------------
def transitions(name, t_end):
    """instants (epoch seconds) at which the UTC offset of zone `name` changes, by zoneinfo."""
    import zoneinfo
    z = zoneinfo.ZoneInfo(name)
    utc = datetime.timezone.utc

    def off(t):
        return (datetime.datetime.fromtimestamp(t, utc).astimezone(z)).utcoffset()

    res = []
    t = 0
    prev = off(0)
    while t < t_end:
        nt = t + DAY
        cur = off(nt)
        if cur != prev:
            lo, hi = t, nt
            while hi - lo > 1:
                mid = (lo + hi) // 2
                if off(mid) == prev:
                    lo = mid
                else:
                    hi = mid
            res.append((hi, int(prev.total_seconds()), int(cur.total_seconds())))
            prev = cur
        t = nt
    return res


def real_zone_cases(ctx, rnd, per_zone):
    """-> list of (tz string, t) around transitions and local New Year of real zones."""
    t_end = 4102444800      # 2100-01-01T00:00:00Z
    cases = []
    stats = {'zones': 0, 'transitions': 0, 'special_transitions': 0}
    if not os.path.isdir(ZONEINFO_DIR):
        ctx.assumptions.append('no %s: real tz-database zones not exercised' % ZONEINFO_DIR)
        return cases, stats
    for name in REAL_ZONES:
        if not os.path.exists(os.path.join(ZONEINFO_DIR, name)):
            ctx.note('zone_missing')
            continue
        stats['zones'] += 1
        tr = transitions(name, t_end)
        stats['transitions'] += len(tr)
        # a change that is not a plain +-1h seasonal switch, or the first/last of its kind, is
        # always kept; the seasonal ones are sampled
        special = [x for x in tr if abs(x[2] - x[1]) != 3600]
        seasonal = [x for x in tr if abs(x[2] - x[1]) == 3600]
        stats['special_transitions'] += len(special)
        keep = special + (seasonal if per_zone is None else
                          rnd.sample(seasonal, min(per_zone, len(seasonal))))
        for (tt, o1, o2) in keep:
            for dt in (-3601, -1, 0, 1, 1799, 3599, 3600):
                if 0 <= tt + dt < t_end:
                    cases.append((name, tt + dt))
        # local New Year (by the offset in force then), a few years
        years = [1970, 1971, 2000, 2038, 2099] if per_zone is not None else list(range(1970, 2100, 7))
        import zoneinfo
        z = zoneinfo.ZoneInfo(name)
        for y in years:
            ny = int(datetime.datetime(y, 1, 1, tzinfo=z).timestamp())
            for dt in (-1, 0, 1):
                if 0 <= ny + dt < t_end:
                    cases.append((name, ny + dt))
    return cases, stats


# ----------------------------------------------------------------------------------------------
def run_cases(ctx, fixed, real, n_images):
    """fixed: list of (d, s, q); real: list of (zone name, t).  -> items, stats"""
    items = []
    stats = {'fixed_cases': 0, 'real_cases': 0, 'real_skipped_offset_not_multiple_of_15min': 0,
             'images': 0, 'tz_sources_disagree': 0}
    byzone = {}
    for (d, s, q) in fixed:
        byzone.setdefault(q, []).append(d * DAY + s)
    n = 0
    img_every = max(1, len(fixed) // max(1, n_images))
    for q in sorted(byzone):
        tzs = posix_tz(15 * q)
        set_tz(tzs)
        for t in byzone[q]:
            lt = time.localtime(t)
            if lt.tm_gmtoff != 900 * q:
                raise RuntimeError('TZ=%s gives tm_gmtoff=%r' % (tzs, lt.tm_gmtoff))
            # every third case with a fractional second: the statement is "to the second"
            tf = float(t) + (0.75 if n % 3 == 2 and t != 0 else 0.0)
            idp = 'f%d' % n
            its = class_items(idp, tf, 15 * q, n)
            if n % img_every == 0 and stats['images'] < n_images:
                its += image_items_safe(idp, tf, 15 * q)
                stats['images'] += 1
            for it in its:
                it['replay'] = {'TZ': tzs, 't': tf}
            items += its
            n += 1
            stats['fixed_cases'] += 1
    import zoneinfo
    utc = datetime.timezone.utc
    byname = {}
    for (name, t) in real:
        byname.setdefault(name, []).append(t)
    for name in sorted(byname):
        set_tz(name)
        z = zoneinfo.ZoneInfo(name)
        k = 0
        for t in sorted(set(byname[name])):
            off = time.localtime(t).tm_gmtoff
            zoff = int(datetime.datetime.fromtimestamp(t, utc).astimezone(z).utcoffset().total_seconds())
            if off != zoff:
                stats['tz_sources_disagree'] += 1      # C library and zoneinfo read different data
                continue
            if off % 900 != 0:
                stats['real_skipped_offset_not_multiple_of_15min'] += 1
                continue
            idp = 'r%d' % n
            its = class_items(idp, float(t), off // 60, n)
            if k % 40 == 0 and n_images:
                its += image_items_safe(idp, float(t), off // 60)
                stats['images'] += 1
            for it in its:
                it['replay'] = {'TZ': name, 't': float(t)}
            items += its
            n += 1
            k += 1
            stats['real_cases'] += 1
    set_tz('UTC')
    det.reset()
    return items, stats


def run(ctx):
    quick = ctx.tier == 'quick'
    rnd = random.Random(ctx.seed * 7919 + 19)
    if ctx.replay:
        with open(ctx.replay) as f:
            rep = json.load(f)['replay']
        set_tz(rep['TZ'])
        off = time.localtime(rep['t']).tm_gmtoff // 60
        items = class_items('replay', rep['t'], off, 0) + image_items('replay', rep['t'], off)
        for it in items:
            it['replay'] = rep
        set_tz('UTC')
        cases, mstats, rstats, istats, params, model_fl = [], {'distinct': 0}, {}, {}, {}, []
    else:
        # ---- model level
        if quick:
            params = {'YearLo': 1970, 'NYStep': 5, 'NYPhase': ctx.seed % 5, 'LeapHourStep': 4,
                      'GridStep': 389}
            shards = 14
        else:
            params = {'YearLo': 1970, 'NYStep': 1, 'NYPhase': 0, 'LeapHourStep': 1, 'GridStep': 31}
            shards = 14
        cases, mstats = model_level(ctx, params, shards)
        if not cases:
            raise RuntimeError('MC_dates emitted no cases')
        bad = {}
        for (d, s, q, f) in cases:
            if f:
                bad.setdefault((f, q != 0), []).append((d, s, q))
        fl = []
        for (f, nonzero), cs in sorted(bad.items()):
            bykind = {}
            for kind, name in f:
                bykind.setdefault(kind, []).append(name)
            for kind, names in bykind.items():
                d, s, q = cs[0]
                fl.append((kind, names, nonzero,
                           'MC_dates: %d (instant, zone) pairs, first day=%d sec=%d zone=%+d quarter hours'
                           % (len(cs), d, s, q), {'model': 'MC_dates', 'day': d, 'sec': s, 'q': q}))
                ctx.note('model_pairs_failing_%s' % kind, len(cs))
        model_fl = fl
        # ---- implementation level
        want = 9000 if quick else 150000
        pick = cases if len(cases) <= want else rnd.sample(cases, want)
        # the corners are always in: first/last instant, extreme zones
        corner = [c for c in cases if c[2] in (-48, 0, 56) and (c[0] <= 1 or c[0] >= 47480)]
        fixed = sorted(set((d, s, q) for (d, s, q, f) in pick + corner))
        real, rstats = real_zone_cases(ctx, rnd, 12 if quick else None)
        t0 = det.real_time()
        items, istats = run_cases(ctx, fixed, real, 150 if quick else 1500)
        print('implementation: %d fixed-offset cases, %d real-zone cases, %d images, %d stamps, %.1f s'
              % (istats['fixed_cases'], istats['real_cases'], istats['images'], len(items),
                 det.real_time() - t0), flush=True)

    # ---- TLC judges
    t0 = det.real_time()
    replays = {}
    for it in items:
        replays[it['id']] = (it.pop('replay'), it['kind'], it['tz_offset_min'], it.pop('source'), it)
    fails, jst = judge.judge_sharded('Judge_Dates', items, shards=12)
    print('Judge_Dates: %d stamps judged, %d with failing clauses, %.1f s'
          % (len(items), len(fails), det.real_time() - t0), flush=True)
    fl = []
    for iid, names in sorted(fails.items()):
        rep, kind, off, source, it = replays[iid]
        fl.append((kind, names, off != 0,
                   {'id': iid, 'source': source, 'stamps': it['stamps'], 'raw': it['raw'],
                    'reparsed': it['reparsed'], 'instant': it['instant'], 'tz_offset_min': off},
                   dict(rep, kind=kind, source=source)))
    report_failures(ctx, 'impl', fl)
    # Binding: where what the code recorded differs from Dates!Record*, the model of that form
    # no longer transcribes the code and its model-level counterexamples say nothing about the
    # code: they are dropped (and said so); the implementation-level verdicts above stand.
    drift = sorted(i for i, names in fails.items() if 'bind:ModelAgrees' in names)
    ctx.note('stamps_where_model_and_code_agree', len(items) - len(drift))
    alias = {'tf7': 'dr7', 'tf17': 'vd17'}
    stale = sorted(set(alias.get(replays[i][1], replays[i][1]) for i in drift))
    for k in stale:
        n = sum(1 for i in drift if alias.get(replays[i][1], replays[i][1]) == k)
        print('NOTE: spec/Dates.tla no longer transcribes the code for the %s form (%d recorded stamps '
              'differ from Dates!Record*, first %s): model-level result for it ignored; update '
              'Record7/Record17/RecordUdf (UdfZoneUnit)' % (k, n, [i for i in drift if alias.get(replays[i][1], replays[i][1]) == k][0]),
              flush=True)
    report_failures(ctx, 'model', [x for x in model_fl if x[0] not in stale])

    nimpl = len(set(v[0]['TZ'] + '@' + repr(v[0]['t']) for v in replays.values()))
    for it in items[:3] + items[-2:]:
        ctx.sample({k: it[k] for k in ('id', 'instant', 'tz_offset_min', 'kind', 'stamps', 'raw')})
    ctx.coverage.update({
        'states': mstats.get('distinct', 0),
        'transitions': len(cases),
        'traces_validated_against_impl': nimpl,
        'exhaustive': False,
        'model_forms_not_matching_code': stale,
        'model': {'module': 'MC_dates', 'pairs_checked': len(cases), 'stats': mstats,
                  'params': params,
                  'bounds': 'years 1970..2099, zones -48..+56 quarter hours; every hour of the 3 '
                            'days around New Year of the years = NYPhase mod NYStep (and the '
                            'first and last), every LeapHourStep-th hour of the 3 days around '
                            'every leap day, Feb 28/Mar 1 2000, every GridStep-th day at 4 '
                            'seconds of the day, plus edge seconds'},
        'implementation': dict(istats, stamps_judged=len(items), stamps_failing=len(fails),
                               real_zones=rstats),
        'rule': 'a case is one (instant, zone); TLC enumerates the grid, the harness adds '
                'tz-database zones around their offset changes; a stamp is judged by TLC '
                '(Judge_Dates) on fields decoded from the recorded bytes with struct',
    })
    ctx.assumptions += [
        'VolumeDescriptorDate.new(0.0) is the documented "not specified" value: the instant '
        '1970-01-01T00:00:00Z is exempt for the 17-byte form',
        'sub-second parts are dropped (the statement is "to the second")',
        'zones whose offset is not a multiple of 15 minutes are outside the statement (counted)',
        'the true offset of the process zone is time.localtime().tm_gmtoff, cross-checked with zoneinfo',
    ]
    if mstats.get('distinct', 0) == 0 and not ctx.replay:
        raise RuntimeError('no states')


if __name__ == '__main__':
    sys.exit(checklib.main(PID, 'model_checking', run))
