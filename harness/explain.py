"""Debug helper: replay one behaviour (JSON list of actions) and print what happens."""
import json
import sys
import traceback

import det
det.install()
from realize import Table   # noqa: E402
from driver import Session, open_view  # noqa: E402


def short(o):
    out = {}
    for ns in ('iso', 'rrv', 'jol', 'udf'):
        out[ns] = ['%s:%s%s%s%s' % ('/'.join(e['p']), e['k'][0], e['c'], e['b'], 'H' if e['h'] else '') +
                   (('->' + e['t']) if e['t'] else '') for e in o[ns]]
    for k in ('ninodes', 'nclasses', 'space', 'err', 'elt', 'hyb'):
        if o.get(k):
            out[k] = o[k]
    return out


def main():
    tabname = sys.argv[1]
    acts = json.loads(sys.argv[2]) if not sys.argv[2].startswith('@') else json.load(open(sys.argv[2][1:]))
    tab = Table.load(tabname)
    s = Session(tab)
    for a in acts:
        try:
            getattr(s, 'do_' + a['a'])(a)
            res = 'ok'
        except Exception as e:  # pylint: disable=broad-except
            res = type(e).__name__ + ': ' + str(e)
            if '-v' in sys.argv:
                traceback.print_exc()
        print('>>', json.dumps(a), '=>', res)
        if s.iso is not None and s.iso._initialized:
            print('   ', json.dumps(short(s.peek())))
    (wres, data, wlog) = s.master()
    print('master:', wres)
    if data is None and '-v' in sys.argv:
        try:
            import io
            s.iso.write_fp(io.BytesIO())
        except Exception:  # pylint: disable=broad-except
            traceback.print_exc()
    if data is not None:
        (ores, v) = open_view(data, tab)
        print('open:', ores)
        if v:
            print('   ', json.dumps(short(v)))


main()
