"""Direction A generators: get behaviours out of TLC."""
import json
import os

import tlc
from realize import Table


def tables_module(tabname, modname='CoreTables'):
    """literal TLA+ module with the realisation table (see replay.tables_module for traces)"""
    import replay
    tab = Table.load(tabname)
    doc = {'names': [{'id': n, 'iso': [ord(c) for c in m['iso']], 'rr': [ord(c) for c in m['rr']],
                      'jol': [ord(c) for c in m['jol']], 'udf': [ord(c) for c in m['udf']]}
                     for n, m in sorted(tab.names.items()) if not n.startswith('~')],
           'blobs': [{'id': b, 'len': tab.blob_len(b)} for b in sorted(tab.blobs)],
           'targets': sorted(tab.targets)}
    return replay.tables_module(doc).replace('MODULE TraceTables', 'MODULE ' + modname)

MC_CORE_CFG = '''SPECIFICATION Spec
CONSTANTS
 Names <- MCNames
 Blobs <- MCBlobs
 Targets <- MCTargets
 Code <- MCCode
 BlobLen <- MCBlobLen
 MaxEntries = %(MaxEntries)d
 MaxDepth = %(MaxDepth)d
 MaxLen = %(MaxLen)d
 MaxRefuse = %(MaxRefuse)d
 MaxSched = %(MaxSched)d
 MaxGen = %(MaxGen)d
 CfgIds = {%(CfgIds)s}
 UseBlobs = {%(UseBlobs)s}
 InPlace = %(InPlace)s
 Boot = %(Boot)s
 Life = %(Life)s
 RefuseByName = %(RefuseByName)s
 Only = {%(Only)s}
 Modes = {%(Modes)s}
 Dump = "%(Dump)s"
INVARIANT InvStateOK
ACTION_CONSTRAINT ActionProps
%(extra)s
CHECK_DEADLOCK FALSE
'''


def mc_core(params, dump='none', module='MC_core', workers=16, timeout=3600, table='core.names.json'):
    """dump: none | edges (transition tour, history hidden) | hist (all histories)"""
    p = dict(MaxEntries=3, MaxDepth=2, MaxLen=3, MaxRefuse=1, MaxSched=0, MaxGen=1, CfgIds='2',
             Modes='"lazy"', UseBlobs='"z","o"', InPlace='FALSE', Boot='FALSE', Life='FALSE', RefuseByName='FALSE', Only='')
    p.update(params)
    p['Dump'] = dump
    extra = []
    if dump == 'edges':
        extra += ['ACTION_CONSTRAINT DumpEdge', 'VIEW ViewNoHist']
    elif dump == 'hist':
        extra += ['CONSTRAINT DumpHist']
    else:
        extra += ['VIEW ViewNoHist']
    p['extra'] = '\n'.join(extra)
    out, stats = tlc.run_tlc(module, MC_CORE_CFG % p, workers=workers, timeout=timeout,
                             aux_modules={'CoreTables': tables_module(table)})
    tlc.need_ok(out, stats, module)
    hists = [v for (tag, v) in tlc.tagged_lines(out) if tag == 'HIST']
    return hists, stats


def simulate(params, num, seed, module='MC_core', workers=8, timeout=1800, table='core.names.json'):
    """random behaviours of exactly MaxLen+1 calls (TLC -simulate), printed when complete."""
    p = dict(MaxEntries=4, MaxDepth=2, MaxLen=8, MaxRefuse=2, MaxSched=0, MaxGen=2, CfgIds='2',
             Modes='"lazy"', UseBlobs='"z","o"', InPlace='FALSE', Boot='FALSE', Life='FALSE', RefuseByName='FALSE', Only='')
    p.update(params)
    p['Dump'] = 'final'
    p['extra'] = 'CONSTRAINT DumpFinal'
    per = max(1, num // workers)
    out, stats = tlc.run_tlc(module, MC_CORE_CFG % p, workers=workers, timeout=timeout,
                             simulate='num=%d' % per, aux_modules={'CoreTables': tables_module(table)},
                             extra=['-depth', str(p['MaxLen'] + 2), '-seed', str(seed)])
    hists = [v for (tag, v) in tlc.tagged_lines(out) if tag == 'HIST']
    if stats.get('exit') not in (0,) and not hists:
        tlc.need_ok(out, stats, module + ' -simulate')
    return hists, stats
