"""Direction A generators: get behaviours out of TLC."""
import tlc

MC_CORE_CFG = '''SPECIFICATION Spec
CONSTANTS
 Names <- MCNames
 Blobs <- MCBlobs
 Targets <- MCTargets
 Code <- MCCode
 BlobLen <- MCBlobLen
 MaxEntries = %(MaxEntries)d
 MaxDepth = %(MaxDepth)d
 MaxLen = %(MaxLen)d
 MaxRefuse = %(MaxRefuse)d
 MaxSched = %(MaxSched)d
 MaxGen = %(MaxGen)d
 CfgIds = {%(CfgIds)s}
 UseBlobs = {%(UseBlobs)s}
 InPlace = %(InPlace)s
 Boot = %(Boot)s
 Modes = {%(Modes)s}
 Dump = "%(Dump)s"
INVARIANT InvStateOK
ACTION_CONSTRAINT ActionProps
%(extra)s
CHECK_DEADLOCK FALSE
'''


def mc_core(params, dump='none', module='MC_core', workers=16, timeout=1800):
    """dump: none | edges (transition tour, history hidden) | hist (all histories)"""
    p = dict(MaxEntries=3, MaxDepth=2, MaxLen=3, MaxRefuse=1, MaxSched=0, MaxGen=1, CfgIds='2',
             Modes='"lazy"', UseBlobs='"z","o"', InPlace='FALSE', Boot='FALSE')
    p.update(params)
    p['Dump'] = dump
    extra = []
    if dump == 'edges':
        extra += ['ACTION_CONSTRAINT DumpEdge', 'VIEW ViewNoHist']
    elif dump == 'hist':
        extra += ['CONSTRAINT DumpHist']
    else:
        extra += ['VIEW ViewNoHist']
    p['extra'] = '\n'.join(extra)
    out, stats = tlc.run_tlc(module, MC_CORE_CFG % p, workers=workers, timeout=timeout)
    tlc.need_ok(out, stats, module)
    hists = [v for (tag, v) in tlc.tagged_lines(out) if tag == 'HIST']
    return hists, stats


def simulate(params, num, seed, module='MC_core', workers=8, timeout=600):
    """random behaviours of exactly MaxLen+1 calls (TLC -simulate), printed when complete."""
    p = dict(MaxEntries=4, MaxDepth=2, MaxLen=8, MaxRefuse=2, MaxSched=0, MaxGen=2, CfgIds='2',
             Modes='"lazy"', UseBlobs='"z","o"', InPlace='FALSE', Boot='FALSE')
    p.update(params)
    p['Dump'] = 'final'
    p['extra'] = 'CONSTRAINT DumpFinal'
    per = max(1, num // workers)
    out, stats = tlc.run_tlc(module, MC_CORE_CFG % p, workers=workers, timeout=timeout,
                             simulate='num=%d' % per,
                             extra=['-depth', str(p['MaxLen'] + 2), '-seed', str(seed)])
    hists = [v for (tag, v) in tlc.tagged_lines(out) if tag == 'HIST']
    if stats.get('exit') not in (0,) and not hists:
        tlc.need_ok(out, stats, module + ' -simulate')
    return hists, stats
