"""C05: re-mastering is a fixpoint.

Part 1: the core corpus (behaviours of PyCdlibModel; R: clauses of ImageChecks judged by TLC).
Part 2: images of the other models' behaviours, so that every structure the library knows is
re-mastered: El Torito / isohybrid images from MC_boot behaviours (check_C11's replayer) and Rock
Ridge images with relocation, long names and symlinks from check_C08's case generators.  Each image
is opened and written again twice (fixed clock) and once with the clock advanced; TLC evaluates
RemasterIdentical / RemasterIdempotent / RemasterOnlyModDate (spec/ImageChecks.tla)."""
import json
import multiprocessing
import random
import sys
import zlib

import det
det.install()
import checklib      # noqa: E402
import check_core    # noqa: E402
import images        # noqa: E402
import judge         # noqa: E402


def _boot_item(args):
    (k, hist, cfgname) = args
    det.install()
    import check_C11 as L
    try:
        r = L.run_history(hist, cfgname, False, keep_image=True)
    except Exception as e:  # pylint: disable=broad-except
        return None
    data = r.get('image')
    if r.get('kind') != 'item' or data is None:
        return None
    acts = [s['act'] for s in hist['h']]
    circ = {'hybrid': any(a['a'] == 'AddIsohybrid' for a in acts),
            'part_offset': any(a['a'] == 'AddIsohybrid' and a.get('part_offset', a.get('offset', 0)) not in (0, None)
                               for a in acts),
            # a boot file that has no name left in any namespace of this configuration (the open
            # finding C05-unnamed-boot-file-longer-than-load-size is about exactly those)
            'unlinked_boot': any(e['vis'] == 'none' or (e['vis'] == 'sec' and not (L.CFGS[cfgname]['joliet'] or L.CFGS[cfgname]['udf']))
                                 for e in hist.get('exp', {}).get('entries', [])) and any(a['a'] == 'RmHardLink' for a in acts),
            'udf': bool(L.CFGS[cfgname]['udf'])}
    it = images.image_item('boot%d' % k, data, [], do_remaster=True)
    return {'id': it['id'], 'item': _only_remaster(it), 'circ': circ, 'src': 'boot',
            'hist': [a for a in acts][:12], 'cfg': cfgname}


def _rr_item(case):
    det.install()
    import check_C08 as R
    try:
        data, exp, failure = R.run_ops(case)
    except Exception:  # pylint: disable=broad-except
        return None
    if data is None:
        return None
    it = images.image_item('rr-' + case['id'], data, [], do_remaster=True)
    return {'id': it['id'], 'item': _only_remaster(it), 'circ': {'family': case.get('family', ''), 'ver': case['ver'],
                                                                 'xa': case['xa']},
            'src': 'rr', 'hist': case['ops'][:6], 'cfg': case['ver']}


def _only_remaster(it):
    """keep what the R: clauses read; neutralise the other clause groups (judged by C03/C04 checks on
    their own corpora) so that this part reports re-mastering only"""
    return {'id': it['id'], 'remaster': it['remaster']}


def extra(ctx):
    import check_C11 as L
    import check_C08 as R
    quick = ctx.tier == 'quick'
    rnd = random.Random('c05/%s' % ctx.seed)
    tasks = []
    stats = []
    def hyb_key(h):
        # the hybridisation parameters of the behaviour (geometry, partition offset/entry/type, EFI/Mac):
        # the sample keeps every one of them (an image of more than 256 cylinders or with a partition
        # offset is re-mastered differently from the default)
        specs = [a['act'].get('spec') for a in h['h'] if a['act']['a'] == 'AddIsohybrid']
        return json.dumps(specs, sort_keys=True)

    for (profile, maxlen, cfgs, cap) in (('c11q', 3 if quick else 4, ['plain', 'all', 'jolrr', 'udf'], 60 if quick else 600),
                                         ('c12h', 3 if quick else 4, ['plain', 'udf', 'all'], 60 if quick else 600),
                                         ('c12g', 1, ['plain'], 150 if quick else 600)):
        hs, st = L.behaviours(profile, maxlen, 0, 1, seed=ctx.seed)
        stats.append(st)
        if len(hs) > cap:
            groups = {}
            for h in hs:
                groups.setdefault(hyb_key(h), []).append(h)
            keys = sorted(groups)
            for k in keys:
                rnd.shuffle(groups[k])
            hs, rnd_ = [], 0
            while len(hs) < cap and any(len(groups[k]) > rnd_ for k in keys):
                for k in keys:
                    if len(groups[k]) > rnd_ and len(hs) < cap:
                        hs.append(groups[k][rnd_])
                rnd_ += 1
        for h in hs:
            for c in cfgs:
                tasks.append((len(tasks), h, c))
    cases = R.depth_cases(ctx.tier) + R.history_cases()
    if quick and len(cases) > 90:
        cases = rnd.sample(cases, 90)
    mp = multiprocessing.get_context('fork')
    with mp.Pool(16) as pool:
        out = pool.map(_boot_item, tasks, chunksize=4) + pool.map(_rr_item, cases, chunksize=2)
    out = [o for o in out if o is not None]
    fails, jst = judge.judge_sharded('Judge_Remaster', [o['item'] for o in out])
    byid = dict((o['id'], o) for o in out)
    for iid, clauses in sorted(fails.items()):
        o = byid[iid]
        for c in clauses:
            sig = dict(o['circ'], clause='R:' + c if not c.startswith('R:') else c, source=o['src'], property='C05')
            ctx.violation(sig, {'remaster': o['item']['remaster'], 'cfg': o['cfg']},
                          {'source': o['src'], 'cfg': o['cfg'], 'history': o['hist']})
    ctx.note('extra_images_remastered', len(out))
    ctx.note('extra_boot_images', sum(1 for o in out if o['src'] == 'boot'))
    ctx.note('extra_rr_images', sum(1 for o in out if o['src'] == 'rr'))
    for st in stats:
        ctx.coverage['states'] = ctx.coverage.get('states', 0) + int(st.get('distinct') or 0)
        ctx.coverage['transitions'] = ctx.coverage.get('transitions', 0) + int(st.get('generated') or 0)
    ctx.coverage['traces_validated_against_impl'] = ctx.coverage.get('traces_validated_against_impl', 0) + len(out)
    if out:
        ctx.sample({'extra_image': {'id': out[0]['id'], 'cfg': out[0]['cfg'], 'remaster': out[0]['item']['remaster']}})


def run(ctx):
    check_core.run_for('C05')(ctx)
    extra(ctx)


if __name__ == '__main__':
    sys.exit(checklib.main('C05', 'model_checking', run))
