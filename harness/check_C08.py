"""C08 - Rock Ridge fidelity.

TLC enumerates the placement case space (spec/MC_susp.tla over spec/SuspPlacement.tla) and
prints boundary witnesses; every witness becomes an entry of a micro-history run on the real
pycdlib (new + add_directory/add_fp/add_symlink [+ rm and re-add] + write_fp); the written
bytes are read by the independent reader harness/decoders/susp.py and TLC judges the report
(spec/Judge_Susp.tla: SuspFailing) including LogicalTreeMatches against what was requested
and ReopenAgrees against pycdlib's own reading of the image.
Python drives, projects and labels circumstances; TLC decides every clause.
"""
import det; det.install()    # noqa: E702  (must precede the pycdlib import)

import hashlib
import io
import json
import multiprocessing
import os
import random
import sys

import checklib
import judge
import tlc
from decoders import susp

import pycdlib
from pycdlib import pycdlibexception

VERSIONS = ('1.09', '1.10', '1.12')
RELOC_HEX = b'rr_moved'.hex()
CE_BLOCK = 2048
CE_BUDGET = 2000           # keep ordinary images inside one continuation block
MAX_ENTRIES = 14

MC_CFG = {
    'quick': ('SPECIFICATION Spec\nCHECK_DEADLOCK FALSE\nCONSTANTS\n MaxNameDense = 1260\n MaxNameOther = 260\n'
              ' FileLenFi = {6, 7, 33, 100, 180, 193}\n DirLenFi = {1, 8, 31, 100, 180, 193}\n'
              ' RelocLenFi = {1, 2, 8, 31}\n SymLenFi = {7}\n SymNames = {3, 150}\n OneMax = 520\n'),
    'thorough': ('SPECIFICATION Spec\nCHECK_DEADLOCK FALSE\nCONSTANTS\n MaxNameDense = 1260\n MaxNameOther = 1260\n'
                 ' FileLenFi = {5, 6, 7, 12, 13, 33, 100, 150, 179, 180, 192, 193}\n'
                 ' DirLenFi = {1, 2, 3, 8, 30, 31, 100, 150, 179, 180, 192, 193}\n'
                 ' RelocLenFi = {1, 2, 3, 8, 30, 31}\n SymLenFi = {6, 7, 33}\n'
                 ' SymNames = {3, 60, 120, 150, 180}\n OneMax = 600\n'),
}
# TLC evaluates the recursive clauses (symlink reassembly over hundreds of component records)
# on the Java stack
os.environ['JAVA_TOOL_OPTIONS'] = (os.environ.get('JAVA_TOOL_OPTIONS', '') + ' -Xss64m').strip()

A36 = '0123456789ABCDEFGHIJKLMNOPQRSTUVWXYZ'
A62 = 'abcdefghijklmnopqrstuvwxyzABCDEFGHIJKLMNOPQRSTUVWXYZ0123456789'


# ----------------------------------------------------------------------------------------
# realising one case on the real code
# ----------------------------------------------------------------------------------------
def exc_class(e):
    if isinstance(e, pycdlibexception.PyCdlibInvalidInput):
        return 'InvalidInput'
    if isinstance(e, pycdlibexception.PyCdlibInvalidISO):
        return 'InvalidISO'
    if isinstance(e, pycdlibexception.PyCdlibInternalError):
        return 'InternalError'
    return 'Other:' + type(e).__name__


def _hexpath(names):
    return [n.encode('utf-8').hex() for n in names]


class Expect(object):
    """Book-keeping of what the harness asked for (the logical Rock Ridge tree)."""

    def __init__(self):
        self.ent = {}     # tuple of rr names -> (kind, mode, target)
        self.iso = {}     # iso path -> tuple of rr names
        self.hist = {'rr_moved_removed': False, 'reloc_after_removed': False}

    def add(self, iso_path, rr_name, kind, mode, target=''):
        parent_iso = iso_path.rsplit('/', 1)[0]
        parent = self.iso[parent_iso] if parent_iso else ()
        p = parent + (rr_name,)
        self.ent[p] = (kind, mode, target)
        self.iso[iso_path] = p

    def rm(self, iso_path):
        p = self.iso.pop(iso_path)
        del self.ent[p]

    def listing(self):
        out = []
        for p in sorted(self.ent):
            kind, mode, target = self.ent[p]
            out.append({'path': _hexpath(p), 'kind': kind, 'mode': mode,
                        'target': target.encode('utf-8').hex()})
        return out


def run_ops(case):
    """Run the micro-history of a case on pycdlib.  Returns (data or None, expect, failure)
    where failure = None or {'op': index or 'write', 'exc': class, 'msg': text}."""
    det.reset()
    iso = pycdlib.PyCdlib()
    exp = Expect()
    level = case.get('level', 3)
    iso.new(rock_ridge=case['ver'], xa=case['xa'], interchange_level=level)
    hist = exp.hist
    reloc_live = set()
    try:
        for k, op in enumerate(case['ops']):
            try:
                what = op[0]
                if what == 'dir':
                    _, ip, rr, mode = op
                    if level < 4 and ip.count('/') % 8 == 0:
                        # this directory gets relocated
                        if hist['rr_moved_removed']:
                            hist['reloc_after_removed'] = True
                        reloc_live.add(ip)
                    iso.add_directory(ip, rr_name=rr, file_mode=mode)
                    exp.add(ip, rr, 'dir', mode)
                elif what == 'file':
                    _, ip, rr, mode, size = op
                    body = (hashlib.sha256(ip.encode()).digest() * (size // 32 + 1))[:size]
                    iso.add_fp(io.BytesIO(body), size, ip, rr_name=rr, file_mode=mode)
                    exp.add(ip, rr, 'file', mode)
                elif what == 'symlink':
                    _, ip, rr, target = op
                    iso.add_symlink(ip, rr, target)
                    exp.add(ip, rr, 'symlink', 0, target)
                elif what == 'refused_dir':
                    # a call that must be refused (duplicate name) and leave everything as it was: the
                    # link counts the independent reader finds afterwards are those of the tree without it
                    _, ip, rr, mode = op
                    try:
                        iso.add_directory(ip, rr_name=rr, file_mode=mode)
                    except pycdlib.pycdlibexception.PyCdlibInvalidInput:
                        continue
                    return None, exp, {'op': k, 'exc': 'Accepted', 'msg': 'a duplicate directory was accepted'}
                elif what == 'rm_file':
                    iso.rm_file(op[1])
                    exp.rm(op[1])
                elif what == 'reopen':
                    # master, close, parse: the rest of the history edits what open() rebuilt
                    # (relocation directory, CL/PL links, continuation areas read from the image)
                    gen = io.BytesIO()
                    iso.write_fp(gen)
                    iso.close()
                    iso = pycdlib.PyCdlib()
                    iso.open_fp(io.BytesIO(gen.getvalue()))
                elif what == 'rm_dir':
                    if op[1] in reloc_live:
                        reloc_live.discard(op[1])
                        if not reloc_live:
                            hist['rr_moved_removed'] = True   # the relocation directory goes with its last child
                    iso.rm_directory(op[1])
                    exp.rm(op[1])
                else:
                    raise ValueError('unknown op %r' % (what,))
            except Exception as e:   # pylint: disable=broad-except
                return None, exp, {'op': k, 'exc': exc_class(e), 'msg': str(e)[:120]}
        out = io.BytesIO()
        try:
            iso.write_fp(out)
        except Exception as e:   # pylint: disable=broad-except
            return None, exp, {'op': 'write', 'exc': exc_class(e), 'msg': str(e)[:120]}
        return out.getvalue(), exp, None
    finally:
        try:
            iso.close()
        except Exception:   # pylint: disable=broad-except
            pass


def reopen_view(data):
    """pycdlib's own Rock Ridge view of the written image (public API only)."""
    iso = pycdlib.PyCdlib()
    view = []
    try:
        iso.open_fp(io.BytesIO(data))
        try:
            for (d, dirs, files) in iso.walk(rr_path='/'):
                base = [x for x in d.split('/') if x]
                for n in dirs:
                    view.append({'path': _hexpath(base + [n]), 'kind': 'dir', 'target': ''})
                for n in files:
                    rec = iso.get_record(rr_path='/' + '/'.join(base + [n]))
                    if rec.is_symlink():
                        view.append({'path': _hexpath(base + [n]), 'kind': 'symlink',
                                     'target': rec.rock_ridge.symlink_path().hex()})
                    else:
                        view.append({'path': _hexpath(base + [n]), 'kind': 'file', 'target': ''})
        finally:
            iso.close()
    except Exception as e:   # pylint: disable=broad-except
        return {'done': True, 'ok': False, 'view': [], 'exc': exc_class(e), 'msg': str(e)[:120]}
    return {'done': True, 'ok': True, 'view': view, 'exc': '', 'msg': ''}


def observed_placement(rep):
    """[(record kind guess, iso identifier, [dr sigs+lens], [ce sigs+lens])] per record, to be
    compared with the placement TLC computed for the witness (coverage, not a verdict)."""
    out = {}
    for r in rep['recs']:
        dr = [[e['sig'], e['len']] for e in r['dr']['ents']]
        ce = [[e['sig'], e['len']] for a in r['ce'] for e in a['ents']]
        out.setdefault(bytes.fromhex(r['ident']), []).append((dr, ce, r['reclen'], r['rr']['re'], r['rr']['has_cl']))
    return out


def _sl_comps(r):
    out = []
    last_flags = None
    for e in list(r['dr']['ents']) + [x for a in r['ce'] for x in a['ents']]:
        if e['sig'] == 'SL' and not e.get('bad'):
            out.extend(e['comps'])
            last_flags = e['flags']
    return out, last_flags


def circumstances(rep, expect):
    """Labels (in model terms) used in violation signatures; computed from the report and from
    what was requested.  They discriminate, they do not decide."""
    px_in_ce = cl_in_ce = sl_in_ce = nm_in_ce = False
    placeholder_ce = 0
    blocks = set()
    for r in rep['recs']:
        if r['rr']['has_cl'] and any(e['sig'] == 'CE' for e in r['dr']['ents']):
            placeholder_ce += 1     # the stand-in of a relocated directory has a continuation area
        for a in r['ce']:
            blocks.add(a['block'])
            for e in a['ents']:
                if e['sig'] == 'PX':
                    px_in_ce = True
                elif e['sig'] == 'CL':
                    cl_in_ce = True
                elif e['sig'] == 'SL':
                    sl_in_ce = True
                elif e['sig'] == 'NM':
                    nm_in_ce = True
    # symlinks: an unterminated SL chain; a piece of an ordinary component recorded as "." / ".."
    want = {tuple(e['path']): e for e in expect if e['kind'] == 'symlink'}
    sl_dangling = special_piece = False
    for t in rep['tree']:
        if t['rec'] < 0 or t['rec'] >= len(rep['recs']):
            continue
        comps, last_flags = _sl_comps(rep['recs'][t['rec']])
        if last_flags is None:
            continue
        if last_flags & 1:
            sl_dangling = True
        e = want.get(tuple(t['path']))
        if e is not None:
            asked = bytes.fromhex(e['target']).split(b'/')
            n_special = sum(1 for c in asked if c in (b'.', b'..'))
            if sum(1 for c in comps if c[0] & 6) > n_special:
                special_piece = True
    return {'px_in_ce': px_in_ce, 'cl_in_ce': cl_in_ce, 'sl_in_ce': sl_in_ce, 'nm_in_ce': nm_in_ce,
            'placeholder_ce': ('none', 'one', 'many')[min(placeholder_ce, 2)], 'sl_dangling': sl_dangling, 'special_piece': special_piece,
            'relocation': any(r['rr']['has_cl'] for r in rep['recs']), 'ce_blocks': len(blocks)}


def lean(rep):
    """drop what no clause reads (the judge's JSON is the bottleneck)"""
    for r in rep['recs']:
        for k in ('pos', 'k', 'child', 'size', 'flags', 'nce_dr'):
            r.pop(k, None)
        for e in list(r['dr']['ents']) + [x for a in r['ce'] for x in a['ents']]:
            e.pop('stamps', None)
            e.pop('raw', None)
    for t in rep['tree']:
        t.pop('size', None)
        t.pop('extent', None)
    return rep


def realise(case):
    """case -> (item for the judge, info kept by Python for labelling and coverage)."""
    data, exp, failure = run_ops(case)
    item = {'id': case['id'], 'wrote': data is not None,
            'want': {'version': case['ver'], 'xa': case['xa'], 'reloc': RELOC_HEX},
            'expect': exp.listing(),
            'reopen': {'done': False, 'ok': True, 'view': [], 'exc': '', 'msg': ''}}
    info = {'id': case['id'], 'failure': failure, 'sha': None, 'size': 0, 'agree': 0, 'compared': 0,
            'circ': {}, 'hist': exp.hist}
    if data is not None:
        rep = susp.decode(data, names='hex')
        item['rep'] = rep
        info['sha'] = hashlib.sha256(data).hexdigest()
        info['size'] = len(data)
        info['circ'] = circumstances(rep, item['expect'])
        if case.get('reopen', True):
            item['reopen'] = reopen_view(data)
        info['reopen_exc'] = item['reopen']['exc']
        info['reopen_msg'] = item['reopen']['msg']
        # compare the placement observed with the one TLC computed for the witnesses
        obs = observed_placement(rep)
        for (ident, kind, dr, ce, reclen) in case.get('predict', []):
            cands = obs.get(ident.encode(), [])
            info['compared'] += 1
            for (odr, oce, orl, ore, ocl) in cands:
                if kind == 'cl' and not ocl:
                    continue
                if kind == 'moved' and not ore:
                    continue
                if odr == dr and oce == ce and orl == reclen:
                    info['agree'] += 1
                    break
            else:
                info.setdefault('disagree', []).append([ident[:20], kind, dr, ce, reclen, [c[:3] for c in cands][:2]])
        lean(rep)
    return item, info


def _realise_star(case):
    det.install()
    return realise(case)


# ----------------------------------------------------------------------------------------
# from witnesses to cases
# ----------------------------------------------------------------------------------------
def b36(k, width):
    s = ''
    for _ in range(width):
        s = A36[k % 36] + s
        k //= 36
    return s


def iso_name(kind, lenfi, serial):
    """an ISO9660 identifier of exactly lenfi bytes, unique per serial"""
    if kind in ('file', 'symlink'):
        w = lenfi - 3
        return b36(serial, w) + '.;1' if w <= 8 else 'F' * (w - 8) + b36(serial, 8) + '.;1'
    w = lenfi
    return b36(serial, w) if w <= 8 else 'D' * (w - 8) + b36(serial, 8)


def rr_name(nm, serial, variant=0):
    """a Rock Ridge name of exactly nm bytes (UTF-8), unique per serial (for nm >= 2: <3844)"""
    if nm == 1:
        return A62[serial % 62]
    if nm < 6:
        s = ''
        k = serial
        for _ in range(nm):
            s += A62[k % 62]
            k //= 62
        return s
    head = b36(serial, 4) + '_'
    if variant == 1 and nm >= 9:
        # multi-byte UTF-8: U+00E9 (2 bytes), U+20AC (3 bytes)
        body = nm - len(head)
        s = head
        while body >= 3:
            s += u'€'
            body -= 3
        while body >= 2:
            s += u'é'
            body -= 2
        return s + 'n' * body
    return head + 'n' * (nm - len(head))


def comp_text(c, variant, j):
    if c == -2:
        return '.'
    if c == -3:
        return '..'
    if c <= 0:
        return ''
    if variant == 'dots' and c >= 3:
        return '.' * c
    if variant == 'dot1' and c >= 2:
        return '.' + 'c' * (c - 1)
    if variant == 'dot2' and c >= 3:
        return '..' + 'c' * (c - 2)
    return A62[j % 26] * c


def target_text(comps, variant='plain'):
    parts = []
    for j, c in enumerate(comps):
        if c == -1:
            parts.append('')
        else:
            parts.append(comp_text(c, variant, j))
    return '/'.join(parts)


class Pack(object):
    """one image under construction"""

    def __init__(self, ver, xa):
        self.ver = ver
        self.xa = xa
        self.level = 3
        self.ops = []
        self.predict = []
        self.ce = 0
        self.n = 0
        self.serial = 0
        self.chain = False
        self.wits = []
        self.ce_one = 0

    def room(self, celen, count=1):
        return self.n + count <= MAX_ENTRIES and self.ce + celen <= CE_BUDGET

    def ensure_chain(self):
        if not self.chain:
            p = ''
            for k in range(1, 8):
                p += '/Z%d' % k
                self.ops.append(['dir', p, 'z%d' % k, 0o040755])
            self.chain = True
        return '/Z1/Z2/Z3/Z4/Z5/Z6/Z7'

    def add(self, w, variant='plain'):
        kind = w['kind']
        lenfi = w['lenfi']
        self.serial += 1
        s = self.serial
        if kind in ('file', 'symlink'):
            if lenfi - 3 > 30:
                self.level = 4
        elif lenfi > 31:
            self.level = 4
        name = iso_name(kind, lenfi, s)
        rr = rr_name(w['nm'], s, 1 if (variant == 'utf8') else 0)
        dr = [list(x) for x in w['dr']]
        ce = [list(x) for x in w['ce']]
        if kind == 'file':
            self.ops.append(['file', '/' + name, rr, 0o100644 if s % 2 else 0o100444, 1 + s % 5])
            self.predict.append((name, kind, dr, ce, w['reclen']))
            self.ce += w['celen']
        elif kind == 'dir':
            self.ops.append(['dir', '/' + name, rr, 0o040755 if s % 2 else 0o040555])
            self.predict.append((name, kind, dr, ce, w['reclen']))
            self.ce += w['celen']
        elif kind == 'symlink':
            self.ops.append(['symlink', '/' + name, rr, target_text(w['comps'], variant)])
            if variant == 'plain':
                self.predict.append((name, kind, dr, ce, w['reclen']))
            self.ce += w['celen']
        elif kind in ('cl', 'moved'):
            base = self.ensure_chain()
            self.ops.append(['dir', base + '/' + name, rr, 0o040755 if s % 2 else 0o040555])
            self.predict.append((name, kind, dr, ce, w['reclen']))
            self.ce += 2 * (w['celen'] + 16)
        self.n += 1
        self.wits.append(wit_key(w) + (variant,))

    def case(self, cid):
        return {'id': cid, 'ver': self.ver, 'xa': self.xa, 'level': self.level, 'ops': self.ops,
                'predict': self.predict, 'family': 'witness', 'wits': self.wits,
                'ce_need': self.ce, 'ce_one': self.ce_one}


def wit_key(w):
    return (w['ver'], w['xa'], w['kind'], w['lenfi'], w['nm'], w['fam'], w['n'])


def pack_witnesses(wits, prefix, huge_per_combo=2):
    """Group witnesses into images per (version, xa), within the CE budget of one block.
    Returns (cases, skipped) - witnesses whose single record needs more than one block of
    continuation area are realised only huge_per_combo times per (version, xa)."""
    cases = []
    skipped = 0
    groups = {}
    for w in wits:
        groups.setdefault((w['ver'], w['xa']), []).append(w)

    def flush(cur):
        if cur.n:
            cases.append(cur.case('%s%04d' % (prefix, len(cases))))

    for (ver, xa) in sorted(groups):
        ws = groups[(ver, xa)]
        huge = sorted([w for w in ws if w['celen'] > CE_BLOCK], key=lambda w: (w['celen'], w['fam'], w['n'], w['nm']))
        skipped += max(0, len(huge) - huge_per_combo)
        for w in huge[:1] + huge[-(huge_per_combo - 1):] if huge else []:
            cur = Pack(ver, xa)
            cur.add(w, 'plain')
            cur.ce_one = w['celen']
            flush(cur)
        # relocated directories whose records need a continuation area: one per image
        reloc = [w for w in ws if w['kind'] in ('cl', 'moved') and w['celen'] <= CE_BLOCK]
        for w in sorted([w for w in reloc if w['needce']], key=wit_key):
            cur = Pack(ver, xa)
            cur.add(w, 'plain')
            flush(cur)
        cur = Pack(ver, xa)
        for w in sorted([w for w in reloc if not w['needce']], key=wit_key):
            if cur.n >= 6:
                flush(cur)
                cur = Pack(ver, xa)
            cur.add(w, 'plain')
        flush(cur)
        # everything else: order by CE need and take alternately from both ends, so that images
        # mix in-record and continued entries
        rest = sorted([w for w in ws if w['kind'] not in ('cl', 'moved') and w['celen'] <= CE_BLOCK],
                      key=lambda w: (w['celen'],) + wit_key(w))
        order = []
        i, j = 0, len(rest) - 1
        while i <= j:
            order.append(rest[j])
            j -= 1
            for _ in range(3):
                if i <= j:
                    order.append(rest[i])
                    i += 1
        cur = Pack(ver, xa)
        for w in order:
            variants = ['plain']
            if w['kind'] == 'symlink' and (1 in w['heads'] or 2 in w['heads']):
                # a component is split and the piece in front of the split has 1 or 2 bytes
                variants += ['dots', 'dot1', 'dot2']
            elif w['kind'] == 'symlink' and w['heads'] and w['why'] in ('first', 'last'):
                variants += ['dots']
            if w['kind'] in ('file', 'dir') and w['nm'] >= 9 and w['why'] in ('below', 'above') and w['lenfi'] in (7, 8):
                variants.append('utf8')
            for v in variants:
                if cur.n and not cur.room(w['celen']):
                    flush(cur)
                    cur = Pack(ver, xa)
                cur.add(w, v)
        flush(cur)
    return cases, skipped


def depth_cases(tier):
    """directory chains of every depth (relocation at depth 8 and 16), with a file and a symlink
    at the bottom, siblings at the relocated level, and long names on relocated directories"""
    cases = []
    depths = list(range(1, 11)) + ([15, 16, 17] if tier == 'thorough' else [])
    combos = [(v, x) for v in VERSIONS for x in (False, True)]
    for (ver, xa) in combos:
        for d in depths:
            ops = []
            p = ''
            for k in range(1, d + 1):
                p += '/D%d' % k
                ops.append(['dir', p, 'depth%d' % k, 0o040755 if k % 2 else 0o040555])
            ops.append(['file', p + '/BOTTOM.;1', 'bottom-file', 0o100644, 7])
            ops.append(['symlink', p + '/LINK.;1', 'bottom-link', '../' * min(d, 12) + 'depth1'])
            if d >= 8:
                # a sibling relocated directory with a name that needs a continuation area
                sib = '/D1/D2/D3/D4/D5/D6/D7/SIB'
                ops.append(['dir', sib, 's' * 180, 0o040755])
                ops.append(['file', sib + '/INSIB.;1', 'in-sibling', 0o100444, 3])
            cases.append({'id': 'depth-%s-%s-%02d' % (ver, 'xa' if xa else 'no', d), 'ver': ver, 'xa': xa,
                          'level': 3, 'ops': ops, 'family': 'depth'})
    # second relocation level (depth 16) once in the quick tier
    if tier != 'thorough':
        ops = []
        p = ''
        for k in range(1, 18):
            p += '/E%d' % k
            ops.append(['dir', p, 'e%d' % k, 0o040755])
        ops.append(['file', p + '/DEEP.;1', 'deepest', 0o100444, 2])
        cases.append({'id': 'depth-1.09-no-17', 'ver': '1.09', 'xa': False, 'level': 3, 'ops': ops,
                      'family': 'depth'})
    return cases


def history_cases():
    """add / remove / re-add micro-histories"""
    cases = []
    long_a, long_b, long_c, long_d = 'a' * 200, 'b' * 230, 'c' * 150, 'd' * 240
    for ver in VERSIONS:
        for xa in (False, True):
            tag = '%s-%s' % (ver, 'xa' if xa else 'no')
            # a removed continued entry leaves a gap in the continuation block; a new one reuses it
            cases.append({'id': 'hist-gap-' + tag, 'ver': ver, 'xa': xa, 'level': 3, 'family': 'history', 'ops': [
                ['file', '/A.;1', long_a, 0o100644, 4], ['file', '/B.;1', long_b, 0o100644, 4],
                ['file', '/C.;1', long_c, 0o100644, 4], ['rm_file', '/B.;1'],
                ['file', '/D.;1', long_d, 0o100444, 4], ['symlink', '/S.;1', 'sym-' + 'x' * 100, 'x' * 300],
                ['rm_file', '/A.;1'], ['file', '/E.;1', 'e' * 160, 0o100444, 4]]})
            # remove and re-add under the same ISO name with another Rock Ridge name
            cases.append({'id': 'hist-readd-' + tag, 'ver': ver, 'xa': xa, 'level': 3, 'family': 'history', 'ops': [
                ['dir', '/DIR', 'first-name', 0o040755], ['file', '/DIR/F.;1', 'inner', 0o100644, 4],
                ['rm_file', '/DIR/F.;1'], ['rm_dir', '/DIR'], ['dir', '/DIR', 'second-name', 0o040555],
                ['file', '/DIR/F.;1', 'inner-again', 0o100444, 4], ['symlink', '/L.;1', 'lnk', 'second-name/inner-again'],
                ['rm_file', '/L.;1'], ['symlink', '/L.;1', 'lnk2', '/']]})
            # relocation: remove the relocated directory, add it again, remove one of two
            base = '/R1/R2/R3/R4/R5/R6/R7'
            chain = []
            p = ''
            for k in range(1, 8):
                p += '/R%d' % k
                chain.append(['dir', p, 'r%d' % k, 0o040755])
            cases.append({'id': 'hist-reloc-' + tag, 'ver': ver, 'xa': xa, 'level': 3, 'family': 'history', 'ops': chain + [
                ['dir', base + '/M1', 'moved-one', 0o040755], ['file', base + '/M1/X.;1', 'x-file', 0o100644, 4],
                ['dir', base + '/M2', 'moved-two', 0o040555], ['rm_file', base + '/M1/X.;1'],
                ['rm_dir', base + '/M1'], ['dir', base + '/M3', 'm' * 190, 0o040755],
                ['dir', base + '/M3/SUB', 'below-moved', 0o040755]]})
            cases.append({'id': 'hist-relocagain-' + tag, 'ver': ver, 'xa': xa, 'level': 3, 'family': 'history', 'ops': chain + [
                ['dir', base + '/M1', 'moved-one', 0o040755], ['rm_dir', base + '/M1'],
                ['dir', base + '/M2', 'moved-two', 0o040755], ['file', base + '/M2/F.;1', 'in-moved-two', 0o100644, 3]]})
            # a duplicate of a relocated directory is refused and changes nothing (link counts!)
            cases.append({'id': 'hist-relocdup-' + tag, 'ver': ver, 'xa': xa, 'level': 3, 'family': 'history', 'ops': chain + [
                ['dir', base + '/M1', 'moved-one', 0o040755], ['refused_dir', base + '/M1', 'moved-again', 0o040755],
                ['dir', base + '/M2', 'moved-two', 0o040755], ['refused_dir', base + '/M2', 'moved-two', 0o040555],
                ['file', base + '/M2/F.;1', 'in-moved-two', 0o100644, 3]]})
            if ver != '1.10':
                # (a 1.10 image without sparse files reads back as 1.09 - the two differ only in the RR
                # entry, which 1.09 may omit - so the requested version is not demanded across a reopen)
                # edits on what open() rebuilt: a second relocation after a reopen joins the first one
                # in the relocation directory; relocated directories removed after a reopen
                cases.append({'id': 'hist-reopenreloc-' + tag, 'ver': ver, 'xa': xa, 'level': 3, 'family': 'history', 'ops': chain + [
                    ['dir', base + '/M1', 'moved-one', 0o040755], ['file', base + '/M1/X.;1', 'x-file', 0o100644, 4],
                    ['reopen'], ['dir', base + '/M2', 'moved-two', 0o040555], ['file', base + '/M2/F.;1', 'in-moved-two', 0o100644, 3],
                    ['dir', base + '/M3', 'm' * 190, 0o040755], ['reopen'], ['dir', base + '/M3/SUB', 'below-moved', 0o040755],
                    ['symlink', base + '/M2/L.;1', 'link-in-two', '../moved-one/x-file']]})
                cases.append({'id': 'hist-reopenrmreloc-' + tag, 'ver': ver, 'xa': xa, 'level': 3, 'family': 'history', 'ops': chain + [
                    ['dir', base + '/M1', 'moved-one', 0o040755], ['dir', base + '/M2', 'moved-two', 0o040755],
                    ['file', base + '/M2/F.;1', 'in-moved-two', 0o100644, 3], ['reopen'], ['rm_dir', base + '/M1'],
                    ['dir', base + '/M4', 'moved-four', 0o040755], ['rm_file', base + '/M2/F.;1'], ['rm_dir', base + '/M2'],
                    ['file', '/PLAIN.;1', 'plain', 0o100644, 4]]})
                # continuation areas read from the image: a gap made after the reopen is re-used
                cases.append({'id': 'hist-reopengap-' + tag, 'ver': ver, 'xa': xa, 'level': 3, 'family': 'history', 'ops': [
                    ['file', '/A.;1', long_a, 0o100644, 4], ['file', '/B.;1', long_b, 0o100644, 4],
                    ['file', '/C.;1', long_c, 0o100644, 4], ['reopen'], ['rm_file', '/B.;1'],
                    ['file', '/D.;1', long_d, 0o100444, 4], ['symlink', '/S.;1', 'sym-' + 'x' * 100, 'x' * 300],
                    ['reopen'], ['rm_file', '/A.;1'], ['file', '/E.;1', 'e' * 160, 0o100444, 4]]})
            cases.append({'id': 'hist-relocempty-' + tag, 'ver': ver, 'xa': xa, 'level': 3, 'family': 'history', 'ops': chain + [
                ['dir', base + '/M1', 'moved-one', 0o040755], ['rm_dir', base + '/M1'],
                ['file', '/PLAIN.;1', 'plain', 0o100644, 4]]})
    return cases


def overflow_cases(dense):
    """continuation areas that need more than one block (what 15+ long names ask for), and the
    exact fill of one block"""
    cases = []
    for (ver, xa) in [(v, x) for v in VERSIONS for x in (False, True)]:
        w = dense.get((ver, xa, 250))
        if w is None or w['celen'] <= 0:
            continue
        per = w['celen']
        fit = CE_BLOCK // per
        for count, tag in ((fit, 'fits'), (fit + 1, 'over'), (2 * fit + 3, 'over2')):
            ops = []
            for k in range(count):
                ops.append(['file', '/' + iso_name('file', 7, k), rr_name(250, k), 0o100644, 1])
            cases.append({'id': 'ceblock-%s-%s-%s' % (tag, ver, 'xa' if xa else 'no'), 'ver': ver, 'xa': xa,
                          'level': 3, 'ops': ops, 'family': 'ceblock', 'ce_need': count * per, 'ce_one': per})
        # the continuation areas of removed files: fill the block, remove everything, fill it again
        ops = []
        for k in range(fit):
            ops.append(['file', '/' + iso_name('file', 7, k), rr_name(250, k), 0o100644, 1])
        for k in range(fit):
            ops.append(['rm_file', '/' + iso_name('file', 7, k)])
        for k in range(fit):
            ops.append(['file', '/' + iso_name('file', 7, 100 + k), rr_name(250, 100 + k), 0o100444, 1])
        cases.append({'id': 'ceblock-refill-%s-%s' % (ver, 'xa' if xa else 'no'), 'ver': ver, 'xa': xa,
                      'level': 3, 'ops': ops, 'family': 'ceblock', 'ce_need': fit * per, 'ce_ever': 2 * fit * per,
                      'ce_one': per})
    return cases


def random_cases(seed, count, wits):
    """Seeded random add / remove / re-add histories.  Entries are drawn from the witnesses TLC
    printed, so the continuation bytes every entry needs are known exactly (celen): the harness
    keeps the need of the live entries within one block (more is a listed defect) and records
    the need of everything ever added (continuation areas of removed files are a circumstance).
    The harness keeps its own tree so that every operation is one pycdlib must accept."""
    rnd = random.Random(seed)
    pool = {}
    pairs = {}
    for w in wits:
        if not w['ok'] or w['celen'] > 1500 or (not w['needce'] and w['celen'] > 0):
            continue
        if w['kind'] in ('file', 'symlink') and w['lenfi'] - 3 > 30:
            continue
        if w['kind'] in ('dir', 'cl', 'moved') and w['lenfi'] > 8:
            continue
        key = (w['ver'], w['xa'])
        if w['kind'] in ('cl', 'moved'):
            pairs.setdefault(key + (w['lenfi'], w['nm']), {})[w['kind']] = w
        elif w['kind'] in ('file', 'dir', 'symlink'):
            pool.setdefault(key + (w['kind'],), []).append(w)
    for k in pool:
        pool[k].sort(key=wit_key)
    reloc = {}
    for k in sorted(pairs):
        if len(pairs[k]) == 2:
            reloc.setdefault(k[:2], []).append(pairs[k])
    modes_d = [0o040755, 0o040555, 0o040700]
    modes_f = [0o100644, 0o100444, 0o100755]
    cases = []
    for c in range(count):
        ver = rnd.choice(VERSIONS)
        xa = rnd.random() < 0.5
        key = (ver, xa)
        ops = []
        dirs = {'': set()}        # iso path -> names of children
        order = ['']              # directories in creation order
        files = []                # live files and symlinks (iso paths)
        removed = []              # (parent, name, kind, lenfi) removed earlier
        cost = {}                 # iso path -> continuation bytes (exact, from TLC)
        ever = 0
        one = 0
        serial = 0
        deep = rnd.random() < 0.35
        leaky = rnd.random() < 0.1     # let the bytes of removed entries count beyond one block
        steps = rnd.randint(5, 26 if deep else 16)
        for _ in range(steps):
            serial += 1
            r = rnd.random()
            if r < 0.12 and files:
                f = files.pop(rnd.randrange(len(files)))
                par, name = f.rsplit('/', 1)
                dirs[par].discard(name)
                cost.pop(f, None)
                removed.append((par, name, 'file', len(name)))
                ops.append(['rm_file', f])
                continue
            if r < 0.20:
                empties = [d for d in order if d and not dirs[d]]
                if empties:
                    d = rnd.choice(empties)
                    par, name = d.rsplit('/', 1)
                    dirs[par].discard(name)
                    del dirs[d]
                    order.remove(d)
                    cost.pop(d, None)
                    removed.append((par, name, 'dir', len(name)))
                    ops.append(['rm_dir', d])
                    continue
            if deep and rnd.random() < 0.7:
                parent = order[-1]
            elif rnd.random() < 0.5:
                parent = rnd.choice(order[-3:])
            else:
                parent = rnd.choice(order)
            depth = parent.count('/') + 1
            kind = 'dir' if r < 0.50 else ('file' if r < 0.75 else 'symlink')
            if kind == 'dir' and depth % 8 == 0:
                cands = reloc.get(key, [])
                if not cands or depth > 16:
                    continue
                pr = rnd.choice(cands)
                w = pr['cl']
                need = pr['cl']['celen'] + pr['moved']['celen']
                biggest = max(pr['cl']['celen'], pr['moved']['celen'])
            else:
                cands = pool.get(key + (kind,), [])
                if not cands:
                    continue
                w = rnd.choice(cands)
                if deep and kind == 'dir' and rnd.random() < 0.7:
                    small = [x for x in cands if x['celen'] == 0]
                    w = rnd.choice(small) if small else w
                need = w['celen']
                biggest = need
            if sum(cost.values()) + need > CE_BUDGET:
                continue
            if ever + need > CE_BUDGET and not leaky:
                continue
            again = [x for x in removed if x[0] == parent and x[0] in dirs and x[1] not in dirs[x[0]]
                     and (x[2] == 'dir') == (kind == 'dir') and x[3] == w['lenfi']]
            if again and rnd.random() < 0.6:
                name = rnd.choice(again)[1]       # the same ISO9660 identifier again
            else:
                name = iso_name(kind, w['lenfi'], serial)
            if name in dirs[parent]:
                continue
            path = parent + '/' + name
            rr = rr_name(w['nm'], serial, 1 if (rnd.random() < 0.1 and w['nm'] >= 9) else 0)
            if any(o[0] in ('dir', 'file', 'symlink') and o[1].rsplit('/', 1)[0] == parent and o[2] == rr
                   and o[1].rsplit('/', 1)[1] in dirs[parent] for o in ops):
                continue
            if kind == 'dir':
                ops.append(['dir', path, rr, rnd.choice(modes_d)])
                dirs[path] = set()
                order.append(path)
            elif kind == 'file':
                ops.append(['file', path, rr, rnd.choice(modes_f), rnd.randint(0, 40)])
                files.append(path)
            else:
                variant = rnd.choice(['plain', 'plain', 'dots', 'dot1', 'dot2'])
                target = target_text(w['comps'], variant)
                if not target:
                    continue
                ops.append(['symlink', path, rr, target])
                files.append(path)
            dirs[parent].add(name)
            cost[path] = need
            ever += need
            one = max(one, biggest)
        cases.append({'id': 'rand-%d-%04d' % (seed, c), 'ver': ver, 'xa': xa, 'level': 3, 'ops': ops,
                      'family': 'random', 'ce_need': sum(cost.values()), 'ce_ever': ever, 'ce_one': one})
    return cases


# ----------------------------------------------------------------------------------------
# the check
# ----------------------------------------------------------------------------------------
def mc_witnesses(tier):
    out, stats = tlc.run_tlc('MC_susp', MC_CFG[tier], workers=16, timeout=1500, heap='6g')
    tlc.need_ok(out, stats, 'MC_susp')
    seen = {}
    n_lines = 0
    for tag, w in tlc.tagged_lines(out):
        if tag != 'WIT':
            continue
        n_lines += 1
        k = wit_key(w)
        if k not in seen or (seen[k]['why'] in ('dense', 'named') and w['why'] not in ('dense', 'named')):
            seen[k] = w
    return list(seen.values()), stats, n_lines


def run(ctx):
    t0 = det.real_time()
    wits, mc_stats, n_lines = mc_witnesses(ctx.tier)
    print('MC_susp: %d distinct states, %d transitions, %d witness lines, %d distinct witnesses (%.1fs)' % (
        mc_stats['distinct'], mc_stats['generated'], n_lines, len(wits), det.real_time() - t0))
    sys.stdout.flush()
    placeable = [w for w in wits if w['ok'] and w['kind'] in ('file', 'dir', 'symlink', 'cl', 'moved')]
    dense = {(w['ver'], w['xa'], w['nm']): w for w in wits
             if w['kind'] == 'file' and w['lenfi'] == 7 and w['ok']}
    cases, skipped_huge = pack_witnesses(placeable, 'w')
    cases += depth_cases(ctx.tier)
    cases += history_cases()
    cases += overflow_cases(dense)
    cases += random_cases(ctx.seed, 600 if ctx.tier == 'thorough' else 40, wits)
    if getattr(ctx, 'replay', None):
        # re-run one saved case (the model is still enumerated so that the evidence stays whole)
        with open(ctx.replay) as f:
            doc = json.load(f)
        cases = [doc['replay']]
    print('%d cases to realise' % len(cases))
    sys.stdout.flush()

    mp = multiprocessing.get_context('fork')
    with mp.Pool(16) as pool:
        results = pool.map(_realise_star, cases, chunksize=4)
    t1 = det.real_time()
    print('realised %d cases on pycdlib and decoded them (%.1fs)' % (len(results), t1 - t0))
    sys.stdout.flush()

    by_id = {c['id']: c for c in cases}
    infos = {}
    items = []
    seen_sha = set()
    for (item, info) in results:
        infos[item['id']] = info
        if info['sha'] is not None:
            seen_sha.add(info['sha'])
        items.append(item)
    fails, jstats = judge.judge_sharded('Judge_Susp', items, shards=8)
    t2 = det.real_time()
    print('TLC judged %d observations (%.1fs)' % (len(items), t2 - t1))
    sys.stdout.flush()

    n_written = sum(1 for it in items if it['wrote'])
    distinct_images = len(seen_sha)
    agree = sum(i['agree'] for i in infos.values())
    compared = sum(i['compared'] for i in infos.values())
    for it in items:
        cid = it['id']
        case = by_id[cid]
        info = infos[cid]
        ctx.note('cases_' + case.get('family', 'replay'))
        for cl in fails.get(cid, []):
            circ = info.get('circ') or {}
            sig = {'clause': cl, 'ver': case['ver'], 'xa': case['xa']}
            if cl == 'ImageProduced':
                f = info['failure'] or {}
                sig['exc'] = f.get('exc', '')
                sig['at'] = 'write' if f.get('op') == 'write' else 'edit'
                sig['ce_need_gt_block'] = case.get('ce_need', 0) > CE_BLOCK
                sig['ce_one_gt_block'] = case.get('ce_one', 0) > CE_BLOCK
                sig['ce_ever_gt_block'] = case.get('ce_ever', case.get('ce_need', 0)) > CE_BLOCK
                sig['reloc_after_removed'] = bool((info.get('hist') or {}).get('reloc_after_removed'))
                detail = 'no image: %s' % (f,)
            else:
                for k in ('px_in_ce', 'sl_dangling', 'special_piece'):
                    sig[k] = bool(circ.get(k))
                sig['placeholder_ce'] = circ.get('placeholder_ce', 'none')
                if cl == 'ReopenAgrees':
                    sig['exc'] = info.get('reopen_exc', '')
                    detail = 'pycdlib reading its own image: %s %s' % (info.get('reopen_exc'), info.get('reopen_msg'))
                else:
                    detail = 'clause %s false on the report of the independent reader' % cl
            replay = {k: v for k, v in case.items() if k not in ('predict', 'wits')}
            ctx.violation(sig, detail, replay)

    dump = os.environ.get('VERIF_C08_DUMP')
    if dump:
        with open(dump, 'w') as f:
            json.dump({'fails': fails, 'infos': infos,
                       'cases': {c['id']: {k: v for k, v in c.items() if k != 'predict'} for c in cases}}, f)

    # evidence
    fam = {}
    for c in cases:
        fam[c.get('family', 'replay')] = fam.get(c.get('family', 'replay'), 0) + 1
    classes = set()
    for w in wits:
        classes.add((w['ok'], w['needce'], tuple(x[0] for x in w['dr']), tuple(x[0] for x in w['ce']), tuple(w['heads'])))
    ctx.coverage.update({
        'states': mc_stats.get('distinct', 0),
        'transitions': mc_stats.get('generated', 0),
        'traces_validated_against_impl': n_written,
        'exhaustive': False,
        'witness_lines': n_lines,
        'witnesses_distinct': len(wits),
        'witnesses_realised': len(placeable),
        'witnesses_unplaceable': len([w for w in wits if not w['ok']]),
        'witnesses_over_one_block_not_realised': skipped_huge,
        'placement_classes': len(classes),
        'placement_compared': compared,
        'placement_agrees_with_model': agree,
        'cases': len(cases),
        'cases_by_family': fam,
        'images_written': n_written,
        'images_distinct': distinct_images,
        'observations_judged': len(items),
        'observations_failing_some_clause': len(fails),
        'judge_states': sum(s.get('distinct', 0) for s in jstats),
        'clauses': ['ImageProduced', 'DecoderClean', 'SuspLengthsAddUp', 'EntryLengthsCanonical',
                    'CEInsideSector', 'CENoOverlap', 'CELandsOnArea', 'CEChainWellFormed',
                    'CEBothEndianAgree', 'RRBothEndianAgree', 'CLLandsOnDir', 'PLLandsOnParent',
                    'RELabelsMoved', 'ERPresentOnce', 'SPPresentInRootDot', 'SPSkipMatchesXA',
                    'PXPresent', 'PXLengthMatchesVersion', 'RRFlagsMatchEntries', 'NMWellFormed',
                    'SLWellFormed', 'NlinkOfDirs', 'DirAttrsConsistent', 'LogicalTreeMatches',
                    'VersionAsRequested', 'ReopenAgrees'],
        'rule': 'TLC enumerates MC_susp (placement case space); one witness per side of every change of '
                'placement class, every name length 1..255 of a plain file, named lengths; each witness is '
                'an entry of an image built by pycdlib, read by decoders/susp.py and judged by Judge_Susp',
        'timing_s': {'mc': round(mc_stats.get('wall_s', 0), 1), 'realise': round(t1 - t0 - mc_stats.get('wall_s', 0), 1),
                     'judge': round(t2 - t1, 1)},
    })
    ctx.assumptions += [
        'the relocation directory rr_moved itself is tolerated in the reader\'s view when it is logically empty',
        'SuspPlacement.tla is used to choose witnesses only; bytes are judged on the independent reader\'s report',
        'decoders/susp.py, TLC/SANY, Susp.tla clauses, CPython struct/hashlib',
    ]
    shown = 0
    for c in cases:
        if c.get('family') in ('witness', 'history', 'depth', 'ceblock', 'random') and shown < 5:
            fams = [s.get('family') for s in ctx.samples]
            if c.get('family') in fams:
                continue
            ops = [[str(x)[:40] for x in op] for op in c['ops'][:6]]
            ctx.sample({'id': c['id'], 'family': c.get('family'), 'ver': c['ver'], 'xa': c['xa'],
                        'ops_head': ops, 'n_ops': len(c['ops']),
                        'failing_clauses': fails.get(c['id'], [])})
            shown += 1
    dis = [d for i in infos.values() for d in i.get('disagree', [])]
    if dis:
        ctx.coverage['placement_disagreements_sample'] = dis[:3]


if __name__ == '__main__':
    sys.exit(checklib.main('C08', 'model_checking', run))
