"""C08 - Rock Ridge fidelity.

TLC enumerates the placement case space (spec/MC_susp.tla over spec/SuspPlacement.tla) and
prints boundary witnesses; every witness becomes an entry of a micro-history run on the real
pycdlib (new + add_directory/add_fp/add_symlink [+ rm and re-add] + write_fp); the written
bytes are read by the independent reader harness/decoders/susp.py and TLC judges the report
(spec/Judge_Susp.tla: SuspFailing) including LogicalTreeMatches against what was requested
and ReopenAgrees against pycdlib's own reading of the image.
Python drives, projects and labels circumstances; TLC decides every clause.
"""
import det; det.install()    # noqa: E702  (must precede the pycdlib import)

import hashlib
import io
import json
import multiprocessing
import os
import random
import sys

import checklib
import judge
import tlc
from decoders import susp

import pycdlib
from pycdlib import pycdlibexception

VERSIONS = ('1.09', '1.10', '1.12')
RELOC_HEX = b'rr_moved'.hex()
CE_BLOCK = 2048
CE_BUDGET = 2000           # keep ordinary images inside one continuation block
MAX_ENTRIES = 14

MC_CFG = ('SPECIFICATION Spec\nCHECK_DEADLOCK FALSE\n'
          'CONSTANTS\n MaxNameDense = %d\n MaxNameOther = %d\n')

A36 = '0123456789ABCDEFGHIJKLMNOPQRSTUVWXYZ'
A62 = 'abcdefghijklmnopqrstuvwxyzABCDEFGHIJKLMNOPQRSTUVWXYZ0123456789'


# ----------------------------------------------------------------------------------------
# realising one case on the real code
# ----------------------------------------------------------------------------------------
def exc_class(e):
    if isinstance(e, pycdlibexception.PyCdlibInvalidInput):
        return 'InvalidInput'
    if isinstance(e, pycdlibexception.PyCdlibInvalidISO):
        return 'InvalidISO'
    if isinstance(e, pycdlibexception.PyCdlibInternalError):
        return 'InternalError'
    return 'Other:' + type(e).__name__


def _hexpath(names):
    return [n.encode('utf-8').hex() for n in names]


class Expect(object):
    """Book-keeping of what the harness asked for (the logical Rock Ridge tree)."""

    def __init__(self):
        self.ent = {}     # tuple of rr names -> (kind, mode, target)
        self.iso = {}     # iso path -> tuple of rr names

    def add(self, iso_path, rr_name, kind, mode, target=''):
        parent_iso = iso_path.rsplit('/', 1)[0]
        parent = self.iso[parent_iso] if parent_iso else ()
        p = parent + (rr_name,)
        self.ent[p] = (kind, mode, target)
        self.iso[iso_path] = p

    def rm(self, iso_path):
        p = self.iso.pop(iso_path)
        del self.ent[p]

    def listing(self):
        out = []
        for p in sorted(self.ent):
            kind, mode, target = self.ent[p]
            out.append({'path': _hexpath(p), 'kind': kind, 'mode': mode,
                        'target': target.encode('utf-8').hex()})
        return out


def run_ops(case):
    """Run the micro-history of a case on pycdlib.  Returns (data or None, expect, failure)
    where failure = None or {'op': index or 'write', 'exc': class, 'msg': text}."""
    det.reset()
    iso = pycdlib.PyCdlib()
    exp = Expect()
    iso.new(rock_ridge=case['ver'], xa=case['xa'], interchange_level=case.get('level', 3))
    try:
        for k, op in enumerate(case['ops']):
            try:
                what = op[0]
                if what == 'dir':
                    _, ip, rr, mode = op
                    iso.add_directory(ip, rr_name=rr, file_mode=mode)
                    exp.add(ip, rr, 'dir', mode)
                elif what == 'file':
                    _, ip, rr, mode, size = op
                    body = (hashlib.sha256(ip.encode()).digest() * (size // 32 + 1))[:size]
                    iso.add_fp(io.BytesIO(body), size, ip, rr_name=rr, file_mode=mode)
                    exp.add(ip, rr, 'file', mode)
                elif what == 'symlink':
                    _, ip, rr, target = op
                    iso.add_symlink(ip, rr, target)
                    exp.add(ip, rr, 'symlink', 0, target)
                elif what == 'rm_file':
                    iso.rm_file(op[1])
                    exp.rm(op[1])
                elif what == 'rm_dir':
                    iso.rm_directory(op[1])
                    exp.rm(op[1])
                else:
                    raise ValueError('unknown op %r' % (what,))
            except Exception as e:   # pylint: disable=broad-except
                return None, exp, {'op': k, 'exc': exc_class(e), 'msg': str(e)[:120]}
        out = io.BytesIO()
        try:
            iso.write_fp(out)
        except Exception as e:   # pylint: disable=broad-except
            return None, exp, {'op': 'write', 'exc': exc_class(e), 'msg': str(e)[:120]}
        return out.getvalue(), exp, None
    finally:
        try:
            iso.close()
        except Exception:   # pylint: disable=broad-except
            pass


def reopen_view(data):
    """pycdlib's own Rock Ridge view of the written image (public API only)."""
    iso = pycdlib.PyCdlib()
    view = []
    try:
        iso.open_fp(io.BytesIO(data))
        try:
            for (d, dirs, files) in iso.walk(rr_path='/'):
                base = [x for x in d.split('/') if x]
                for n in dirs:
                    view.append({'path': _hexpath(base + [n]), 'kind': 'dir', 'target': ''})
                for n in files:
                    rec = iso.get_record(rr_path='/' + '/'.join(base + [n]))
                    if rec.is_symlink():
                        view.append({'path': _hexpath(base + [n]), 'kind': 'symlink',
                                     'target': rec.rock_ridge.symlink_path().hex()})
                    else:
                        view.append({'path': _hexpath(base + [n]), 'kind': 'file', 'target': ''})
        finally:
            iso.close()
    except Exception as e:   # pylint: disable=broad-except
        return {'done': True, 'ok': False, 'view': [], 'exc': exc_class(e), 'msg': str(e)[:120]}
    return {'done': True, 'ok': True, 'view': view, 'exc': '', 'msg': ''}


def observed_placement(rep):
    """[(record kind guess, iso identifier, [dr sigs+lens], [ce sigs+lens])] per record, to be
    compared with the placement TLC computed for the witness (coverage, not a verdict)."""
    out = {}
    for r in rep['recs']:
        dr = [[e['sig'], e['len']] for e in r['dr']['ents']]
        ce = [[e['sig'], e['len']] for a in r['ce'] for e in a['ents']]
        out.setdefault(bytes.fromhex(r['ident']), []).append((dr, ce, r['reclen'], r['rr']['re'], r['rr']['has_cl']))
    return out


def circumstances(rep):
    """Labels (model terms) used in violation signatures; computed from the report."""
    px_in_ce = cl_in_ce = sl_in_ce = nm_in_ce = False
    blocks = set()
    for r in rep['recs']:
        for a in r['ce']:
            blocks.add(a['block'])
            for e in a['ents']:
                if e['sig'] == 'PX':
                    px_in_ce = True
                elif e['sig'] == 'CL':
                    cl_in_ce = True
                elif e['sig'] == 'SL':
                    sl_in_ce = True
                elif e['sig'] == 'NM':
                    nm_in_ce = True
    reloc = any(r['rr']['has_cl'] for r in rep['recs'])
    sl_small_head = False
    for r in rep['recs']:
        for e in list(r['dr']['ents']) + [x for a in r['ce'] for x in a['ents']]:
            if e['sig'] == 'SL' and not e.get('bad'):
                for (cf, cl, cb) in e['comps']:
                    if cf in (2, 4) and False:
                        sl_small_head = True
    return {'px_in_ce': px_in_ce, 'cl_in_ce': cl_in_ce, 'sl_in_ce': sl_in_ce, 'nm_in_ce': nm_in_ce,
            'relocation': reloc, 'ce_blocks': len(blocks)}


def realise(case):
    """case -> (item for the judge, info kept by Python for labelling and coverage)."""
    data, exp, failure = run_ops(case)
    item = {'id': case['id'], 'wrote': data is not None,
            'want': {'version': case['ver'], 'xa': case['xa'], 'reloc': RELOC_HEX},
            'expect': exp.listing(),
            'reopen': {'done': False, 'ok': True, 'view': [], 'exc': '', 'msg': ''}}
    info = {'id': case['id'], 'failure': failure, 'sha': None, 'size': 0, 'agree': 0, 'compared': 0,
            'circ': {}, 'classes': []}
    if data is not None:
        rep = susp.decode(data, names='hex')
        item['rep'] = rep
        info['sha'] = hashlib.sha256(data).hexdigest()
        info['size'] = len(data)
        info['circ'] = circumstances(rep)
        if case.get('reopen', True):
            item['reopen'] = reopen_view(data)
        info['reopen_exc'] = item['reopen']['exc']
        info['reopen_msg'] = item['reopen']['msg']
        # compare the placement observed with the one TLC computed for the witnesses
        obs = observed_placement(rep)
        for (ident, kind, dr, ce, reclen) in case.get('predict', []):
            cands = obs.get(ident.encode(), [])
            info['compared'] += 1
            for (odr, oce, orl, ore, ocl) in cands:
                if kind == 'cl' and not ocl:
                    continue
                if kind == 'moved' and not ore:
                    continue
                if odr == dr and oce == ce and orl == reclen:
                    info['agree'] += 1
                    break
            else:
                info.setdefault('disagree', []).append([ident[:20], kind, dr, ce, reclen, [c[:3] for c in cands][:2]])
    return item, info


def _realise_star(case):
    det.install()
    return realise(case)


# ----------------------------------------------------------------------------------------
# from witnesses to cases
# ----------------------------------------------------------------------------------------
def b36(k, width):
    s = ''
    for _ in range(width):
        s = A36[k % 36] + s
        k //= 36
    return s


def iso_name(kind, lenfi, serial):
    """an ISO9660 identifier of exactly lenfi bytes, unique per serial"""
    if kind in ('file', 'symlink'):
        w = lenfi - 3
        return b36(serial, w) + '.;1' if w <= 8 else 'F' * (w - 8) + b36(serial, 8) + '.;1'
    w = lenfi
    return b36(serial, w) if w <= 8 else 'D' * (w - 8) + b36(serial, 8)


def rr_name(nm, serial, variant=0):
    """a Rock Ridge name of exactly nm bytes (UTF-8), unique per serial (for nm >= 2: <3844)"""
    if nm == 1:
        return A62[serial % 62]
    if nm < 6:
        s = ''
        k = serial
        for _ in range(nm):
            s += A62[k % 62]
            k //= 62
        return s
    head = b36(serial, 4) + '_'
    if variant == 1 and nm >= 9:
        # multi-byte UTF-8: U+00E9 (2 bytes), U+20AC (3 bytes)
        body = nm - len(head)
        s = head
        while body >= 3:
            s += u'€'
            body -= 3
        while body >= 2:
            s += u'é'
            body -= 2
        return s + 'n' * body
    return head + 'n' * (nm - len(head))


def comp_text(c, variant, j):
    if c == -2:
        return '.'
    if c == -3:
        return '..'
    if c <= 0:
        return ''
    if variant == 'dots' and c >= 3:
        return '.' * c
    if variant == 'dot1' and c >= 2:
        return '.' + 'c' * (c - 1)
    if variant == 'dot2' and c >= 3:
        return '..' + 'c' * (c - 2)
    return A62[j % 26] * c


def target_text(comps, variant='plain'):
    parts = []
    for j, c in enumerate(comps):
        if c == -1:
            parts.append('')
        else:
            parts.append(comp_text(c, variant, j))
    return '/'.join(parts)


class Pack(object):
    """one image under construction"""

    def __init__(self, ver, xa):
        self.ver = ver
        self.xa = xa
        self.level = 3
        self.ops = []
        self.predict = []
        self.ce = 0
        self.n = 0
        self.serial = 0
        self.chain = False
        self.wits = []

    def room(self, celen, count=1):
        return self.n + count <= MAX_ENTRIES and self.ce + celen <= CE_BUDGET

    def ensure_chain(self):
        if not self.chain:
            p = ''
            for k in range(1, 8):
                p += '/Z%d' % k
                self.ops.append(['dir', p, 'z%d' % k, 0o040755])
            self.chain = True
        return '/Z1/Z2/Z3/Z4/Z5/Z6/Z7'

    def add(self, w, variant='plain'):
        kind = w['kind']
        lenfi = w['lenfi']
        self.serial += 1
        s = self.serial
        if kind in ('file', 'symlink'):
            if lenfi - 3 > 30:
                self.level = 4
        elif lenfi > 31:
            self.level = 4
        name = iso_name(kind, lenfi, s)
        rr = rr_name(w['nm'], s, 1 if (variant == 'utf8') else 0)
        dr = [list(x) for x in w['dr']]
        ce = [list(x) for x in w['ce']]
        if kind == 'file':
            self.ops.append(['file', '/' + name, rr, 0o100644 if s % 2 else 0o100444, 1 + s % 5])
            self.predict.append((name, kind, dr, ce, w['reclen']))
            self.ce += w['celen']
        elif kind == 'dir':
            self.ops.append(['dir', '/' + name, rr, 0o040755 if s % 2 else 0o040555])
            self.predict.append((name, kind, dr, ce, w['reclen']))
            self.ce += w['celen']
        elif kind == 'symlink':
            self.ops.append(['symlink', '/' + name, rr, target_text(w['comps'], variant)])
            if variant == 'plain':
                self.predict.append((name, kind, dr, ce, w['reclen']))
            self.ce += w['celen']
        elif kind in ('cl', 'moved'):
            base = self.ensure_chain()
            self.ops.append(['dir', base + '/' + name, rr, 0o040755 if s % 2 else 0o040555])
            self.predict.append((name, kind, dr, ce, w['reclen']))
            self.ce += 2 * (w['celen'] + 16)
        self.n += 1
        self.wits.append(wit_key(w) + (variant,))

    def case(self, cid):
        return {'id': cid, 'ver': self.ver, 'xa': self.xa, 'level': self.level, 'ops': self.ops,
                'predict': self.predict, 'family': 'witness', 'wits': self.wits}


def wit_key(w):
    return (w['ver'], w['xa'], w['kind'], w['lenfi'], w['nm'], w['fam'], w['n'])


def pack_witnesses(wits, prefix):
    """group witnesses into images per (version, xa), within the CE budget of one block"""
    cases = []
    groups = {}
    for w in wits:
        groups.setdefault((w['ver'], w['xa']), []).append(w)
    for (ver, xa) in sorted(groups):
        ws = sorted(groups[(ver, xa)], key=lambda w: (w['kind'], w['lenfi'], w['fam'], w['nm'], w['n']))
        # interleave cheap and expensive entries: take alternately from both ends of the list
        # ordered by CE need, so that images mix in-record and continued entries
        ws.sort(key=lambda w: w['celen'])
        order = []
        i, j = 0, len(ws) - 1
        while i <= j:
            order.append(ws[j])
            j -= 1
            for _ in range(3):
                if i <= j:
                    order.append(ws[i])
                    i += 1
        cur = Pack(ver, xa)
        for w in order:
            variants = ['plain']
            if w['kind'] == 'symlink' and w['heads']:
                variants += ['dots', 'dot1', 'dot2']
            if w['kind'] in ('file', 'dir') and w['nm'] >= 9 and w['why'] in ('below', 'above') and w['lenfi'] in (7, 8):
                variants.append('utf8')
            for v in variants:
                need = w['celen'] if w['kind'] not in ('cl', 'moved') else 2 * (w['celen'] + 16)
                if cur.n and not cur.room(need):
                    cases.append(cur.case('%s%04d' % (prefix, len(cases))))
                    cur = Pack(ver, xa)
                cur.add(w, v)
        if cur.n:
            cases.append(cur.case('%s%04d' % (prefix, len(cases))))
    return cases


def depth_cases(tier):
    """directory chains of every depth (relocation at depth 8 and 16), with a file and a symlink
    at the bottom, siblings at the relocated level, and long names on relocated directories"""
    cases = []
    depths = list(range(1, 11)) + ([15, 16, 17] if tier == 'thorough' else [])
    combos = [(v, x) for v in VERSIONS for x in (False, True)]
    for (ver, xa) in combos:
        for d in depths:
            ops = []
            p = ''
            for k in range(1, d + 1):
                p += '/D%d' % k
                ops.append(['dir', p, 'depth%d' % k, 0o040755 if k % 2 else 0o040555])
            ops.append(['file', p + '/BOTTOM.;1', 'bottom-file', 0o100644, 7])
            ops.append(['symlink', p + '/LINK.;1', 'bottom-link', '../' * min(d, 12) + 'depth1'])
            if d >= 8:
                # a sibling relocated directory with a name that needs a continuation area
                sib = '/D1/D2/D3/D4/D5/D6/D7/SIB'
                ops.append(['dir', sib, 's' * 180, 0o040755])
                ops.append(['file', sib + '/INSIB.;1', 'in-sibling', 0o100444, 3])
            cases.append({'id': 'depth-%s-%s-%02d' % (ver, 'xa' if xa else 'no', d), 'ver': ver, 'xa': xa,
                          'level': 3, 'ops': ops, 'family': 'depth'})
    # second relocation level (depth 16) once in the quick tier
    if tier != 'thorough':
        ops = []
        p = ''
        for k in range(1, 18):
            p += '/E%d' % k
            ops.append(['dir', p, 'e%d' % k, 0o040755])
        ops.append(['file', p + '/DEEP.;1', 'deepest', 0o100444, 2])
        cases.append({'id': 'depth-1.09-no-17', 'ver': '1.09', 'xa': False, 'level': 3, 'ops': ops,
                      'family': 'depth'})
    return cases


def history_cases():
    """add / remove / re-add micro-histories"""
    cases = []
    long_a, long_b, long_c, long_d = 'a' * 200, 'b' * 230, 'c' * 150, 'd' * 240
    for ver in VERSIONS:
        for xa in (False, True):
            tag = '%s-%s' % (ver, 'xa' if xa else 'no')
            # a removed continued entry leaves a gap in the continuation block; a new one reuses it
            cases.append({'id': 'hist-gap-' + tag, 'ver': ver, 'xa': xa, 'level': 3, 'family': 'history', 'ops': [
                ['file', '/A.;1', long_a, 0o100644, 4], ['file', '/B.;1', long_b, 0o100644, 4],
                ['file', '/C.;1', long_c, 0o100644, 4], ['rm_file', '/B.;1'],
                ['file', '/D.;1', long_d, 0o100444, 4], ['symlink', '/S.;1', 'sym-' + 'x' * 100, 'x' * 300],
                ['rm_file', '/A.;1'], ['file', '/E.;1', 'e' * 160, 0o100444, 4]]})
            # remove and re-add under the same ISO name with another Rock Ridge name
            cases.append({'id': 'hist-readd-' + tag, 'ver': ver, 'xa': xa, 'level': 3, 'family': 'history', 'ops': [
                ['dir', '/DIR', 'first-name', 0o040755], ['file', '/DIR/F.;1', 'inner', 0o100644, 4],
                ['rm_file', '/DIR/F.;1'], ['rm_dir', '/DIR'], ['dir', '/DIR', 'second-name', 0o040555],
                ['file', '/DIR/F.;1', 'inner-again', 0o100444, 4], ['symlink', '/L.;1', 'lnk', 'second-name/inner-again'],
                ['rm_file', '/L.;1'], ['symlink', '/L.;1', 'lnk2', '/']]})
            # relocation: remove the relocated directory, add it again, remove one of two
            base = '/R1/R2/R3/R4/R5/R6/R7'
            chain = []
            p = ''
            for k in range(1, 8):
                p += '/R%d' % k
                chain.append(['dir', p, 'r%d' % k, 0o040755])
            cases.append({'id': 'hist-reloc-' + tag, 'ver': ver, 'xa': xa, 'level': 3, 'family': 'history', 'ops': chain + [
                ['dir', base + '/M1', 'moved-one', 0o040755], ['file', base + '/M1/X.;1', 'x-file', 0o100644, 4],
                ['dir', base + '/M2', 'moved-two', 0o040555], ['rm_file', base + '/M1/X.;1'],
                ['rm_dir', base + '/M1'], ['dir', base + '/M3', 'm' * 190, 0o040755],
                ['dir', base + '/M3/SUB', 'below-moved', 0o040755]]})
            cases.append({'id': 'hist-relocempty-' + tag, 'ver': ver, 'xa': xa, 'level': 3, 'family': 'history', 'ops': chain + [
                ['dir', base + '/M1', 'moved-one', 0o040755], ['rm_dir', base + '/M1'],
                ['file', '/PLAIN.;1', 'plain', 0o100644, 4]]})
    return cases


def overflow_cases(dense):
    """continuation areas that need more than one block (what 15+ long names ask for), and the
    exact fill of one block"""
    cases = []
    for (ver, xa) in [(v, x) for v in VERSIONS for x in (False, True)]:
        w = dense.get((ver, xa, 250))
        if w is None or w['celen'] <= 0:
            continue
        per = w['celen']
        fit = CE_BLOCK // per
        for count, tag in ((fit, 'fits'), (fit + 1, 'over'), (2 * fit + 3, 'over2')):
            ops = []
            for k in range(count):
                ops.append(['file', '/' + iso_name('file', 7, k), rr_name(250, k), 0o100644, 1])
            cases.append({'id': 'ceblock-%s-%s-%s' % (tag, ver, 'xa' if xa else 'no'), 'ver': ver, 'xa': xa,
                          'level': 3, 'ops': ops, 'family': 'ceblock', 'ce_need': count * per})
    return cases


def random_cases(seed, count):
    """seeded random add/remove histories over boundary-ish lengths"""
    rnd = random.Random(seed)
    lens = [1, 2, 7, 30, 100, 120, 130, 140, 147, 148, 149, 150, 160, 170, 180, 200, 216, 217, 250, 251, 260, 400, 520]
    comps_pool = [-2, -3, 0, 1, 2, 8, 60, 120, 248, 249, 250, 254, 255, 256]
    cases = []
    for c in range(count):
        ver = rnd.choice(VERSIONS)
        xa = rnd.random() < 0.5
        ops = []
        live_files = []
        live_dirs = ['']
        empty_dirs = set()
        ce = 0
        serial = 0
        for _ in range(rnd.randint(4, 16)):
            serial += 1
            r = rnd.random()
            if r < 0.18 and live_files:
                f = live_files.pop(rnd.randrange(len(live_files)))
                ops.append(['rm_file', f])
                continue
            nm = rnd.choice(lens)
            est = max(0, nm - 100) + 120 if nm > 120 else 0
            if ce + est > 1500:
                nm = rnd.choice(lens[:6])
                est = 0
            parent = rnd.choice(live_dirs)
            depth = parent.count('/') + 1
            if r < 0.40:
                if depth % 8 == 0:
                    est = 2 * est + 240
                    if ce + est > 1500:
                        continue
                name = iso_name('dir', rnd.choice([1, 2, 5, 8]) if False else 5, serial)
                ops.append(['dir', parent + '/' + name, rr_name(max(nm, 2), serial), rnd.choice([0o040755, 0o040555, 0o040700])])
                if depth < 18:
                    live_dirs.append(parent + '/' + name)
            elif r < 0.70:
                name = iso_name('file', rnd.choice([6, 7, 13, 33]), serial)
                ops.append(['file', parent + '/' + name, rr_name(max(nm, 2), serial), rnd.choice([0o100644, 0o100444, 0o100755]), rnd.randint(0, 40)])
                live_files.append(parent + '/' + name)
            else:
                ncomp = rnd.randint(1, 12)
                comps = [rnd.choice(comps_pool) for _ in range(ncomp)]
                if rnd.random() < 0.3:
                    comps = [-1] + comps
                elif comps[0] == 0:
                    comps[0] = 1
                tl = sum(2 + max(x, 0) for x in comps)
                est += tl + 5 * (tl // 250 + 1)
                if ce + est > 1500:
                    comps = comps[:1]
                    est = 0
                name = iso_name('symlink', rnd.choice([6, 7, 13]), serial)
                ops.append(['symlink', parent + '/' + name, rr_name(max(nm, 2), serial),
                            target_text(comps, rnd.choice(['plain', 'plain', 'dots', 'dot1', 'dot2']))])
                live_files.append(parent + '/' + name)
            ce += est
        # prefer chains: make later directories nest
        cases.append({'id': 'rand-%d-%04d' % (seed, c), 'ver': ver, 'xa': xa, 'level': 3, 'ops': ops,
                      'family': 'random'})
    # deep random chains with content (relocation under random histories)
    for c in range(max(2, count // 6)):
        ver = rnd.choice(VERSIONS)
        xa = rnd.random() < 0.5
        ops = []
        p = ''
        d = rnd.randint(7, 11)
        for k in range(1, d + 1):
            p += '/' + iso_name('dir', 3, k)
            ops.append(['dir', p, rr_name(rnd.choice([2, 8, 30, 150, 190] if k == 8 else [2, 8, 30]), k), 0o040755])
            if rnd.random() < 0.5:
                ops.append(['file', p + '/' + iso_name('file', 7, 100 + k), rr_name(rnd.choice([3, 20, 160]), 100 + k), 0o100644, 3])
        if d >= 8 and rnd.random() < 0.5:
            ops.append(['rm_dir', p] if d == 8 and not any(o[1].startswith(p + '/') for o in ops) else ['file', p + '/LAST.;1', 'last', 0o100444, 1])
        cases.append({'id': 'randdeep-%d-%04d' % (seed, c), 'ver': ver, 'xa': xa, 'level': 3, 'ops': ops,
                      'family': 'random'})
    return cases


# ----------------------------------------------------------------------------------------
# the check
# ----------------------------------------------------------------------------------------
def mc_witnesses(tier):
    dense, other = (1260, 300) if tier == 'quick' else (1260, 1260)
    out, stats = tlc.run_tlc('MC_susp', MC_CFG % (dense, other), workers=16, timeout=1500, heap='6g')
    tlc.need_ok(out, stats, 'MC_susp')
    seen = {}
    n_lines = 0
    for tag, w in tlc.tagged_lines(out):
        if tag != 'WIT':
            continue
        n_lines += 1
        k = wit_key(w)
        if k not in seen or (seen[k]['why'] in ('dense', 'named') and w['why'] not in ('dense', 'named')):
            seen[k] = w
    return list(seen.values()), stats, n_lines


def run(ctx):
    t0 = det.real_time()
    if getattr(ctx, 'replay', None):
        with open(ctx.replay) as f:
            doc = json.load(f)
        cases = [doc['replay']]
        wits, mc_stats, n_lines = [], {'generated': 0, 'distinct': 0}, 0
        placeable = []
    else:
        wits, mc_stats, n_lines = mc_witnesses(ctx.tier)
        print('MC_susp: %d distinct states, %d transitions, %d witness lines, %d distinct witnesses (%.1fs)' % (
            mc_stats['distinct'], mc_stats['generated'], n_lines, len(wits), det.real_time() - t0))
        sys.stdout.flush()
        placeable = [w for w in wits if w['ok'] and w['kind'] in ('file', 'dir', 'symlink', 'cl', 'moved')]
        dense = {(w['ver'], w['xa'], w['nm']): w for w in wits
                 if w['kind'] == 'file' and w['lenfi'] == 7 and w['ok']}
        cases = pack_witnesses(placeable, 'w')
        cases += depth_cases(ctx.tier)
        cases += history_cases()
        cases += overflow_cases(dense)
        if ctx.tier == 'thorough':
            cases += random_cases(ctx.seed, 600)
        else:
            cases += random_cases(ctx.seed, 40)
    print('%d cases to realise' % len(cases))
    sys.stdout.flush()

    mp = multiprocessing.get_context('fork')
    with mp.Pool(16) as pool:
        results = pool.map(_realise_star, cases, chunksize=4)
    t1 = det.real_time()
    print('realised %d cases on pycdlib and decoded them (%.1fs)' % (len(results), t1 - t0))
    sys.stdout.flush()

    by_id = {c['id']: c for c in cases}
    infos = {}
    items = []
    seen_sha = {}
    alias = {}
    for (item, info) in results:
        infos[item['id']] = info
        key = info['sha']
        if key is not None and key in seen_sha and False:
            alias.setdefault(seen_sha[key], []).append(item['id'])
            continue
        if key is not None:
            seen_sha.setdefault(key, item['id'])
        items.append(item)
    fails, jstats = judge.judge_sharded('Judge_Susp', items, shards=8)
    t2 = det.real_time()
    print('TLC judged %d observations (%.1fs)' % (len(items), t2 - t1))
    sys.stdout.flush()

    n_written = sum(1 for it in items if it['wrote'])
    distinct_images = len(seen_sha)
    agree = sum(i['agree'] for i in infos.values())
    compared = sum(i['compared'] for i in infos.values())
    for it in items:
        cid = it['id']
        case = by_id[cid]
        info = infos[cid]
        ctx.note('cases_' + case.get('family', 'replay'))
        for cl in fails.get(cid, []):
            sig = {'clause': cl, 'ver': case['ver'], 'xa': case['xa']}
            circ = info.get('circ') or {}
            if cl == 'ImageProduced':
                f = info['failure'] or {}
                sig['exc'] = f.get('exc', '')
                sig['at'] = 'write' if f.get('op') == 'write' else 'edit'
                sig['ce_need_gt_block'] = case.get('ce_need', 0) > CE_BLOCK
                detail = 'no image: %s' % (f,)
            elif cl == 'ReopenAgrees':
                sig['exc'] = info.get('reopen_exc', '')
                sig['px_in_ce'] = bool(circ.get('px_in_ce'))
                sig['cl_in_ce'] = bool(circ.get('cl_in_ce'))
                sig['sl_in_ce'] = bool(circ.get('sl_in_ce'))
                detail = 'pycdlib reading its own image: %s %s' % (info.get('reopen_exc'), info.get('reopen_msg'))
            else:
                sig['relocation'] = bool(circ.get('relocation'))
                sig['sl_in_ce'] = bool(circ.get('sl_in_ce'))
                sig['family'] = case.get('family', 'replay')
                detail = 'clause %s false on the report of the independent reader' % cl
            replay = {k: v for k, v in case.items() if k not in ('predict', 'wits')}
            ctx.violation(sig, detail, replay)

    dump = os.environ.get('VERIF_C08_DUMP')
    if dump:
        with open(dump, 'w') as f:
            json.dump({'fails': fails, 'infos': infos,
                       'cases': {c['id']: {k: v for k, v in c.items() if k != 'predict'} for c in cases}}, f)

    # evidence
    fam = {}
    for c in cases:
        fam[c.get('family', 'replay')] = fam.get(c.get('family', 'replay'), 0) + 1
    classes = set()
    for w in wits:
        classes.add((w['ok'], w['needce'], tuple(x[0] for x in w['dr']), tuple(x[0] for x in w['ce']), tuple(w['heads'])))
    ctx.coverage.update({
        'states': mc_stats.get('distinct', 0),
        'transitions': mc_stats.get('generated', 0),
        'traces_validated_against_impl': n_written,
        'exhaustive': False,
        'witness_lines': n_lines,
        'witnesses_distinct': len(wits),
        'witnesses_realised': len(placeable),
        'witnesses_unplaceable': len([w for w in wits if not w['ok']]),
        'placement_classes': len(classes),
        'placement_compared': compared,
        'placement_agrees_with_model': agree,
        'cases': len(cases),
        'cases_by_family': fam,
        'images_written': n_written,
        'images_distinct': distinct_images,
        'observations_judged': len(items),
        'observations_failing_some_clause': len(fails),
        'judge_states': sum(s.get('distinct', 0) for s in jstats),
        'clauses': ['ImageProduced', 'DecoderClean', 'SuspLengthsAddUp', 'EntryLengthsCanonical',
                    'CEInsideSector', 'CENoOverlap', 'CELandsOnArea', 'CEChainWellFormed',
                    'CEBothEndianAgree', 'RRBothEndianAgree', 'CLLandsOnDir', 'PLLandsOnParent',
                    'RELabelsMoved', 'ERPresentOnce', 'SPPresentInRootDot', 'SPSkipMatchesXA',
                    'PXPresent', 'PXLengthMatchesVersion', 'RRFlagsMatchEntries', 'NMWellFormed',
                    'SLWellFormed', 'NlinkOfDirs', 'DirAttrsConsistent', 'LogicalTreeMatches',
                    'VersionAsRequested', 'ReopenAgrees'],
        'rule': 'TLC enumerates MC_susp (placement case space); one witness per side of every change of '
                'placement class, every name length 1..255 of a plain file, named lengths; each witness is '
                'an entry of an image built by pycdlib, read by decoders/susp.py and judged by Judge_Susp',
        'timing_s': {'mc': round(mc_stats.get('wall_s', 0), 1), 'realise': round(t1 - t0 - mc_stats.get('wall_s', 0), 1),
                     'judge': round(t2 - t1, 1)},
    })
    ctx.assumptions += [
        'the relocation directory rr_moved itself is tolerated in the reader\'s view when it is logically empty',
        'SuspPlacement.tla is used to choose witnesses only; bytes are judged on the independent reader\'s report',
        'decoders/susp.py, TLC/SANY, Susp.tla clauses, CPython struct/hashlib',
    ]
    shown = 0
    for c in cases:
        if c.get('family') in ('witness', 'history', 'depth', 'ceblock', 'random') and shown < 5:
            fams = [s.get('family') for s in ctx.samples]
            if c.get('family') in fams:
                continue
            ops = [[str(x)[:40] for x in op] for op in c['ops'][:6]]
            ctx.sample({'id': c['id'], 'family': c.get('family'), 'ver': c['ver'], 'xa': c['xa'],
                        'ops_head': ops, 'n_ops': len(c['ops']),
                        'failing_clauses': fails.get(c['id'], [])})
            shown += 1
    dis = [d for i in infos.values() for d in i.get('disagree', [])]
    if dis:
        ctx.coverage['placement_disagreements_sample'] = dis[:3]


if __name__ == '__main__':
    sys.exit(checklib.main('C08', 'model_checking', run))
