"""Independent structure inventory of a valid image (ECMA-119, SUSP/RRIP, Joliet, El Torito,
ECMA-167/UDF bridge, isohybrid MBR/GPT/APM).  Written from the standards; imports nothing from
pycdlib and nothing from harness/decoders.

inventory(data) -> list of field dicts, one per field of every structure a reader follows from
the volume descriptors:

  id         unique name, "<struct id>.<field>" (struct id carries the byte offset)
  structure  "pvd" "svd" "boot_record" "vdst" "dir_record" "xa_record" "path_table_L"
             "path_table_M" "rr_<SIG>" "eltorito_validation" "eltorito_entry"
             "eltorito_section_header" "udf_vrs" "udf_tag" "udf_anchor" "udf_pvd" "udf_iuvd"
             "udf_pd" "udf_lvd" "udf_usd" "udf_lvid" "udf_fsd" "udf_fe" "udf_ad" "udf_fid"
             "mbr" "gpt" "gpt_part" "apm"
  struct_id  id of the structure instance the field belongs to
  offset     byte offset of the field in the image          width   bytes
  endian     "le" | "be" | "both" (ECMA-119 7.2.3/7.3.3: LE copy then BE copy) | "none"
  role       "length" "extent_pointer" "count" "tag_or_magic" "both_endian_copy" "flags"
             "offset_in_sector" "version" "checksum" "char"
  value      current value (int) for numeric roles
  unit       for extent pointers: bytes per unit of the pointer (2048 sectors, 512 LBAs)
  base       for extent pointers: unit index the pointer is relative to (UDF partition start)
  targets    for extent pointers: {"self": n, "ancestor": n, "other_structure": n} (pointer
             values, in the pointer's own unit and base, that make it point at the sector that
             holds the pointer / at an ancestor directory (cycle) / at a different structure)
  bits       for flags: the bit numbers a reader interprets
  also       further offsets that hold the same value (both UDF anchors) and are patched with it
  fix        checksum repairs an adversary would apply after changing the field:
             [{"kind": "udf_tag", "at": tag offset} | {"kind": "eltorito", "at": entry offset}]
  reached_by other offsets whose being read also means the parser looked at this field

structures(data) -> list of {"struct_id", "structure", "start", "end"} (for truncation points).
"""
import struct

SECTOR = 2048


class _Inv(object):
    def __init__(self, data):
        self.d = data
        self.n = len(data)
        self.fields = []
        self.structs = []
        self.ids = set()
        self.seen_dirs = set()
        self.seen_dir_extents = set()
        self.seen_ce = set()

    # -- primitive readers ------------------------------------------------------------------
    def u8(self, o):
        return self.d[o]

    def le16(self, o):
        return struct.unpack_from('<H', self.d, o)[0]

    def be16(self, o):
        return struct.unpack_from('>H', self.d, o)[0]

    def le32(self, o):
        return struct.unpack_from('<L', self.d, o)[0]

    def be32(self, o):
        return struct.unpack_from('>L', self.d, o)[0]

    def le64(self, o):
        return struct.unpack_from('<Q', self.d, o)[0]

    def ok(self, o, w=1):
        return 0 <= o and o + w <= self.n

    # -- recording ---------------------------------------------------------------------------
    def struct_(self, sid, structure, start, end):
        k = sid
        i = 1
        while k in self.ids:
            i += 1
            k = '%s~%d' % (sid, i)
        self.ids.add(k)
        self.structs.append({'struct_id': k, 'structure': structure, 'start': start, 'end': end})
        return k

    def f(self, sid, structure, name, off, width, endian, role, **kw):
        if width <= 0 or not self.ok(off, width):
            return
        fld = {'id': '%s.%s' % (sid, name), 'structure': structure, 'struct_id': sid,
               'offset': off, 'width': width, 'endian': endian, 'role': role}
        if role not in ('char',):
            fld['value'] = self.value(off, width, endian)
        fld.update(kw)
        if role == 'extent_pointer':
            fld.setdefault('unit', SECTOR)
            fld.setdefault('base', 0)
            t = dict((k, v) for k, v in fld.get('targets', {}).items()
                     if v is not None and v >= 0 and v != fld['value'])
            # distinct target values only (self wins over ancestor wins over other)
            seen = set()
            for k in ('self', 'ancestor', 'other_structure'):
                if k in t:
                    if t[k] in seen:
                        del t[k]
                    else:
                        seen.add(t[k])
            fld['targets'] = t
        self.fields.append(fld)
        return fld

    def value(self, off, width, endian):
        b = self.d[off:off + width]
        if endian == 'both':
            return int.from_bytes(b[:width // 2], 'little')
        if endian == 'be':
            return int.from_bytes(b, 'big')
        return int.from_bytes(b, 'little')

    def both(self, sid, structure, name, off, half, role, **kw):
        """a both-byte-order field: one entry that changes both copies consistently, one that
        makes the copies disagree."""
        self.f(sid, structure, name, off, 2 * half, 'both', role, **kw)
        self.f(sid, structure, name + '.copy', off, 2 * half, 'both', 'both_endian_copy')

    # -- ECMA-119 volume descriptors -----------------------------------------------------------
    def run(self):
        self.system_area()
        vds = []
        s = 16
        while self.ok(s * SECTOR, SECTOR):
            o = s * SECTOR
            t = self.u8(o)
            ident = self.d[o + 1:o + 6]
            if t not in (0, 1, 2, 255) or ident not in (b'CD001', b'CDW02', b'BEA01', b'NSR02',
                                                         b'NSR03', b'TEA01', b'BOOT2'):
                break
            vds.append((s, t, ident))
            s += 1
        self.pvd_sector = None
        self.has_udf = False
        roots = []
        for (s, t, ident) in vds:
            o = s * SECTOR
            if ident != b'CD001':
                sid = self.struct_('udfvrs@%d' % o, 'udf_vrs', o, o + SECTOR)
                self.f(sid, 'udf_vrs', 'type', o, 1, 'none', 'tag_or_magic')
                self.f(sid, 'udf_vrs', 'ident', o + 1, 5, 'none', 'tag_or_magic')
                self.f(sid, 'udf_vrs', 'version', o + 6, 1, 'none', 'version')
                if ident == b'BEA01':
                    self.has_udf = True
                continue
            if t == 1 or t == 2:
                kind = 'pvd' if t == 1 else 'svd'
                if t == 1 and self.pvd_sector is None:
                    self.pvd_sector = s
                roots.append(self.voldesc(kind, s))
            elif t == 0:
                self.boot_record(s)
            elif t == 255:
                sid = self.struct_('vdst@%d' % o, 'vdst', o, o + SECTOR)
                self.f(sid, 'vdst', 'type', o, 1, 'none', 'tag_or_magic')
                self.f(sid, 'vdst', 'ident', o + 1, 5, 'none', 'tag_or_magic')
                self.f(sid, 'vdst', 'version', o + 6, 1, 'none', 'version')
        # the sector after the descriptors ("version" descriptor of genisoimage/pycdlib)
        for (kind, vs, root_extent, root_len, ptl, ptm, ptsize, joliet) in roots:
            self.path_table('path_table_L', ptl, ptsize, 'le', vs, root_extent)
            self.path_table('path_table_M', ptm, ptsize, 'be', vs, root_extent)
        for (kind, vs, root_extent, root_len, ptl, ptm, ptsize, joliet) in roots:
            self.walk_dirs(kind, vs, root_extent, root_len, ptl, joliet)
        if self.has_udf:
            self.udf()
        return self

    def voldesc(self, kind, s):
        o = s * SECTOR
        sid = self.struct_('%s@%d' % (kind, o), kind, o, o + SECTOR)
        f = lambda *a, **k: self.f(sid, kind, *a, **k)
        f('type', o, 1, 'none', 'tag_or_magic')
        f('ident', o + 1, 5, 'none', 'tag_or_magic')
        f('version', o + 6, 1, 'none', 'version')
        f('flags', o + 7, 1, 'none', 'flags', bits=[0])
        f('system_identifier', o + 8, 32, 'none', 'char')
        f('volume_identifier', o + 40, 32, 'none', 'char')
        f('unused72', o + 72, 8, 'none', 'tag_or_magic')
        self.both(sid, kind, 'space_size', o + 80, 4, 'count')
        f('escape_sequences', o + 88, 3, 'none', 'tag_or_magic')
        self.both(sid, kind, 'set_size', o + 120, 2, 'count')
        self.both(sid, kind, 'seqnum', o + 124, 2, 'count')
        self.both(sid, kind, 'logical_block_size', o + 128, 2, 'length')
        self.both(sid, kind, 'path_table_size', o + 132, 4, 'length')
        root_extent = self.le32(o + 158)
        root_len = self.le32(o + 166)
        ptl = self.le32(o + 140)
        ptm = self.be32(o + 148)
        tg = {'self': s, 'other_structure': root_extent}
        f('path_table_location_le', o + 140, 4, 'le', 'extent_pointer', targets=tg)
        f('optional_path_table_location_le', o + 144, 4, 'le', 'extent_pointer', targets=tg)
        f('path_table_location_be', o + 148, 4, 'be', 'extent_pointer', targets=tg)
        f('optional_path_table_location_be', o + 152, 4, 'be', 'extent_pointer', targets=tg)
        self.dir_record(sid + '.root', kind, o + 156, s, None, ptl, is_vd_root=True)
        f('volume_set_identifier', o + 190, 128, 'none', 'char')
        f('publisher_identifier', o + 318, 128, 'none', 'char')
        f('preparer_identifier', o + 446, 128, 'none', 'char')
        f('application_identifier', o + 574, 128, 'none', 'char')
        f('copyright_file_identifier', o + 702, 37, 'none', 'char')
        f('abstract_file_identifier', o + 739, 37, 'none', 'char')
        f('bibliographic_file_identifier', o + 776, 37, 'none', 'char')
        for i, nm in enumerate(('creation', 'modification', 'expiration', 'effective')):
            f('%s_date' % nm, o + 813 + 17 * i, 16, 'none', 'char')
            f('%s_date_gmtoff' % nm, o + 813 + 17 * i + 16, 1, 'none', 'count')
        f('file_structure_version', o + 881, 1, 'none', 'version')
        f('unused882', o + 882, 1, 'none', 'tag_or_magic')
        if self.d[o + 1024:o + 1032] == b'CD-XA001':
            f('xa_marker', o + 1024, 8, 'none', 'tag_or_magic')
        else:
            f('application_use', o + 883, 512, 'none', 'char')
        f('unused1395', o + 1395, 653, 'none', 'tag_or_magic')
        joliet = kind == 'svd' and self.d[o + 88:o + 91] in (b'%/@', b'%/C', b'%/E')
        return (kind, s, root_extent, root_len, ptl, ptm, self.le32(o + 132), joliet)

    def boot_record(self, s):
        o = s * SECTOR
        sid = self.struct_('br@%d' % o, 'boot_record', o, o + SECTOR)
        f = lambda *a, **k: self.f(sid, 'boot_record', *a, **k)
        f('type', o, 1, 'none', 'tag_or_magic')
        f('ident', o + 1, 5, 'none', 'tag_or_magic')
        f('version', o + 6, 1, 'none', 'version')
        f('boot_system_identifier', o + 7, 32, 'none', 'tag_or_magic')
        f('boot_identifier', o + 39, 32, 'none', 'char')
        if self.d[o + 7:o + 39] == b'EL TORITO SPECIFICATION'.ljust(32, b'\x00'):
            cat = self.le32(o + 71)
            f('boot_catalog_extent', o + 71, 4, 'le', 'extent_pointer',
              targets={'self': s, 'other_structure': 16})
            self.eltorito(cat)

    # -- directories -----------------------------------------------------------------------------
    def dir_record(self, sid, tree, o, dir_sector, parent_sector, other, is_vd_root=False,
                   root_sector=None, skip=0, path=''):
        """fields of one directory record at offset o.  dir_sector: the sector of the directory
        (or descriptor) holding the record.  Returns (length, extent, data_length, flags, name)."""
        ln = self.u8(o)
        st = 'dir_record'
        f = lambda *a, **k: self.f(sid, st, *a, tree=tree, path=path, **k)
        f('len', o, 1, 'none', 'length')
        f('xattr_len', o + 1, 1, 'none', 'length')
        tg = {'self': dir_sector, 'ancestor': root_sector if root_sector != dir_sector else parent_sector,
              'other_structure': other}
        self.f(sid, st, 'extent', o + 2, 8, 'both', 'extent_pointer', targets=tg, tree=tree, path=path)
        self.f(sid, st, 'extent.copy', o + 2, 8, 'both', 'both_endian_copy', tree=tree, path=path)
        self.f(sid, st, 'data_length', o + 10, 8, 'both', 'length', tree=tree, path=path)
        self.f(sid, st, 'data_length.copy', o + 10, 8, 'both', 'both_endian_copy', tree=tree, path=path)
        f('date', o + 18, 6, 'none', 'char')
        f('date_gmtoff', o + 24, 1, 'none', 'count')
        f('flags', o + 25, 1, 'none', 'flags', bits=[0, 1, 2, 3, 4, 7])
        f('file_unit_size', o + 26, 1, 'none', 'length')
        f('interleave_gap_size', o + 27, 1, 'none', 'length')
        self.f(sid, st, 'seqnum', o + 28, 4, 'both', 'count', tree=tree, path=path)
        self.f(sid, st, 'seqnum.copy', o + 28, 4, 'both', 'both_endian_copy', tree=tree, path=path)
        lfi = self.u8(o + 32)
        f('len_fi', o + 32, 1, 'none', 'length')
        f('file_identifier', o + 33, lfi, 'none', 'char')
        if lfi > 1:
            f('file_identifier.last', o + 33 + lfi - 1, 1, 'none', 'char')
        name = self.d[o + 33:o + 33 + lfi]
        su = o + 33 + lfi + (1 if lfi % 2 == 0 else 0)
        end = o + ln
        if not is_vd_root:
            # CD-ROM XA system use record (14 bytes, signature "XA" at +6)
            if end - su >= 14 and self.d[su + 6:su + 8] == b'XA':
                xid = self.struct_('xa@%d' % su, 'xa_record', su, su + 14)
                self.f(xid, 'xa_record', 'group_id', su, 2, 'be', 'count')
                self.f(xid, 'xa_record', 'user_id', su + 2, 2, 'be', 'count')
                self.f(xid, 'xa_record', 'attributes', su + 4, 2, 'be', 'flags', bits=[0, 3, 11, 12, 13, 14, 15])
                self.f(xid, 'xa_record', 'signature', su + 6, 2, 'none', 'tag_or_magic')
                self.f(xid, 'xa_record', 'filenum', su + 8, 1, 'none', 'count')
                self.f(xid, 'xa_record', 'reserved', su + 9, 5, 'none', 'tag_or_magic')
                su += 14
            if end - su >= 4:
                is_root_dot = (root_sector == dir_sector and name == b'\x00')
                self.susp(su + (0 if is_root_dot else skip), end, dir_sector, root_sector, False)
        return (ln, self.le32(o + 2), self.le32(o + 10), self.u8(o + 25), name)

    def walk_dirs(self, tree, vd_sector, root_extent, root_len, other, joliet):
        queue = [(root_extent, root_len, None, '/')]
        self.skip = 0
        while queue:
            (ext, length, parent_sector, path) = queue.pop(0)
            if ext in self.seen_dir_extents:
                continue    # (an enhanced volume descriptor shares the primary tree)
            self.seen_dir_extents.add(ext)
            base = ext * SECTOR
            off = 0
            idx = 0
            while off < length and self.ok(base + off, 34):
                ln = self.u8(base + off)
                if ln == 0:
                    off = (off // SECTOR + 1) * SECTOR
                    continue
                o = base + off
                lfi = self.u8(o + 32)
                nm = self.d[o + 33:o + 33 + lfi]
                if nm == b'\x00':
                    disp = '.'
                elif nm == b'\x01':
                    disp = '..'
                elif joliet:
                    disp = nm.decode('utf-16_be', 'replace')
                else:
                    disp = nm.decode('latin-1')
                sid = self.struct_('dr@%d' % o, 'dir_record', o, o + ln)
                if ext == root_extent and idx == 0:
                    # SP of the root "." record gives the number of bytes to skip everywhere else
                    self.skip = self.find_sp_skip(o, ln)
                (ln2, cext, clen, flags, name) = self.dir_record(
                    sid, tree, o, ext, parent_sector, other, root_sector=root_extent,
                    skip=self.skip, path=(path.rstrip('/') + '/' + disp))
                if flags & 2 and name not in (b'\x00', b'\x01'):
                    queue.append((cext, clen, ext, path.rstrip('/') + '/' + disp))
                off += ln
                idx += 1

    def find_sp_skip(self, o, ln):
        lfi = self.u8(o + 32)
        su = o + 33 + lfi + (1 if lfi % 2 == 0 else 0)
        if o + ln - su >= 14 and self.d[su + 6:su + 8] == b'XA':
            su += 14
        if o + ln - su >= 7 and self.d[su:su + 2] == b'SP':
            return self.u8(su + 6)
        return 0

    def path_table(self, structure, extent, size, endian, vd_sector, root_extent):
        base = extent * SECTOR
        if (structure, extent) in self.seen_dirs:
            return
        self.seen_dirs.add((structure, extent))
        off = 0
        while off < size and self.ok(base + off, 8):
            o = base + off
            ldi = self.u8(o)
            if ldi == 0:
                break
            rl = 8 + ldi + (ldi % 2)
            sid = self.struct_('%s@%d' % ('ptl' if endian == 'le' else 'ptm', o), structure, o, o + rl)
            f = lambda *a, **k: self.f(sid, structure, *a, **k)
            f('len_di', o, 1, 'none', 'length')
            f('xattr_len', o + 1, 1, 'none', 'length')
            f('extent', o + 2, 4, endian, 'extent_pointer',
              targets={'self': extent, 'ancestor': root_extent, 'other_structure': vd_sector})
            f('parent_directory_number', o + 6, 2, endian, 'count')
            f('directory_identifier', o + 8, ldi, 'none', 'char')
            off += rl

    # -- SUSP / Rock Ridge -------------------------------------------------------------------------
    def susp(self, start, end, dir_sector, root_sector, in_ce):
        o = start
        while o + 4 <= end:
            sig = self.d[o:o + 2]
            ln = self.u8(o + 2)
            if not sig.isalnum() or ln < 4 or o + ln > end:
                break
            s = sig.decode('ascii')
            st = 'rr_' + s
            sid = self.struct_('%s@%d' % (s, o), st, o, o + ln)
            f = lambda *a, **k: self.f(sid, st, *a, in_continuation=in_ce, **k)
            f('signature', o, 2, 'none', 'tag_or_magic')
            f('len', o + 2, 1, 'none', 'length')
            f('version', o + 3, 1, 'none', 'version')
            b = lambda name, off, half, role, **kw: (
                self.f(sid, st, name, off, 2 * half, 'both', role, in_continuation=in_ce, **kw),
                self.f(sid, st, name + '.copy', off, 2 * half, 'both', 'both_endian_copy',
                       in_continuation=in_ce))
            if s == 'SP':
                f('check_bytes', o + 4, 2, 'none', 'tag_or_magic')
                f('bytes_to_skip', o + 6, 1, 'none', 'length')
            elif s == 'RR':
                f('flags', o + 4, 1, 'none', 'flags', bits=[0, 1, 2, 3, 4, 5, 6, 7])
            elif s == 'CE':
                blk = self.le32(o + 4)
                coff = self.le32(o + 12)
                clen = self.le32(o + 20)
                b('bl_cont_area', o + 4, 4, 'extent_pointer',
                  targets={'self': dir_sector, 'ancestor': root_sector, 'other_structure': 16})
                b('offset_cont_area', o + 12, 4, 'offset_in_sector')
                b('len_cont_area', o + 20, 4, 'length')
                key = (blk, coff)
                if key not in self.seen_ce and not in_ce:
                    self.seen_ce.add(key)
                    self.susp(blk * SECTOR + coff, blk * SECTOR + coff + clen, blk, root_sector, True)
            elif s == 'PX':
                b('mode', o + 4, 4, 'flags', bits=[12, 13, 14, 15])
                b('links', o + 12, 4, 'count')
                b('uid', o + 20, 4, 'count')
                b('gid', o + 28, 4, 'count')
                if ln >= 44:
                    b('serial', o + 36, 4, 'count')
            elif s == 'PN':
                b('dev_high', o + 4, 4, 'count')
                b('dev_low', o + 12, 4, 'count')
            elif s == 'NM':
                f('flags', o + 4, 1, 'none', 'flags', bits=[0, 1, 2, 5])
                f('name', o + 5, ln - 5, 'none', 'char')
                if ln - 5 > 1:
                    f('name.last', o + ln - 1, 1, 'none', 'char')
            elif s == 'SL':
                f('flags', o + 4, 1, 'none', 'flags', bits=[0])
                c = o + 5
                k = 0
                while c + 2 <= o + ln:
                    cl = self.u8(c + 1)
                    f('comp%d.flags' % k, c, 1, 'none', 'flags', bits=[0, 1, 2, 3])
                    f('comp%d.len' % k, c + 1, 1, 'none', 'length')
                    f('comp%d.content' % k, c + 2, cl, 'none', 'char')
                    c += 2 + cl
                    k += 1
            elif s in ('CL', 'PL'):
                b('extent', o + 4, 4, 'extent_pointer',
                  targets={'self': dir_sector, 'ancestor': root_sector, 'other_structure': 16})
            elif s == 'TF':
                fl = self.u8(o + 4)
                f('flags', o + 4, 1, 'none', 'flags', bits=[0, 1, 2, 3, 4, 5, 6, 7])
                w = 17 if fl & 0x80 else 7
                c = o + 5
                k = 0
                while c + w <= o + ln:
                    f('stamp%d' % k, c, w, 'none', 'char')
                    c += w
                    k += 1
            elif s == 'ER':
                f('len_id', o + 4, 1, 'none', 'length')
                f('len_des', o + 5, 1, 'none', 'length')
                f('len_src', o + 6, 1, 'none', 'length')
                f('ext_ver', o + 7, 1, 'none', 'version')
                f('ext_id', o + 8, self.u8(o + 4), 'none', 'char')
                f('ext_des', o + 8 + self.u8(o + 4), self.u8(o + 5), 'none', 'char')
                f('ext_src', o + 8 + self.u8(o + 4) + self.u8(o + 5), self.u8(o + 6), 'none', 'char')
            elif s == 'ES':
                f('extension_sequence', o + 4, 1, 'none', 'count')
            elif s == 'SF':
                b('virtual_size_high', o + 4, 4, 'length')
                b('virtual_size_low', o + 12, 4, 'length')
                f('table_depth', o + 20, 1, 'none', 'count')
            elif s == 'ST':
                break
            o += ln

    # -- El Torito -------------------------------------------------------------------------------------
    def eltorito(self, cat):
        base = cat * SECTOR
        if not self.ok(base, 64):
            return
        o = base
        st = 'eltorito_validation'
        sid = self.struct_('elval@%d' % o, st, o, o + 32)
        fx = [{'kind': 'eltorito', 'at': o}]
        f = lambda *a, **k: self.f(sid, st, *a, fix=fx, **k)
        f('header_id', o, 1, 'none', 'tag_or_magic')
        f('platform_id', o + 1, 1, 'none', 'tag_or_magic')
        f('reserved', o + 2, 2, 'le', 'tag_or_magic')
        f('id_string', o + 4, 24, 'none', 'char')
        self.f(sid, st, 'checksum', o + 28, 2, 'le', 'checksum')
        f('keybyte1', o + 30, 1, 'none', 'tag_or_magic')
        f('keybyte2', o + 31, 1, 'none', 'tag_or_magic')
        self.el_entry(o + 32, cat, 'initial')
        o += 64
        remaining = 0
        while self.ok(o, 32):
            v = self.u8(o)
            if v in (0x90, 0x91):
                st = 'eltorito_section_header'
                sid = self.struct_('elsec@%d' % o, st, o, o + 32)
                self.f(sid, st, 'header_indicator', o, 1, 'none', 'tag_or_magic')
                self.f(sid, st, 'platform_id', o + 1, 1, 'none', 'tag_or_magic')
                self.f(sid, st, 'num_section_entries', o + 2, 2, 'le', 'count')
                self.f(sid, st, 'id_string', o + 4, 28, 'none', 'char')
                remaining = self.le16(o + 2)
            elif v == 0x88 or (v == 0 and remaining > 0):
                self.el_entry(o, cat, 'section')
                remaining -= 1
            else:
                # the terminating all-zero entry: its first byte ends the catalog
                sid = self.struct_('elend@%d' % o, 'eltorito_entry', o, o + 32)
                self.f(sid, 'eltorito_entry', 'terminator', o, 1, 'none', 'tag_or_magic')
                break
            o += 32

    def el_entry(self, o, cat, which):
        st = 'eltorito_entry'
        sid = self.struct_('el%s@%d' % (which[:3], o), st, o, o + 32)
        f = lambda *a, **k: self.f(sid, st, *a, **k)
        f('boot_indicator', o, 1, 'none', 'tag_or_magic')
        f('boot_media_type', o + 1, 1, 'none', 'flags', bits=[0, 1, 2, 3, 4, 5, 6, 7])
        f('load_segment', o + 2, 2, 'le', 'count')
        f('system_type', o + 4, 1, 'none', 'tag_or_magic')
        f('unused1', o + 5, 1, 'none', 'tag_or_magic')
        f('sector_count', o + 6, 2, 'le', 'count')
        f('load_rba', o + 8, 4, 'le', 'extent_pointer',
          targets={'self': cat, 'other_structure': 16})
        f('selection_criteria_type', o + 12, 1, 'none', 'tag_or_magic')
        f('selection_criteria', o + 13, 19, 'none', 'char')

    # -- UDF (ECMA-167 / UDF bridge) ---------------------------------------------------------------------
    def tag(self, sid, o, fx, also=None):
        st = 'udf_tag'
        also = also or []
        g = lambda name, off, w, role, **k: self.f(
            sid, st, 'tag.' + name, o + off, w, 'le', role, fix=fx,
            also=[a + off for a in also], **k)
        g('ident', 0, 2, 'tag_or_magic')
        g('desc_version', 2, 2, 'version')
        self.f(sid, st, 'tag.checksum', o + 4, 1, 'none', 'checksum')
        g('reserved', 5, 1, 'tag_or_magic')
        g('serial_number', 6, 2, 'count')
        self.f(sid, st, 'tag.desc_crc', o + 8, 2, 'le', 'checksum',
               fix=[{'kind': 'udf_tag_csum_only', 'at': o}])
        g('desc_crc_length', 10, 2, 'length')
        g('location', 12, 4, 'extent_pointer', targets={})

    def tag_ok(self, o, ident=None):
        if not self.ok(o, 16):
            return False
        if ident is not None and self.le16(o) != ident:
            return False
        return (sum(self.d[o:o + 4]) + sum(self.d[o + 5:o + 16])) % 256 == self.u8(o + 4) and self.le16(o) != 0

    def udf(self):
        nsect = self.n // SECTOR
        space = self.le32(self.pvd_sector * SECTOR + 80) if self.pvd_sector else nsect
        locs = []
        for loc in (256, nsect - 1, nsect - 257, space - 1, space - 257):
            if loc not in locs and self.tag_ok(loc * SECTOR, 2):
                locs.append(loc)
        if not locs:
            return
        first = locs[0]
        offs = [l * SECTOR for l in locs]
        for i, loc in enumerate(locs):
            o = loc * SECTOR
            sid = self.struct_('udfanchor@%d' % o, 'udf_anchor', o, o + 512)
            # fields of the first anchor are changed in every anchor (a reader requires them to
            # agree); the other anchors are inventoried on their own as well.
            also = [x for x in offs if x != o] if i == 0 else []
            fx = [{'kind': 'udf_tag', 'at': x} for x in ([o] + also)]
            self.tag(sid, o, fx, also)
            g = lambda name, off, w, role, **k: self.f(
                sid, 'udf_anchor', name, o + off, w, 'le', role, fix=fx,
                also=[a + off for a in also], **k)
            tg = {'self': loc, 'other_structure': 16}
            g('main_vd_length', 16, 4, 'length')
            g('main_vd_location', 20, 4, 'extent_pointer', targets=tg)
            g('reserve_vd_length', 24, 4, 'length')
            g('reserve_vd_location', 28, 4, 'extent_pointer', targets=tg)
        o = first * SECTOR
        main = (self.le32(o + 20), self.le32(o + 16))
        reserve = (self.le32(o + 28), self.le32(o + 24))
        info = self.vds(main[0], main[1], first)
        if reserve[1] > 0:
            self.vds(reserve[0], reserve[1], first, follow=False)
        if not info:
            return
        (part_start, lvid_loc, lvid_len, fsd_lbn) = info
        self.part_start = part_start
        if lvid_len > 0:
            self.lvid(lvid_loc, lvid_len)
        self.fsd(part_start)

    def entity(self, sid, st, name, o, fx):
        self.f(sid, st, name + '.flags', o, 1, 'none', 'flags', bits=[0, 1], fix=fx)
        self.f(sid, st, name + '.identifier', o + 1, 23, 'none', 'tag_or_magic', fix=fx)
        self.f(sid, st, name + '.suffix', o + 24, 8, 'none', 'char', fix=fx)

    def timestamp(self, sid, st, name, o, fx):
        self.f(sid, st, name + '.type_tz', o, 2, 'le', 'flags', bits=[12, 13, 11, 0], fix=fx)
        self.f(sid, st, name + '.year', o + 2, 2, 'le', 'count', fix=fx)
        self.f(sid, st, name + '.month', o + 4, 1, 'none', 'count', fix=fx)
        self.f(sid, st, name + '.day', o + 5, 1, 'none', 'count', fix=fx)
        self.f(sid, st, name + '.hour', o + 6, 1, 'none', 'count', fix=fx)
        self.f(sid, st, name + '.rest', o + 7, 5, 'none', 'char', fix=fx)

    def long_ad(self, sid, st, name, o, fx, targets):
        self.f(sid, st, name + '.length', o, 4, 'le', 'length', fix=fx)
        self.f(sid, st, name + '.lbn', o + 4, 4, 'le', 'extent_pointer', fix=fx, targets=targets,
               base=getattr(self, 'part_start', 0))
        self.f(sid, st, name + '.part_ref', o + 8, 2, 'le', 'count', fix=fx)
        self.f(sid, st, name + '.impl_use', o + 10, 6, 'none', 'char', fix=fx)

    def vds(self, loc, length, anchor_loc, follow=True):
        part_start = None
        lvid = (0, 0)
        fsd_lbn = 0
        s = loc
        while (s - loc) * SECTOR < length and self.ok(s * SECTOR, 512):
            o = s * SECTOR
            if not self.tag_ok(o):
                break
            ident = self.le16(o)
            fx = [{'kind': 'udf_tag', 'at': o}]
            names = {1: 'udf_pvd', 3: 'udf_vdp', 4: 'udf_iuvd', 5: 'udf_pd', 6: 'udf_lvd', 7: 'udf_usd',
                     8: 'udf_td'}
            st = names.get(ident)
            if st is None:
                break
            sid = self.struct_('%s@%d' % (st.replace('_', ''), o), st, o, o + 512)
            self.tag(sid, o, fx)
            g = lambda name, off, w, role, **k: self.f(sid, st, name, o + off, w, 'le', role, fix=fx, **k)
            c = lambda name, off, w: self.f(sid, st, name, o + off, w, 'none', 'char', fix=fx)
            tgs = {'self': s, 'other_structure': anchor_loc}
            if ident == 8:
                break
            g('vol_desc_seqnum', 16, 4, 'count')
            if ident == 1:
                g('desc_num', 20, 4, 'count')
                c('vol_ident', 24, 32)
                g('vol_seqnum', 56, 2, 'count')
                g('max_vol_seqnum', 58, 2, 'count')
                g('interchange_level', 60, 2, 'version')
                g('max_interchange_level', 62, 2, 'version')
                g('charset_list', 64, 4, 'flags', bits=[0])
                g('max_charset_list', 68, 4, 'flags', bits=[0])
                c('vol_set_ident', 72, 128)
                g('desc_charset.type', 200, 1, 'tag_or_magic')
                c('desc_charset.info', 201, 63)
                g('explanatory_charset.type', 264, 1, 'tag_or_magic')
                c('explanatory_charset.info', 265, 63)
                g('vol_abstract_length', 328, 4, 'length')
                g('vol_abstract_extent', 332, 4, 'extent_pointer', targets=tgs)
                g('vol_copyright_length', 336, 4, 'length')
                g('vol_copyright_extent', 340, 4, 'extent_pointer', targets=tgs)
                self.entity(sid, st, 'app_ident', o + 344, fx)
                self.timestamp(sid, st, 'recording_date', o + 376, fx)
                self.entity(sid, st, 'impl_ident', o + 388, fx)
                c('impl_use', 420, 64)
                g('predecessor_vol_desc_location', 484, 4, 'extent_pointer', targets=tgs)
                g('flags', 488, 2, 'flags', bits=[0])
                g('reserved', 490, 22, 'tag_or_magic')
            elif ident == 4:
                self.entity(sid, st, 'impl_ident', o + 20, fx)
                g('lvi_charset.type', 52, 1, 'tag_or_magic')
                c('lvi_charset.info', 53, 63)
                c('log_vol_ident', 116, 128)
                c('lv_info1', 244, 36)
                c('lv_info2', 280, 36)
                c('lv_info3', 316, 36)
                self.entity(sid, st, 'impl_ident2', o + 352, fx)
                c('impl_use', 384, 128)
            elif ident == 5:
                g('part_flags', 20, 2, 'flags', bits=[0])
                g('part_num', 22, 2, 'count')
                self.entity(sid, st, 'part_contents', o + 24, fx)
                for i, nm in enumerate(('unalloc_space_table', 'unalloc_space_bitmap', 'part_integrity_table',
                                        'freed_space_table', 'freed_space_bitmap')):
                    g('header.%s.length' % nm, 56 + 8 * i, 4, 'length')
                    g('header.%s.position' % nm, 60 + 8 * i, 4, 'extent_pointer', targets=tgs)
                g('access_type', 184, 4, 'tag_or_magic')
                g('part_start_location', 188, 4, 'extent_pointer', targets=tgs)
                g('part_length', 192, 4, 'length')
                self.entity(sid, st, 'impl_ident', o + 196, fx)
                c('impl_use', 228, 128)
                g('reserved', 356, 156, 'tag_or_magic')
                if part_start is None:
                    part_start = self.le32(o + 188)
            elif ident == 6:
                g('desc_charset.type', 20, 1, 'tag_or_magic')
                c('desc_charset.info', 21, 63)
                c('logical_volume_ident', 84, 128)
                g('logical_block_size', 212, 4, 'length')
                self.entity(sid, st, 'domain_ident', o + 216, fx)
                g('lv_contents_use.length', 248, 4, 'length')
                g('lv_contents_use.lbn', 252, 4, 'extent_pointer', targets=tgs)
                g('lv_contents_use.part_ref', 256, 2, 'count')
                g('map_table_length', 264, 4, 'length')
                g('num_partition_maps', 268, 4, 'count')
                self.entity(sid, st, 'impl_ident', o + 272, fx)
                c('impl_use', 304, 128)
                g('integrity_sequence_length', 432, 4, 'length')
                g('integrity_sequence_location', 436, 4, 'extent_pointer', targets=tgs)
                g('partition_map.type', 440, 1, 'tag_or_magic')
                g('partition_map.length', 441, 1, 'length')
                g('partition_map.vol_seqnum', 442, 2, 'count')
                g('partition_map.part_num', 444, 2, 'count')
                lvid = (self.le32(o + 436), self.le32(o + 432))
                fsd_lbn = self.le32(o + 252)
            elif ident == 7:
                g('num_alloc_descriptors', 20, 4, 'count')
            elif ident == 3:
                g('next_vol_desc_seq_length', 20, 4, 'length')
                g('next_vol_desc_seq_location', 24, 4, 'extent_pointer', targets=tgs)
                break
            s += 1
        if not follow or part_start is None:
            return None
        return (part_start, lvid[0], lvid[1], fsd_lbn)

    def lvid(self, loc, length):
        o = loc * SECTOR
        if not self.tag_ok(o, 9):
            return
        st = 'udf_lvid'
        fx = [{'kind': 'udf_tag', 'at': o}]
        sid = self.struct_('udflvid@%d' % o, st, o, o + 512)
        self.tag(sid, o, fx)
        g = lambda name, off, w, role, **k: self.f(sid, st, name, o + off, w, 'le', role, fix=fx, **k)
        self.timestamp(sid, st, 'recording_date', o + 16, fx)
        g('integrity_type', 28, 4, 'tag_or_magic')
        g('next_integrity_extent_length', 32, 4, 'length')
        g('next_integrity_extent_location', 36, 4, 'extent_pointer', targets={'self': loc, 'other_structure': 256})
        g('unique_id', 40, 8, 'count')
        g('num_partitions', 72, 4, 'count')
        g('len_impl_use', 76, 4, 'length')
        g('free_space_table', 80, 4, 'count')
        g('size_table', 84, 4, 'count')
        self.entity(sid, st, 'impl_ident', o + 88, fx)
        g('num_files', 120, 4, 'count')
        g('num_dirs', 124, 4, 'count')
        g('min_udf_read_revision', 128, 2, 'version')
        g('min_udf_write_revision', 130, 2, 'version')
        g('max_udf_write_revision', 132, 2, 'version')
        if length >= 2 * SECTOR and self.tag_ok(o + SECTOR, 8):
            sid2 = self.struct_('udftd@%d' % (o + SECTOR), 'udf_td', o + SECTOR, o + SECTOR + 512)
            self.tag(sid2, o + SECTOR, [{'kind': 'udf_tag', 'at': o + SECTOR}])

    def fsd(self, part_start):
        o = part_start * SECTOR
        if not self.tag_ok(o, 256):
            return
        st = 'udf_fsd'
        fx = [{'kind': 'udf_tag', 'at': o}]
        sid = self.struct_('udffsd@%d' % o, st, o, o + 512)
        self.tag(sid, o, fx)
        g = lambda name, off, w, role, **k: self.f(sid, st, name, o + off, w, 'le', role, fix=fx, **k)
        c = lambda name, off, w: self.f(sid, st, name, o + off, w, 'none', 'char', fix=fx)
        self.timestamp(sid, st, 'recording_date', o + 16, fx)
        g('interchange_level', 28, 2, 'version')
        g('max_interchange_level', 30, 2, 'version')
        g('charset_list', 32, 4, 'flags', bits=[0])
        g('max_charset_list', 36, 4, 'flags', bits=[0])
        g('file_set_num', 40, 4, 'count')
        g('file_set_desc_num', 44, 4, 'count')
        g('log_vol_charset.type', 48, 1, 'tag_or_magic')
        c('log_vol_charset.info', 49, 63)
        c('log_vol_ident', 112, 128)
        g('file_set_charset.type', 240, 1, 'tag_or_magic')
        c('file_set_charset.info', 241, 63)
        c('file_set_ident', 304, 32)
        c('copyright_file_ident', 336, 32)
        c('abstract_file_ident', 368, 32)
        root_lbn = self.le32(o + 404)
        self.long_ad(sid, st, 'root_dir_icb', o + 400, fx, {'self': 0, 'other_structure': 1})
        self.entity(sid, st, 'domain_ident', o + 416, fx)
        self.long_ad(sid, st, 'next_extent', o + 448, fx, {'self': 0, 'other_structure': root_lbn})
        self.long_ad(sid, st, 'system_stream_dir_icb', o + 464, fx, {'self': 0, 'other_structure': root_lbn})
        if self.tag_ok(o + SECTOR, 8):
            sid2 = self.struct_('udftd@%d' % (o + SECTOR), 'udf_td', o + SECTOR, o + SECTOR + 512)
            self.tag(sid2, o + SECTOR, [{'kind': 'udf_tag', 'at': o + SECTOR}])
        seen = set()
        queue = [(root_lbn, None, '/')]
        while queue:
            (lbn, parent_lbn, path) = queue.pop(0)
            if lbn in seen:
                continue
            seen.add(lbn)
            for child in self.file_entry(lbn, parent_lbn, root_lbn, path, True):
                queue.append(child)

    def file_entry(self, lbn, parent_lbn, root_lbn, path, is_dir):
        """fields of the File Entry at partition block lbn; for a directory also its File
        Identifier Descriptors.  returns [(child directory lbn, this lbn, path)]"""
        ps = self.part_start
        o = (ps + lbn) * SECTOR
        if not self.tag_ok(o, 261):
            return []
        st = 'udf_fe'
        fx = [{'kind': 'udf_tag', 'at': o}]
        l_ea = self.le32(o + 168)
        l_ad = self.le32(o + 172)
        sid = self.struct_('udffe@%d' % o, st, o, o + 176 + l_ea + l_ad)
        self.tag(sid, o, fx)
        g = lambda name, off, w, role, **k: self.f(sid, st, name, o + off, w, 'le', role, fix=fx, path=path, **k)
        tg = {'self': lbn, 'ancestor': parent_lbn, 'other_structure': 0}
        g('icb_tag.prior_num_direct_entries', 16, 4, 'count')
        g('icb_tag.strategy_type', 20, 2, 'tag_or_magic')
        g('icb_tag.strategy_param', 22, 2, 'count')
        g('icb_tag.max_num_entries', 24, 2, 'count')
        g('icb_tag.reserved', 26, 1, 'tag_or_magic')
        g('icb_tag.file_type', 27, 1, 'tag_or_magic')
        g('icb_tag.parent_icb_lbn', 28, 4, 'extent_pointer', targets=tg, base=ps)
        g('icb_tag.parent_icb_part', 32, 2, 'count')
        g('icb_tag.flags', 34, 2, 'flags', bits=[0, 1, 2, 3, 5, 9])
        g('uid', 36, 4, 'count')
        g('gid', 40, 4, 'count')
        g('perms', 44, 4, 'flags', bits=[0, 2, 5, 10])
        g('file_link_count', 48, 2, 'count')
        g('record_format', 50, 1, 'tag_or_magic')
        g('record_display_attrs', 51, 1, 'tag_or_magic')
        g('record_len', 52, 4, 'length')
        g('info_len', 56, 8, 'length')
        g('log_blocks_recorded', 64, 8, 'count')
        self.timestamp(sid, st, 'access_time', o + 72, fx)
        self.timestamp(sid, st, 'mod_time', o + 84, fx)
        self.timestamp(sid, st, 'attr_time', o + 96, fx)
        g('checkpoint', 108, 4, 'tag_or_magic')
        self.long_ad(sid, st, 'extended_attr_icb', o + 112, fx, tg)
        self.entity(sid, st, 'impl_ident', o + 128, fx)
        g('unique_id', 160, 8, 'count')
        g('len_extended_attrs', 168, 4, 'length')
        g('len_alloc_descs', 172, 4, 'length')
        flags = self.le16(o + 34)
        adt = flags & 7
        a = o + 176 + l_ea
        out = []
        extents = []
        if adt in (0, 1):
            w = 8 if adt == 0 else 16
            k = 0
            while (k + 1) * w <= l_ad and self.ok(a + k * w, w):
                p = a + k * w
                nm = 'alloc_desc%d' % k
                self.f(sid, 'udf_ad', nm + '.length', p, 4, 'le', 'length', fix=fx, path=path)
                self.f(sid, 'udf_ad', nm + '.position', p + 4, 4, 'le', 'extent_pointer', fix=fx, path=path,
                       base=ps, targets=tg)
                if adt == 1:
                    self.f(sid, 'udf_ad', nm + '.part_ref', p + 8, 2, 'le', 'count', fix=fx, path=path)
                extents.append((self.le32(p + 4), self.le32(p) & 0x3fffffff))
                k += 1
        ftype = self.u8(o + 27)
        if ftype == 4:
            for (pos, ln) in extents:
                out += self.fids((ps + pos) * SECTOR, ln, lbn, parent_lbn, root_lbn, path)
        return out

    def fids(self, start, length, dir_lbn, parent_lbn, root_lbn, path):
        ps = self.part_start
        out = []
        o = start
        while o + 38 <= start + length and self.tag_ok(o, 257):
            l_fi = self.u8(o + 19)
            l_iu = self.le16(o + 36)
            total = (38 + l_iu + l_fi + 3) // 4 * 4
            st = 'udf_fid'
            fx = [{'kind': 'udf_tag', 'at': o}]
            sid = self.struct_('udffid@%d' % o, st, o, o + total)
            self.tag(sid, o, fx)
            chars = self.u8(o + 18)
            nm = self.d[o + 38 + l_iu + 1:o + 38 + l_iu + l_fi]
            comp = self.u8(o + 38 + l_iu) if l_fi else 8
            disp = '..' if chars & 8 else (nm.decode('latin-1') if comp == 8 else nm.decode('utf-16_be', 'replace'))
            cp = path.rstrip('/') + '/' + disp
            g = lambda name, off, w, role, **k: self.f(sid, st, name, o + off, w, 'le', role, fix=fx, path=cp, **k)
            g('file_version_num', 16, 2, 'version')
            g('file_characteristics', 18, 1, 'flags', bits=[0, 1, 2, 3, 4])
            g('len_fi', 19, 1, 'length')
            fid_lbn = (o // SECTOR) - ps
            self.long_ad(sid, st, 'icb', o + 20, fx,
                         {'self': fid_lbn, 'ancestor': dir_lbn, 'other_structure': 0})
            g('len_impl_use', 36, 2, 'length')
            if l_iu:
                self.f(sid, st, 'impl_use', o + 38, l_iu, 'none', 'char', fix=fx, path=cp)
            if l_fi:
                g('fi_compression_id', 38 + l_iu, 1, 'tag_or_magic')
                if l_fi > 1:
                    self.f(sid, st, 'fi', o + 39 + l_iu, l_fi - 1, 'none', 'char', fix=fx, path=cp)
            child = self.le32(o + 24)
            if not chars & 8:
                if chars & 2:
                    out.append((child, dir_lbn, cp))
                else:
                    self.file_entry(child, dir_lbn, root_lbn, cp, False)
            o += total
        return out

    # -- isohybrid MBR / GPT / APM ---------------------------------------------------------------------------
    def system_area(self):
        d = self.d
        if self.n < 512:
            return
        hdr = d[0:32]
        if hdr != b'\x33\xed' + b'\x90' * 30 and hdr != b'\x45\x52\x08\x00\x00\x00\x90\x90' + b'\x00' * 24:
            return
        st = 'mbr'
        sid = self.struct_('mbr@0', st, 0, 512)
        f = lambda *a, **k: self.f(sid, st, *a, **k)
        f('header', 0, 32, 'none', 'tag_or_magic')
        f('header.last', 31, 1, 'none', 'tag_or_magic')
        f('code', 32, 400, 'none', 'char')
        f('rba', 432, 4, 'le', 'extent_pointer', unit=512, targets={'self': 0, 'other_structure': 64})
        f('unused1', 436, 4, 'le', 'tag_or_magic')
        f('mbr_id', 440, 4, 'le', 'count')
        f('unused2', 444, 2, 'le', 'tag_or_magic')
        efi = False
        mac = False
        for i in range(4):
            p = 446 + 16 * i
            f('part%d.boot_flag' % (i + 1), p, 1, 'none', 'tag_or_magic')
            f('part%d.bhead' % (i + 1), p + 1, 1, 'none', 'count')
            f('part%d.bsect' % (i + 1), p + 2, 1, 'none', 'count')
            f('part%d.bcyl' % (i + 1), p + 3, 1, 'none', 'count')
            f('part%d.type' % (i + 1), p + 4, 1, 'none', 'tag_or_magic')
            f('part%d.ehead' % (i + 1), p + 5, 1, 'none', 'count')
            f('part%d.esect' % (i + 1), p + 6, 1, 'none', 'count')
            f('part%d.ecyl' % (i + 1), p + 7, 1, 'none', 'count')
            f('part%d.lba' % (i + 1), p + 8, 4, 'le', 'extent_pointer', unit=512,
              targets={'self': 0, 'other_structure': 64})
            f('part%d.size' % (i + 1), p + 12, 4, 'le', 'length')
            if i == 1 and d[p:p + 8] == b'\x00\xfe\xff\xff\xef\xfe\xff\xff':
                efi = True
            if i == 2 and d[p:p + 8] == b'\x00\xfe\xff\xff\x00\xfe\xff\xff':
                mac = True
        f('tail', 510, 2, 'none', 'tag_or_magic')
        if not efi:
            return
        self.gpt_header(512, True)
        if mac and d[2048:2050] != b'\x00\x00':
            for i in range(3):
                o = 2048 * (i + 1)
                sid = self.struct_('apm@%d' % o, 'apm', o, o + 512)
                g = lambda name, off, w, role, **k: self.f(sid, 'apm', name, o + off, w, 'be', role, **k)
                g('signature', 0, 2, 'tag_or_magic')
                g('reserved', 2, 2, 'tag_or_magic')
                g('map_count', 4, 4, 'count')
                g('start_block', 8, 4, 'extent_pointer', unit=2048, targets={'self': i + 1, 'other_structure': 16})
                g('block_count', 12, 4, 'length')
                self.f(sid, 'apm', 'name', o + 16, 32, 'none', 'char')
                self.f(sid, 'apm', 'type', o + 48, 32, 'none', 'char')
                g('data_start', 80, 4, 'extent_pointer', unit=2048, targets={'self': i + 1})
                g('data_count', 84, 4, 'length')
                g('status', 88, 4, 'flags', bits=[0, 1, 4, 5])
        hdr_o = 512
        pe = self.le64(hdr_o + 72) * 512
        nparts = self.le32(hdr_o + 80)
        self.gpt_parts(pe, nparts, 'primary')
        backup = self.le64(hdr_o + 32) * 512
        if self.ok(backup, 92) and d[backup:backup + 8] == b'EFI PART':
            self.gpt_header(backup, False)
            cur = self.le64(backup + 24)
            n2 = self.le32(backup + 80)
            self.gpt_parts(cur * 512 - n2 * 128, n2, 'secondary')

    def gpt_header(self, o, primary):
        st = 'gpt'
        sid = self.struct_('gpt@%d' % o, st, o, o + 92)
        g = lambda name, off, w, role, **k: self.f(sid, st, name, o + off, w, 'le', role, **k)
        me = o // 512
        tg = {'self': me, 'other_structure': 64}
        g('signature', 0, 8, 'tag_or_magic')
        g('revision', 8, 4, 'version')
        g('header_size', 12, 4, 'length')
        g('header_crc', 16, 4, 'checksum')
        g('reserved', 20, 4, 'tag_or_magic')
        g('current_lba', 24, 8, 'extent_pointer', unit=512, targets=tg)
        g('backup_lba', 32, 8, 'extent_pointer', unit=512, targets=tg)
        g('first_usable_lba', 40, 8, 'extent_pointer', unit=512, targets=tg)
        g('last_usable_lba', 48, 8, 'extent_pointer', unit=512, targets=tg)
        self.f(sid, st, 'disk_guid', o + 56, 16, 'none', 'char')
        g('partition_entries_lba', 72, 8, 'extent_pointer', unit=512, targets=tg)
        g('num_parts', 80, 4, 'count')
        g('size_of_partition_entry', 84, 4, 'length')
        g('partition_entries_crc', 88, 4, 'checksum')

    def gpt_parts(self, o, n, which):
        k = 0
        while k < n and self.ok(o, 128) and self.d[o:o + 2] != b'\x00\x00':
            st = 'gpt_part'
            sid = self.struct_('gptpart@%d' % o, st, o, o + 128)
            g = lambda name, off, w, role, **kw: self.f(sid, st, name, o + off, w, 'le', role, **kw)
            g('type_guid', 0, 16, 'tag_or_magic')
            self.f(sid, st, 'part_guid', o + 16, 16, 'none', 'char')
            g('first_lba', 32, 8, 'extent_pointer', unit=512, targets={'self': o // 512, 'other_structure': 64})
            g('last_lba', 40, 8, 'extent_pointer', unit=512, targets={'self': o // 512, 'other_structure': 64})
            g('attributes', 48, 8, 'flags', bits=[0, 1, 2, 60])
            self.f(sid, st, 'name', o + 56, 72, 'none', 'char')
            o += 128
            k += 1


def _walk(data):
    inv = _Inv(bytes(data)).run()
    # ids are unique by construction (struct ids are), keep first of any accidental duplicate
    seen = set()
    out = []
    for fld in inv.fields:
        if fld['id'] in seen:
            continue
        seen.add(fld['id'])
        out.append(fld)
    return out, inv.structs


def inventory(data):
    """every field of every structure a reader follows; see the module docstring."""
    return _walk(data)[0]


def structures(data):
    return _walk(data)[1]


def summary(fields):
    by = {}
    for f in fields:
        by.setdefault(f['structure'], {}).setdefault(f['role'], 0)
        by[f['structure']][f['role']] += 1
    return by


if __name__ == '__main__':
    import json
    import sys
    with open(sys.argv[1], 'rb') as fh:
        flds, sts = _walk(fh.read())
    print(json.dumps({'fields': len(flds), 'structures': len(sts), 'by': summary(flds)}, indent=1, sort_keys=True))
