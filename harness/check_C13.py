"""C13: the core-model part (duplicates, illegal/too deep names refused at the edit, unique names in
every projection) plus the name probes (character-class identifiers x level x kind enumerated by TLC,
offered to the real add_fp/add_directory, judged by TLC against NameRules)."""
import sys

import det
det.install()
import checklib      # noqa: E402
import check_core    # noqa: E402


def run(ctx):
    check_core.run_for('C13')(ctx)
    import check_C18
    items, fails, stats = check_C18.probe_names(ctx, ctx.tier, ctx.seed)
    ctx.coverage['name_probes'] = {k: v for k, v in stats.items() if k != 'classes'}
    ctx.coverage['name_probe_classes'] = stats.get('classes', {})
    ctx.coverage['traces_validated_against_impl'] = ctx.coverage.get('traces_validated_against_impl', 0) + len(items)
    st = stats.get('tlc_enumeration', {})
    if isinstance(st, dict):
        ctx.coverage['states'] = ctx.coverage.get('states', 0) + int(st.get('distinct', st.get('states', 0)) or 0)
        ctx.coverage['transitions'] = ctx.coverage.get('transitions', 0) + int(st.get('generated', st.get('transitions', 0)) or 0)
    for f in fails:
        sig = dict(f['sig'], property='C13')
        ctx.violation(sig, f['detail'], f['replay'])
    if items:
        ctx.sample({'name_probe': {k: items[0].get(k) for k in list(items[0])[:8]}})


if __name__ == '__main__':
    sys.exit(checklib.main('C13', 'model_checking', run))
