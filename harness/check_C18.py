"""C18 - derived names: the mangling helpers return legal, accepted, stable identifiers and the
facades address the same entry through them.  Also the enumerator of the naming half of C13
(probe_names): an identifier that breaks a naming rule is refused at the edit.

1. Model level: TLC explores spec/MC_mangle.tla (bounded instance of spec/Mangle.tla, the helpers
   transcribed over character classes incl. classes whose upper-casing changes the length) and
   evaluates MangledIsLegal / MangledFitsLevelLength / FixpointOnLegal on what the transcription
   derives; a failing case is a design-level counterexample.  Every state is emitted.
2. Implementation level: every emitted case (quick: a seeded subsample) is realised and run
   through the real helpers, the result is offered to the real add_fp/add_directory, and a
   subsample goes through the four facades (add by name, read back by name, look up absent
   names, master).  TLC (spec/Judge_Mangle.tla) evaluates the clauses on the real results and
   compares the real result with the model's (binding).  Python decides nothing.
"""
import det
det.install()

import io
import zlib
import json
import multiprocessing
import os
import random
import sys

import checklib
import judge
import tlc

PID = 'C18'

MC_CFG = '''SPECIFICATION %(spec)s
CONSTANTS
 Fills = {%(fills)s}
 Levels = {1, 2, 3, 4}
 PairLen = %(PairLen)d
 CoreLen = %(CoreLen)d
 BodyLen = %(BodyLen)d
 CoreBodyLen = %(CoreBodyLen)d
%(inv)s
CHECK_DEADLOCK FALSE
'''

# fill lengths: around the truncation limits 8 / 30 / 31 and the extension limit 3
MANGLE_FILLS = (0, 2, 3, 6, 7, 8, 27, 28, 29, 30)

PAYLOAD = b'payload of the entry under test\n'
SIBLING = b'sibling\n'


def _cp(s):
    return [ord(c) for c in s]


def _str(cps):
    return ''.join(chr(c) for c in cps)


# ----------------------------------------------------------------------------------------------
# TLC enumeration
# ----------------------------------------------------------------------------------------------
def _mc_shard(args):
    spec, fills, params = args
    cfg = MC_CFG % dict(params, spec=spec, fills=', '.join(str(f) for f in fills),
                        inv='INVARIANT CharsetOK' if spec == 'Spec' else '')
    out, st = tlc.run_tlc('MC_mangle', cfg, workers=1, timeout=1500, heap='3g')
    tlc.need_ok(out, st, 'MC_mangle/%s%r' % (spec, fills))
    cases, upper = [], {}
    for tag, v in tlc.tagged_lines(out):
        if tag in ('CASE', 'PROBE'):
            cases.append(v)
        elif tag == 'UPPER':
            upper[v['c']] = v['u']
    return st, cases, upper


def enumerate_with_tlc(spec, groups):
    """groups: list of (fills, params).  -> cases, stats, upper table"""
    t0 = det.real_time()
    with multiprocessing.get_context('fork').Pool(min(14, len(groups))) as pool:
        rs = pool.map(_mc_shard, [(spec, f, p) for f, p in groups])
    cases, upper = [], {}
    distinct = generated = 0
    for st, cs, up in rs:
        distinct += st['distinct']
        generated += st['generated']
        cases += cs
        upper.update(up)
    return cases, {'distinct': distinct, 'generated': generated, 'jvms': len(groups),
                   'wall_s': round(det.real_time() - t0, 1)}, upper


def check_upper_table(upper):
    """binding of Mangle!Upper to Python's own str.upper()"""
    for c, u in sorted(upper.items()):
        if _cp(chr(c).upper()) != u:
            raise RuntimeError('Mangle!Upper(%d) = %r but str.upper() gives %r' % (c, u, _cp(chr(c).upper())))
    if len(upper) < 10:
        raise RuntimeError('MC_mangle did not print its case-mapping table')


# ----------------------------------------------------------------------------------------------
# the real code
# ----------------------------------------------------------------------------------------------
def klass(f):
    import pycdlib
    try:
        f()
        return 'ok'
    except pycdlib.pycdlibexception.PyCdlibInvalidInput:
        return 'InvalidInput'
    except Exception as e:  # pylint: disable=broad-except
        return 'Other:' + type(e).__name__


_ACC = {}


def accept(level, kind, name, with_write=False):
    """result class of offering identifier `name` to the real add on a new image of that level"""
    import pycdlib
    key = (level, kind, name, with_write)
    if key in _ACC:
        return _ACC[key]
    iso = pycdlib.PyCdlib()
    iso.new(interchange_level=level)
    if kind == 'file':
        res = klass(lambda: iso.add_fp(io.BytesIO(b'x'), 1, '/' + name))
    else:
        res = klass(lambda: iso.add_directory('/' + name))
    wres = '-'
    if with_write and res == 'ok':
        wres = klass(lambda: iso.write_fp(io.BytesIO()))
    try:
        iso.close()
    except Exception:  # pylint: disable=broad-except
        pass
    _ACC[key] = (res, wres)
    return _ACC[key]


def derive(src, level, kind):
    """the REAL helpers -> (list of identifiers, exception type or '')"""
    from pycdlib import utils
    try:
        if kind == 'dir':
            return [utils.mangle_dir_for_iso9660(src, level)], ''
        b, e = utils.mangle_file_for_iso9660(src, level)
        return ['.'.join([b, e]), b if e == '' else '.'.join([b, e])], ''
    except Exception as e:  # pylint: disable=broad-except
        return [], type(e).__name__


def mangle_item(iid, src, level, kind, model):
    outs, raised = derive(src, level, kind)
    return {'id': iid, 't': 'mangle', 'src': _cp(src), 'level': level, 'kind': kind,
            'outs': [_cp(o) for o in outs], 'raised': raised,
            'accepted': [accept(level, kind, o)[0] for o in outs], 'model': model}


def _mangle_chunk(chunk):
    return [mangle_item(*a) for a in chunk]


# --- facades ---------------------------------------------------------------------------------
HI = '/\U0010fffdabsent'      # sorts after every name
LO = '/!absent'               # sorts before every name used here


def _facade_generic(iid, fac, src, level, kind, out, make):
    """make() -> (iso, facade, sibling_adder, add, get) closures; fills one facade item"""
    item = {'id': iid, 't': 'facade', 'fac': fac, 'src': _cp(src), 'level': level, 'kind': kind,
            'out': _cp(out), 'add': '-', 'get': '-', 'same': False, 'write': '-', 'miss_lo': '-',
            'miss_hi': '-'}
    box = {}
    try:
        iso, add, get, miss = make(box)
    except Exception as e:  # pylint: disable=broad-except
        item['add'] = 'Other:setup:' + type(e).__name__
        return item
    item['add'] = klass(add)
    if item['add'] == 'ok':
        item['get'] = klass(get)
        item['same'] = bool(box.get('same'))
        item['miss_lo'] = klass(lambda: miss(LO))
        item['miss_hi'] = klass(lambda: miss(HI))
        item['write'] = klass(lambda: iso.write_fp(io.BytesIO()))
    try:
        iso.close()
    except Exception:  # pylint: disable=broad-except
        pass
    return item


def facade_items(idp, src, level, kind):
    import pycdlib
    outs, _ = derive(src, level, kind)
    out = outs[0] if outs else ''
    items = []

    def rr(box):
        iso = pycdlib.PyCdlib()
        if zlib.crc32(idp.encode()) % 2:
            # the object (and the facade made for it) had another image before, at another
            # interchange level: the names the facade derives belong to the image of now
            iso.new(interchange_level={1: 3, 2: 4, 3: 1, 4: 2}[level], rock_ridge='1.09')
            f = iso.get_rock_ridge_facade()
            iso.close()
            iso.new(interchange_level=level, rock_ridge='1.09')
        else:
            iso.new(interchange_level=level, rock_ridge='1.09')
            f = iso.get_rock_ridge_facade()
        f.add_fp(io.BytesIO(SIBLING), len(SIBLING), '/q-sibling', None)

        def add():
            if kind == 'file':
                f.add_fp(io.BytesIO(PAYLOAD), len(PAYLOAD), '/' + src, None)
            else:
                f.add_directory('/' + src, None)

        def get():
            rec = f.get_record('/' + src)
            ok = rec.rock_ridge is not None and rec.rock_ridge.name() == src.encode('utf-8')
            # the entry found by its derived ISO9660 path is the same object
            ok = ok and iso.get_record(iso_path='/' + out) is rec
            if kind == 'file':
                o = io.BytesIO()
                f.get_file_from_iso_fp(o, '/' + src)
                ok = ok and o.getvalue() == PAYLOAD and rec.is_file()
            else:
                ok = ok and rec.is_dir()
            box['same'] = ok
        return iso, add, get, f.get_record
    items.append(_facade_generic(idp + '/rr', 'rr', src, level, kind, out, rr))

    # ISO9660 facade on a Rock Ridge image: the user gives a legal ISO9660 name (the one the
    # helper derived, if the library takes it), the library derives the Rock Ridge name
    if outs and accept(level, kind, out)[0] == 'ok':
        def isof(box):
            iso = pycdlib.PyCdlib()
            iso.new(interchange_level=level, rock_ridge='1.09')
            fi = iso.get_iso9660_facade()
            fr = iso.get_rock_ridge_facade()
            fi.add_fp(io.BytesIO(SIBLING), len(SIBLING), '/QSIB.;1')

            def add():
                if kind == 'file':
                    fi.add_fp(io.BytesIO(PAYLOAD), len(PAYLOAD), '/' + out)
                else:
                    fi.add_directory('/' + out)

            def get():
                rec = fi.get_record('/' + out)
                rrname = rec.rock_ridge.name().decode('utf-8')
                box['rrname'] = rrname
                ok = fr.get_record('/' + rrname) is rec
                if kind == 'file':
                    o = io.BytesIO()
                    fr.get_file_from_iso_fp(o, '/' + rrname)
                    ok = ok and o.getvalue() == PAYLOAD
                else:
                    ok = ok and rec.is_dir()
                box['same'] = ok
            return iso, add, get, fr.get_record
        it = _facade_generic(idp + '/iso', 'iso', out, level, kind, '', isof)
        items.append(it)

    def secondary(which):
        def make(box):
            iso = pycdlib.PyCdlib()
            if which == 'joliet':
                iso.new(interchange_level=level, joliet=3)
                f = iso.get_joliet_facade()
            else:
                iso.new(interchange_level=level, udf='2.60')
                f = iso.get_udf_facade()
            f.add_fp(io.BytesIO(SIBLING), len(SIBLING), '/q-sibling')

            def add():
                if kind == 'file':
                    f.add_fp(io.BytesIO(PAYLOAD), len(PAYLOAD), '/' + src)
                else:
                    f.add_directory('/' + src)

            def get():
                rec = f.get_record('/' + src)
                if kind == 'file':
                    o = io.BytesIO()
                    f.get_file_from_iso_fp(o, '/' + src)
                    box['same'] = o.getvalue() == PAYLOAD and rec.is_file()
                else:
                    box['same'] = rec.is_dir()
            return iso, add, get, f.get_record
        return make
    items.append(_facade_generic(idp + '/joliet', 'joliet', src, level, kind, '', secondary('joliet')))
    items.append(_facade_generic(idp + '/udf', 'udf', src, level, kind, '', secondary('udf')))
    return items


def _facade_chunk(chunk):
    out = []
    for a in chunk:
        out += facade_items(*a)
    return out


def _pool_map(fn, work, nchunk=64):
    if not work:
        return []
    chunks = [work[k::nchunk] for k in range(nchunk)]
    chunks = [c for c in chunks if c]
    with multiprocessing.get_context('fork').Pool(min(14, len(chunks))) as pool:
        rs = pool.map(fn, chunks)
    out = []
    for r in rs:
        out += r
    return out


# ----------------------------------------------------------------------------------------------
# verdicts
# ----------------------------------------------------------------------------------------------
def split_names(names):
    """names printed by the judge -> (clauses, {clause: [why tags]}, {clause: [res tags]}, stats, binds)"""
    clauses = sorted(n for n in names if ':' not in n)
    whys, ress = {}, {}
    for n in names:
        if n.startswith('why:') or n.startswith('res:'):
            pre, c, tag = n.split(':', 2)
            (whys if pre == 'why' else ress).setdefault(c, []).append(tag)
    stats = [n[5:] for n in names if n.startswith('stat:')]
    binds = [n[5:] for n in names if n.startswith('bind:')]
    return clauses, whys, ress, stats, binds


def sigs_of(names, level, kind, stage, extra=None):
    """one signature per failing clause: clause, level, kind, stage, cause (the circumstance TLC
    diagnosed, tags joined by '+', 'none' if it found none), res (what the code did)"""
    clauses, whys, ress, _, _ = split_names(names)
    for c in clauses:
        sig = {'clause': c, 'level': level, 'kind': kind, 'stage': stage,
               'cause': '+'.join(sorted(whys.get(c, []))) or 'none',
               'res': '+'.join(sorted(ress.get(c, []))) or '-'}
        w = whys.get(c, [])
        if c in ('IllegalIsRefusedAtEdit', 'AcceptedNameMasters', 'NoForeignException'):
            sig['version_not_numeric'] = 'VersionNotNumeric' in w
            sig['does_not_fit_record'] = 'DoesNotFitDirectoryRecord' in w
        if extra:
            sig.update(extra)
        yield sig


# ----------------------------------------------------------------------------------------------
# C13 (a): acceptance probes
# ----------------------------------------------------------------------------------------------
def _probe_chunk(chunk):
    out = []
    for (iid, name, level, kind) in chunk:
        res, wres = accept(level, kind, name, with_write=True)
        out.append({'id': iid, 't': 'probe', 'name': _cp(name), 'level': level, 'kind': kind,
                    'res': res, 'write_res': wres})
    return out


def _rrmiss_items():
    import pycdlib
    items = []
    n = 0
    for children in ([], ['foo'], ['bar', 'foo'], ['a', 'b', 'c']):
        for absent in ('zzz', 'aaa', 'car', 'foo1', 'fo', '~', '0'):
            if absent in children:
                continue
            iso = pycdlib.PyCdlib()
            iso.new(rock_ridge='1.09')
            for k, c in enumerate(children):
                iso.add_fp(io.BytesIO(b'x'), 1, '/F%d.;1' % k, rr_name=c)
            res = klass(lambda: iso.get_record(rr_path='/' + absent))
            iso.close()
            items.append({'id': 'rrmiss%d' % n, 't': 'rrmiss', 'name': _cp(absent),
                          'children': [_cp(c) for c in children], 'res': res})
            n += 1
    return items


def probe_names(ctx_like, tier, seed):
    """The accept-probe enumeration of C13 (a).

    TLC (MC_mangle!ProbeSpec) enumerates identifiers body x fill x version class x level x
    {file, dir}; each is offered to the real add_fp/add_directory (then write_fp); TLC
    (Judge_Mangle) computes the legality from NameRules and evaluates IllegalIsRefusedAtEdit,
    NoForeignException, AcceptedNameMasters, and AbsentNameIsRefused for Rock Ridge lookups.

    -> (items, fails, stats); fails is a list of {'sig', 'detail', 'replay'} ready for
    ctx.violation(sig, detail, replay) (sig: clause, level, kind, why = sorted diagnosis tags).
    """
    quick = tier == 'quick'
    rnd = random.Random(seed * 104729 + 13)
    short = {'PairLen': 2, 'CoreLen': 3, 'BodyLen': 3 if quick else 4, 'CoreBodyLen': 4 if quick else 5}
    mid = {'PairLen': 2, 'CoreLen': 3, 'BodyLen': 2 if quick else 3, 'CoreBodyLen': 3 if quick else 4}
    lng = {'PairLen': 2, 'CoreLen': 3, 'BodyLen': 1, 'CoreBodyLen': 1 if quick else 2}
    groups = [((0,), short), ((6,), mid), ((7,), mid), ((8,), mid),
              ((173, 180, 181), lng), ((205, 206, 207), lng), ((253, 254, 255), lng)]
    cases, mstats, _ = enumerate_with_tlc('ProbeSpec', groups)
    cap = 120000 if quick else 1500000
    if len(cases) > cap:
        cases = rnd.sample(cases, cap)
    work = []
    for k, v in enumerate(cases):
        body, fill = _str(v['b']), 'A' * v['n']
        name = (body + fill if v['front'] else fill + body) + _str(v['v'])
        work.append(('p%d' % k, name, v['l'], v['k']))
    t0 = det.real_time()
    items = _pool_map(_probe_chunk, work) + _rrmiss_items()
    t_impl = det.real_time() - t0
    t0 = det.real_time()
    verdicts, _ = judge.judge_sharded('Judge_Mangle', items, shards=12)
    byid = dict((it['id'], it) for it in items)
    fails = []
    stats = {'probes': len(work), 'rr_lookups': len(items) - len(work), 'tlc_enumeration': mstats,
             'impl_s': round(t_impl, 1), 'judge_s': round(det.real_time() - t0, 1), 'classes': {},
             'over_refused': 0}
    for iid, names in sorted(verdicts.items()):
        it = byid[iid]
        _, _, _, st, _ = split_names(names)
        for s in st:
            if s == 'OverRefused':
                stats['over_refused'] += 1
            else:
                stats['classes'][s] = stats['classes'].get(s, 0) + 1
        for sig in sigs_of(names, it.get('level', 0), it.get('kind', 'rr'), 'impl'):
            name = _str(it['name'])
            fails.append({'sig': sig,
                          'detail': {'item': it, 'name': name, 'failing': sorted(names)},
                          'replay': {'probe': it['t'], 'name': name, 'level': it.get('level'),
                                     'kind': it.get('kind'), 'children': it.get('children')}})
    if ctx_like is not None and hasattr(ctx_like, 'note'):
        ctx_like.note('name_probes', len(work))
    return items, fails, stats


# ----------------------------------------------------------------------------------------------
def run(ctx):
    quick = ctx.tier == 'quick'
    rnd = random.Random(ctx.seed * 15485863 + 18)
    params = {'PairLen': 2, 'CoreLen': 3 if quick else 4, 'BodyLen': 1, 'CoreBodyLen': 1}
    small = dict(params, CoreLen=2)
    # quick: the 3-character core strings only around one fill per limit
    groups = [((f,), params if (not quick or f in (0, 3, 8, 30)) else small) for f in MANGLE_FILLS]
    cases, mstats, upper = enumerate_with_tlc('Spec', groups)
    check_upper_table(upper)
    print('MC_mangle: %d JVMs, %d distinct states, %d cases (source name x level x kind), %.1f s'
          % (mstats['jvms'], mstats['distinct'], len(cases), mstats['wall_s']), flush=True)
    if not cases:
        raise RuntimeError('MC_mangle emitted no cases')

    # ---- model-level counterexamples
    model_fail = {}
    for v in cases:
        if v['f']:
            for sig in sigs_of(v['f'], v['l'], v['k'], 'model'):
                key = json.dumps(sig, sort_keys=True)
                model_fail.setdefault(key, [sig, 0, v])
                model_fail[key][1] += 1
    ctx.note('model_cases_failing', sum(1 for v in cases if v['f']))

    # ---- implementation: helpers + acceptance on every case (quick: sample), facades on a sample
    def src_of(v):
        return _str(v['a']) + 'A' * v['n'] + _str(v['b'])
    want = 20000 if quick else 300000
    failing = [v for v in cases if v['f']]
    passing = [v for v in cases if not v['f']]
    pick = cases if len(cases) <= want else (
        rnd.sample(failing, min(len(failing), want // 3)) + rnd.sample(passing, want - min(len(failing), want // 3)))
    work = [('m%d' % k, src_of(v), v['l'], v['k'], v['out']) for k, v in enumerate(pick)]
    # sources outside the model alphabet: other representatives of the classes, random Unicode
    alt = 'BzZ09qQ_-+~$%&\'()!#@^`{}[], \t\x7f\x01àÿµǆǰﬁẞİıſΣς̀ͅ‍😀𝔘𐐨中あ'
    extra = []
    for k in range(1500 if quick else 30000):
        ln = rnd.choice((1, 2, 3, 5, 8, 9, 12, 30, 31, 32, 40))
        s = ''.join(rnd.choice(alt + 'aA.;') for _ in range(ln))
        if s in ('.', '..'):
            continue
        extra.append(('x%d' % k, s, rnd.randint(1, 4), rnd.choice(('file', 'dir')), []))
    t0 = det.real_time()
    items = _pool_map(_mangle_chunk, work + extra)
    fwant = 600 if quick else 10000
    fpick = rnd.sample(work + extra, min(fwant, len(work) + len(extra)))
    fitems = _pool_map(_facade_chunk, [('f' + a[0], a[1], a[2], a[3]) for a in fpick])
    print('implementation: %d sources through the helpers and add_fp/add_directory, %d through the '
          'facades (%d facade runs), %.1f s' % (len(items), len(fpick), len(fitems), det.real_time() - t0),
          flush=True)

    # ---- TLC judges
    t0 = det.real_time()
    allitems = items + fitems
    verdicts, _ = judge.judge_sharded('Judge_Mangle', allitems, shards=12)
    print('Judge_Mangle: %d observations judged, %d with failing clauses, %.1f s'
          % (len(allitems), len(verdicts), det.real_time() - t0), flush=True)
    byid = dict((it['id'], it) for it in allitems)
    drift = []
    agg = {}
    for iid, names in sorted(verdicts.items()):
        it = byid[iid]
        _, _, _, _, binds = split_names(names)
        if binds:
            drift.append(iid)
        extra_sig = {'fac': it['fac']} if it['t'] == 'facade' else None
        for sig in sigs_of(names, it['level'], it['kind'], 'impl', extra_sig):
            ctx.note('failing_impl_' + sig['clause'])
            agg[json.dumps(sig, sort_keys=True)] = agg.get(json.dumps(sig, sort_keys=True), 0) + 1
            src = _str(it['src'])
            ctx.violation(sig, {'item': it, 'src': src, 'failing': sorted(names),
                                'outs': [_str(o) for o in it.get('outs', [])] or _str(it.get('out', []))},
                          {'t': it['t'], 'src': src, 'level': it['level'], 'kind': it['kind'],
                           'fac': it.get('fac')})
    # model-level counterexamples are reported unless the transcription has drifted from the code
    ctx.note('sources_where_model_and_code_agree',
             sum(1 for it in items if it['model']) - len(drift))
    if drift:
        it = byid[drift[0]]
        print('NOTE: spec/Mangle.tla no longer transcribes the helpers (%d of %d modelled sources '
              'differ, first src=%r level=%d %s: code %r, model %r): model-level result ignored; '
              'update Mangle.tla' % (len(drift), sum(1 for i in items if i['model']), _str(it['src']),
                                     it['level'], it['kind'], [_str(o) for o in it['outs']],
                                     [_str(o) for o in it['model']]), flush=True)
    else:
        for key, (sig, n, v) in sorted(model_fail.items()):
            ctx.note('failing_model_' + sig['clause'], n)
            agg[key] = n
            ctx.violation(sig, 'MC_mangle: %d cases, first src=%r level=%d %s -> %r'
                          % (n, src_of(v), v['l'], v['k'], [_str(o) for o in v['out']]),
                          {'model': 'MC_mangle', 'src': src_of(v), 'level': v['l'], 'kind': v['k']})

    for it in items[:2] + fitems[:2] + items[-1:]:
        ctx.sample(it)
    ctx.coverage.update({
        'states': mstats['distinct'],
        'transitions': len(cases),
        'traces_validated_against_impl': len(items) + len(fpick),
        'exhaustive': False,
        'failing_signatures': [[n, json.loads(k)] for k, n in sorted(agg.items())],
        'model_transcription_matches_code': not drift,
        'model': {'module': 'MC_mangle', 'stats': mstats, 'params': params, 'fills': list(MANGLE_FILLS),
                  'bounds': 'sources w1 + "A"*n + w2: all (w1, w2) with |w1|+|w2| <= 2 over 15 character '
                            'classes and = 3%s over 7 core classes%s; n in fills; x level 1-4 x {file, dir}; '
                            'source lengths 1..%d' % ('' if quick else '..4',
                                                      ' (quick: for n in 0, 3, 8, 30)' if quick else '',
                                                      30 + params['CoreLen'])},
        'implementation': {'helper_and_acceptance_cases': len(items), 'of_which_outside_model_alphabet': len(extra),
                           'facade_sources': len(fpick), 'facade_runs': len(fitems),
                           'observations_failing': len(verdicts)},
        'rule': 'a case is (source name, level, file|dir); TLC enumerates them; a case is judged by TLC '
                '(Judge_Mangle) on what the real helpers returned and what the real add/facades did',
    })
    ctx.assumptions += [
        'a source name is a path component: not empty, not "." or "..", without "/" and NUL',
        '"already legal" = a legal identifier of the level without version and within the ECMA-119 length '
        'of the level; "equal" = same name and extension (FOO and FOO. are one identifier), version none or 1',
        'two different sources deriving the same identifier are not a C18 matter (no numbering promised)',
    ]


if __name__ == '__main__':
    if '--probe' in sys.argv:
        tier = 'thorough' if 'thorough' in sys.argv else 'quick'
        its, fls, sts = probe_names(None, tier, 0)
        agg = {}
        for f in fls:
            k = json.dumps(f['sig'], sort_keys=True)
            agg.setdefault(k, [0, f['detail']['name'][:40], f['detail']['item'].get('res')])
            agg[k][0] += 1
        print(json.dumps(sts, indent=1, sort_keys=True))
        for k in sorted(agg):
            print(agg[k], k)
        sys.exit(0)
    sys.exit(checklib.main(PID, 'model_checking', run))
