"""Common plumbing of every check: tiers, seeds, evidence, known findings, verdict lines.

A check module (harness/check_<ID>.py) exposes run(ctx) and reports through ctx:
    ctx.violation(signature, detail, replay)   a clause of the property statement is false
    ctx.note(key, n=1)                          counters that go into the evidence
    ctx.coverage[...]                           evidence coverage keys
Exit codes: 0 held (KNOWN-FINDING lines allowed), 1 violation, 2 machinery failure.
"""
import hashlib
import json
import os
import sys
import time
import traceback

VERIF = os.path.dirname(os.path.dirname(os.path.abspath(__file__)))
REPO = os.environ.get('VERIF_REPO', '/repo')
# (VERIF_EVIDENCE_DIR: sensitivity runs against scratch worktrees must not overwrite the evidence of /repo)
EVID = os.environ.get('VERIF_EVIDENCE_DIR') or os.path.join(VERIF, 'evidence')
KNOWN = os.path.join(VERIF, 'known_findings.json')

try:
    from det import real_time as _now
except ImportError:  # pragma: no cover
    _now = time.time


def repo_digest():
    """SHA-256 over the library and tool sources of the working tree (cache key)."""
    h = hashlib.sha256()
    for sub in ('pycdlib', 'tools'):
        d = os.path.join(REPO, sub)
        for root, dirs, files in sorted(os.walk(d)):
            dirs[:] = sorted(x for x in dirs if x != '__pycache__')
            for f in sorted(files):
                if f.endswith('.pyc'):
                    continue
                p = os.path.join(root, f)
                h.update(p.encode())
                with open(p, 'rb') as fh:
                    h.update(fh.read())
    return h.hexdigest()


def load_known():
    """open findings from known_findings.json and known_findings.d/*.json (committed; never
    written at run time)."""
    paths = [KNOWN]
    d = os.path.join(VERIF, 'known_findings.d')
    if os.path.isdir(d):
        paths += [os.path.join(d, f) for f in sorted(os.listdir(d)) if f.endswith('.json')]
    out = []
    for p in paths:
        if not os.path.exists(p):
            continue
        with open(p) as f:
            doc = json.load(f)
        out += [k for k in doc.get('findings', []) if k.get('status') == 'open']
    return out


def sig_matches(pattern, sig):
    """pattern: dict of field -> value | list of values | {"any_of": [...]} ; sig: dict."""
    for k, v in pattern.items():
        s = sig.get(k)
        if isinstance(v, list):
            if isinstance(s, list):
                if not set(s) <= set(v):
                    return False
            elif s not in v:
                return False
        elif isinstance(s, list):
            if s != [v]:
                return False
        elif s != v:
            return False
    return True


class Ctx(object):
    def __init__(self, pid, tier, seed, level):
        self.pid = pid
        self.tier = tier
        self.seed = seed
        self.level = level
        self.t0 = _now()
        self.coverage = {}
        self.assumptions = []
        self.counters = {}
        self.viol = []        # unlisted violations
        self.known_hits = {}  # finding id -> count
        self.known = [k for k in load_known() if k['property'] == pid]
        self.replay_dir = os.path.join(EVID, 'replays', pid)
        if os.path.isdir(self.replay_dir):      # replays of an earlier run are stale
            for f in os.listdir(self.replay_dir):
                if f.startswith('v') and f.endswith('.json'):
                    os.unlink(os.path.join(self.replay_dir, f))
        self.samples = []

    def note(self, key, n=1):
        self.counters[key] = self.counters.get(key, 0) + n

    def sample(self, s, limit=5):
        if len(self.samples) < limit:
            self.samples.append(s)

    def violation(self, sig, detail, replay_obj):
        """sig: dict identifying what failed (clause, act, why, ...), in model terms."""
        for k in self.known:
            if sig_matches(k['signature'], sig):
                self.known_hits[k['id']] = self.known_hits.get(k['id'], 0) + 1
                return False
        if len(self.viol) < 200:
            self.viol.append((sig, detail, replay_obj))
        else:
            self.note('violations_not_listed')
        return True

    def finish(self):
        os.makedirs(EVID, exist_ok=True)
        wall = round(_now() - self.t0, 2)
        cov = dict(self.coverage)
        cov.setdefault('samples', self.samples or ['(none recorded)'])
        cov['counters'] = self.counters
        cov['known_findings_hit'] = self.known_hits
        ev = {'property_id': self.pid, 'tier': self.tier, 'seed': self.seed, 'level': self.level,
              'coverage': cov, 'assumptions': self.assumptions, 'wall_s': wall,
              'violations': len(self.viol)}
        with open(os.path.join(EVID, self.pid + '.json'), 'w') as f:
            json.dump(ev, f, indent=1, sort_keys=True, default=str)
        for k in self.known:
            if k['id'] in self.known_hits:
                print('KNOWN-FINDING: property=%s %s (%s; %d observations)' % (
                    self.pid, k['id'], k['what'], self.known_hits[k['id']]))
        if self.viol:
            os.makedirs(self.replay_dir, exist_ok=True)
            seen = set()
            n = 0
            for (sig, detail, rep) in self.viol:
                key = json.dumps(sig, sort_keys=True)
                if key in seen:
                    continue
                seen.add(key)
                n += 1
                path = os.path.join(self.replay_dir, 'v%03d.json' % n)
                with open(path, 'w') as f:
                    json.dump({'property': self.pid, 'signature': sig, 'detail': detail,
                               'replay': rep}, f, indent=1, default=str)
                print('VIOLATION property=%s replay=%s' % (self.pid, path))
                print('  signature: %s' % key)
                if n >= 25:
                    break
            return 1
        return 0


def main(pid, level, run):
    import argparse
    ap = argparse.ArgumentParser()
    ap.add_argument('--tier', default=os.environ.get('VERIF_TIER', 'quick'))
    ap.add_argument('--seed', type=int, default=int(os.environ.get('VERIF_SEED', '0') or 0))
    ap.add_argument('--replay', default=None)
    args = ap.parse_args(sys.argv[2:] if len(sys.argv) > 1 and not sys.argv[1].startswith('-') else sys.argv[1:])
    if args.tier not in ('quick', 'thorough'):
        args.tier = 'quick'
    ctx = Ctx(pid, args.tier, args.seed, level)
    ctx.replay = args.replay
    try:
        run(ctx)
    except Exception:  # pylint: disable=broad-except
        traceback.print_exc()
        print('MACHINERY-FAILURE property=%s' % pid)
        return 2
    return ctx.finish()
