"""Run a Judge_<X>.tla module over a list of observations; TLC evaluates the clauses."""
import json
import multiprocessing
import os
import tempfile

import tlc

JUDGE_CFG = 'SPECIFICATION JSpec\nCHECK_DEADLOCK FALSE\n'


def judge(module, items, timeout=3600, aux_modules=None, heap='3g'):
    """items: list of dicts with 'id'.  returns {id: [failing clause names]} for failing ones."""
    if not items:
        return {}, {'generated': 0, 'distinct': 0}
    fd, path = tempfile.mkstemp(prefix='verif-obs-', suffix='.json')
    try:
        with os.fdopen(fd, 'w') as f:
            json.dump({'items': items}, f)
        out, stats = tlc.run_tlc(module, JUDGE_CFG, workers=1, env={'OBS_FILE': path},
                                 timeout=timeout, heap=heap, aux_modules=aux_modules)
    finally:
        os.unlink(path)
    fails = {}
    done = None
    for tag, val in tlc.tagged_lines(out):
        if tag == 'DIAG':
            fails[val['id']] = sorted(val['clauses'])
        elif tag == 'DONE':
            done = val['n']
    tlc.need_ok(out, stats, module)
    if done != len(items):
        raise tlc.TlcError('%s judged %s of %d observations' % (module, done, len(items)))
    return fails, stats


def _judge_star(args):
    return judge(*args)


def judge_sharded(module, items, shards=8, aux_modules=None):
    if len(items) < 64:
        shards = 1
    parts = [items[k::shards] for k in range(shards)]
    parts = [p for p in parts if p]
    ctx = multiprocessing.get_context('fork')
    with ctx.Pool(len(parts)) as pool:
        rs = pool.map(_judge_star, [(module, p, 3600, aux_modules) for p in parts])
    fails = {}
    stats = []
    for f, s in rs:
        fails.update(f)
        stats.append(s)
    return fails, stats
