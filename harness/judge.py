"""Run a Judge_<X>.tla module over a list of observations; TLC evaluates the clauses."""
import json
import multiprocessing
import os
import tempfile

import tlc

JUDGE_CFG = 'SPECIFICATION JSpec\nCHECK_DEADLOCK FALSE\n'


def judge(module, items, timeout=3600, aux_modules=None, heap='3g'):
    """items: list of dicts with 'id'.  returns {id: [failing clause names]} for failing ones."""
    if not items:
        return {}, {'generated': 0, 'distinct': 0}
    fd, path = tempfile.mkstemp(prefix='verif-obs-', suffix='.json')
    try:
        with os.fdopen(fd, 'w') as f:
            json.dump({'items': items}, f)
        out, stats = tlc.run_tlc(module, JUDGE_CFG, workers=1, env={'OBS_FILE': path},
                                 timeout=timeout, heap=heap, aux_modules=aux_modules)
    finally:
        os.unlink(path)
    fails = {}
    done = None
    for tag, val in tlc.tagged_lines(out):
        if tag == 'DIAG':
            fails[val['id']] = sorted(val['clauses'])
        elif tag == 'DONE':
            done = val['n']
    tlc.need_ok(out, stats, module)
    if done != len(items):
        raise tlc.TlcError('%s judged %s of %d observations' % (module, done, len(items)))
    return fails, stats


def _judge_star(args):
    return judge(*args)


def judge_sharded(module, items, shards=8, aux_modules=None, max_bytes=6 << 20, max_items=600):
    """judge in batches (one TLC run each, at most `shards` at a time); a batch holds at most
    max_items observations / max_bytes of JSON so that TLC's heap is never the limit"""
    if not items:
        return {}, []
    if len(items) < 64:
        parts = [items]
    else:
        per = max(1, -(-len(items) // shards))
        per = min(per, max_items)
        parts = []
        cur = []
        size = 0
        for it in items:
            n = len(json.dumps(it))
            if cur and (len(cur) >= per or size + n > max_bytes):
                parts.append(cur)
                cur = []
                size = 0
            cur.append(it)
            size += n
        if cur:
            parts.append(cur)
    ctx = multiprocessing.get_context('fork')
    with ctx.Pool(min(shards, len(parts))) as pool:
        rs = pool.map(_judge_star, [(module, p, 3600, aux_modules) for p in parts])
    fails = {}
    stats = []
    for f, s in rs:
        fails.update(f)
        stats.append(s)
    return fails, stats
