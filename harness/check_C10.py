"""C10 - UDF bridge fidelity.

TLC enumerates the bounded behaviours of spec/MC_udf.tla (all histories to a small depth, then
`-simulate` for deeper ones, seeded).  Every behaviour is replayed on the real pycdlib
(udf='2.60', without and with Joliet + Rock Ridge); every image written (at each Reopen and at
the end) is decoded by decoders/udf.py, which starts from the volume recognition sequence and
the anchors only, and TLC (Judge_Udf.tla / UdfVolume.tla) evaluates every clause of the property
on the report, including TreeMatches against the tree the MODEL expects.

Python drives and projects; it never decides a clause.  The only classification done here is
`circumstance()`: for a clause TLC found false, name the circumstance in model terms so that a
known finding can be matched narrowly.
"""
import det; det.install()  # noqa: E702  pylint: disable=multiple-statements,wrong-import-position

import hashlib
import io
import json
import mmap
import multiprocessing
import os
import shutil
import sys
import tempfile

import checklib
import judge
import tlc
from decoders import udf as udfdec
from driver import Session
from realize import Table, blob_bytes

SAT = 10 ** 9      # judge view: integers saturate here (TLC integers are 32 bit)

# ---------------------------------------------------------------- realisation of the model's ids


def _long(prefix, n, fill='x'):
    s = prefix + u'é'           # Latin-1, not ASCII
    return s + fill * (n - len(s))


def _names():
    names = {
        'a': u'aa', 'e': u'é1', 'u': u'日本', 'd': u'dd',
        'M': _long(u'M', 217),                 # 38 + 1 + 217 = 256 bytes
        'X': _long(u'X', 255),                 # 1 + 255 does not fit an 8-bit length
    }
    for k in range(1, 8):
        names['L%d' % k] = _long(u'L%d' % k, 250)         # 38 + 1 + 250 = 289 -> 292 bytes
        # UCS-2, 127 characters: 38 + 1 + 254 = 293 -> 296 bytes
        names['K%d' % k] = (u'K%d' % k) + u'日' + u'y' * 124
    out = {}
    for nid, s in names.items():
        out[nid] = {'udf': s}
    for k in (1, 2, 3):
        out['i%d' % k] = {'iso': 'I%d.;1' % k, 'rr': 'i%d' % k, 'jol': 'i%d' % k, 'udf': 'i%d' % k}
    return out


REALISATION = {
    'names': _names(),
    'blobs': {'z': 0, 'o': 1, 's': 2048, 't': 2049},
    'targets': {'t1': u'aa', 't2': u'/dd/é1', 't3': u'../日本/x'},
}

CFGS = {
    'udf': {'level': 3, 'joliet': 0, 'rr': '', 'udf': True, 'xa': False},
    'udf+jol+rr': {'level': 3, 'joliet': 3, 'rr': '1.09', 'udf': True, 'xa': False},
}

_TAB = None
_SHA = {}


def table():
    global _TAB  # pylint: disable=global-statement
    if _TAB is None:
        _TAB = Table(REALISATION)
    return _TAB


def name_class(nid):
    s = REALISATION['names'].get(nid, {}).get('udf', '')
    if len(s) > 200:
        return 'long-ucs2' if any(ord(c) > 255 for c in s) else 'long-latin1'
    if all(ord(c) < 128 for c in s):
        return 'ascii'
    if all(ord(c) < 256 for c in s):
        return 'latin1'
    return 'ucs2'


def cps(s):
    return [ord(c) for c in s]


def limbs(n):
    return [n // 2048, n % 2048]


def expect_of(exp):
    """model tree (set of [p, k, b, t]) -> what the independent reader must recover."""
    tab = table()
    out = []
    for e in exp:
        path = [cps(tab.name('udf', n)) for n in e['p']]
        if e['k'] == 'dir':
            out.append({'path': path, 'kind': 'dir', 'target': [], 'sha': '', 'size': [0, 0]})
        elif e['k'] == 'sym':
            out.append({'path': path, 'kind': 'symlink', 'target': cps(tab.target(e['t'])), 'sha': '',
                        'size': [0, 0]})
        else:
            if e['b'] not in _SHA:
                _SHA[e['b']] = (hashlib.sha256(tab.blobdata[e['b']]).hexdigest(), len(tab.blobdata[e['b']]))
            out.append({'path': path, 'kind': 'file', 'target': [],
                        'sha': _SHA[e['b']][0], 'size': limbs(_SHA[e['b']][1])})
    out.sort(key=lambda x: x['path'])
    return out


# ---------------------------------------------------------------- judge view of a report
def sat(x):
    if isinstance(x, str):
        x = int(x, 16)
    if x is None:
        return -1
    return SAT if x > SAT else x


def satl(l):
    """limbs [blocks, remainder] with the block count saturated"""
    return [sat(l[0]), l[1]]


def _ext(e):
    return {'len': sat(e['len']), 'loc': sat(e['loc'])}


def judge_view(rep):
    """the fields UdfVolume.tla reads; integers saturated at 10^9 (all legal values of an image
    below 2 TB are smaller, so no clause changes its value), uniform record shapes."""
    v = {'nsect': sat(rep['nsect']), 'whole_sectors': rep['whole_sectors'],
         'vrs': [{'sector': x['sector'], 'id': x['id'], 'type': x['type'], 'version': x['version']}
                 for x in rep['vrs']]}
    anchors = []
    for a in rep['anchors']:
        if a['present']:
            anchors.append({'sector': sat(a['sector']), 'present': True, 'main': _ext(a['main']),
                            'reserve': _ext(a['reserve']), 'reserved_zero': a['reserved_zero']})
        else:
            anchors.append({'sector': sat(a['sector']), 'present': False, 'main': {'len': 0, 'loc': 0},
                            'reserve': {'len': 0, 'loc': 0}, 'reserved_zero': True})
    if not anchors:
        anchors.append({'sector': -1, 'present': False, 'main': {'len': 0, 'loc': 0},
                        'reserve': {'len': 0, 'loc': 0}, 'reserved_zero': True})
    v['anchors'] = anchors
    for which in ('main', 'reserve'):
        v[which] = [{'sector': sat(d['sector']), 'id': d['id'], 'digest': d['digest']} for d in rep[which]]
    p = rep['partition']
    v['partition'] = {'found': p['found'], 'start': sat(p['start']), 'len': sat(p['len']),
                      'number': sat(p['number'])}
    lvd = rep['lvd']
    if lvd.get('found'):
        v['lvd'] = {'found': True, 'lbs': sat(lvd['lbs']), 'nmaps': sat(lvd['nmaps']),
                    'map_table_len': sat(lvd['map_table_len']), 'maps_bytes': lvd['maps_bytes'],
                    'maps': [{'type': m['type'], 'len': m['len'], 'partnum': m.get('partnum', -1)}
                             for m in lvd['maps']],
                    'integrity': _ext(lvd['integrity'])}
    else:
        v['lvd'] = {'found': False, 'lbs': 0, 'nmaps': 0, 'map_table_len': 0, 'maps_bytes': 0, 'maps': [],
                    'integrity': {'len': 0, 'loc': 0}}
    lv = []
    for l in rep['lvid']:
        if l['id'] == 9:
            lv.append({'sector': sat(l['sector']), 'id': 9, 'type': l['type'],
                       'num_files': sat(l['num_files']), 'num_dirs': sat(l['num_dirs']),
                       'npart': sat(l['npart']), 'free': [sat(x) for x in l['free']],
                       'size': [sat(x) for x in l['size']], 'len_impl_use': sat(l['len_impl_use']),
                       'next_unique_id': sat(l['next_unique_id']),
                       'min_read': l['min_read'], 'min_write': l['min_write'], 'max_write': l['max_write']})
        else:
            lv.append({'sector': sat(l['sector']), 'id': l['id'], 'type': '-', 'num_files': -1, 'num_dirs': -1,
                       'npart': 0, 'free': [], 'size': [], 'len_impl_use': 0, 'next_unique_id': 0,
                       'min_read': 0, 'min_write': 0, 'max_write': 0})
    v['lvid'] = lv
    f = rep['fsd']
    v['fsd'] = {'found': bool(f.get('found')), 'lb': sat(f.get('lb', -1)),
                'root_lb': sat(f['root_icb']['lb']) if f.get('found') else -1,
                'term': sat(f.get('term', -1)) if f.get('found') else -1}
    v['tags'] = [{'where': sat(t['where']), 'off': t['off'], 'space': t['space'], 'id': t['id'],
                  'id_expected': t['id_expected'], 'version': t['version'],
                  'csum_stored': t['csum_stored'], 'csum_computed': t['csum_computed'],
                  'crc_stored': t['crc_stored'], 'crc_computed': t['crc_computed'], 'crc_len': t['crc_len'],
                  'loc_stored': sat(t['loc_stored']), 'loc_expected': sat(t['loc_expected'])}
                 for t in rep['tags']]
    v['fes'] = [{'lb': sat(fe['lb']), 'tag': fe['tag'], 'file_type': fe['file_type'],
                 'strategy': fe['strategy'], 'link_count': fe['link_count'], 'info_len': satl(fe['info_len']),
                 'blocks_recorded': sat(fe['blocks_recorded']), 'perms': sat(fe['perms']),
                 'unique_id': sat(fe['unique_id']), 'ad_type': fe['ad_type'],
                 'ads': [{'len': a['len'], 'type': a['type'], 'pos': sat(a['pos'])} for a in fe['ads']],
                 'ea_len': sat(fe['ea_len']), 'ad_len': sat(fe['ad_len']), 'ad_sum': satl(fe['ad_sum']),
                 'embedded': fe['embedded'], 'fits': fe['fits']}
                for fe in rep['fes']]
    dirs = []
    for d in rep['dirs']:
        dirs.append({'fe_lb': sat(d['fe_lb']), 'parent_lb': sat(d['parent_lb']), 'path': d['path'],
                     'info_len': satl(d['info_len']), 'data_len': d['data_len'], 'fid_bytes': d['fid_bytes'],
                     'trailing': d['trailing'],
                     'fids': [{'off': x['off'], 'len': x['len'], 'version': x['version'], 'chars': x['chars'],
                               'is_dir': x['is_dir'], 'is_parent': x['is_parent'], 'deleted': x['deleted'],
                               'lfi': x['lfi'], 'liu': x['liu'], 'cid': x['cid'], 'name': x['name'],
                               'name_ok': x['name_ok'], 'icb_lb': sat(x['icb_lb']), 'icb_uid': sat(x['icb_uid']),
                               'tag_loc': sat(x['tag_loc']), 'blk': sat(x['blk']), 'boff': x['boff'],
                               'pad_zero': x['pad_zero'], 'complete': x['complete']}
                              for x in d['fids']]})
    v['dirs'] = dirs
    v['tree'] = [{'path': t['path'], 'kind': t['kind'], 'size': satl(t['size']), 'target': t['target'],
                  'sha': t['sha'], 'fe_lb': sat(t['fe_lb'])} for t in rep['tree']]
    v['regions'] = [{'kind': g['kind'], 'owner': sat(g['owner']), 'start': sat(g['start']),
                     'nsect': sat(g['nsect'])} for g in rep['regions']]
    v['errors'] = [e['what'] for e in rep['errors']]
    return v


# ---------------------------------------------------------------- replay
class UdfSession(Session):
    def do_Fill(self, a):
        data = self.tab.blobdata[a['blob']]
        for n in a['names']:
            self.iso.add_fp(io.BytesIO(data), len(data), udf_path=self.tab.path('udf', list(a['udf']) + [n]))


def _step_args(a, cfg):
    """the model's call -> the driver's action (Joliet name follows the ISO9660 one)."""
    b = dict((k, v) for k, v in a.items() if k not in ('x', 'exp', 'why'))
    if b['a'] in ('AddFp',) and b.get('iso') not in (None, ['-']) and cfg['joliet']:
        b['jol'] = b['iso']
    return b


def replay(hid, hist, cfgname):
    """returns list of observations (dicts with id, steps, write, image/expect...)"""
    cfg = CFGS[cfgname]
    det.reset()
    s = UdfSession(table())
    obs = []
    steps = []
    r = s.apply({'a': 'New', 'cfg': cfg})
    if r != 'ok':
        raise RuntimeError('new() failed: ' + r)
    exp = []
    diverged = False
    for k, a in enumerate(hist):
        if a['a'] == 'Reopen':
            # the driver writes the image and opens it again: judge that generation, too
            r = s.apply({'a': 'Reopen'})
            steps.append({'a': 'Reopen', 'x': 'ok', 'r': r, 'k': k})
            if r == 'ok':
                obs.append({'id': '%s/%s#g%d' % (hid, cfgname, k), 'steps': list(steps), 'write': 'ok',
                            'image': s.images[-1], 'exp': a['exp'], 'hist': hist[:k + 1], 'cfg': cfgname})
            else:
                diverged = True
                break
            exp = a['exp']
            continue
        r = s.apply(_step_args(a, cfg))
        steps.append({'a': a['a'], 'x': a['x'], 'r': r, 'k': k, 'why': a.get('why', '')})
        exp = a['exp']
        want_ok = a['x'] == 'ok'
        if (r == 'ok') != want_ok:
            diverged = True
            break
    if steps and steps[-1]['a'] == 'Reopen' and steps[-1]['r'] != 'ok':
        # the image was written but could not be opened again: there is no object to write from
        (wres, data) = ('not-attempted', None)
    else:
        (wres, data, _wlog) = s.master()
    o = {'id': '%s/%s' % (hid, cfgname), 'steps': steps, 'write': wres, 'image': data, 'hist': hist,
         'cfg': cfgname, 'diverged': diverged}
    if not diverged:
        o['exp'] = exp
    obs.append(o)
    try:
        s.iso.close()
    except Exception:  # pylint: disable=broad-except
        pass
    return obs


def observe(o, hash_limit=None):
    """image bytes -> judge item (+ bookkeeping kept outside the item)."""
    item = {'id': o['id'], 'write': o['write'],
            'steps': [{'a': s['a'], 'x': s['x'], 'r': s['r']} for s in o['steps']]}
    rep = None
    if o.get('image') is not None:
        rep = udfdec.decode(o['image'], hash_limit=hash_limit)
        item['rep'] = judge_view(rep)
    else:
        item['rep'] = 0
    if 'exp' in o and o.get('image') is not None:
        item['expect'] = expect_of(o['exp'])
    return item, rep


def light(hist):
    """history without the expected trees (kept at Reopen steps, where circumstances need them)"""
    return [dict((k, v) for k, v in a.items() if k != 'exp' or a['a'] == 'Reopen') for a in hist]


def _work(args):
    """replay one behaviour under one configuration; returns per image written
    (id, sha of the observation body, JSON text of the body, bookkeeping)."""
    (hid, hist, cfgname) = args
    out = []
    for o in replay(hid, hist, cfgname):
        item, rep = observe(o)
        meta = {'id': o['id'], 'hist': light(o['hist']), 'cfg': o['cfg'], 'steps': o['steps'],
                'diverged': o.get('diverged', False), 'write': o['write'],
                'ntree': len(item['rep']['tree']) if rep is not None else None,
                'crossing': sum(1 for d in rep['dirs'] for f in d['fids'] if f['crosses']) if rep is not None else 0,
                'ucs2': sum(1 for d in rep['dirs'] for f in d['fids'] if f['cid'] == 16) if rep is not None else 0,
                'facts': facts(rep) if rep is not None else {}}
        item.pop('id')
        body = json.dumps(item, sort_keys=True, separators=(',', ':'))
        out.append((o['id'], hashlib.sha256(body.encode()).hexdigest(), body, meta))
    return out


def _judge_shard(texts):
    """texts: list of (id, body json).  One TLC run of Judge_Udf over them."""
    fd, path = tempfile.mkstemp(prefix='verif-obs-', suffix='.json')
    try:
        with os.fdopen(fd, 'w') as f:
            f.write('{"items":[')
            f.write(','.join('{"id":%s,%s' % (json.dumps(i), b[1:]) for (i, b) in texts))
            f.write(']}')
        out, stats = tlc.run_tlc('Judge_Udf', judge.JUDGE_CFG, workers=1, env={'OBS_FILE': path},
                                 timeout=1800, heap='3g')
    finally:
        os.unlink(path)
    fails = {}
    done = None
    for tag, val in tlc.tagged_lines(out):
        if tag == 'DIAG':
            fails[val['id']] = sorted(val['clauses'])
        elif tag == 'DONE':
            done = val['n']
    tlc.need_ok(out, stats, 'Judge_Udf')
    if done != len(texts):
        raise tlc.TlcError('Judge_Udf judged %s of %d observations' % (done, len(texts)))
    return fails, stats


def judge_texts(texts, jvms=8, batch_bytes=8000000, batch_items=500):
    """TLC evaluates the clauses: `jvms` single-worker JVMs side by side (see AGENT_CONVENTIONS).
    A JVM start costs ~1.3 s and the cost per observation grows with the batch (measured
    1.7 s / 200, 2.3 s / 400, 4.5 s / 680 observations; a 200 MB batch does not finish): batches
    of about 500 observations / 8 MB."""
    from concurrent.futures import ThreadPoolExecutor
    parts = []
    cur, size = [], 0
    for t in texts:
        if cur and (size + len(t[1]) > batch_bytes or len(cur) >= batch_items):
            parts.append(cur)
            cur, size = [], 0
        cur.append(t)
        size += len(t[1])
    if cur:
        parts.append(cur)
    with ThreadPoolExecutor(jvms) as ex:
        rs = list(ex.map(_judge_shard, parts))
    fails = {}
    for f, _ in rs:
        fails.update(f)
    return fails, [st for _, st in rs]


# ---------------------------------------------------------------- circumstances (for known findings)
def facts(rep):
    """a few facts of the report used only to NAME the circumstance of a failing clause."""
    f = {}
    refs = {}
    nonparent_files = 0
    for d in rep['dirs']:
        for x in d['fids']:
            if x['deleted']:
                continue
            refs[x['icb_lb']] = refs.get(x['icb_lb'], 0) + 1
            if not x['is_parent'] and not x['is_dir']:
                nonparent_files += 1
    bad = []
    for fe in rep['fes']:
        n = refs.get(fe['lb'], 0)
        if fe['link_count'] != n:
            bad.append('dir' if fe['file_type'] == 4 else
                       ('file-link-count-1-with-%s-names' % ('2+' if n >= 2 else str(n))
                        if fe['link_count'] == 1 else 'file-other'))
    f['linkcount_bad'] = sorted(set(bad))
    # parent entries: which directories' parent entry does not name the parent's ICB
    root_lb = rep['fsd']['root_icb']['lb'] if rep['fsd'].get('found') else None
    pbad = []
    fixed = dict(refs)
    for d in rep['dirs']:
        if not d['fids'] or not d['fids'][0]['is_parent']:
            pbad.append('no-leading-parent-entry')
            continue
        p0 = d['fids'][0]
        if p0['icb_lb'] != d['parent_lb']:
            if len(d['path']) >= 2 and p0['icb_lb'] == root_lb:
                pbad.append('nested-dir-parent-entry-names-root')
                fixed[root_lb] = fixed.get(root_lb, 0) - 1
                fixed[d['parent_lb']] = fixed.get(d['parent_lb'], 0) + 1
            else:
                pbad.append('other')
        if any(x['is_parent'] for x in d['fids'][1:]):
            pbad.append('second-parent-entry')
    f['parent_fid_bad'] = sorted(set(pbad))
    if 'dir' in f['linkcount_bad'] and pbad == ['nested-dir-parent-entry-names-root'] * len(pbad):
        still = [fe for fe in rep['fes'] if fe['file_type'] == 4 and fe['link_count'] != fixed.get(fe['lb'], 0)]
        if not still:
            f['linkcount_bad'] = sorted(set(
                ['dir-only-because-nested-parent-entries-name-root'] + [x for x in f['linkcount_bad'] if x != 'dir']))
    lv = [l for l in rep['lvid'] if l['id'] == 9]
    if lv:
        l = lv[-1]
        nf_icb = len([fe for fe in rep['fes'] if fe['file_type'] != 4])
        nd = len([fe for fe in rep['fes'] if fe['file_type'] == 4])
        f['lvid'] = {'files': l['num_files'], 'dirs': l['num_dirs'], 'files_by_icb': nf_icb,
                     'files_by_fid': nonparent_files, 'dirs_found': nd}
    m, r = rep['main'], rep['reserve']
    diff = []
    for k in range(min(len(m), len(r))):
        if m[k]['digest'] != r[k]['digest']:
            what = str(m[k]['id'])
            if m[k]['id'] == 1 and r[k]['id'] == 1:
                fm, fr = dict(m[k]['f']), dict(r[k]['f'])
                vm, vr = fm.pop('volsetid'), fr.pop('volsetid')
                if fm == fr and vm != vr:
                    what = 'pvd.volume_set_identifier'
            diff.append(what)
    if len(m) != len(r):
        diff.append('length')
    f['main_reserve_diff'] = diff
    badfe = []
    for fe in rep['fes']:
        if fe['embedded']:
            continue
        ceil_ = sum((a['len'] + 2047) // 2048 for a in fe['ads'] if a['type'] == 0)
        if fe['info_len'] != fe['ad_sum']:
            badfe.append('info_len')
        if fe['blocks_recorded'] != ceil_:
            badfe.append(('dir' if fe['file_type'] == 4 else 'file') + '.blocks_recorded')
    f['fe_bad'] = sorted(set(badfe))
    p = rep['partition']
    if p['found'] and isinstance(p['start'], int) and isinstance(p['len'], int):
        end = max([g['start'] + g['nsect'] for g in rep['regions']
                   if g['kind'].startswith('udf_') or g['kind'] == 'aed'] or [0])
        f['part_short_by'] = max(0, end - (p['start'] + p['len']))
        f['part_slack'] = (p['start'] + p['len']) - end
    f['bad_tags'] = sorted(set(
        '%d:%s' % (t['id'], w) for t in rep['tags'] for (w, ok) in (
            ('id', t['id'] in t['id_expected']), ('csum', t['csum_stored'] == t['csum_computed']),
            ('crc', t['crc_stored'] == t['crc_computed']), ('loc', t['loc_stored'] == t['loc_expected']))
        if not ok))
    f['errors'] = sorted(set(e['what'] for e in rep['errors']))
    return f


def hist_features(hist):
    """what kinds of call the history contains, in model terms."""
    acts = set()
    for a in hist:
        n = a['a']
        if n == 'AddHardLink':
            n = 'AddHardLink.' + a['ons']
        if a.get('x') == 'refuse':
            n = 'Refused'
        acts.add(n)
    return sorted(acts)


def hist_circumstances(hist):
    """circumstances of a history that known findings refer to (model terms only):
      reopen_2plus_empty      a Reopen happened while the tree held two or more zero-length files
      reopened_file_link_edit after a Reopen, a name of a file that was in the image at that Reopen
                              was removed, or a hard link to such a file was added
      removal                 some name was removed (RmFile / RmHardLink / RmDir)
      file_over_one_iso_extent a file longer than 0xfffff800 bytes (more than one ISO9660 extent) was added"""
    out = {'reopen_2plus_empty': 'no', 'reopened_file_link_edit': 'no', 'removal': 'no',
           'file_over_one_iso_extent': 'no'}
    at_reopen_udf = None
    at_reopen_iso = set()
    iso_alive = set()
    prev_exp = []
    for a in hist:
        n = a['a']
        if a.get('x') == 'refuse':
            continue
        if n == 'Reopen':
            exp = a.get('exp', prev_exp)
            if len([e for e in exp if e['k'] == 'file' and e['b'] == 'z']) >= 2:
                out['reopen_2plus_empty'] = 'yes'
            at_reopen_udf = set(tuple(e['p']) for e in exp if e['k'] in ('file', 'sym'))
            at_reopen_iso = set(iso_alive)
        elif n == 'AddFp':
            if a.get('iso') not in (None, ['-']):
                iso_alive.add(a['iso'][0])
            if str(a.get('blob', '')).startswith('big:') and int(a['blob'][4:]) > 0xfffff800:
                out['file_over_one_iso_extent'] = 'yes'
        elif n in ('RmFile', 'RmHardLink', 'RmDir'):
            out['removal'] = 'yes'
            if n != 'RmDir' and at_reopen_udf is not None and tuple(a['p']) in at_reopen_udf:
                out['reopened_file_link_edit'] = 'yes'
        elif n == 'AddHardLink' and at_reopen_udf is not None:
            if (a['ons'] == 'udf' and tuple(a['old']) in at_reopen_udf) or \
               (a['ons'] == 'iso' and a['old'][0] in at_reopen_iso):
                out['reopened_file_link_edit'] = 'yes'
        if 'exp' in a:
            prev_exp = a['exp']
    return out


def _last_name_class(a):
    p = a.get('udf') or a.get('p') or a.get('new')
    if not p or p == ['-']:
        return '-'
    return name_class(p[-1])


def _join(xs):
    return '+'.join(sorted(set(xs))) if xs else 'none'


def circumstance(clause, meta):
    """signature (in model terms) of one clause TLC found false on one observation.  Values are
    strings (a list value would also match its subsets in checklib.sig_matches)."""
    hist = meta['hist']
    sig = {'clause': clause}
    fc = meta.get('facts', {})
    if clause in ('StepsAccepted', 'StepsRefused'):
        for s in meta['steps']:
            bad = (s['x'] == 'ok' and s['r'] != 'ok') if clause == 'StepsAccepted' else \
                  (s['x'] == 'refuse' and s['r'] != 'InvalidInput')
            if bad:
                a = hist[s['k']]
                sig.update({'act': s['a'], 'result': s['r'], 'name': _last_name_class(a)})
                if s.get('why'):
                    sig['why'] = s['why']
                if s['x'] == 'ok':
                    sig.update(hist_circumstances(hist[:s['k']]))
                break
        return sig
    if meta.get('diverged'):
        # the implementation left the model's behaviour at the last step (reported by
        # StepsAccepted / StepsRefused); the image it wrote afterwards is judged all the same
        last = meta['steps'][-1] if meta['steps'] else {}
        sig['after_divergence'] = '%s:%s' % (last.get('a', '-'), last.get('why', '') or last.get('r', ''))
        if last.get('k') is not None:
            sig['name'] = _last_name_class(hist[last['k']])
    sig.update(hist_circumstances(hist))
    if clause == 'ImageWritten':
        sig['write'] = meta.get('write', '')
        sig['acts'] = _join(hist_features(hist))
    elif clause == 'MainEqualsReserve':
        sig['differs'] = _join(fc.get('main_reserve_diff', []))
    elif clause == 'LinkCounts':
        sig['which'] = _join(fc.get('linkcount_bad', []))
    elif clause == 'FIDParentFirst':
        sig['which'] = _join(fc.get('parent_fid_bad', []))
    elif clause == 'LvidCounts':
        l = fc.get('lvid', {})
        if l and l['dirs'] == l['dirs_found'] and l['files'] == l['files_by_fid'] and l['files'] != l['files_by_icb']:
            sig['how'] = 'files-counted-per-name'
        else:
            sig['how'] = 'other'
    elif clause == 'FEInfoLenEqualsADs':
        sig['which'] = _join(fc.get('fe_bad', []))
    elif clause == 'TagValid':
        sig['which'] = _join(fc.get('bad_tags', []))
    elif clause == 'KindsAgree':
        sig['errors'] = _join(fc.get('errors', []))
    elif clause == 'PartitionCoversAllReferenced':
        sig['short_by'] = str(fc.get('part_short_by', '?'))
    else:
        sig['acts'] = _join(hist_features(hist))
    return sig


# ---------------------------------------------------------------- behaviours out of TLC
MC_CFG = '''SPECIFICATION Spec
CONSTANTS
 Names = {%(Names)s}
 Blobs = {%(Blobs)s}
 Targets = {%(Targets)s}
 IsoIds = {%(IsoIds)s}
 FillKinds = {%(FillKinds)s}
 MaxDepth = %(MaxDepth)d
 MaxEntries = %(MaxEntries)d
 MaxLen = %(MaxLen)d
 MaxRefuse = %(MaxRefuse)d
 MaxGen = %(MaxGen)d
 Dump = "%(Dump)s"
INVARIANT TreeOK
INVARIANT LogOK
CONSTRAINT DumpHist
CHECK_DEADLOCK FALSE
'''


def _set(xs):
    return ', '.join('"%s"' % x for x in xs)


def mc_udf(params, simulate=None, seed=0, timeout=600):
    p = dict(params)
    for k in ('Names', 'Blobs', 'Targets', 'IsoIds', 'FillKinds'):
        p[k] = _set(p[k])
    extra = []
    workers = 8
    if simulate:
        extra = ['-seed', str(seed), '-depth', str(params['MaxLen'] + 1)]
        workers = 1
    out, stats = tlc.run_tlc('MC_udf', MC_CFG % p, workers=workers, timeout=timeout, simulate=simulate,
                             extra=extra, heap='4g')
    if simulate:
        if stats.get('exit') != 0:
            raise tlc.TlcError('MC_udf simulate: exit %s\n%s' % (stats.get('exit'), out[-2000:]))
    else:
        tlc.need_ok(out, stats, 'MC_udf')
    hists = [v for (tag, v) in tlc.tagged_lines(out) if tag == 'HIST']
    return hists, stats, out


def hist_key(h):
    return json.dumps([dict((k, v) for k, v in a.items() if k != 'exp') for a in h], sort_keys=True)


# ---------------------------------------------------------------- the multi-gigabyte case
class _Zeros(io.RawIOBase):
    """a readable, seekable stream of n bytes: position dependent 16-byte stamps every MiB,
    zeros elsewhere (cheap to produce, any misplaced megabyte changes the hash)."""

    def __init__(self, n):
        io.RawIOBase.__init__(self)
        self.n = n
        self.pos = 0

    def readable(self):
        return True

    def seekable(self):
        return True

    def seek(self, off, whence=0):
        if whence == 0:
            self.pos = off
        elif whence == 1:
            self.pos += off
        else:
            self.pos = self.n + off
        return self.pos

    def tell(self):
        return self.pos

    def chunk(self, pos, k):
        """bytes [pos, pos + k) of the stream (a pure function of the position)."""
        b = bytearray(k)
        mib = 1 << 20
        m = pos // mib
        while m * mib < pos + k:
            lo, hi = max(m * mib, pos), min(m * mib + 16, pos + k)
            if lo < hi:
                st = hashlib.md5(b'stamp%d' % m).digest()
                b[lo - pos:hi - pos] = st[lo - m * mib:hi - m * mib]
            m += 1
        return bytes(b)

    def read(self, k=-1):
        if k is None or k < 0:
            k = self.n - self.pos
        k = max(0, min(k, self.n - self.pos))
        out = self.chunk(self.pos, k)
        self.pos += k
        return out

    def readinto(self, b):
        data = self.read(len(b))
        b[:len(data)] = data
        return len(data)


def big_file_case(ctx, size, hash_limit=None, with_iso=True):
    """one file of `size` bytes (several allocation descriptors, 64-bit information length),
    with or without an ISO9660 name."""
    import pycdlib
    t0 = det.real_time()
    work = tempfile.mkdtemp(prefix='verif-c10-')
    oid = 'big/%s/%s' % (hex(size), 'iso+udf' if with_iso else 'udf-only')
    hist = [{'a': 'AddFp', 'blob': 'big:%d' % size, 'iso': ['BIG'] if with_iso else ['-'], 'udf': ['big'], 'x': 'ok'},
            {'a': 'AddFp', 'blob': 'tail', 'iso': ['-'], 'udf': ['u'], 'x': 'ok'}]
    cov = {'bytes': hex(size), 'iso_name': with_iso}
    try:
        iso = pycdlib.PyCdlib()
        iso.new(interchange_level=3, udf='2.60')
        src = _Zeros(size)
        kw = {'udf_path': '/big'}
        if with_iso:
            kw['iso_path'] = '/BIG.;1'
        iso.add_fp(src, size, **kw)
        iso.add_fp(io.BytesIO(b'tail'), 4, udf_path='/' + REALISATION['names']['u']['udf'])
        path = os.path.join(work, 'big.iso')
        wres = 'ok'
        try:
            with open(path, 'wb') as f:
                iso.write_fp(f)
        except Exception as e:  # pylint: disable=broad-except
            from project import exc_class
            wres = exc_class(e)
        try:
            iso.close()
        except Exception:  # pylint: disable=broad-except
            pass
        steps = [{'a': 'AddFp', 'x': 'ok', 'r': 'ok', 'k': 0}, {'a': 'AddFp', 'x': 'ok', 'r': 'ok', 'k': 1}]
        item = {'write': wres, 'steps': [{'a': st['a'], 'x': st['x'], 'r': st['r']} for st in steps], 'rep': 0}
        meta = {'id': oid, 'hist': hist, 'cfg': 'udf', 'steps': steps, 'diverged': False, 'write': wres,
                'ntree': None, 'facts': {}}
        if wres == 'ok':
            h = hashlib.sha256()
            if hash_limit is None:
                pos = 0
                while pos < size:
                    k = min(1 << 24, size - pos)
                    h.update(src.chunk(pos, k))
                    pos += k
                want = h.hexdigest()
            else:
                half = hash_limit // 2
                h.update(src.chunk(0, half))
                h.update(src.chunk(size - half, half))
                want = 'p:' + h.hexdigest()
            expect = [{'path': [cps('big')], 'kind': 'file', 'target': [], 'sha': want, 'size': limbs(size)},
                      {'path': [cps(REALISATION['names']['u']['udf'])], 'kind': 'file', 'target': [],
                       'sha': hashlib.sha256(b'tail').hexdigest(), 'size': [0, 4]}]
            expect.sort(key=lambda x: x['path'])
            with open(path, 'rb') as f:
                mm = mmap.mmap(f.fileno(), 0, access=mmap.ACCESS_READ)
                try:
                    rep = udfdec.decode(mm, hash_limit=hash_limit)
                finally:
                    mm.close()
            item['rep'] = judge_view(rep)
            item['expect'] = expect
            meta['ntree'] = len(rep['tree'])
            meta['facts'] = facts(rep)
            fe = [x for x in rep['fes'] if x['file_type'] == 5 and len(x['ads']) > 1]
            cov.update({'allocation_descriptors': len(fe[0]['ads']) if fe else 0, 'image_sectors': rep['nsect'],
                        'hash': 'all bytes' if hash_limit is None else
                                'first and last %d bytes' % (hash_limit // 2)})
        cov.update({'write': wres, 'wall_s': round(det.real_time() - t0, 1)})
        ctx.coverage.setdefault('big_files', []).append(cov)
        body = json.dumps(item, sort_keys=True, separators=(',', ':'))
        return (oid, hashlib.sha256(body.encode()).hexdigest(), body, meta)
    finally:
        shutil.rmtree(work, ignore_errors=True)


# ---------------------------------------------------------------- run
def plan(tier):
    base = {'Targets': ['t1', 't3'], 'IsoIds': ['i1', 'i2'], 'MaxDepth': 2, 'MaxGen': 1}
    if tier == 'quick':
        small = dict(base, Names=['a', 'u'], Blobs=['z', 't'], Targets=['t3'], FillKinds=['cross'],
                     MaxEntries=3, Dump='all')
        return {
            # every accepted history of 3 calls, every history of 2 calls with one refused call
            'bfs': [dict(small, MaxLen=3, MaxRefuse=0), dict(small, MaxLen=2, MaxRefuse=1)],
            'sim': [dict(base, Names=['a', 'e', 'u', 'd'], Blobs=['z', 'o', 's', 't'],
                         Targets=['t1', 't2', 't3'], FillKinds=['cross', 'exact', 'two'],
                         MaxEntries=5, MaxLen=9, MaxRefuse=1, MaxGen=2, Dump='final')],
            'sim_num': 30, 'big': [((2 << 30) + 4097, 1 << 26, True)]}
    small = dict(base, Names=['a', 'u'], Blobs=['z', 't'], Targets=['t3'], FillKinds=['cross'],
                 MaxEntries=3, Dump='all')
    return {
        # every accepted history of 4 calls (2 names), every history of 3 calls with one refused
        # call (3 names, two fill shapes), and the other half of the name/blob pools at depth 3
        'bfs': [dict(small, MaxLen=4, MaxRefuse=0),
                dict(base, Names=['a', 'u', 'd'], Blobs=['z', 't'], Targets=['t3'], FillKinds=['cross', 'exact'],
                     MaxEntries=4, MaxLen=3, MaxRefuse=1, Dump='all'),
                dict(base, Names=['e', 'd'], Blobs=['o', 's'], Targets=['t2'], FillKinds=['two'],
                     MaxEntries=4, MaxLen=3, MaxRefuse=1, Dump='all')],
        'sim': [dict(base, Names=['a', 'e', 'u', 'd'], Blobs=['z', 'o', 's', 't'],
                     Targets=['t1', 't2', 't3'], FillKinds=['cross', 'exact', 'two'],
                     MaxEntries=6, MaxLen=12, MaxRefuse=1, MaxGen=3, Dump='final')],
        'sim_num': 200, 'big': [((3 << 30) + 12345, None, True), ((3 << 30) + 1, 1 << 26, False),
                                 ((4 << 30) + 2049, 1 << 26, True), ((4 << 30) + 2049, 1 << 26, False)]}


def run(ctx):
    pl = plan(ctx.tier)
    states = 0
    transitions = 0
    hists = {}
    tlc_runs = []
    for p in pl['bfs']:
        hs, st, _ = mc_udf(p)
        states += st.get('distinct', 0)
        transitions += st.get('generated', 0)
        tlc_runs.append({'mode': 'bfs', 'params': p, 'distinct': st.get('distinct'), 'generated': st.get('generated'),
                         'depth': st.get('depth'), 'histories': len(hs), 'wall_s': st.get('wall_s')})
        for h in hs:
            hists.setdefault(hist_key(h), ('b', h))
        print('MC_udf bfs: %s distinct states, %d histories, %.1fs' % (st.get('distinct'), len(hs), st.get('wall_s', 0)))
        sys.stdout.flush()
    nb = len(hists)
    for p in pl['sim']:
        hs, st, out = mc_udf(p, simulate='num=%d' % pl['sim_num'], seed=ctx.seed)
        for h in hs:
            hists.setdefault(hist_key(h), ('s', h))
        # simulation mode reports the number of states it generated
        import re
        m = re.search(r'(\d[\d,]*) states checked', out)
        gen = int(m.group(1).replace(',', '')) if m else 0
        transitions += gen
        tlc_runs.append({'mode': 'simulate', 'params': p, 'num': pl['sim_num'], 'seed': ctx.seed,
                         'states_checked': gen, 'histories': len(hs), 'wall_s': st.get('wall_s')})
        print('MC_udf simulate: %d behaviours (%d states), %.1fs' % (len(hs), gen, st.get('wall_s', 0)))
        sys.stdout.flush()
    order = sorted(hists)
    jobs = []
    for n, k in enumerate(order):
        (src, h) = hists[k]
        hid = '%s%05d' % (src, n)
        # every behaviour without Joliet/Rock Ridge; every third (thorough: fifth) one and all deep ones with both
        jobs.append((hid, h, 'udf'))
        if src == 's' or n % (3 if ctx.tier == 'quick' else 5) == 0:
            jobs.append((hid, h, 'udf+jol+rr'))
    t0 = det.real_time()
    mp = multiprocessing.get_context('fork')
    with mp.Pool(16) as pool:
        res = pool.map(_work, jobs, chunksize=max(1, len(jobs) // 256))
    pairs = [x for r in res for x in r]
    print('replayed %d behaviours x configurations -> %d images in %.1fs' % (len(jobs), len(pairs), det.real_time() - t0))
    sys.stdout.flush()
    for (size, limit, with_iso) in pl['big']:
        try:
            pairs.append(big_file_case(ctx, size, hash_limit=limit, with_iso=with_iso))
        except Exception as e:  # pylint: disable=broad-except
            ctx.coverage.setdefault('big_files', []).append(
                {'bytes': hex(size), 'not_covered': '%s: %s' % (type(e).__name__, str(e)[:200])})
    print('multi-gigabyte cases: %s' % json.dumps(ctx.coverage.get('big_files')))
    sys.stdout.flush()

    # identical observations are judged once
    uniq = {}
    metas = {}
    for (oid, key, body, meta) in pairs:
        metas[oid] = meta
        uniq.setdefault(key, []).append((oid, body))
    reps = [v[0] for v in uniq.values()]
    t0 = det.real_time()
    fails, jstats = judge_texts(reps)
    print('TLC judged %d distinct observations (of %d) in %.1fs' % (len(reps), len(pairs), det.real_time() - t0))
    sys.stdout.flush()
    clause_count = {}
    allfails = {}
    for v in uniq.values():
        cl = fails.get(v[0][0])
        if not cl:
            continue
        for (oid, _) in v:
            allfails[oid] = cl
            meta = metas[oid]
            for c in cl:
                clause_count[c] = clause_count.get(c, 0) + 1
                sig = circumstance(c, meta)
                ctx.violation(sig, {'id': oid, 'clauses': cl, 'facts': meta['facts']},
                              {'cfg': meta['cfg'], 'history': strip(meta['hist']),
                               'steps': meta['steps'], 'realisation': 'check_C10.REALISATION'})
    for (oid, _, _, meta) in pairs[:3] + pairs[len(pairs) // 2:len(pairs) // 2 + 2]:
        ctx.sample({'id': oid, 'cfg': meta['cfg'], 'history': strip(meta['hist']),
                    'results': [st['r'] for st in meta['steps']], 'write': meta['write'],
                    'tree_recovered': meta['ntree'], 'failing_clauses': allfails.get(oid, [])})
    ndiv = len([1 for p in pairs if p[3].get('diverged')])
    acts = {}
    for (_, h) in hists.values():
        for a in h:
            n = a['a'] + ('.' + a['ons'] if a['a'] == 'AddHardLink' else '') + \
                (':refused:' + a.get('why', '') if a.get('x') == 'refuse' else '')
            acts[n] = acts.get(n, 0) + 1
    ctx.coverage.update({
        'states': states, 'transitions': transitions,
        'traces_validated_against_impl': len(jobs),
        'images_judged': len(pairs), 'distinct_observations_judged': len(reps),
        'behaviours': {'exhaustive_bfs': nb, 'simulated': len(hists) - nb},
        'tlc_runs': tlc_runs,
        'judge': {'module': 'Judge_Udf', 'jvms': len(jstats),
                  'states': sum(s.get('distinct', 0) for s in jstats)},
        'clauses_failing': clause_count, 'diverged_replays': ndiv,
        'calls_by_action': acts,
        'images_with_fids_crossing_a_sector': len([1 for p in pairs if p[3].get('crossing')]),
        'images_with_ucs2_names': len([1 for p in pairs if p[3].get('ucs2')]),
        'images_after_reopen': len([1 for p in pairs if any(a['a'] == 'Reopen' for a in p[3]['hist'])]),
        'rule': 'behaviours of MC_udf.tla (all to the BFS depth, simulated beyond), each replayed under '
                'udf and udf+joliet+rock ridge; every image written (each Reopen and the end) decoded '
                'independently and judged by TLC on every clause of UdfVolume.tla'})
    ctx.assumptions += [
        'decoders/udf.py implements ECMA-167/UDF 2.60 structures faithfully (cross-checked by selftest_udf.py)',
        'single type 1 partition map, 2048-byte logical blocks (what pycdlib writes)',
        'judge view saturates integers at 10^9 (images below 2 TB)']


def strip(hist):
    return [dict((k, v) for k, v in a.items() if k != 'exp') for a in hist]


def run_with_core(ctx):
    """the MC_udf part above, plus the UDF images of the core corpus (boundary witnesses for File
    Identifier packing, random histories with reopen generations) judged by the same image clauses"""
    run(ctx)
    own = dict(ctx.coverage)
    import check_core
    check_core.run_for('C10')(ctx)
    # keep this check's own description; add up the measured counts
    for k in ('states', 'transitions', 'traces_validated_against_impl'):
        ctx.coverage[k] = int(own.get(k, 0) or 0) + int(ctx.coverage.get(k, 0) or 0)
    for k in ('rule', 'bounds', 'exhaustive'):
        if k in own:
            ctx.coverage[k] = own[k]


if __name__ == '__main__':
    sys.exit(checklib.main('C10', 'model_checking', run_with_core))
