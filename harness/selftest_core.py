"""Binding self-test of the core model: accepted traces stay accepted, corrupted ones are rejected.

A handful of fixed behaviours is replayed on the real code; Trace_Model must accept the recorded
traces without a single DIAG line.  Then one logged field at a time is corrupted (an entry dropped
from a projection, a content id, a hidden flag, a link class, the result of a call, a whole event
as if its hook were missing, the Master observation) and Trace_Model must reject each corrupted
trace, naming a clause of the expected family.  This guards against a vacuous trace specification
(one that constrains nothing) and is run by the C01 check on every run (its numbers are in the
evidence); it can also be run on its own:  ./check selftest_core  is not needed -
PYTHONPATH=harness:/repo python harness/selftest_core.py
"""
import copy
import json
import sys

import det
det.install()
import replay      # noqa: E402

TAB = 'core.names.json'
CFG = {'level': 3, 'joliet': 3, 'rr': '1.09', 'udf': True, 'xa': False}
NEW = {'a': 'New', 'cfg': CFG, 'mode': 'lazy'}

HISTORIES = {
    'links': [NEW,
              {'a': 'AddFp', 'blob': 'o', 'iso': ['a'], 'jol': ['a'], 'udf': ['a']},
              {'a': 'AddDir', 'iso': ['b'], 'jol': ['b'], 'udf': ['b']},
              {'a': 'AddHardLink', 'ons': 'iso', 'old': ['a'], 'nns': 'iso', 'new': ['b', 'a']},
              {'a': 'SetHidden', 'ns': 'iso', 'p': ['a']},
              {'a': 'AddFp', 'blob': 'z', 'iso': ['l'], 'jol': ['-'], 'udf': ['-']},
              {'a': 'RmHardLink', 'ns': 'jol', 'p': ['a']}],
    'refusal': [NEW,
                {'a': 'AddFp', 'blob': 'o', 'iso': ['a'], 'jol': ['-'], 'udf': ['-']},
                {'a': 'AddFp', 'blob': 'z', 'iso': ['a'], 'jol': ['-'], 'udf': ['-']},      # duplicate: refused
                {'a': 'RmDir', 'iso': ['a'], 'jol': ['-'], 'udf': ['-']},                    # not a directory
                {'a': 'AddSymlink', 'iso': ['l'], 'jol': ['-'], 'udf': ['l'], 't': 't1'}],
    'boot': [NEW,
             {'a': 'AddFp', 'blob': 'o', 'iso': ['a'], 'jol': ['a'], 'udf': ['a']},
             {'a': 'AddEltorito', 'boot': ['a'], 'cat': ['l'], 'media': 'noemul'},
             {'a': 'DuplicatePvd'},
             {'a': 'Reopen', 'same': False},
             {'a': 'RmFile', 'ns': 'udf', 'p': ['a']}],
}


def _last_with(ev, pred):
    for k in range(len(ev) - 1, -1, -1):
        if isinstance(ev[k].get('o'), dict) and pred(ev[k]):
            return k
    return None


def corruptions(name, t):
    """yield (label, expected clause prefixes, corrupted trace)"""
    ev = t['ev']

    def mk(label, want, fn):
        c = copy.deepcopy(t)
        c['id'] = '%s/%s' % (name, label)
        if fn(c['ev']) is False:
            return None
        return (c['id'], want, c)
    out = []
    k = _last_with(ev, lambda e: e['a']['a'] not in ('Master',) and e['o'].get('iso'))
    if k is not None:
        out.append(mk('drop_iso_entry', ('Tree_iso', 'UniqueNames', 'LinkClasses', 'Content_'), lambda e: e[k]['o']['iso'].pop()))
        out.append(mk('content_id', ('Content_',), lambda e: [x.__setitem__('b', 'z' if x['b'] != 'z' else 'o')
                                                             for x in e[k]['o']['iso'] if x['k'] == 'file'][:1] != []))
        out.append(mk('hidden_flag', ('Tree_iso',), lambda e: e[k]['o']['iso'][0].__setitem__('h', not e[k]['o']['iso'][0]['h'])))
        if len([x for x in ev[k]['o']['iso'] if x['k'] == 'file']) >= 2:
            out.append(mk('link_class', ('LinkClasses',),
                          lambda e: [x for x in e[k]['o']['iso'] if x['k'] == 'file'][0].__setitem__('c', 99)))
        out.append(mk('npvd', ('NumPvd',), lambda e: e[k]['o'].__setitem__('npvd', e[k]['o']['npvd'] + 1)))
    r = next((i for i, e in enumerate(ev) if e['res'] not in ('ok',) and e['a']['a'] != 'Master'), None)
    if r is not None:
        out.append(mk('refused_logged_ok', ('Accepted_',), lambda e: e[r].__setitem__('res', 'ok')))
    a = next((i for i, e in enumerate(ev) if i > 0 and e['res'] == 'ok' and e['a']['a'] in ('AddFp', 'AddDir')), None)
    if a is not None:
        out.append(mk('accepted_logged_refused', ('Tree_', 'Content_', 'LinkClasses'), lambda e: e[a].__setitem__('res', 'InvalidInput')))
        out.append(mk('event_missing', ('Tree_', 'Content_', 'Accepted_', 'LinkClasses'), lambda e: e.pop(a)))
        out.append(mk('undocumented_exception', ('UndocumentedException',), lambda e: e[a].__setitem__('res', 'Other:KeyError')))
    m = next((i for i, e in enumerate(ev) if e['a']['a'] == 'Master'), None)
    if m is not None and isinstance(ev[m].get('o'), dict):
        out.append(mk('open_fails', ('OpenFails',), lambda e: e[m].__setitem__('ores', 'InvalidISO')))
        out.append(mk('write_fails', ('WriteFails',), lambda e: e[m].__setitem__('wres', 'InternalError')))
        if ev[m]['o'].get('dec', {}).get('iso'):
            out.append(mk('decoder_tree', ('Dec_Tree_iso', 'Dec_Content_iso', 'SharedIffLinked'),
                          lambda e: e[m]['o']['dec']['iso'].pop()))
        if ev[m]['o'].get('jol'):
            out.append(mk('reopened_jol_entry', ('Tree_jol', 'UniqueNames', 'Content_jol', 'LinkClasses'),
                          lambda e: e[m]['o']['jol'].pop()))
        if ev[m]['o'].get('rd', {}).get('wiso'):
            out.append(mk('walk_forgets_a_name', ('Tree_walk_iso',),
                          lambda e: [x for x in e[m]['o']['rd']['wiso'] if x['fs']][0].__setitem__('fs', [])))
            out.append(mk('walk_lists_twice', ('Tree_walk_iso',),
                          lambda e: e[m]['o']['rd']['wiso'].append(copy.deepcopy(e[m]['o']['rd']['wiso'][0]))))
        if ev[m]['o'].get('rd', {}).get('fudf'):
            out.append(mk('full_path_names_another_entry', ('Tree_fullpath_udf',),
                          lambda e: e[m]['o']['rd']['fudf'][0].__setitem__('q', ['l', 'l'])))
        if ev[m]['o'].get('rd', {}).get('fjol'):
            out.append(mk('full_path_missing', ('Tree_fullpath_jol',), lambda e: e[m]['o']['rd']['fjol'].pop()))
        out.append(mk('refused_call_changed_image', ('RefusedDiff',),
                      lambda e: (e[m].__setitem__('base', 'differs'), e[m].__setitem__('basekind', 'refused'))))
    e_ = next((i for i, e in enumerate(ev) if isinstance(e.get('o'), dict) and e['o'].get('elt', {}).get('on')), None)
    if e_ is not None:
        out.append(mk('eltorito_refs', ('EltRefs',), lambda e: e[e_]['o']['elt'].__setitem__('entries', [])))
    return [x for x in out if x is not None]


def run(verbose=False):
    """-> dict(clean=.., clean_rejected=[..], corrupted=.., not_rejected=[..], wrong_clause=[..])"""
    items = [(n, h) for n, h in sorted(HISTORIES.items())]
    traces = replay.replay_all(TAB, items, {'diff': 'refused', 'image_every': 0}, procs=1)
    tab = replay.get_table(TAB)
    v = replay.validate_sharded(tab, copy.deepcopy(traces))
    clean_bad = sorted(set(d['tid'] for d in v['diag']))
    corrupted = []
    for t in traces:
        corrupted += corruptions(t['id'], t)
    v2 = replay.validate_sharded(tab, [c for (_, _, c) in corrupted])
    by = {}
    for d in v2['diag']:
        by.setdefault(d['tid'], set()).update(d['clauses'])
    not_rejected = [cid for (cid, _, _) in corrupted if cid not in by]
    wrong = [(cid, sorted(by[cid])) for (cid, want, _) in corrupted
             if cid in by and not any(c.startswith(w) for c in by[cid] for w in want)]
    if verbose:
        for (cid, want, _) in corrupted:
            print('%-40s %s' % (cid, sorted(by.get(cid, ['(accepted!)']))))
    return {'clean': len(traces), 'clean_rejected': clean_bad, 'corrupted': len(corrupted),
            'not_rejected': not_rejected, 'wrong_clause': wrong}


if __name__ == '__main__':
    res = run(verbose=True)
    print(json.dumps(res, indent=1))
    sys.exit(0 if not (res['clean_rejected'] or res['not_rejected'] or res['wrong_clause']) else 2)
